(* The alignment invariant of C03 on the store model (Model/ChainStore.v): it holds at
   every moment of every history of completed and interrupted calls, and mode() reports a
   stored row with the maximal stored log-probability. *)
From Coq Require Import QArith Qabs List Bool Arith Lia.
From IT Require Import Common.ExpBounds Model.Reflect Model.Samplers Proofs.SamplersProofs Model.ChainStore.
Import ListNotations.
Local Open Scope nat_scope.

Local Arguments tlogp : simpl never.
Local Arguments propose : simpl never.
Local Arguments decide_accept : simpl never.
Local Arguments Qlt_bool : simpl never.
Local Arguments Qle_bool : simpl never.
Local Arguments mh_test : simpl never.

(* ------------------------------------------------------------------ programs *)
Definition no_eval (c : list sop) : Prop := Forall (fun o => is_eval o = false) c.

Lemma exec_all_app a b st : exec_all (a ++ b) st = exec_all b (exec_all a st).
Proof. apply fold_left_app. Qed.

Lemma run_no_eval c : forall k st, no_eval c -> run k c st = exec_all c st.
Proof.
  induction c as [|o t IH]; intros k st H; [reflexivity|].
  inversion H as [|? ? Ho Ht]; subst.
  destruct o; simpl in Ho; try discriminate; unfold exec_all; simpl; apply IH; exact Ht.
Qed.

Lemma seen_no_eval c : forall k st, no_eval c -> seen k c st = [].
Proof.
  induction c as [|o t IH]; intros k st H; [reflexivity|].
  inversion H as [|? ? Ho Ht]; subst.
  destruct o; simpl in Ho; try discriminate; simpl; apply IH; exact Ht.
Qed.

(* the k-th evaluation raises, k within the evaluations: nothing is executed after it *)
Lemma run_evals_crash ne : forall k c st, 1 <= k <= ne -> run k (repeat Eval ne ++ c) st = st.
Proof.
  induction ne as [|ne IH]; intros k c st Hk; [lia|].
  simpl. destruct k as [|[|k']]; [lia|reflexivity|]. apply IH. lia.
Qed.

Lemma run_evals_pass ne : forall k c st, k = 0 \/ ne < k ->
  run k (repeat Eval ne ++ c) st = run (k - ne) c st.
Proof.
  induction ne as [|ne IH]; intros k c st Hk.
  - simpl. rewrite Nat.sub_0_r. reflexivity.
  - simpl repeat. simpl app. destruct k as [|[|k']].
    + simpl. rewrite IH by (left; reflexivity). reflexivity.
    + lia.
    + simpl run. rewrite IH by (right; lia). reflexivity.
Qed.

Lemma seen_evals ne : forall k c st, no_eval c ->
  seen k (repeat Eval ne ++ c) st = repeat st (if k =? 0 then ne else Nat.min k ne).
Proof.
  induction ne as [|ne IH]; intros k c st Hc.
  - simpl. rewrite seen_no_eval by exact Hc. destruct k; reflexivity.
  - simpl repeat at 1. simpl app. destruct k as [|[|k']].
    + simpl. rewrite IH by exact Hc. reflexivity.
    + reflexivity.
    + simpl seen. rewrite IH by exact Hc. reflexivity.
Qed.

Lemma push_cols_no_eval r : forall i, no_eval (push_cols i r).
Proof.
  induction r as [|v t IH]; intros i; simpl; constructor; [reflexivity|apply IH].
Qed.

Lemma commit_no_eval lay rows ps : no_eval (commit lay rows ps).
Proof.
  unfold no_eval. destruct lay; simpl.
  - generalize (combine rows ps). intros l. induction l as [|rp t IH]; simpl; [constructor|].
    apply Forall_app. split; [|exact IH]. unfold commit_one.
    apply Forall_app. split; [apply push_cols_no_eval|]. constructor; [reflexivity|constructor].
  - apply Forall_app. split; apply Forall_forall; intros o Ho; apply in_map_iff in Ho;
      destruct Ho as [x [Hx _]]; subst; reflexivity.
Qed.

(* every crash point inside a call leaves the store exactly as it was *)
Lemma interrupted_call_no_effect lay s k st :
  1 <= k <= s_evals s -> run_call lay st (s, k) = st.
Proof. intros H. unfold run_call, step_prog. simpl. apply run_evals_crash. exact H. Qed.

Lemma completed_call_commits lay s k st :
  k = 0 \/ s_evals s < k ->
  run_call lay st (s, k) = exec_all (commit lay (s_rows s) (s_probs s)) st.
Proof.
  intros H. unfold run_call, step_prog. simpl. rewrite run_evals_pass by exact H.
  apply run_no_eval. apply commit_no_eval.
Qed.

(* every evaluation of a call, completed or interrupted, finds the store as it was before the call *)
Lemma call_seen lay s k st :
  seen k (step_prog lay s) st = repeat st (if k =? 0 then s_evals s else Nat.min k (s_evals s)).
Proof. unfold step_prog. apply seen_evals. apply commit_no_eval. Qed.

(* ------------------------------------------------------------------ the writes *)
Lemma exec_push_rows rows : forall d p, exec_all (map PushRow rows) (d, p) = (d ++ rows, p).
Proof.
  induction rows as [|r t IH]; intros d p; simpl.
  - rewrite app_nil_r. reflexivity.
  - unfold exec_all in *. simpl. rewrite IH. rewrite <- app_assoc. reflexivity.
Qed.

Lemma exec_push_probs ps : forall d p, exec_all (map PushProb ps) (d, p) = (d, p ++ ps).
Proof.
  induction ps as [|q t IH]; intros d p; simpl.
  - rewrite app_nil_r. reflexivity.
  - unfold exec_all in *. simpl. rewrite IH. rewrite <- app_assoc. reflexivity.
Qed.

(* column-major: one value appended to every parameter list *)
Definition snoc_cols (data : list (list Q)) (r : list Q) : list (list Q) :=
  map (fun cv => fst cv ++ [snd cv]) (combine data r).

Lemma push_col_app pre c t v :
  push_col (length pre) v (pre ++ c :: t) = pre ++ (c ++ [v]) :: t.
Proof. induction pre as [|x pre IH]; simpl; [reflexivity|]. rewrite IH. reflexivity. Qed.

Lemma exec_push_cols r : forall pre data probs, length data = length r ->
  exec_all (push_cols (length pre) r) (pre ++ data, probs) = (pre ++ snoc_cols data r, probs).
Proof.
  induction r as [|v t IH]; intros pre data probs Hlen.
  - destruct data; [|discriminate]. reflexivity.
  - destruct data as [|c data']; [discriminate|]. simpl in Hlen.
    unfold exec_all. simpl. rewrite push_col_app.
    replace (pre ++ (c ++ [v]) :: data') with ((pre ++ [c ++ [v]]) ++ data')
      by (rewrite <- app_assoc; reflexivity).
    replace (S (length pre)) with (length (pre ++ [c ++ [v]]))
      by (rewrite app_length; simpl; lia).
    fold (exec_all (push_cols (length (pre ++ [c ++ [v]])) t) ((pre ++ [c ++ [v]]) ++ data', probs)).
    rewrite IH by lia. unfold snoc_cols. simpl. rewrite <- app_assoc. reflexivity.
Qed.

Lemma exec_commit_one data probs r p : length data = length r ->
  exec_all (commit_one (r, p)) (data, probs) = (snoc_cols data r, probs ++ [p]).
Proof.
  intros Hlen. unfold commit_one. rewrite exec_all_app. simpl fst. simpl snd.
  pose proof (exec_push_cols r [] data probs Hlen) as H. simpl in H. rewrite H. reflexivity.
Qed.

Lemma snoc_cols_length data r : length data = length r -> length (snoc_cols data r) = length data.
Proof. intros H. unfold snoc_cols. rewrite map_length, combine_length. lia. Qed.

Lemma snoc_cols_lengths n : forall data r, length data = length r ->
  Forall (fun c => length c = n) data -> Forall (fun c => length c = S n) (snoc_cols data r).
Proof.
  induction data as [|c t IH]; intros r Hlen Hall; destruct r as [|v r']; try discriminate.
  - constructor.
  - inversion Hall; subst. unfold snoc_cols. simpl. constructor.
    + rewrite app_length. simpl. lia.
    + apply IH; [simpl in Hlen; lia|assumption].
Qed.

Lemma snoc_cols_row_old n k : forall data r, length data = length r -> k < n ->
  Forall (fun c => length c = n) data ->
  map (fun c => nth k c 0%Q) (snoc_cols data r) = map (fun c => nth k c 0%Q) data.
Proof.
  induction data as [|c t IH]; intros r Hlen Hk Hall; destruct r as [|v r']; try discriminate.
  - reflexivity.
  - inversion Hall; subst. unfold snoc_cols. simpl. f_equal.
    + apply app_nth1. lia.
    + apply IH; [simpl in Hlen; lia|exact Hk|assumption].
Qed.

Lemma snoc_cols_row_new n : forall data r, length data = length r ->
  Forall (fun c => length c = n) data ->
  map (fun c => nth n c 0%Q) (snoc_cols data r) = r.
Proof.
  induction data as [|c t IH]; intros r Hlen Hall; destruct r as [|v r']; try discriminate.
  - reflexivity.
  - inversion Hall as [|? ? Hc Ht]; subst. unfold snoc_cols. simpl. f_equal.
    + rewrite app_nth2 by lia. rewrite Nat.sub_diag. reflexivity.
    + apply IH; [simpl in Hlen; lia|assumption].
Qed.

Lemma col_rows_snoc n data r : length data = length r ->
  Forall (fun c => length c = n) data ->
  col_rows (snoc_cols data r) (S n) = col_rows data n ++ [r].
Proof.
  intros Hlen Hall. unfold col_rows. rewrite seq_S, map_app. simpl. f_equal.
  - apply map_ext_in. intros k Hk. apply in_seq in Hk.
    apply (snoc_cols_row_old n k); [exact Hlen|lia|exact Hall].
  - f_equal. apply (snoc_cols_row_new n); assumption.
Qed.

Lemma col_rows_length data n : length (col_rows data n) = n.
Proof. unfold col_rows. rewrite map_length, seq_length. reflexivity. Qed.

Lemma col_rows_row_length data n r : In r (col_rows data n) -> length r = length data.
Proof.
  unfold col_rows. intros H. apply in_map_iff in H. destruct H as [k [Hk _]]. subst r.
  apply map_length.
Qed.

(* ------------------------------------------------------------------ alignment of a store *)
Section Align.
  Variable logp : list Q -> Q.
  Variable beta : Q.
  Notation tlogp := (tlogp logp beta).

  Definition well_shaped (lay : layout) (st : store) : Prop :=
    match lay with
    | ColMajor => Forall (fun c => length c = length (snd st)) (fst st)
    | RowMajor => length (fst st) = length (snd st)
    end.

  (* every parameter has one stored value per stored log-probability, and the k-th stored
     log-probability is the tempered log-density of the k-th stored row *)
  Definition store_aligned (lay : layout) (st : store) : Prop :=
    well_shaped lay st /\ aligned logp beta (rows_of lay st) (snd st).

  (* what a call stores: rows together with their own tempered log-densities *)
  Definition step_sound (lay : layout) (npar : nat) (s : step) : Prop :=
    s_probs s = map tlogp (s_rows s) /\
    (lay = ColMajor -> Forall (fun r => length r = npar) (s_rows s)).

  Lemma rows_length lay st : well_shaped lay st -> length (rows_of lay st) = length (snd st).
  Proof. destruct lay; simpl; intros H; [apply col_rows_length|exact H]. Qed.

  Lemma commit_aligned lay npar : forall rows st,
    store_aligned lay st -> (lay = ColMajor -> length (fst st) = npar) ->
    (lay = ColMajor -> Forall (fun r => length r = npar) rows) ->
    let st' := exec_all (commit lay rows (map tlogp rows)) st in
    store_aligned lay st' /\ (lay = ColMajor -> length (fst st') = npar).
  Proof.
    destruct lay.
    - induction rows as [|r rows IH]; intros [data probs] Hal Hnp Hrows; cbv zeta.
      + simpl. split; [exact Hal|exact Hnp].
      + specialize (Hnp eq_refl). specialize (Hrows eq_refl).
        pose proof (Forall_inv Hrows) as Hr. pose proof (Forall_inv_tail Hrows) as Hrest.
        simpl in Hnp, Hr.
        assert (Hdl : length data = length r) by lia.
        simpl map. simpl commit. rewrite exec_all_app. rewrite exec_commit_one by exact Hdl.
        destruct Hal as [Hws Hal]. simpl in Hws, Hal.
        apply IH.
        * split; simpl.
          -- rewrite app_length. simpl. rewrite Nat.add_1_r. apply snoc_cols_lengths; assumption.
          -- rewrite app_length. simpl. rewrite Nat.add_1_r.
             rewrite (col_rows_snoc (length probs)) by assumption.
             unfold aligned in *. rewrite map_app. simpl. rewrite <- Hal. reflexivity.
        * intros _. simpl. rewrite snoc_cols_length by exact Hdl. exact Hnp.
        * intros _. exact Hrest.
    - intros rows [data probs] [Hws Hal] _ _. cbv zeta. simpl commit.
      rewrite exec_all_app, exec_push_rows, exec_push_probs. simpl in *.
      split; [|discriminate]. split; simpl.
      + rewrite !app_length, map_length. lia.
      + unfold aligned in *. rewrite map_app. rewrite <- Hal. reflexivity.
  Qed.

  (* ONE CALL, any crash point: the store afterwards is aligned, and so is the store that
     every evaluation of the call finds *)
  Theorem call_aligned lay npar st s k :
    store_aligned lay st -> (lay = ColMajor -> length (fst st) = npar) -> step_sound lay npar s ->
    store_aligned lay (run_call lay st (s, k)) /\
    (lay = ColMajor -> length (fst (run_call lay st (s, k))) = npar) /\
    Forall (store_aligned lay) (seen k (step_prog lay s) st).
  Proof.
    intros Hal Hnp [Hps Hrows].
    assert (Hseen : Forall (store_aligned lay) (seen k (step_prog lay s) st)).
    { rewrite call_seen. apply Forall_forall. intros m Hm. apply repeat_spec in Hm. subst m. exact Hal. }
    destruct (Nat.eq_dec k 0) as [Hk|Hk]; [|destruct (le_lt_dec k (s_evals s)) as [Hle|Hlt]].
    - rewrite completed_call_commits by (left; exact Hk). rewrite Hps.
      destruct (commit_aligned lay npar (s_rows s) st Hal Hnp Hrows) as [H1 H2].
      split; [exact H1|]. split; [exact H2|exact Hseen].
    - rewrite interrupted_call_no_effect by lia. split; [exact Hal|]. split; [exact Hnp|exact Hseen].
    - rewrite completed_call_commits by (right; exact Hlt). rewrite Hps.
      destruct (commit_aligned lay npar (s_rows s) st Hal Hnp Hrows) as [H1 H2].
      split; [exact H1|]. split; [exact H2|exact Hseen].
  Qed.

  (* EVERY HISTORY of completed and interrupted calls, at EVERY MOMENT *)
  Theorem history_moments_aligned lay npar : forall calls st,
    store_aligned lay st -> (lay = ColMajor -> length (fst st) = npar) ->
    Forall (fun c => step_sound lay npar (fst c)) calls ->
    Forall (store_aligned lay) (moments lay calls st) /\
    store_aligned lay (run_calls lay calls st).
  Proof.
    induction calls as [|[s k] t IH]; intros st Hal Hnp Hok.
    - simpl. split; [constructor; [exact Hal|constructor]|exact Hal].
    - inversion Hok as [|? ? Hs Hrest]; subst. simpl in Hs.
      destruct (call_aligned lay npar st s k Hal Hnp Hs) as [H1 [H2 H3]].
      destruct (IH (run_call lay st (s, k)) H1 H2 Hrest) as [G1 G2].
      split.
      + simpl moments. constructor; [exact Hal|]. apply Forall_app. split; [exact H3|exact G1].
      + unfold run_calls. simpl fold_left. exact G2.
  Qed.

  (* ---------- the current point of an aligned chain ---------- *)
  Lemma last_map_tlogp : forall (rows : list (list Q)), rows <> [] ->
    last (map tlogp rows) 0%Q = tlogp (last rows []).
  Proof.
    induction rows as [|r t IH]; intros Hne; [congruence|].
    destruct t as [|r2 t2]; [reflexivity|].
    change (last (map tlogp (r2 :: t2)) 0%Q = tlogp (last (r2 :: t2) [])).
    apply IH. discriminate.
  Qed.

  Lemma last_in {A} : forall (l : list A) d, l <> [] -> In (last l d) l.
  Proof.
    induction l as [|x t IH]; intros d Hne; [congruence|].
    destruct t as [|y u]; [left; reflexivity|]. right. apply IH. discriminate.
  Qed.

  Lemma current_point_aligned lay st : store_aligned lay st -> snd st <> [] ->
    last (snd st) 0%Q = tlogp (last (rows_of lay st) []).
  Proof.
    intros [Hws Hal] Hne. unfold aligned in Hal. rewrite Hal at 1. apply last_map_tlogp.
    intros E. apply (f_equal (@length _)) in E. rewrite rows_length in E by exact Hws.
    destruct (snd st); [congruence|discriminate].
  Qed.

  (* ---------- the steps computed by the sampler models are sound ---------- *)
  Lemma set_nth_length : forall i v (x : list Q), length (set_nth i v x) = length x.
  Proof. induction i as [|i IH]; intros v [|h t]; simpl; try reflexivity. rewrite IH. reflexivity. Qed.

  Lemma gibbs_coord_length : forall tape x i last par p_old ev x' p_new par' tape' ev',
    gibbs_coord logp beta tape x i last par p_old ev = Ok (x', p_new, par', tape', ev') ->
    length x' = length x.
  Proof.
    intros tape. induction tape as [tape IH] using list_len_ind.
    intros x i last par p_old ev x' p_new par' tape' ev' H.
    destruct tape as [|xi tape1]; [discriminate H|].
    cbn [gibbs_coord] in H. destruct (propose par last xi) as [par1 cand] eqn:Ep.
    destruct (Qlt_bool p_old (tlogp (set_nth i cand x))) eqn:Elt.
    - inversion H; subst. apply set_nth_length.
    - destruct tape1 as [|u tape2]; [discriminate H|].
      destruct (decide_accept u (tlogp (set_nth i cand x) - p_old)) as [[|]|] eqn:Ed.
      + inversion H; subst. apply set_nth_length.
      + eapply IH; [|exact H]. simpl. lia.
      + discriminate H.
  Qed.

  Lemma gibbs_coords_length : forall pars lasts tape x i p_old ev done x' p' pars' tape' ev',
    gibbs_coords logp beta pars lasts tape x i p_old ev done = Ok (x', p', pars', tape', ev') ->
    length x' = length x.
  Proof.
    induction pars as [|par pars IH]; intros lasts tape x i p_old ev done x' p' pars' tape' ev' H.
    - cbn [gibbs_coords] in H. inversion H; subst. reflexivity.
    - destruct lasts as [|last lasts]; [simpl in H; inversion H; subst; reflexivity|].
      cbn [gibbs_coords] in H.
      destruct (gibbs_coord logp beta tape x i last par p_old ev) as [[[[[x1 p1] par1] tape1] ev1]| | |] eqn:Ec;
        try discriminate H.
      rewrite (IH _ _ _ _ _ _ _ _ _ _ _ _ H). eapply gibbs_coord_length. exact Ec.
  Qed.

  Lemma propose_all_length : forall pars lasts tape ps cs t,
    propose_all pars lasts tape = Ok (ps, cs, t) -> length cs = Nat.min (length pars) (length lasts).
  Proof.
    induction pars as [|par pars IH]; intros lasts tape ps cs t H.
    - simpl in H. inversion H; subst. reflexivity.
    - destruct lasts as [|last lasts]; [simpl in H; inversion H; subst; reflexivity|].
      cbn [propose_all] in H. destruct tape as [|xi tape']; [discriminate H|].
      destruct (propose par last xi) as [par1 cand].
      destruct (propose_all pars lasts tape') as [[[ps1 cs1] t1]| | |] eqn:E; try discriminate H.
      inversion H; subst. simpl. rewrite (IH _ _ _ _ _ E). reflexivity.
  Qed.

  Lemma metro_loop_length : forall fuel pars lasts tape p_old ev x' p' pars' tape' ev',
    metro_loop logp beta fuel pars lasts tape p_old ev = Ok (x', p', pars', tape', ev') ->
    length pars = length lasts -> length x' = length lasts.
  Proof.
    induction fuel as [|fuel IH]; intros pars lasts tape p_old ev x' p' pars' tape' ev' H Hlen;
      [discriminate H|].
    cbn [metro_loop] in H.
    destruct (propose_all pars lasts tape) as [[[pars1 cand] tape1]| | |] eqn:Ep; try discriminate H.
    assert (Hp1 : length pars1 = length lasts).
    { clear -Ep Hlen. revert lasts tape pars1 cand tape1 Ep Hlen.
      induction pars as [|par pars IHp]; intros lasts tape pars1 cand tape1 Ep Hlen.
      - simpl in Ep. inversion Ep; subst. exact Hlen.
      - destruct lasts as [|last lasts]; [discriminate Hlen|].
        cbn [propose_all] in Ep. destruct tape as [|xi tape']; [discriminate Ep|].
        destruct (propose par last xi) as [par1 c1].
        destruct (propose_all pars lasts tape') as [[[ps1 cs1] t1]| | |] eqn:E; try discriminate Ep.
        inversion Ep; subst. simpl. f_equal. eapply IHp; [exact E|]. simpl in Hlen. lia. }
    destruct (mh_test (tlogp cand) p_old tape1) as [[[|] tape2]| | |]; try discriminate H.
    - inversion H; subst. rewrite (propose_all_length _ _ _ _ _ _ Ep). lia.
    - eapply IH; [exact H|exact Hp1].
  Qed.

  Lemma aligned_head x samples p probs : aligned logp beta (x :: samples) (p :: probs) -> p = tlogp x.
  Proof. unfold aligned. simpl. intros H. inversion H. reflexivity. Qed.

  Lemma gibbs_call_sound metro pars x p tape s :
    p = tlogp x -> (metro = true -> length pars = length x) ->
    step_of_g ((if metro then metro_step else gibbs_step) logp beta (mkGS pars [x] [p]) tape) = Ok s ->
    step_sound ColMajor (length x) s.
  Proof.
    intros Hp Hpars H. unfold step_of_g, map_res in H.
    assert (Hpre : aligned logp beta (gs_samples (mkGS pars [x] [p])) (gs_probs (mkGS pars [x] [p]))).
    { unfold aligned. simpl. rewrite Hp. reflexivity. }
    destruct metro.
    - destruct (metro_step logp beta (mkGS pars [x] [p]) tape) as [[[s' t'] ev]| | |] eqn:E;
        try discriminate H.
      destruct (metro_step_aligned logp beta _ _ _ _ _ Hpre E) as [Hal' _].
      unfold metro_step in E. cbn [gs_samples gs_probs gs_params] in E.
      destruct (metro_loop logp beta (S (length tape)) pars x tape p [])
        as [[[[[x1 p1] pars1] tape1] ev1]| | |] eqn:Ec; try discriminate E.
      inversion E; subst; clear E. simpl in H, Hal'. inversion H; subst; clear H.
      split; simpl.
      + rewrite (aligned_head _ _ _ _ Hal'). reflexivity.
      + intros _. constructor; [|constructor].
        eapply metro_loop_length; [exact Ec|]. apply Hpars. reflexivity.
    - destruct (gibbs_step logp beta (mkGS pars [x] [p]) tape) as [[[s' t'] ev]| | |] eqn:E;
        try discriminate H.
      destruct (gibbs_step_aligned logp beta _ _ _ _ _ Hpre E) as [Hal' _].
      unfold gibbs_step in E. cbn [gs_samples gs_probs gs_params] in E. destruct pars as [|par0 pars0]; [discriminate E|].
      destruct (gibbs_coords logp beta (par0 :: pars0) x tape x 0 p [] [])
        as [[[[[x1 p1] pars1] tape1] ev1]| | |] eqn:Ec; try discriminate E.
      inversion E; subst; clear E. simpl in H, Hal'. inversion H; subst; clear H.
      split; simpl.
      + rewrite (aligned_head _ _ _ _ Hal'). reflexivity.
      + intros _. constructor; [|constructor]. eapply gibbs_coords_length. exact Ec.
  Qed.

  Lemma pca_call_sound dirs sigmas bounds x p tape s :
    p = tlogp x ->
    step_of_p (pca_step logp beta (mkPS dirs sigmas bounds [x] [p]) tape) = Ok s ->
    s_probs s = map tlogp (s_rows s) /\ length (s_rows s) = 1.
  Proof.
    intros Hp H. unfold step_of_p, map_res in H.
    assert (Hpre : aligned logp beta (ps_samples (mkPS dirs sigmas bounds [x] [p]))
                           (ps_probs (mkPS dirs sigmas bounds [x] [p]))).
    { unfold aligned. simpl. rewrite Hp. reflexivity. }
    destruct (pca_step logp beta (mkPS dirs sigmas bounds [x] [p]) tape) as [[[s' t'] ev]| | |] eqn:E;
      try discriminate H.
    destruct (pca_step_aligned logp beta _ _ _ _ _ Hpre E) as [Hal' [Ht1 Ht2]].
    destruct (ps_samples s') as [|x1 xs]; [discriminate H|].
    destruct (ps_probs s') as [|p1 pps]; [discriminate H|].
    inversion H; subst; clear H. simpl. split; [|reflexivity].
    rewrite (aligned_head _ _ _ _ Hal'). reflexivity.
  Qed.

  (* Gibbs / Metropolis: the call whose step the model computes from the current point of an
     aligned store -- exactly what Model.ChainStore.check_gibbs_call evaluates *)
  Theorem gibbs_call_moments metro pars st tape s k :
    store_aligned ColMajor st -> snd st <> [] ->
    (metro = true -> length pars = length (fst st)) ->
    step_of_g ((if metro then metro_step else gibbs_step) logp beta
                 (mkGS pars [last (rows_of ColMajor st) []] [last (snd st) 0%Q]) tape) = Ok s ->
    Forall (store_aligned ColMajor) (moments ColMajor [(s, k)] st).
  Proof.
    intros Hal Hne Hpars H.
    assert (Hx : length (last (rows_of ColMajor st) []) = length (fst st)).
    { apply (col_rows_row_length (fst st) (length (snd st))). apply last_in.
      intros E. apply (f_equal (@length _)) in E. simpl in E. rewrite col_rows_length in E.
      destruct (snd st); [congruence|discriminate]. }
    assert (Hs : step_sound ColMajor (length (fst st)) s).
    { rewrite <- Hx. eapply gibbs_call_sound; [|rewrite Hx; exact Hpars|exact H].
      apply current_point_aligned; assumption. }
    apply (history_moments_aligned ColMajor (length (fst st)) [(s, k)] st Hal (fun _ => eq_refl)).
    constructor; [exact Hs|constructor].
  Qed.

  (* Hamiltonian: any number of evaluations (gradient calls are user code too) *)
  Theorem hmc_call_moments grad ma hs tape hs' t' ev st ne k x' p' :
    store_aligned RowMajor st ->
    aligned logp beta (hs_theta hs) (hs_probs hs) ->
    hmc_step logp beta grad ma hs tape = Ok (hs', t', ev) ->
    hd_error (hs_theta hs') = Some x' -> hd_error (hs_probs hs') = Some p' ->
    Forall (store_aligned RowMajor) (moments RowMajor [(mkStep ne [x'] [p'], k)] st).
  Proof.
    intros Hal Hpre H Hx Hp.
    destruct (hmc_step_aligned logp beta grad ma _ _ _ _ _ Hpre H) as [Hal' _].
    destruct (hs_theta hs') as [|x1 xs]; [discriminate Hx|].
    destruct (hs_probs hs') as [|p1 pps]; [discriminate Hp|].
    simpl in Hx, Hp. inversion Hx; inversion Hp; subst.
    apply (history_moments_aligned RowMajor 0 [(mkStep ne [x'] [p'], k)] st Hal).
    - discriminate.
    - constructor; [|constructor]. split; simpl; [|discriminate].
      rewrite (aligned_head _ _ _ _ Hal'). reflexivity.
  Qed.
End Align.

(* ------------------------------------------------------------------ mode *)
Lemma argmax_first_argmaxQ l : argmax_first l = argmaxQ l.
Proof.
  induction l as [|x t IH]; [reflexivity|].
  destruct t as [|y u]; [reflexivity|].
  change (argmax_first (x :: y :: u)) with
    (let j := argmax_first (y :: u) in if Qle_bool (nth j (y :: u) 0%Q) x then 0 else S j).
  change (argmaxQ (x :: y :: u)) with
    (let j := argmaxQ (y :: u) in if Qle_bool (nth j (y :: u) 0%Q) x then 0 else S j).
  cbv zeta. rewrite IH. reflexivity.
Qed.

Lemma argmax_first_spec l : l <> [] ->
  argmax_first l < length l /\
  forall j, j < length l -> (nth j l 0 <= nth (argmax_first l) l 0)%Q.
Proof. rewrite argmax_first_argmaxQ. apply argmaxQ_spec. Qed.

Lemma veqb_refl x : veqb x x = true.
Proof.
  induction x as [|a t IH]; [reflexivity|]. simpl. rewrite IH.
  rewrite andb_true_r. apply Qeq_bool_iff. apply Qeq_refl.
Qed.

Lemma is_max_nth probs k :
  (forall j, j < length probs -> (nth j probs 0 <= nth k probs 0)%Q) -> is_max probs (nth k probs 0%Q) = true.
Proof.
  intros H. unfold is_max. apply forallb_forall. intros q Hq.
  destruct (In_nth _ _ 0%Q Hq) as [j [Hj Hn]]. subst q. apply Qle_bool_iff. apply H. exact Hj.
Qed.

(* the row at the arg-max of ALL stored log-probabilities passes the mode test *)
Lemma mode_model_ok rows probs : length rows = length probs -> probs <> [] ->
  mode_obs_ok rows probs (nth (argmax_first probs) rows []) = true.
Proof.
  intros Hlen Hne. destruct (argmax_first_spec probs Hne) as [Hk Hmax].
  set (k := argmax_first probs) in *.
  unfold mode_obs_ok. apply existsb_exists.
  exists (nth k rows [], nth k probs 0%Q). split.
  - rewrite <- combine_nth by exact Hlen. apply nth_In. rewrite combine_length. lia.
  - simpl. rewrite veqb_refl. simpl. apply is_max_nth. exact Hmax.
Qed.

(* what the mode test decides *)
Lemma mode_obs_ok_sound rows probs m : length rows = length probs ->
  mode_obs_ok rows probs m = true ->
  exists k, k < length rows /\ veqb (nth k rows []) m = true /\
            forall j, j < length probs -> (nth j probs 0 <= nth k probs 0)%Q.
Proof.
  intros Hlen H. unfold mode_obs_ok in H. apply existsb_exists in H.
  destruct H as [[r p] [Hin Hb]]. simpl in Hb. apply andb_true_iff in Hb. destruct Hb as [Hv Hm].
  destruct (In_nth _ _ ([], 0%Q) Hin) as [k [Hk Hn]].
  rewrite combine_length in Hk. rewrite combine_nth in Hn by exact Hlen.
  inversion Hn; subst. exists k. split; [lia|]. split; [exact Hv|].
  intros j Hj. unfold is_max in Hm. rewrite forallb_forall in Hm.
  apply Qle_bool_iff. apply Hm. apply nth_In. exact Hj.
Qed.

Theorem mode_of_aligned_store logp beta lay st :
  store_aligned logp beta lay st -> snd st <> [] ->
  mode_obs_ok (rows_of lay st) (snd st) (mode_of lay st) = true /\
  In (mode_of lay st) (rows_of lay st) /\
  nth (argmax_first (snd st)) (snd st) 0%Q = tlogp logp beta (mode_of lay st).
Proof.
  intros [Hws Hal] Hne.
  assert (Hlen := rows_length lay st Hws).
  destruct (argmax_first_spec (snd st) Hne) as [Hk _].
  split; [apply mode_model_ok; assumption|]. split.
  - unfold mode_of. apply nth_In. lia.
  - unfold mode_of. rewrite (aligned_nth logp beta (rows_of lay st) (snd st)); [reflexivity|exact Hal|lia].
Qed.

(* a chain that consists of its starting point only: the mode is the starting point *)
Lemma mode_of_start lay data p : mode_of lay (data, [p]) = nth 0 (rows_of lay (data, [p])) [].
Proof. reflexivity. Qed.

(* the starting point is the mode whenever no later entry is better *)
Lemma mode_is_start_when_best probs :
  probs <> [] -> (forall j, 0 < j < length probs -> (nth j probs 0 <= nth 0 probs 0)%Q) ->
  (nth (argmax_first probs) probs 0 == nth 0 probs 0)%Q.
Proof.
  intros Hne Hbest. destruct (argmax_first_spec probs Hne) as [Hk Hmax].
  apply Qle_antisym.
  - destruct (argmax_first probs) as [|k'] eqn:E; [apply Qle_refl|]. apply Hbest. lia.
  - apply Hmax. destruct probs; [congruence|simpl; lia].
Qed.

(* ------------------------------------------------------------------ the orderings are necessary *)
Definition w_logp : list Q -> Q := quad [1; 1]%Q [0; 0]%Q [].

(* a Gibbs step that stores each parameter's value inside the update loop (NOT the pinned
   code): uninterrupted it equals the pinned step, but cut short while the second parameter
   is updated it leaves a store that is not aligned -- and neither is the one the second
   parameter's evaluation sees *)
Lemma interleaved_gibbs_refuted :
  exists beta st es r p k,
    store_aligned w_logp beta ColMajor st /\ p = tlogp w_logp beta r /\
    run 0 (gibbs_interleaved_prog es r p) st
      = run_call ColMajor st (mkStep (list_sum es) [r] [p], 0) /\
    ~ store_aligned w_logp beta ColMajor (run k (gibbs_interleaved_prog es r p) st) /\
    ~ Forall (store_aligned w_logp beta ColMajor) (seen 0 (gibbs_interleaved_prog es r p) st).
Proof.
  exists (1 # 2)%Q, ([[1]; [2]]%Q, [tlogp w_logp (1 # 2) [1; 2]%Q]), [1; 1], [0; 1]%Q,
         (tlogp w_logp (1 # 2) [0; 1]%Q), 2.
  split; [|split; [reflexivity|split; [reflexivity|split]]].
  - split; [repeat constructor|reflexivity].
  - intros [Hws _]. vm_compute in Hws.
    inversion Hws as [|? ? Ha _]; subst. discriminate Ha.
  - intros HF. rewrite Forall_forall in HF.
    assert (Hin : In ([[1; 0]; [2]]%Q, [tlogp w_logp (1 # 2) [1; 2]%Q])
                     (seen 0 (gibbs_interleaved_prog [1; 1] [0; 1]%Q (tlogp w_logp (1 # 2) [0; 1]%Q))
                           ([[1]; [2]]%Q, [tlogp w_logp (1 # 2) [1; 2]%Q])))
      by (right; left; reflexivity).
    destruct (HF _ Hin) as [Hws _]. simpl in Hws.
    inversion Hws as [|? ? Ha _]. discriminate Ha.
Qed.

(* a mode() that leaves the starting point out of the search (NOT the pinned code) reports a
   row whose stored log-probability is not the maximum when the start is the best point, and
   no stored row at all on a chain that has not moved yet *)
Lemma mode_skipping_start_refuted :
  exists beta st st0,
    store_aligned w_logp beta ColMajor st /\ store_aligned w_logp beta ColMajor st0 /\
    mode_obs_ok (rows_of ColMajor st) (snd st) (mode_of ColMajor st) = true /\
    mode_obs_ok (rows_of ColMajor st) (snd st) (mode_skipping 1 ColMajor st) = false /\
    mode_obs_ok (rows_of ColMajor st0) (snd st0) (mode_of ColMajor st0) = true /\
    mode_obs_ok (rows_of ColMajor st0) (snd st0) (mode_skipping 1 ColMajor st0) = false.
Proof.
  exists (1 # 2)%Q,
         ([[0; 1]; [0; 1 # 2]]%Q, [tlogp w_logp (1 # 2) [0; 0]%Q; tlogp w_logp (1 # 2) [1; 1 # 2]%Q]),
         ([[0]; [0]]%Q, [tlogp w_logp (1 # 2) [0; 0]%Q]).
  split; [split; [repeat constructor|reflexivity]|].
  split; [split; [repeat constructor|reflexivity]|].
  repeat split; vm_compute; reflexivity.
Qed.
