(* Metropolis-Hastings algebra behind C01 (finite state spaces, real weights):
   detailed balance of the single-attempt kernel, stationarity, the law of the
   retry-until-accept chain, and the stretch-move identities. *)
From Coq Require Import Reals Lra Lia Psatz List Arith.
Import ListNotations.
Open Scope R_scope.

(* ---------- finite sums over 0..n-1 ---------- *)
Fixpoint sum_n (f : nat -> R) (n : nat) : R :=
  match n with O => 0 | S k => sum_n f k + f k end.

Lemma sum_n_ext f g n : (forall i, (i < n)%nat -> f i = g i) -> sum_n f n = sum_n g n.
Proof.
  induction n as [|n IH]; intros H; simpl; [reflexivity|].
  rewrite IH by (intros i Hi; apply H; lia). rewrite H by lia. reflexivity.
Qed.

Lemma sum_n_plus f g n : sum_n (fun i => f i + g i) n = sum_n f n + sum_n g n.
Proof. induction n as [|n IH]; simpl; [lra|rewrite IH; lra]. Qed.

Lemma sum_n_scal c f n : sum_n (fun i => c * f i) n = c * sum_n f n.
Proof. induction n as [|n IH]; simpl; [lra|rewrite IH; lra]. Qed.

Lemma sum_n_zero n : sum_n (fun _ => 0) n = 0.
Proof. induction n as [|n IH]; simpl; [reflexivity|rewrite IH; lra]. Qed.

(* sum of an indicator-weighted function picks one term *)
Lemma sum_n_single g y n : (y < n)%nat ->
  sum_n (fun x => if Nat.eqb x y then g x else 0) n = g y.
Proof.
  induction n as [|n IH]; intros Hy; [lia|]. simpl.
  destruct (Nat.eq_dec y n) as [->|Hne].
  - rewrite Nat.eqb_refl.
    rewrite (sum_n_ext _ (fun _ => 0)).
    + rewrite sum_n_zero. lra.
    + intros i Hi. destruct (Nat.eqb_spec i n); [lia|reflexivity].
  - rewrite IH by lia. destruct (Nat.eqb_spec n y); [lia|lra].
Qed.

(* ---------- the Metropolis acceptance and detailed balance ---------- *)
Definition acc (pi : nat -> R) (x y : nat) : R := Rmin 1 (pi y / pi x).

Lemma mh_detailed_balance (pi : nat -> R) (q : nat -> nat -> R) x y :
  0 < pi x -> 0 < pi y -> q x y = q y x ->
  pi x * (q x y * acc pi x y) = pi y * (q y x * acc pi y x).
Proof.
  intros Hx Hy Hq. unfold acc. rewrite Hq.
  assert (Hxy : pi y / pi x * pi x = pi y) by (field; lra).
  assert (Hyx : pi x / pi y * pi y = pi x) by (field; lra).
  unfold Rmin.
  destruct (Rle_dec 1 (pi y / pi x)) as [H1|H1]; destruct (Rle_dec 1 (pi x / pi y)) as [H2|H2].
  - assert (pi x <= pi y) by (apply (Rmult_le_compat_r (pi x)) in H1; lra).
    assert (pi y <= pi x) by (apply (Rmult_le_compat_r (pi y)) in H2; lra).
    replace (pi y) with (pi x) by lra. ring.
  - field; lra.
  - field; lra.
  - exfalso.
    assert (pi y / pi x < 1) by lra. assert (pi x / pi y < 1) by lra.
    assert (pi y < pi x) by (apply (Rmult_lt_compat_r (pi x)) in H; lra).
    assert (pi x < pi y) by (apply (Rmult_lt_compat_r (pi y)) in H0; lra).
    lra.
Qed.

Section Kernel.
  Variable n : nat.
  Variable pi : nat -> R.
  Variable q : nat -> nat -> R.
  Hypothesis pi_pos : forall x, (x < n)%nat -> 0 < pi x.
  Hypothesis q_sym : forall x y, q x y = q y x.

  (* off-diagonal move probability: propose y, accept *)
  Definition P (x y : nat) : R := q x y * acc pi x y.
  (* probability that an attempt from x is accepted (moves away) *)
  Definition A (x : nat) : R := sum_n (fun z => if Nat.eqb z x then 0 else P x z) n.
  (* single-attempt kernel: a rejected attempt REPEATS the current state *)
  Definition K (x y : nat) : R := if Nat.eqb x y then 1 - A x else P x y.

  Lemma balance x y : (x < n)%nat -> (y < n)%nat -> pi x * P x y = pi y * P y x.
  Proof. intros Hx Hy. unfold P. apply mh_detailed_balance; auto. Qed.

  Lemma flow_in y : (y < n)%nat ->
    sum_n (fun x => if Nat.eqb x y then 0 else pi x * P x y) n = pi y * A y.
  Proof.
    intros Hy. unfold A. rewrite <- sum_n_scal. apply sum_n_ext. intros x Hx.
    destruct (Nat.eqb x y); [ring|]. apply balance; assumption.
  Qed.

  (* pi is stationary for the single-attempt Metropolis kernel *)
  Theorem mh_stationary y : (y < n)%nat -> sum_n (fun x => pi x * K x y) n = pi y.
  Proof.
    intros Hy.
    rewrite (sum_n_ext _ (fun x => (if Nat.eqb x y then pi x * (1 - A x) else 0) +
                                   (if Nat.eqb x y then 0 else pi x * P x y))).
    - rewrite sum_n_plus, (sum_n_single (fun x => pi x * (1 - A x)) y n Hy), flow_in by exact Hy.
      ring.
    - intros x Hx. unfold K. destruct (Nat.eqb x y); ring.
  Qed.

  (* ----- the chain that is actually stored by a retry-until-accept sampler:
     it jumps from x to y <> x with probability P x y / A x ----- *)
  Definition J (x y : nat) : R := if Nat.eqb x y then 0 else P x y / A x.

  Hypothesis A_pos : forall x, (x < n)%nat -> 0 < A x.

  (* its stationary weights are pi x * A x, not pi x *)
  Theorem retry_kernel_stationary y : (y < n)%nat ->
    sum_n (fun x => (pi x * A x) * J x y) n = pi y * A y.
  Proof.
    intros Hy. rewrite <- flow_in by exact Hy. apply sum_n_ext. intros x Hx.
    unfold J. destruct (Nat.eqb x y); [ring|]. field.
    apply Rgt_not_eq. apply A_pos. exact Hx.
  Qed.

  (* weighting each stored state by the expected number of attempts spent
     leaving it (1 / A x) gives back pi *)
  Theorem retry_weighted_ok x : (x < n)%nat -> (pi x * A x) * (1 / A x) = pi x.
  Proof. intros Hx. field. apply Rgt_not_eq. apply A_pos. exact Hx. Qed.
End Kernel.

(* ---------- stretch move ---------- *)
(* with weight factor c = z^(n-1) > 0 the acceptance min(1, c * pi y / pi x) balances
   against the reverse move, whose factor is 1/c *)
Lemma stretch_balance (px py c : R) : 0 < px -> 0 < py -> 0 < c ->
  px * Rmin 1 (c * py / px) = c * py * Rmin 1 (/ c * px / py).
Proof.
  intros Hx Hy Hc.
  assert (Hcy : 0 < c * py) by (apply Rmult_lt_0_compat; assumption).
  unfold Rmin.
  destruct (Rle_dec 1 (c * py / px)) as [H1|H1]; destruct (Rle_dec 1 (/ c * px / py)) as [H2|H2].
  - assert (E1 : c * py / px * px = c * py) by (field; lra).
    assert (E2 : / c * px / py * (c * py) = px) by (field; lra).
    assert (px <= c * py) by (apply (Rmult_le_compat_r px) in H1; lra).
    assert (c * py <= px) by (apply (Rmult_le_compat_r (c * py)) in H2; lra).
    lra.
  - field; lra.
  - field; lra.
  - exfalso.
    assert (E1 : c * py / px * px = c * py) by (field; lra).
    assert (E2 : / c * px / py * (c * py) = px) by (field; lra).
    assert (Ha : c * py / px < 1) by lra. assert (Hb : / c * px / py < 1) by lra.
    apply (Rmult_lt_compat_r px) in Ha; [|lra].
    apply (Rmult_lt_compat_r (c * py)) in Hb; [|lra]. lra.
Qed.

(* the proposal is undone by the reciprocal stretch: from Y = Xj + z (Xi - Xj),
   Xj + (1/z) (Y - Xj) = Xi   (coordinate-wise) *)
Lemma stretch_reverse (xi xj z : R) : z <> 0 ->
  let y := xj + z * (xi - xj) in xj + / z * (y - xj) = xi.
Proof. intros Hz y. unfold y. field. exact Hz. Qed.

(* the density g(z) ~ z^(-1/2) satisfies g(1/z) = z g(z) *)
Lemma g_symmetry (z : R) : 0 < z -> / sqrt (/ z) = z * / sqrt z.
Proof.
  intros Hz.
  assert (Hs : 0 < sqrt z) by (apply sqrt_lt_R0; exact Hz).
  rewrite sqrt_inv. rewrite Rinv_inv.
  rewrite <- (sqrt_sqrt z) at 2 by lra. field. lra.
Qed.

(* z = 1/2 (x_lwr + x_width u)^2 with x_lwr = sqrt(2/a), x_lwr + x_width = sqrt(2a):
   u in [0,1] is mapped onto [1/a, a] and u is recovered as (sqrt(2z) - x_lwr)/x_width,
   i.e. the CDF of z is affine in sqrt z -- density proportional to z^(-1/2) *)
Section ZSampler.
  Variable a : R.
  Hypothesis Ha : 1 < a.
  Let xl := sqrt (2 / a).
  Let xw := sqrt (2 * a) - xl.
  Definition zmap (u : R) : R := / 2 * (xl + xw * u) ^ 2.

  Lemma xl_pos : 0 < xl.
  Proof. apply sqrt_lt_R0. apply Rdiv_lt_0_compat; lra. Qed.

  Lemma xw_pos : 0 < xw.
  Proof.
    unfold xw, xl. apply Rlt_Rminus. apply sqrt_lt_1_alt. split.
    - apply Rlt_le. apply Rdiv_lt_0_compat; lra.
    - assert (H : 2 / a < 2).
      { apply (Rmult_lt_reg_r a); [lra|]. unfold Rdiv. rewrite Rmult_assoc, Rinv_l by lra. lra. }
      lra.
  Qed.

  Lemma zmap_0 : zmap 0 = / a.
  Proof.
    unfold zmap. replace (xl + xw * 0) with xl by ring.
    replace (xl ^ 2) with (sqrt (2 / a) * sqrt (2 / a)) by (unfold xl; ring).
    rewrite sqrt_sqrt; [field; lra|]. apply Rlt_le. apply Rdiv_lt_0_compat; lra.
  Qed.

  Lemma zmap_1 : zmap 1 = a.
  Proof.
    unfold zmap, xw. replace (xl + (sqrt (2 * a) - xl) * 1) with (sqrt (2 * a)) by ring.
    replace (sqrt (2 * a) ^ 2) with (sqrt (2 * a) * sqrt (2 * a)) by ring.
    rewrite sqrt_sqrt by lra. field.
  Qed.

  Lemma zmap_monotone u v : 0 <= u -> u <= v -> zmap u <= zmap v.
  Proof.
    intros Hu Huv. unfold zmap. assert (H1 := xl_pos). assert (H2 := xw_pos).
    assert (0 <= xl + xw * u) by nra. assert (xl + xw * u <= xl + xw * v) by nra. nra.
  Qed.

  Theorem zmap_range u : 0 <= u <= 1 -> / a <= zmap u <= a.
  Proof.
    intros [H0 H1]. rewrite <- zmap_0, <- zmap_1. split; apply zmap_monotone; lra.
  Qed.

  Theorem zmap_inverse u : 0 <= u -> (sqrt (2 * zmap u) - xl) / xw = u.
  Proof.
    intros Hu. assert (H1 := xl_pos). assert (H2 := xw_pos).
    unfold zmap. replace (2 * (/ 2 * (xl + xw * u) ^ 2)) with ((xl + xw * u) ^ 2) by field.
    replace ((xl + xw * u) ^ 2) with (Rsqr (xl + xw * u)) by (unfold Rsqr; ring).
    rewrite sqrt_Rsqr by nra. field. lra.
  Qed.
End ZSampler.
