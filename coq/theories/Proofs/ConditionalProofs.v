(* Lemmas about Model/Conditional.v *)
From Coq Require Import List QArith Qabs Qminmax Bool Arith Lia Lqa.
From IT Require Import Model.Conditional.
Import ListNotations.
Open Scope Q_scope.

(* ---------------- weights ---------------- *)
Lemma Qsum_scale c w : Qsum (map (fun v => v / c) w) == Qsum w / c.
Proof.
  induction w as [ | a w IH]; simpl.
  - unfold Qdiv. ring.
  - rewrite IH. unfold Qdiv. ring.
Qed.

Lemma normalise_sums_to_one w : ~ Qsum w == 0 -> Qsum (normalise w) == 1.
Proof. intros H. unfold normalise. rewrite Qsum_scale. field. exact H. Qed.

Lemma nth_map2 {A B C} (f : A -> B -> C) da db dc : forall l1 l2 k,
  (k < length l1)%nat -> (k < length l2)%nat ->
  nth k (map2 f l1 l2) dc = f (nth k l1 da) (nth k l2 db).
Proof.
  induction l1 as [ | a l1 IH]; intros l2 k H1 H2; simpl in *; [lia | ].
  destruct l2 as [ | b l2]; simpl in *; [lia | ].
  destruct k; [reflexivity | apply IH; lia].
Qed.

Lemma nth_normalise w k : (k < length w)%nat -> nth k (normalise w) 0 = nth k w 0 / Qsum w.
Proof.
  intros H. unfold normalise.
  rewrite (nth_indep _ 0 ((fun v => v / Qsum w) 0)) by (rewrite map_length; exact H).
  exact (map_nth (fun v => v / Qsum w) w 0 k).
Qed.

(* the repaired cell probabilities are mean*dx / sum(mean*dx) *)
Lemma weights_are_masses x p k :
  (k < length (cell_means p))%nat -> (k < length (diffs x))%nat ->
  nth k (weights x p) 0 =
  (nth k (cell_means p) 0 * nth k (diffs x) 0) / Qsum (cell_masses x p).
Proof.
  intros H1 H2. unfold weights.
  assert (L : (k < length (cell_masses x p))%nat).
  { unfold cell_masses. clear - H1 H2. revert k H1 H2. generalize (diffs x). generalize (cell_means p).
    induction l as [ | a l IH]; intros l0 k H1 H2; simpl in *; [lia | ].
    destruct l0; simpl in *; [lia | ]. destruct k; [lia | ]. apply lt_n_S, IH; lia. }
  rewrite nth_normalise by exact L.
  unfold cell_masses at 1. now rewrite (nth_map2 Qmult 0 0 0).
Qed.

Lemma weights_sum_to_one x p :
  ~ Qsum (cell_masses x p) == 0 -> Qsum (weights x p) == 1.
Proof. apply normalise_sums_to_one. Qed.

(* the pinned weights (mean/dx) are not the cell masses on a non-uniform grid *)
Lemma weights_refuted_lemma :
  exists x p, pls_valid x p = true /\
              Qlist_eqb (weights_pinned x p) (weights x p) = false /\
              Qlist_eqb (map Qred (weights x p)) [1 # 3; 2 # 3] = true /\
              Qlist_eqb (map Qred (weights_pinned x p)) [2 # 3; 1 # 3] = true.
Proof. exists [0; 1; 3], [1; 1; 1]. vm_compute. repeat split. Qed.

(* on a uniform grid the two agree -- why the defect is invisible there *)
Example weights_pinned_uniform_example :
  Qlist_eqb (map Qred (weights_pinned [0; 2; 4; 6] [1; 3; 2; 5]))
            (map Qred (weights [0; 2; 4; 6] [1; 3; 2; 5])) = true.
Proof. vm_compute. reflexivity. Qed.

(* ---------------- cells ---------------- *)
Lemma nth_diffs x : forall k, (S k < length x)%nat ->
  nth k (diffs x) 0 = nth (S k) x 0 - nth k x 0.
Proof.
  induction x as [ | a x IH]; intros k H; simpl in H; [lia | ].
  destruct x as [ | b x]; simpl in H; [lia | ].
  destruct k; [reflexivity | ].
  change (nth k (diffs (b :: x)) 0 = nth (S k) (b :: x) 0 - nth k (b :: x) 0).
  apply IH. simpl. lia.
Qed.

Lemma nth_deltas p : forall k, (S k < length p)%nat ->
  nth k (cell_deltas p) 0 =
  (1 # 2) * (nth (S k) p 0 - nth k p 0) / ((1 # 2) * (nth (S k) p 0 + nth k p 0)).
Proof.
  induction p as [ | a p IH]; intros k H; simpl in H; [lia | ].
  destruct p as [ | b p]; simpl in H; [lia | ].
  destruct k; [reflexivity | ].
  change (nth k (cell_deltas (b :: p)) 0 =
          (1 # 2) * (nth (S k) (b :: p) 0 - nth k (b :: p) 0) /
          ((1 # 2) * (nth (S k) (b :: p) 0 + nth k (b :: p) 0))).
  apply IH. simpl. lia.
Qed.

(* |delta| <= 1 for a non-negative table with positive cell mean *)
Lemma delta_bound a b : 0 <= a -> 0 <= b -> 0 < a + b ->
  -1 <= (1 # 2) * (b - a) / ((1 # 2) * (b + a)) /\ (1 # 2) * (b - a) / ((1 # 2) * (b + a)) <= 1.
Proof.
  intros Ha Hb Hab.
  assert (Hm : 0 < (1 # 2) * (b + a)) by lra.
  split.
  - apply Qle_shift_div_l; [exact Hm | lra].
  - apply Qle_shift_div_r; [exact Hm | lra].
Qed.

Lemma cell_point_in_cell x p k t :
  (S k < length x)%nat -> 0 <= nth k (diffs x) 0 -> 0 <= t -> t <= 1 ->
  nth k x 0 <= cell_point (cell_of x p k) t /\ cell_point (cell_of x p k) t <= nth (S k) x 0.
Proof.
  intros Hk Hd H0 H1. unfold cell_point, cell_of. simpl.
  pose proof (nth_diffs x k Hk) as E. rewrite E in *.
  set (a := nth k x 0) in *. set (b := nth (S k) x 0) in *.
  assert (0 <= t * (b - a)) by (apply Qmult_le_0_compat; lra).
  assert (t * (b - a) <= 1 * (b - a)) by (apply Qmult_le_compat_r; lra).
  split; lra.
Qed.

(* in an ascending grid every node lies between the first and the last *)
Lemma ascending_nth_le x : (forall k, (S k < length x)%nat -> 0 <= nth k (diffs x) 0) ->
  forall i j, (i <= j)%nat -> (j < length x)%nat -> nth i x 0 <= nth j x 0.
Proof.
  intros Hasc i j Hij. induction Hij as [ | j Hij IH]; intros Hj; [lra | ].
  assert (H1 : nth i x 0 <= nth j x 0) by (apply IH; lia).
  pose proof (Hasc j Hj) as H2. rewrite nth_diffs in H2 by exact Hj. lra.
Qed.

Lemma sample_in_grid_range x p k t :
  (forall k, (S k < length x)%nat -> 0 <= nth k (diffs x) 0) ->
  (S k < length x)%nat -> 0 <= t -> t <= 1 ->
  nth 0 x 0 <= cell_point (cell_of x p k) t /\
  cell_point (cell_of x p k) t <= nth (length x - 1) x 0.
Proof.
  intros Hasc Hk H0 H1.
  destruct (cell_point_in_cell x p k t Hk (Hasc k Hk) H0 H1) as [A B].
  pose proof (ascending_nth_le x Hasc 0 k ltac:(lia) ltac:(lia)) as C.
  pose proof (ascending_nth_le x Hasc (S k) (length x - 1) ltac:(lia) ltac:(lia)) as D.
  split; lra.
Qed.

(* ---------------- Simpson normalisation ---------------- *)
Lemma simpson_basic_scale c x0 x1 x2 y0 y1 y2 :
  simpson_basic x0 x1 x2 (y0 * c) (y1 * c) (y2 * c) == c * simpson_basic x0 x1 x2 y0 y1 y2.
Proof.
  unfold simpson_basic. cbv zeta. unfold Qdiv.
  set (a := / (x1 - x0)). set (b := / (x2 - x1)). set (d := / ((x1 - x0) * (x2 - x1))).
  set (e := / 6). ring.
Qed.

Lemma simpson_last_scale c h0 h1 y1 y2 y3 :
  simpson_last h0 h1 (y1 * c) (y2 * c) (y3 * c) == c * simpson_last h0 h1 y1 y2 y3.
Proof.
  unfold simpson_last. cbv zeta. unfold Qdiv.
  generalize (/ (6 * (h1 + h0))) (/ (6 * h0)) (/ (6 * h0 * (h0 + h1))). intros a b d. ring.
Qed.

Lemma simpson_unfold3 x0 x1 x2 xr y0 y1 y2 yr :
  simpson (x0 :: x1 :: x2 :: xr) (y0 :: y1 :: y2 :: yr) =
  simpson_basic x0 x1 x2 y0 y1 y2 +
  match xr, yr with
  | [x3], [y3] => simpson_last (x2 - x1) (x3 - x2) y1 y2 y3
  | _, _ => simpson (x2 :: xr) (y2 :: yr)
  end.
Proof. reflexivity. Qed.

Lemma simpson_scale c : forall n x y, (length x <= n)%nat ->
  simpson x (map (fun v => v * c) y) == c * simpson x y.
Proof.
  induction n as [ | n IH]; intros x y Hn.
  - destruct x; [ | simpl in Hn; lia]. simpl. ring.
  - destruct x as [ | x0 [ | x1 [ | x2 xr]]]; destruct y as [ | y0 [ | y1 [ | y2 yr]]];
      try (simpl; ring).
    (* at least three points *)
    assert (IHt : simpson (x2 :: xr) (map (fun v => v * c) (y2 :: yr)) == c * simpson (x2 :: xr) (y2 :: yr)).
    { apply IH. simpl in Hn. simpl. lia. }
    cbn [map] in IHt |- *. rewrite !simpson_unfold3.
    destruct xr as [ | x3 [ | x4 xr]]; destruct yr as [ | y3 [ | y4 yr]]; cbn [map] in IHt |- *;
      rewrite ?simpson_basic_scale, ?simpson_last_scale; try rewrite IHt; ring.
Qed.

Lemma normalised_lemma x e : ~ simpson x e == 0 ->
  simpson x (normalise_by_simpson x e) == 1.
Proof.
  intros H. unfold normalise_by_simpson.
  change (map (fun v => v / simpson x e) e) with (map (fun v => v * / simpson x e) e).
  rewrite (simpson_scale _ (length x)) by lia. field. exact H.
Qed.

(* ---------------- the grid stays inside the range of the search points ---------------- *)
Section Grid.
Variable func : Q -> Q.
Variables lo hi : Q.

Definition xin (t : table) : Prop := forall e, In e t -> lo <= fst e /\ fst e <= hi.

Lemma tnth_in (t : table) i : t <> [] -> In (tnth t i) t.
Proof.
  intros Hne. unfold tnth. destruct (nth_in_or_default i t (hd (0, 0) t)) as [H | H]; [exact H | ].
  rewrite H. destruct t; [congruence | now left].
Qed.

Lemma skipn_incl {A} n : forall (l : list A) a, In a (skipn n l) -> In a l.
Proof.
  induction n as [ | n IH]; intros [ | b l] a H; simpl in *; auto.
Qed.

Lemma firstn_incl' {A} n : forall (l : list A) a, In a (firstn n l) -> In a l.
Proof.
  induction n as [ | n IH]; intros [ | b l] a H; simpl in *; try contradiction.
  destruct H as [-> | H]; [now left | right; now apply IH].
Qed.

Lemma mid_in a b : lo <= a /\ a <= hi -> lo <= b /\ b <= hi ->
  lo <= (1 # 2) * (a + b) /\ (1 # 2) * (a + b) <= hi.
Proof. intros [A1 A2] [B1 B2]. split; lra. Qed.

Lemma refine_step_xin t : t <> [] -> xin t -> xin (refine_step func t).
Proof.
  intros Hne Hx e He. unfold refine_step, ref_pts in He. cbv zeta in He.
  set (i := ref_ind t) in *.
  pose proof (Hx _ (tnth_in t i Hne)) as Hi.
  pose proof (Hx _ (tnth_in t (i - 1) Hne)) as Hm.
  pose proof (Hx _ (tnth_in t (i + 1) Hne)) as Hp.
  apply in_app_or in He. destruct He as [He | He]; [apply Hx; now apply firstn_incl' in He | ].
  simpl in He. destruct He as [<- | [<- | [<- | He]]].
  - simpl. now apply mid_in.
  - exact Hi.
  - simpl. now apply mid_in.
  - apply Hx. now apply skipn_incl in He.
Qed.

Lemma refine_step_nonempty t : refine_step func t <> [].
Proof.
  unfold refine_step. destruct (ref_pts t) as [x1 x2]. intros H.
  apply app_eq_nil in H. destruct H as [_ H]. discriminate.
Qed.

Lemma refine_n_xin n : forall t, t <> [] -> xin t -> xin (refine_n func n t) /\ refine_n func n t <> [].
Proof.
  induction n as [ | n IH]; intros t Hne Hx; simpl; [split; assumption | ].
  apply IH; [apply refine_step_nonempty | now apply refine_step_xin].
Qed.

Lemma bsearch_in fuel tol target : forall x1 y1 x2 y2,
  lo <= x1 /\ x1 <= hi -> lo <= x2 /\ x2 <= hi ->
  lo <= fst (bsearch func fuel tol target x1 y1 x2 y2) /\
  fst (bsearch func fuel tol target x1 y1 x2 y2) <= hi.
Proof.
  induction fuel as [ | f IH]; intros x1 y1 x2 y2 H1 H2; [exact H1 | ].
  pose proof (mid_in x1 x2 H1 H2) as Hm.
  cbn [bsearch]. cbv zeta.
  match goal with |- context [if ?c then _ else _] => destruct c end; [exact Hm | ].
  destruct f as [ | f']; [exact Hm | ].
  match goal with |- context [if ?c then _ else _] => destruct c end;
    cbn [fst]; apply IH; assumption.
Qed.

Lemma find_edges_in tol t : t <> [] -> xin t ->
  (lo <= e_lwr (find_edges func tol t) /\ e_lwr (find_edges func tol t) <= hi) /\
  (lo <= e_upr (find_edges func tol t) /\ e_upr (find_edges func tol t) <= hi).
Proof.
  intros Hne Hx. unfold find_edges. cbv zeta. cbn [e_lwr e_upr].
  split.
  - match goal with |- context [if ?c then _ else _] => destruct c end; cbn [fst].
    + apply Hx, tnth_in, Hne.
    + apply bsearch_in; apply Hx, tnth_in, Hne.
  - match goal with |- context [fst (if ?c then (?a, []) else bsearch _ _ _ _ ?b _ ?d _)] =>
      destruct c end; cbn [fst].
    + apply Hx, tnth_in, Hne.
    + apply bsearch_in; apply Hx, tnth_in, Hne.
Qed.

Lemma linspace_from_in a step : forall n i g, In g (linspace_from a step i n) ->
  exists j, (i <= j < i + n)%nat /\ g = a + inject_Z (Z.of_nat j) * step.
Proof.
  induction n as [ | n IH]; intros i g H; simpl in H; [contradiction | ].
  destruct H as [<- | H].
  - exists i. split; [lia | reflexivity].
  - destruct (IH _ _ H) as (j & Hj & E). exists j. split; [lia | exact E].
Qed.

Lemma convex_in a b t : lo <= a /\ a <= hi -> lo <= b /\ b <= hi -> 0 <= t -> t <= 1 ->
  lo <= a + t * (b - a) /\ a + t * (b - a) <= hi.
Proof.
  intros [A1 A2] [B1 B2] T0 T1.
  assert (E1 : a + t * (b - a) - lo == (1 - t) * (a - lo) + t * (b - lo)) by ring.
  assert (E2 : hi - (a + t * (b - a)) == (1 - t) * (hi - a) + t * (hi - b)) by ring.
  assert (P1 : 0 <= (1 - t) * (a - lo)) by (apply Qmult_le_0_compat; lra).
  assert (P2 : 0 <= t * (b - lo)) by (apply Qmult_le_0_compat; lra).
  assert (P3 : 0 <= (1 - t) * (hi - a)) by (apply Qmult_le_0_compat; lra).
  assert (P4 : 0 <= t * (hi - b)) by (apply Qmult_le_0_compat; lra).
  split; lra.
Qed.

Lemma linspace_in a b n : (2 <= n)%nat -> lo <= a /\ a <= hi -> lo <= b /\ b <= hi ->
  forall g, In g (linspace a b n) -> lo <= g /\ g <= hi.
Proof.
  intros Hn Ha Hb g Hg. unfold linspace in Hg. apply in_app_or in Hg.
  destruct Hg as [Hg | [<- | []]]; [ | exact Hb].
  destruct (linspace_from_in _ _ _ _ _ Hg) as (j & Hj & ->).
  set (N := inject_Z (Z.of_nat (n - 1))).
  set (J := inject_Z (Z.of_nat j)).
  assert (HN : 0 < N).
  { unfold N. change 0 with (inject_Z 0). rewrite <- Zlt_Qlt. lia. }
  assert (HJ0 : 0 <= J).
  { unfold J. change 0 with (inject_Z 0). rewrite <- Zle_Qle. lia. }
  assert (HJN : J <= N).
  { unfold J, N. rewrite <- Zle_Qle. lia. }
  assert (E : a + J * ((b - a) / N) == a + (J / N) * (b - a)) by (field; lra).
  assert (T0 : 0 <= J / N) by (apply Qle_shift_div_l; lra).
  assert (T1 : J / N <= 1) by (apply Qle_shift_div_r; lra).
  destruct (convex_in a b (J / N) Ha Hb T0 T1) as [C1 C2].
  split; lra.
Qed.

Lemma grid_inside_bounds_aux tol points gs :
  (3 <= length points)%nat -> (2 <= gs)%nat ->
  (forall x, In x points -> lo <= x /\ x <= hi) ->
  forall g, In g (fst (fst (evaluate_search func tol points gs))) -> lo <= g /\ g <= hi.
Proof.
  intros Hp Hg Hx g Hin. unfold evaluate_search in Hin. cbv zeta in Hin. cbn [fst snd] in Hin.
  set (t0 := map (fun x => (x, func x)) points) in *.
  assert (Hne : t0 <> []) by (unfold t0; destruct points; [simpl in Hp; lia | discriminate]).
  assert (Hx0 : xin t0).
  { intros e He. unfold t0 in He. apply in_map_iff in He. destruct He as (x & <- & Hx'). simpl. now apply Hx. }
  destruct (refine_n_xin 6 t0 Hne Hx0) as [Hx6 Hne6].
  destruct (find_edges_in tol _ Hne6 Hx6) as [HL HU].
  exact (linspace_in _ _ gs Hg HL HU g Hin).
Qed.

End Grid.

Lemma grid_inside_bounds_lemma (func : Q -> Q) tol points gs lo hi :
  (3 <= length points)%nat -> (2 <= gs)%nat ->
  (forall x, In x points -> lo <= x /\ x <= hi) ->
  forall g, In g (fst (fst (evaluate_search func tol points gs))) -> lo <= g /\ g <= hi.
Proof. apply grid_inside_bounds_aux. Qed.

Lemma insert_sorted_in c l x : In x (insert_sorted c l) -> x = c \/ In x l.
Proof.
  induction l as [ | a l IH]; simpl.
  - intros [<- | []]. now left.
  - destruct (Qle_bool c a); simpl.
    + intros [<- | H]; [now left | now right].
    + intros [<- | H]; [right; now left | ]. destruct (IH H) as [-> | H']; [now left | right; now right].
Qed.

Lemma search_points_in_bounds_lemma lo hi c n : (2 <= n)%nat ->
  lo <= hi -> lo <= c -> c <= hi ->
  forall x, In x (search_points lo hi c n) -> lo <= x /\ x <= hi.
Proof.
  intros Hn Hlh Hc1 Hc2 x Hx. unfold search_points in Hx.
  assert (HL : forall y, In y (linspace lo hi n) -> lo <= y /\ y <= hi).
  { apply (linspace_in lo hi lo hi n Hn); split; lra. }
  destruct (existsb (Qeq_bool c) (linspace lo hi n)); [now apply HL | ].
  apply insert_sorted_in in Hx. destruct Hx as [-> | Hx]; [split; assumption | now apply HL].
Qed.
