(* Known finding D4 as a theorem: a proposal along an OBLIQUE direction that is
   folded back into a box component-wise (Bounds.reflect on the array) is not
   reversible, although along an axis it is (Proofs/FoldSymmetryProofs.v).

   1. reflect_preimage: every pre-image of x under the fold is x shifted by an
      even number of widths, or the mirror image of x shifted likewise.
   2. pca_oblique_irreversible: box [0,1]^2, direction v = (3/5, 4/5),
      x = (1/4, 1/2).  The step t = 3/4 realises the move x -> y = (7/10, 9/10)
      (a whole neighbourhood of t does, so the proposal density of the move is
      positive), but NO step t' along +v or -v leads from y back to x.
   3. ensemble_oblique_irreversible: the stretch move X_j + z (X_i - X_j) with
      X_i = (3/4, 7/8), X_j = (1/4, 1/2), z = 2 is folded to Y = (3/4, 3/4);
      no stretch z' of Y about the same partner X_j folds back to X_i.
   4. axis_fold_reversible: along v = (1, 0) the same box is reversible for
      every inside point and every step (contrast; reuses
      reflect_proposal_reversible).

   Exact rational arithmetic throughout; stdlib style. *)
From Coq Require Import QArith Qround ZArith List Lia Lqa.
From IT Require Import Model.Reflect Proofs.ReflectProofs Proofs.FoldSymmetryProofs.
Import ListNotations.
Open Scope Q_scope.

(* ------------------------------------------------------------ 1. pre-images *)
Theorem reflect_preimage : forall lo w theta x, 0 < w ->
  reflect lo w theta == x ->
  exists k : Z, theta == x + inject_Z (2 * k) * w \/
                theta == 2 * lo + inject_Z (2 * k) * w - x.
Proof.
  intros lo w theta x Hw Hx.
  destruct (reflect_decompose lo w theta Hw) as (c & r & Hr0 & Hr1 & Hd & _).
  rewrite (reflect_char lo w theta c r Hw Hr0 Hr1 Hd) in Hx.
  destruct (parity_split c) as [m Hm].
  destruct (parity_cases c) as [E | E]; rewrite E in Hx, Hm.
  - (* even cell: theta is x shifted by 2 m widths *)
    exists m. left.
    assert (Hc : inject_Z c == 2 * inject_Z m).
    { rewrite Hm. rewrite inject_Z_plus, inject_Z_mult. qconst. ring. }
    rewrite inject_Z_mult. change (inject_Z 2) with 2.
    qconst. rewrite Hc in Hd.
    assert (Hxr : x == lo + r) by (rewrite <- Hx; ring).
    rewrite Hxr.
    setoid_replace theta with (lo + (theta - lo)) by ring. rewrite Hd. ring.
  - (* odd cell: theta is the mirror image of x shifted by 2 (m + 1) widths *)
    exists (m + 1)%Z. right.
    assert (Hc : inject_Z c == 2 * inject_Z m + 1).
    { rewrite Hm. rewrite inject_Z_plus, inject_Z_mult. qconst. ring. }
    rewrite inject_Z_mult, inject_Z_plus. change (inject_Z 2) with 2.
    qconst. rewrite Hc in Hd.
    assert (Hxr : x == lo - r + w) by (rewrite <- Hx; ring).
    rewrite Hxr.
    setoid_replace theta with (lo + (theta - lo)) by ring. rewrite Hd. ring.
Qed.

(* the converse: each of those points folds onto x when x is inside *)
Theorem reflect_preimage_conv : forall lo w theta x (k : Z), 0 < w ->
  lo <= x -> x <= lo + w ->
  (theta == x + inject_Z (2 * k) * w \/ theta == 2 * lo + inject_Z (2 * k) * w - x) ->
  reflect lo w theta == x.
Proof.
  intros lo w theta x k Hw Hx0 Hx1 [Ht | Ht].
  - rewrite (reflect_comp _ _ (Qeq_refl lo) _ _ (Qeq_refl w) _ _ Ht).
    rewrite reflect_period_gen by exact Hw. apply reflect_id; assumption.
  - assert (Ht' : theta == (lo - (x - lo)) + inject_Z (2 * k) * w) by (rewrite Ht; ring).
    rewrite (reflect_comp _ _ (Qeq_refl lo) _ _ (Qeq_refl w) _ _ Ht').
    rewrite reflect_period_gen by exact Hw.
    rewrite reflect_fold_lower by exact Hw.
    setoid_replace (lo + (x - lo)) with x by ring. apply reflect_id; assumption.
Qed.

(* unit box: the two families of pre-images, with the even shift written 2 k *)
Lemma unit_preimage : forall theta x, reflect 0 1 theta == x ->
  exists k : Z, theta == x + 2 * inject_Z k \/ theta == 2 * inject_Z k - x.
Proof.
  intros theta x Hx.
  assert (Hw : 0 < 1) by reflexivity.
  destruct (reflect_preimage 0 1 theta x Hw Hx) as [k Hk].
  exists k. rewrite inject_Z_mult in Hk. change (inject_Z 2) with 2 in Hk.
  destruct Hk as [Hk | Hk]; [left | right]; rewrite Hk; ring.
Qed.

(* a rational linear relation between integers is an integer relation *)
Lemma Zlin_of_Q : forall a b c k1 k2 : Z,
  inject_Z a * inject_Z k1 + inject_Z b * inject_Z k2 == inject_Z c ->
  (a * k1 + b * k2 = c)%Z.
Proof.
  intros a b c k1 k2 H.
  rewrite <- !inject_Z_mult, <- inject_Z_plus in H.
  unfold Qeq in H. simpl in H. lia.
Qed.

(* vectors of rationals, compared component-wise with Qeq *)
Definition Qvec_eq : list Q -> list Q -> Prop := Forall2 Qeq.

(* x + t * v, component-wise *)
Definition axpy (t : Q) (v x : list Q) : list Q :=
  map (fun p => fst p + t * snd p) (combine x v).

Lemma Qvec_eq2 : forall a b c d, Qvec_eq [a; b] [c; d] <-> a == c /\ b == d.
Proof.
  intros a b c d. unfold Qvec_eq. split.
  - intro H. inversion H as [| ? ? ? ? H1 H2]; subst.
    inversion H2 as [| ? ? ? ? H3 H4]; subst. split; assumption.
  - intros [H1 H2]. repeat constructor; assumption.
Qed.

(* ------------------------------------- 2. oblique line proposal (PCA sampler) *)
(* no step along (3/5, 4/5) from (7/10, 9/10) folds onto (1/4, 1/2) *)
Lemma pca_no_return : forall t' : Q,
  ~ (reflect 0 1 ((7#10) + t' * (3#5)) == 1#4 /\
     reflect 0 1 ((9#10) + t' * (4#5)) == 1#2).
Proof.
  intros t' [H1 H2].
  destruct (unit_preimage _ _ H1) as [k1 Hk1].
  destruct (unit_preimage _ _ H2) as [k2 Hk2].
  destruct Hk1 as [Hk1 | Hk1]; destruct Hk2 as [Hk2 | Hk2].
  - assert (E : inject_Z 80 * inject_Z k1 + inject_Z (-60) * inject_Z k2 == inject_Z 6).
    { change (inject_Z 80) with 80. change (inject_Z (-60)) with (-60).
      change (inject_Z 6) with 6. lra. }
    apply Zlin_of_Q in E. lia.
  - assert (E : inject_Z 80 * inject_Z k1 + inject_Z (-60) * inject_Z k2 == inject_Z (-24)).
    { change (inject_Z 80) with 80. change (inject_Z (-60)) with (-60).
      change (inject_Z (-24)) with (-24). lra. }
    apply Zlin_of_Q in E. lia.
  - assert (E : inject_Z 80 * inject_Z k1 + inject_Z (-60) * inject_Z k2 == inject_Z 26).
    { change (inject_Z 80) with 80. change (inject_Z (-60)) with (-60).
      change (inject_Z 26) with 26. lra. }
    apply Zlin_of_Q in E. lia.
  - assert (E : inject_Z 80 * inject_Z k1 + inject_Z (-60) * inject_Z k2 == inject_Z (-4)).
    { change (inject_Z 80) with 80. change (inject_Z (-60)) with (-60).
      change (inject_Z (-4)) with (-4). lra. }
    apply Zlin_of_Q in E. lia.
Qed.

(* The move x = (1/4, 1/2) -> y = (7/10, 9/10) is proposed (t = 3/4 is one of
   the steps that realise it; x and y are inside the box and differ), and no
   step t' of either sign along v = (3/5, 4/5) leads from y back to x. *)
Theorem pca_oblique_irreversible :
  let lo := [0; 0] in let w := [1; 1] in
  let v := [3#5; 4#5] in let x := [1#4; 1#2] in let y := [7#10; 9#10] in
  (inside_vec lo w x /\ inside_vec lo w y /\ ~ Qvec_eq x y /\
   Qvec_eq (reflect_vec lo w (axpy (3#4) v x)) y) /\
  (forall t' : Q,
     ~ (reflect 0 1 ((7#10) + t' * (3#5)) == 1#4 /\
        reflect 0 1 ((9#10) + t' * (4#5)) == 1#2)) /\
  (forall t' : Q, ~ Qvec_eq (reflect_vec lo w (axpy t' v y)) x).
Proof.
  cbv zeta. split; [| split].
  - split; [| split; [| split]].
    + unfold inside_vec, inside. repeat split; discriminate.
    + unfold inside_vec, inside. repeat split; discriminate.
    + intro H. apply Qvec_eq2 in H. destruct H as [H _]. discriminate H.
    + apply Qvec_eq2. split; vm_compute; reflexivity.
  - exact pca_no_return.
  - intros t' H. apply (pca_no_return t').
    unfold axpy in H. simpl in H. apply Qvec_eq2 in H. exact H.
Qed.

(* --------------------------------------- 3. stretch move (ensemble sampler) *)
(* no stretch of Y = (3/4, 3/4) about X_j = (1/4, 1/2) folds onto X_i = (3/4, 7/8),
   whatever z' (inside the support of the z sampler or not) *)
Lemma ensemble_no_return : forall z' : Q,
  ~ (reflect 0 1 ((1#4) + z' * ((3#4) - (1#4))) == 3#4 /\
     reflect 0 1 ((1#2) + z' * ((3#4) - (1#2))) == 7#8).
Proof.
  intros z' [H1 H2].
  destruct (unit_preimage _ _ H1) as [k1 Hk1].
  destruct (unit_preimage _ _ H2) as [k2 Hk2].
  destruct Hk1 as [Hk1 | Hk1]; destruct Hk2 as [Hk2 | Hk2].
  - (* z' = 1 + 4 k1 = 3/2 + 8 k2 *)
    assert (E : inject_Z 8 * inject_Z k1 + inject_Z (-16) * inject_Z k2 == inject_Z 1).
    { change (inject_Z 8) with 8. change (inject_Z (-16)) with (-16).
      change (inject_Z 1) with 1. lra. }
    apply Zlin_of_Q in E. lia.
  - (* z' = 1 + 4 k1 = -11/2 + 8 k2 *)
    assert (E : inject_Z 8 * inject_Z k1 + inject_Z (-16) * inject_Z k2 == inject_Z (-13)).
    { change (inject_Z 8) with 8. change (inject_Z (-16)) with (-16).
      change (inject_Z (-13)) with (-13). lra. }
    apply Zlin_of_Q in E. lia.
  - (* z' = -2 + 4 k1 = 3/2 + 8 k2 *)
    assert (E : inject_Z 8 * inject_Z k1 + inject_Z (-16) * inject_Z k2 == inject_Z 7).
    { change (inject_Z 8) with 8. change (inject_Z (-16)) with (-16).
      change (inject_Z 7) with 7. lra. }
    apply Zlin_of_Q in E. lia.
  - (* z' = -2 + 4 k1 = -11/2 + 8 k2 *)
    assert (E : inject_Z 8 * inject_Z k1 + inject_Z (-16) * inject_Z k2 == inject_Z (-7)).
    { change (inject_Z 8) with 8. change (inject_Z (-16)) with (-16).
      change (inject_Z (-7)) with (-7). lra. }
    apply Zlin_of_Q in E. lia.
Qed.

(* X_i = (3/4, 7/8), partner X_j = (1/4, 1/2), stretch z = 2 (inside the support
   [1/a, a] = [1/2, 2] of the z sampler for a = 2): the folded proposal is
   Y = (3/4, 3/4), and the reverse stretch move from Y with the same partner
   cannot return to X_i for any z' in the support. *)
Theorem ensemble_oblique_irreversible :
  let lo := [0; 0] in let w := [1; 1] in
  let Xi := [3#4; 7#8] in let Xj := [1#4; 1#2] in let Y := [3#4; 3#4] in
  let z := 2 in
  (inside_vec lo w Xi /\ inside_vec lo w Xj /\ (1#2) <= z /\ z <= 2 /\
   Qvec_eq (reflect_vec lo w
              [(1#4) + z * ((3#4) - (1#4)); (1#2) + z * ((7#8) - (1#2))]) Y) /\
  (forall z' : Q, (1#2) <= z' -> z' <= 2 ->
     ~ (reflect 0 1 ((1#4) + z' * ((3#4) - (1#4))) == 3#4 /\
        reflect 0 1 ((1#2) + z' * ((3#4) - (1#2))) == 7#8)) /\
  (forall z' : Q, (1#2) <= z' -> z' <= 2 ->
     ~ Qvec_eq (reflect_vec lo w
                  [(1#4) + z' * ((3#4) - (1#4)); (1#2) + z' * ((3#4) - (1#2))]) Xi).
Proof.
  cbv zeta. split; [| split].
  - split; [| split; [| split; [| split]]].
    + unfold inside_vec, inside. repeat split; discriminate.
    + unfold inside_vec, inside. repeat split; discriminate.
    + discriminate.
    + discriminate.
    + apply Qvec_eq2. split; vm_compute; reflexivity.
  - intros z' _ _. exact (ensemble_no_return z').
  - intros z' _ _ H. apply (ensemble_no_return z').
    simpl in H. apply Qvec_eq2 in H. exact H.
Qed.

(* ------------------------------------------------- 4. contrast: axis direction *)
(* along v = (1, 0) every folded move from an inside point has a return step of
   the same magnitude: the moving coordinate is the 1-D case, the other one is
   unchanged and inside *)
Theorem axis_fold_reversible : forall x1 x2 t : Q,
  0 <= x1 -> x1 <= 1 -> 0 <= x2 -> x2 <= 1 ->
  let y1 := reflect 0 1 (x1 + t * 1) in
  let y2 := reflect 0 1 (x2 + t * 0) in
  exists t', (t' == t \/ t' == - t) /\
    reflect 0 1 (y1 + t' * 1) == x1 /\ reflect 0 1 (y2 + t' * 0) == x2.
Proof.
  intros x1 x2 t H10 H11 H20 H21 y1 y2.
  assert (Hw : 0 < 1) by reflexivity.
  assert (H11' : x1 <= 0 + 1) by lra.
  assert (H21' : x2 <= 0 + 1) by lra.
  destruct (reflect_proposal_reversible 0 1 x1 t Hw H10 H11') as (t' & Ht' & Hback).
  exists t'. split; [exact Ht' | split].
  - assert (E1 : x1 + t * 1 == x1 + t) by ring.
    assert (E : y1 + t' * 1 == reflect 0 1 (x1 + t) + t').
    { unfold y1. rewrite E1. ring. }
    rewrite E. exact Hback.
  - assert (E1 : x2 + t * 0 == x2) by ring.
    assert (Ey : y2 == x2).
    { unfold y2. rewrite E1. apply reflect_id; assumption. }
    assert (E : y2 + t' * 0 == x2) by (rewrite Ey; ring).
    rewrite E. apply reflect_id; assumption.
Qed.

(* the same point and box as in item 2, in vector form *)
Theorem axis_fold_reversible_vec : forall t : Q,
  let lo := [0; 0] in let w := [1; 1] in
  let v := [1; 0] in let x := [1#4; 1#2] in
  exists t', (t' == t \/ t' == - t) /\
    Qvec_eq (reflect_vec lo w (axpy t' v (reflect_vec lo w (axpy t v x)))) x.
Proof.
  intro t. cbv zeta.
  assert (A : 0 <= 1#4) by discriminate. assert (B : (1#4) <= 1) by discriminate.
  assert (C : 0 <= 1#2) by discriminate. assert (D : (1#2) <= 1) by discriminate.
  destruct (axis_fold_reversible (1#4) (1#2) t A B C D) as (t' & Ht' & H1 & H2).
  exists t'. split; [exact Ht' |].
  unfold axpy. simpl. apply Qvec_eq2. split; assumption.
Qed.
