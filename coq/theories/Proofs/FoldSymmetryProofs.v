(* Reversibility of folded 1-D proposals (C01): a random-walk proposal x -> fold(x + t)
   with a symmetric increment law is symmetric, because every way of reaching
   y = fold(x + t) from x is matched by a way of reaching x from y with an
   increment of the same magnitude. *)
From Coq Require Import QArith Qround Qabs ZArith Lia Lqa.
From IT Require Import Model.Reflect Proofs.ReflectProofs.
Open Scope Q_scope.

Lemma parity_split k : exists m, (k = 2 * m + parity k)%Z.
Proof. exists (k / 2)%Z. unfold parity. apply Z.div_mod. lia. Qed.

(* reflecting walls (Bounds.reflect, Parameter.boundary_proposal) *)
Theorem reflect_proposal_reversible lo w x t : 0 < w -> lo <= x -> x <= lo + w ->
  let y := reflect lo w (x + t) in
  exists t', (t' == t \/ t' == - t) /\ reflect lo w (y + t') == x.
Proof.
  intros Hw Hx0 Hx1 y.
  destruct (reflect_decompose lo w (x + t) Hw) as (k & r & Hr0 & Hr1 & Hd & _).
  assert (Hy : y == lo + (1 - 2 * inject_Z (parity k)) * r + inject_Z (parity k) * w)
    by (apply reflect_char; assumption).
  destruct (parity_split k) as [m Hm].
  destruct (parity_cases k) as [E | E]; rewrite E in Hy, Hm.
  - (* even cell: step back by -t *)
    exists (- t). split; [right; reflexivity|].
    assert (Hk : inject_Z k == 2 * inject_Z m).
    { rewrite Hm. rewrite inject_Z_plus, inject_Z_mult. simpl. ring. }
    assert (Hyt : y + - t == x + inject_Z (2 * (- m)) * w).
    { rewrite Hy. rewrite inject_Z_mult, inject_Z_opp. simpl (inject_Z 0). simpl (inject_Z 2).
      assert (Hr : r == x + t - lo - inject_Z k * w) by lra.
      rewrite Hr, Hk. ring. }
    rewrite (reflect_comp _ _ (Qeq_refl lo) _ _ (Qeq_refl w) _ _ Hyt).
    rewrite reflect_period_gen by exact Hw. apply reflect_id; assumption.
  - (* odd cell: the same step t leads back through the mirror image *)
    exists t. split; [left; reflexivity|].
    assert (Hk : inject_Z k == 2 * inject_Z m + 1).
    { rewrite Hm. rewrite inject_Z_plus, inject_Z_mult. simpl. ring. }
    assert (Hyt : y + t == (lo - (x - lo)) + inject_Z (2 * (m + 1)) * w).
    { rewrite Hy. rewrite inject_Z_mult, inject_Z_plus. simpl (inject_Z 1). simpl (inject_Z 2).
      assert (Hr : r == x + t - lo - inject_Z k * w) by lra.
      rewrite Hr, Hk. ring. }
    rewrite (reflect_comp _ _ (Qeq_refl lo) _ _ (Qeq_refl w) _ _ Hyt).
    rewrite reflect_period_gen by exact Hw.
    rewrite reflect_fold_lower by exact Hw.
    setoid_replace (lo + (x - lo)) with x by ring. apply reflect_id; assumption.
Qed.

(* non-negativity switch (Parameter.abs_proposal): y = |x + t| *)
Theorem abs_proposal_reversible x t : 0 <= x ->
  let y := abs_fold (x + t) in
  exists t', (t' == t \/ t' == - t) /\ abs_fold (y + t') == x.
Proof.
  intros Hx y. unfold y, abs_fold.
  destruct (Qlt_le_dec (x + t) 0) as [Hneg | Hpos].
  - exists t. split; [left; reflexivity|].
    rewrite (Qabs_neg (x + t)) by lra.
    setoid_replace (- (x + t) + t) with (- x) by ring.
    rewrite Qabs_opp. apply Qabs_pos. exact Hx.
  - exists (- t). split; [right; reflexivity|].
    rewrite (Qabs_pos (x + t)) by exact Hpos.
    setoid_replace (x + t + - t) with x by ring. apply Qabs_pos. exact Hx.
Qed.
