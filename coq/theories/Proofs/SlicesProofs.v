(* Lemmas about Model/Slices.v: the slices built by slice_builder partition the flat
   hyper-parameter vector; labels and bounds of composites are the components'
   concatenated in order. *)
From Coq Require Import List Arith Lia String QArith.
From IT Require Import Model.Slices.
Import ListNotations.
Open Scope nat_scope.
Open Scope list_scope.

Lemma slice_builder_from : forall l, slice_builder l = slices_from 0 l.
Proof. destruct l; reflexivity. Qed.

Lemma total_cons : forall x l, total (x :: l) = x + total l.
Proof. reflexivity. Qed.

Lemma total_app : forall a b, total (a ++ b) = total a + total b.
Proof. induction a as [|x a IH]; intros b; simpl; [reflexivity|]. rewrite IH. lia. Qed.

Lemma total_firstn_le : forall l m, total (firstn m l) <= total l.
Proof.
  induction l as [|x l IH]; intros [|m]; simpl; try lia. specialize (IH m). unfold total in *. lia.
Qed.

Lemma total_firstn_mono : forall l m, total (firstn m l) <= total (firstn (S m) l).
Proof.
  induction l as [|x l IH]; intros [|m]; try (simpl; lia).
  specialize (IH m). change (firstn (S m) (x :: l)) with (x :: firstn m l).
  change (firstn (S (S m)) (x :: l)) with (x :: firstn (S m) l). rewrite !total_cons. lia.
Qed.

Lemma total_repeat : forall c n, total (repeat c n) = c * n.
Proof. induction n as [|n IH]; simpl; [lia|]. rewrite IH. lia. Qed.

Lemma slices_from_length : forall l off, List.length (slices_from off l) = List.length l.
Proof. induction l as [|x l IH]; intros off; simpl; [reflexivity|]. now rewrite IH. Qed.

Lemma slices_from_app : forall l1 l2 off,
  slices_from off (l1 ++ l2) = slices_from off l1 ++ slices_from (off + total l1) l2.
Proof.
  induction l1 as [|x l1 IH]; intros l2 off; simpl.
  - now rewrite Nat.add_0_r.
  - rewrite IH. now rewrite Nat.add_assoc.
Qed.

Lemma slices_from_nth : forall l off m, m < List.length l ->
  nth m (slices_from off l) (0, 0) = (off + total (firstn m l), off + total (firstn (S m) l)).
Proof.
  induction l as [|x l IH]; intros off m Hm; simpl in Hm; [lia|].
  destruct m as [|m].
  - simpl. destruct l; simpl; f_equal; lia.
  - change (slices_from off (x :: l)) with ((off, off + x) :: slices_from (off + x) l).
    cbn [nth]. rewrite IH by lia.
    change (firstn (S m) (x :: l)) with (x :: firstn m l).
    change (firstn (S (S m)) (x :: l)) with (x :: firstn (S m) l).
    rewrite !total_cons. f_equal; lia.
Qed.

Lemma slices_from_repeat2 : forall n off m, m < n ->
  nth m (slices_from off (repeat 2 n)) (0, 0) = (off + 2 * m, off + 2 * m + 2).
Proof.
  induction n as [|n IH]; intros off m Hm; [lia|].
  destruct m as [|m]; simpl.
  - f_equal; lia.
  - rewrite IH by lia. f_equal; lia.
Qed.

(* contiguity: each slice starts where the previous one stopped, the first at `off` *)
Lemma slices_from_contiguous : forall l off m, S m < List.length l ->
  snd (nth m (slices_from off l) (0, 0)) = fst (nth (S m) (slices_from off l) (0, 0)).
Proof. intros l off m Hm. rewrite !slices_from_nth by lia. reflexivity. Qed.

Lemma slices_from_width : forall l off m, m < List.length l ->
  snd (nth m (slices_from off l) (0, 0)) - fst (nth m (slices_from off l) (0, 0)) = nth m l 0.
Proof.
  induction l as [|x l IH]; intros off m Hm; simpl in Hm; [lia|].
  destruct m as [|m]; simpl; [lia|]. apply IH. lia.
Qed.

Section Generic.
  Context {A : Type}.

  Lemma skipn_add : forall a b (l : list A), skipn a (skipn b l) = skipn (b + a) l.
  Proof.
    intros a b; revert a. induction b as [|b IH]; intros a l; [reflexivity|].
    destruct l as [|x l]; simpl; [now rewrite skipn_nil|]. apply IH.
  Qed.

  Lemma apply_slice_length : forall (s : slice) (l : list A), snd s <= List.length l -> fst s <= snd s ->
    List.length (apply_slice s l) = snd s - fst s.
  Proof.
    intros [a b] l Hb Hab. unfold apply_slice. simpl in *.
    rewrite firstn_length, skipn_length. lia.
  Qed.

  (* the pieces cut out by the slices, concatenated, give back the vector *)
  Lemma slices_partition_from : forall lens off (l : list A),
    List.concat (map (fun s => apply_slice s l) (slices_from off lens)) = firstn (total lens) (skipn off l).
  Proof.
    induction lens as [|x lens IH]; intros off l; simpl; [reflexivity|].
    rewrite IH. unfold apply_slice. simpl.
    replace (off + x - off) with x by lia.
    replace (skipn (off + x) l) with (skipn x (skipn off l)).
    2:{ apply skipn_add. }
    generalize (skipn off l). intros r.
    rewrite <- (firstn_skipn x r) at 3.
    rewrite firstn_app.
    rewrite firstn_firstn.
    replace (Nat.min (x + total lens) x) with x by lia.
    f_equal.
    destruct (Nat.le_gt_cases x (List.length r)) as [Hle|Hgt].
    - rewrite firstn_length. replace (Nat.min x (List.length r)) with x by lia.
      f_equal. lia.
    - rewrite (skipn_all2 r) by lia. now rewrite !firstn_nil.
  Qed.

  (* piece number m of a concatenation, cut with the slices built from the pieces' lengths *)
  Lemma apply_slice_concat_from : forall (ls : list (list A)) (pre post : list A) m,
    m < List.length ls ->
    apply_slice (nth m (slices_from (List.length pre) (map (@List.length A) ls)) (0, 0))
                (pre ++ List.concat ls ++ post) = nth m ls [].
  Proof.
    induction ls as [|g ls IH]; intros pre post m Hm; simpl in Hm; [lia|].
    destruct m as [|m].
    - simpl. unfold apply_slice. simpl.
      replace (List.length pre + List.length g - List.length pre) with (List.length g) by lia.
      rewrite skipn_app, skipn_all, Nat.sub_diag. simpl.
      rewrite <- app_assoc. rewrite firstn_app, firstn_all, Nat.sub_diag. simpl. apply app_nil_r.
    - cbn [map slices_from nth List.concat].
      replace (List.length pre + List.length g) with (List.length (pre ++ g)) by (rewrite app_length; reflexivity).
      replace (pre ++ (g ++ List.concat ls) ++ post) with ((pre ++ g) ++ List.concat ls ++ post).
      2:{ now rewrite <- !app_assoc. }
      apply IH. lia.
  Qed.

  Lemma apply_slice_concat : forall (ls : list (list A)) m, m < List.length ls ->
    apply_slice (nth m (slice_builder (map (@List.length A) ls)) (0, 0)) (List.concat ls) = nth m ls [].
  Proof.
    intros ls m Hm. rewrite slice_builder_from.
    pose proof (apply_slice_concat_from ls [] [] m Hm) as H. simpl in H.
    now rewrite app_nil_r in H.
  Qed.

  Lemma interleave_pair : forall (l w : list A) d m pre, m < List.length l -> List.length w = List.length l ->
    apply_slice (List.length pre + 2 * m, List.length pre + 2 * m + 2) (pre ++ interleave l w) = [nth m l d; nth m w d].
  Proof.
    induction l as [|a l IH]; intros w d m pre Hm Hw; simpl in Hm; [lia|].
    destruct w as [|b w]; simpl in Hw; [lia|].
    destruct m as [|m].
    - unfold apply_slice. simpl.
      replace (List.length pre + 0 + 2 - (List.length pre + 0)) with 2 by lia.
      rewrite Nat.add_0_r, skipn_app, skipn_all, Nat.sub_diag. reflexivity.
    - simpl interleave. simpl nth.
      replace (pre ++ a :: b :: interleave l w) with ((pre ++ [a; b]) ++ interleave l w).
      2:{ now rewrite <- app_assoc. }
      replace (List.length pre + 2 * S m) with (List.length (pre ++ [a; b]) + 2 * m).
      2:{ rewrite app_length. simpl. lia. }
      apply IH; lia.
  Qed.
End Generic.

Lemma prefixed_length : forall pre i gs, List.length (prefixed pre i gs) = List.length gs.
Proof. intros pre i gs; revert i. induction gs as [|g gs IH]; intros i; simpl; [reflexivity|]. now rewrite IH. Qed.

Lemma prefixed_nth : forall pre gs i m, m < List.length gs ->
  nth m (prefixed pre i gs) [] = map (fun s => (pre (i + m) ++ s)%string) (nth m gs []).
Proof.
  intros pre gs. induction gs as [|g gs IH]; intros i m Hm; simpl in Hm; [lia|].
  destruct m as [|m]; simpl.
  - now rewrite Nat.add_0_r.
  - rewrite IH by lia. now rewrite Nat.add_succ_r.
Qed.

Lemma prefixed_lengths : forall pre gs i,
  map (@List.length string) (prefixed pre i gs) = map (@List.length string) gs.
Proof.
  intros pre gs. induction gs as [|g gs IH]; intros i; simpl; [reflexivity|].
  now rewrite map_length, IH.
Qed.

(* a component whose label and bound lists have n_params entries *)
Definition wf (c : comp) : Prop :=
  List.length (c_labels c) = c_np c /\ List.length (c_bounds c) = c_np c.

Lemma wf_label_lengths : forall cs, Forall wf cs -> map (@List.length string) (map c_labels cs) = map c_np cs.
Proof.
  induction 1 as [|c cs [H1 _] _ IH]; simpl; [reflexivity|]. now rewrite H1, IH.
Qed.

Lemma wf_bound_lengths : forall cs, Forall wf cs -> map (@List.length (Q * Q)) (map c_bounds cs) = map c_np cs.
Proof.
  induction 1 as [|c cs [_ H2] _ IH]; simpl; [reflexivity|]. now rewrite H2, IH.
Qed.

Lemma concat_length_total : forall {A} (ls : list (list A)),
  List.length (List.concat ls) = total (map (@List.length A) ls).
Proof. induction ls as [|g ls IH]; simpl; [reflexivity|]. now rewrite app_length, IH. Qed.

(* ---- theorems used by Properties/C10.v ---- *)

Theorem slices_partition : forall {A} (lens : list nat) (l : list A), List.length l = total lens ->
  List.concat (map (fun s => apply_slice s l) (slice_builder lens)) = l
  /\ List.length (slice_builder lens) = List.length lens
  /\ (forall m, m < List.length lens ->
        List.length (apply_slice (nth m (slice_builder lens) (0, 0)) l) = nth m lens 0)
  /\ (forall m, S m < List.length lens ->
        snd (nth m (slice_builder lens) (0, 0)) = fst (nth (S m) (slice_builder lens) (0, 0)))
  /\ (0 < List.length lens -> fst (nth 0 (slice_builder lens) (0, 0)) = 0
        /\ snd (nth (List.length lens - 1) (slice_builder lens) (0, 0)) = total lens).
Proof.
  intros A lens l Hl. rewrite slice_builder_from. repeat split.
  - rewrite slices_partition_from. simpl. rewrite <- Hl. apply firstn_all.
  - apply slices_from_length.
  - intros m Hm.
    assert (Hn := slices_from_nth lens 0 m Hm).
    assert (Hw := slices_from_width lens 0 m Hm).
    rewrite apply_slice_length.
    + exact Hw.
    + rewrite Hn. cbn [fst snd]. rewrite Hl. pose proof (total_firstn_le lens (S m)). lia.
    + rewrite Hn. cbn [fst snd]. pose proof (total_firstn_mono lens m). lia.
  - intros m Hm. now apply slices_from_contiguous.
  - rewrite slices_from_nth by lia. reflexivity.
  - rewrite slices_from_nth by lia. cbn [fst snd].
    replace (S (List.length lens - 1)) with (List.length lens) by lia.
    now rewrite firstn_all.
Qed.

Theorem composite_concatenates : forall cs m, Forall wf cs -> m < List.length cs ->
  let s := nth m (composite_slices cs) (0, 0) in
  c_np (composite cs) = total (map c_np cs)
  /\ List.length (c_labels (composite cs)) = c_np (composite cs)
  /\ List.length (c_bounds (composite cs)) = c_np (composite cs)
  /\ snd s - fst s = c_np (nth m cs (mkComp 0 [] []))
  /\ apply_slice s (c_labels (composite cs))
     = map (fun l => (composite_pre m ++ l)%string) (c_labels (nth m cs (mkComp 0 [] [])))
  /\ apply_slice s (c_bounds (composite cs)) = c_bounds (nth m cs (mkComp 0 [] [])).
Proof.
  intros cs m Hwf Hm s. unfold s, composite_slices. simpl.
  unfold composite_np, composite_labels, composite_bounds.
  split; [reflexivity|]. split.
  { rewrite concat_length_total, prefixed_lengths. now rewrite wf_label_lengths. }
  split.
  { rewrite concat_length_total. now rewrite wf_bound_lengths. }
  split.
  { rewrite slice_builder_from, slices_from_width by (now rewrite map_length).
    change 0 with (c_np (mkComp 0 [] [])). now rewrite map_nth. }
  split.
  - rewrite <- (wf_label_lengths cs Hwf), <- (prefixed_lengths composite_pre _ 0).
    rewrite apply_slice_concat by (now rewrite prefixed_length, map_length).
    rewrite prefixed_nth by (now rewrite map_length). simpl.
    change (@nil string) with (c_labels (mkComp 0 [] [])). now rewrite map_nth.
  - rewrite <- (wf_bound_lengths cs Hwf).
    rewrite apply_slice_concat by (now rewrite map_length).
    change (@nil (Q * Q)) with (c_bounds (mkComp 0 [] [])). now rewrite map_nth.
Qed.

Lemma cp_slices_split : forall cs,
  cp_cov_slc cs = slices_from 0 (map c_np cs)
  /\ cp_cp_slc cs = slices_from (total (map c_np cs)) (repeat 2 (List.length cs - 1)).
Proof.
  intros cs. unfold cp_cov_slc, cp_cp_slc, cp_slices, cp_counts.
  rewrite slice_builder_from, slices_from_app. simpl.
  assert (HL : List.length (slices_from 0 (map c_np cs)) = List.length cs)
    by now rewrite slices_from_length, map_length.
  split.
  - rewrite <- HL at 1. rewrite firstn_app, firstn_all, Nat.sub_diag. simpl. apply app_nil_r.
  - rewrite <- HL at 1. rewrite skipn_app, skipn_all, Nat.sub_diag. reflexivity.
Qed.

Theorem changepoint_concatenates : forall cs loc wid, Forall wf cs ->
  List.length loc = List.length cs - 1 -> List.length wid = List.length cs - 1 ->
  let K := changepoint cs loc wid in
  let nk := total (map c_np cs) in
  c_np K = nk + 2 * (List.length cs - 1)
  /\ List.length (c_labels K) = c_np K /\ List.length (c_bounds K) = c_np K
  /\ (forall m, m < List.length cs ->
        let s := nth m (cp_cov_slc cs) (0, 0) in
        snd s - fst s = c_np (nth m cs (mkComp 0 [] []))
        /\ apply_slice s (c_labels K) = map (fun l => (cp_pre m ++ l)%string) (c_labels (nth m cs (mkComp 0 [] [])))
        /\ apply_slice s (c_bounds K) = c_bounds (nth m cs (mkComp 0 [] [])))
  /\ (forall m, m < List.length cs - 1 ->
        let s := nth m (cp_cp_slc cs) (0, 0) in
        s = (nk + 2 * m, nk + 2 * m + 2)
        /\ apply_slice s (c_labels K) = cp_point_labels m
        /\ apply_slice s (c_bounds K) = [nth m loc (0, 0)%Q; nth m wid (0, 0)%Q]).
Proof.
  intros cs loc wid Hwf Hloc Hwid K nk. subst nk.
  set (nk := total (map c_np cs)).
  destruct (cp_slices_split cs) as [Hcov Hcp].
  assert (Hlab : List.length (List.concat (prefixed cp_pre 0 (map c_labels cs))) = nk).
  { rewrite concat_length_total, prefixed_lengths. now rewrite wf_label_lengths. }
  assert (Hbnd : List.length (List.concat (map c_bounds cs)) = nk).
  { rewrite concat_length_total. now rewrite wf_bound_lengths. }
  assert (Hpl : forall n i, List.concat (map cp_point_labels (seq i n)) =
                            interleave (map (fun i => ("ChngPnt" ++ dec i ++ " location")%string) (seq i n))
                                       (map (fun i => ("ChngPnt" ++ dec i ++ " width")%string) (seq i n))).
  { induction n as [|n IH]; intros i; simpl; [reflexivity|]. now rewrite IH. }
  assert (Hil : forall {A} (l w : list A), List.length w = List.length l ->
                                           List.length (interleave l w) = 2 * List.length l).
  { intros A l. induction l as [|a l IH]; intros [|b w] Hw; simpl in *; try lia. rewrite IH by lia. lia. }
  unfold K. cbn [c_np c_labels c_bounds changepoint]. cbv zeta. unfold cp_np, cp_counts, cp_labels, cp_bounds.
  rewrite total_app, total_repeat. fold nk.
  unfold nk in *. clear nk.
  split; [lia|]. split.
  { rewrite concat_app, app_length, Hlab, Hpl, Hil by (now rewrite !map_length).
    rewrite map_length, seq_length. lia. }
  split.
  { rewrite app_length, Hbnd, Hil by lia. lia. }
  split.
  - intros m Hm. rewrite Hcov. split.
    { rewrite slices_from_width by (now rewrite map_length).
      change 0 with (c_np (mkComp 0 [] [])). now rewrite map_nth. }
    split.
    + rewrite concat_app.
      rewrite <- (wf_label_lengths cs Hwf), <- (prefixed_lengths cp_pre _ 0).
      pose proof (apply_slice_concat_from (prefixed cp_pre 0 (map c_labels cs)) []
                    (List.concat (map cp_point_labels (seq 0 (List.length cs - 1)))) m) as H.
      simpl in H. rewrite H by (now rewrite prefixed_length, map_length).
      rewrite prefixed_nth by (now rewrite map_length). simpl.
      change (@nil string) with (c_labels (mkComp 0 [] [])). now rewrite map_nth.
    + rewrite <- (wf_bound_lengths cs Hwf).
      pose proof (apply_slice_concat_from (map c_bounds cs) [] (interleave loc wid) m) as H.
      simpl in H. rewrite H by (now rewrite map_length).
      change (@nil (Q * Q)) with (c_bounds (mkComp 0 [] [])). now rewrite map_nth.
  - intros m Hm. rewrite Hcp, slices_from_repeat2 by lia. split; [reflexivity|]. split.
    + rewrite concat_app, Hpl. rewrite <- Hlab.
      rewrite (interleave_pair _ _ ""%string) by (rewrite ?map_length, ?seq_length; lia).
      rewrite !(nth_indep _ ""%string ((fun i => ("ChngPnt" ++ dec i ++ " location")%string) 0))
        by (rewrite map_length, seq_length; lia).
      rewrite (map_nth (fun i => ("ChngPnt" ++ dec i ++ " location")%string)).
      rewrite (nth_indep _ _ ((fun i => ("ChngPnt" ++ dec i ++ " width")%string) 0))
        by (rewrite map_length, seq_length; lia).
      rewrite (map_nth (fun i => ("ChngPnt" ++ dec i ++ " width")%string)).
      rewrite seq_nth by lia. reflexivity.
    + rewrite <- Hbnd. apply interleave_pair; lia.
Qed.
