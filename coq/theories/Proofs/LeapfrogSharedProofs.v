(* Lemmas about Model/LeapfrogShared.v: as long as the library leaves the array
   returned by the gradient callable as it was returned (the statement kick_stmt),
   the trajectory in the shared world is the trajectory of Model/Leapfrog.v, for
   every kind of callable and over every call history -- hence reversible etc. by
   the theorems of Proofs/LeapfrogProofs.v; scaling the returned array in place
   (kick_stmt_inplace) breaks all of it. *)
From Coq Require Import List QArith Qround Qabs ZArith Bool Lia Setoid Morphisms.
From IT Require Import Model.Leapfrog Model.LeapfrogShared Proofs.LeapfrogProofs.
Import ListNotations.
Open Scope Q_scope.

Lemma veqb_sound : forall a b, veqb a b = true -> a =v= b.
Proof.
  induction a as [|x a IH]; destruct b as [|y b]; simpl; intros H; try discriminate.
  - constructor.
  - apply andb_prop in H. destruct H as [H1 H2]. constructor.
    + apply Qeq_bool_iff. exact H1.
    + apply IH. exact H2.
Qed.

Section SharedProofs.
  Variable grad : vec -> vec.
  Variable m : mass.
  Variable inv_temp eps : Q.
  Hypothesis grad_proper : forall t t', t =v= t' -> grad t =v= grad t'.

  (* a call of a correct callable returns the gradient, and the callable stays
     correct if the array is left as returned *)
  Lemma kcall_spec : forall k t, kinv grad k ->
    snd (kcall grad k t) =v= grad t /\
    kinv grad (kwb (fst (kcall grad k t)) (snd (kcall grad k t))).
  Proof.
    intros k t Hk. destruct k as [|g|[[p a]|]|b]; simpl in *.
    - split; [reflexivity | exact I].
    - split; [symmetry; apply Hk | exact Hk].
    - destruct (veqb p t) eqn:E; simpl.
      + split; [|exact Hk].
        etransitivity; [exact Hk|]. apply grad_proper. apply veqb_sound. exact E.
      + split; reflexivity.
    - split; reflexivity.
    - split; [reflexivity | exact I].
  Qed.

  Lemma skick_eq : forall h k t r,
    skick grad kick_stmt h (k, (t, r)) =
    (kwb (fst (kcall grad k t)) (snd (kcall grad k t)), (t, vaxpy r h (snd (kcall grad k t)))).
  Proof. intros h k t r. unfold skick. destruct (kcall grad k t) as [k1 g]. reflexivity. Qed.

  (* the world w carries a correct callable and the state s (up to ==) *)
  Definition wrel (w : world) (s : state) : Prop := kinv grad (fst w) /\ snd w =s= s.

  Lemma skick_rel : forall h w s, wrel w s -> wrel (skick grad kick_stmt h w) (kick grad h s).
  Proof.
    intros h [k [t r]] [t' r'] [Hk [Ht Hr]]. simpl in Hk, Ht, Hr.
    rewrite skick_eq. destruct (kcall_spec k t Hk) as [Hg Hk'].
    split; [exact Hk'|]. split; simpl; [exact Ht|].
    apply vaxpy_proper; [exact Hr | reflexivity |].
    etransitivity; [exact Hg | apply grad_proper; exact Ht].
  Qed.

  Lemma sdrift_rel : forall w s, wrel w s -> wrel (sdrift m eps w) (drift m eps s).
  Proof.
    intros [k s0] s [Hk Hs]. split; [exact Hk|]. simpl. apply drift_proper. exact Hs.
  Qed.

  Lemma iter_rel : forall (F : world -> world) (f : state -> state),
    (forall w s, wrel w s -> wrel (F w) (f s)) ->
    forall n w s, wrel w s -> wrel (Nat.iter n F w) (Nat.iter n f s).
  Proof. intros F f H n. induction n; intros w s Hw; simpl; auto. Qed.

  Lemma shared_leapfrog_rel : forall k t r n, kinv grad k ->
    wrel (shared_standard_leapfrog grad kick_stmt m inv_temp eps k t r n)
         (standard_leapfrog grad m inv_temp eps t r n).
  Proof.
    intros k t r n Hk. unfold shared_standard_leapfrog, standard_leapfrog.
    apply skick_rel. apply sdrift_rel. apply iter_rel.
    - intros w s Hw. unfold sinner, inner. apply skick_rel. apply sdrift_rel. exact Hw.
    - apply skick_rel. split; [exact Hk | reflexivity].
  Qed.

  Variable lo hi : vec.

  Lemma sbdrift_rel : forall w s, wrel w s -> wrel (sbdrift m eps lo hi w) (bdrift m eps lo hi s).
  Proof.
    intros [k s0] s [Hk Hs]. split; [exact Hk|]. simpl. apply bdrift_proper. exact Hs.
  Qed.

  Lemma shared_bounded_leapfrog_rel : forall k t r n, kinv grad k ->
    wrel (shared_bounded_leapfrog grad kick_stmt m inv_temp eps lo hi k t r n)
         (bounded_leapfrog grad m inv_temp eps lo hi t r n).
  Proof.
    intros k t r n Hk. unfold shared_bounded_leapfrog, bounded_leapfrog.
    apply skick_rel. apply sbdrift_rel. apply iter_rel.
    - intros w s Hw. unfold sbinner, binner. apply skick_rel. apply sbdrift_rel. exact Hw.
    - apply skick_rel. split; [exact Hk | reflexivity].
  Qed.

  (* --- call histories --- *)
  Definition answers (pure : vec -> vec -> nat -> state) (s : state) (q : request) : Prop :=
    let '(t, r, n) := q in s =s= pure t r n.

  Lemma run_seq_rel : forall (traj : keeper -> vec -> vec -> nat -> world)
                             (pure : vec -> vec -> nat -> state),
    (forall k t r n, kinv grad k -> wrel (traj k t r n) (pure t r n)) ->
    forall reqs k, kinv grad k ->
    kinv grad (fst (run_seq traj k reqs)) /\
    Forall2 (answers pure) (snd (run_seq traj k reqs)) reqs.
  Proof.
    intros traj pure H reqs. induction reqs as [|[[t r] n] qs IH]; intros k Hk; simpl.
    - split; [exact Hk | constructor].
    - destruct (H k t r n Hk) as [Hk1 Hs1].
      specialize (IH (fst (traj k t r n)) Hk1).
      destruct (run_seq traj (fst (traj k t r n)) qs) as [k' ss]. simpl in *.
      destruct IH as [IH1 IH2]. split; [exact IH1|]. constructor; [exact Hs1 | exact IH2].
  Qed.

  (* --- reversibility in the shared world (same callable for both runs) --- *)
  Lemma shared_leapfrog_reversible : forall k n t r, kinv grad k ->
    let w1 := shared_standard_leapfrog grad kick_stmt m inv_temp eps k t r n in
    let w2 := shared_standard_leapfrog grad kick_stmt m inv_temp eps (fst w1)
                (fst (snd w1)) (vneg (snd (snd w1))) n in
    flip (snd w2) =s= (t, r) /\ kinv grad (fst w2).
  Proof.
    intros k n t r Hk w1 w2.
    destruct (shared_leapfrog_rel k t r n Hk) as [Hk1 Hs1]. fold w1 in Hk1, Hs1.
    destruct (shared_leapfrog_rel (fst w1) (fst (snd w1)) (vneg (snd (snd w1))) n Hk1) as [Hk2 Hs2].
    fold w2 in Hk2, Hs2. split; [|exact Hk2].
    set (s1 := standard_leapfrog grad m inv_temp eps t r n) in *.
    destruct Hs1 as [H1t H1r].
    etransitivity; [apply flip_proper; exact Hs2|].
    etransitivity.
    { apply flip_proper.
      apply (leapfrog_proper grad m inv_temp eps grad_proper n _ (fst s1) _ (vneg (snd s1))).
      - exact H1t.
      - apply vneg_proper. exact H1r. }
    apply (leapfrog_reversible grad m inv_temp eps grad_proper n t r).
  Qed.

  Lemma bounded_leapfrog_proper : forall n t t' r r', t =v= t' -> r =v= r' ->
    bounded_leapfrog grad m inv_temp eps lo hi t r n =s=
    bounded_leapfrog grad m inv_temp eps lo hi t' r' n.
  Proof.
    intros n t t' r r' Ht Hr.
    rewrite !(bounded_leapfrog_is_bkdk_power grad m inv_temp eps lo hi grad_proper).
    apply iter_proper; [apply bkdk_proper; exact grad_proper | split; auto].
  Qed.

  Lemma shared_bounded_leapfrog_reversible : forall k n t r, kinv grad k ->
    diagonal_mass m ->
    (forall j, (j < Nat.max 1 n)%nat ->
       interior lo hi (fst (Nat.iter j (bkdk grad m inv_temp eps lo hi) (t, r)))) ->
    let w1 := shared_bounded_leapfrog grad kick_stmt m inv_temp eps lo hi k t r n in
    let w2 := shared_bounded_leapfrog grad kick_stmt m inv_temp eps lo hi (fst w1)
                (fst (snd w1)) (vneg (snd (snd w1))) n in
    flip (snd w2) =s= (t, r) /\ kinv grad (fst w2).
  Proof.
    intros k n t r Hk Hd Hin w1 w2.
    destruct (shared_bounded_leapfrog_rel k t r n Hk) as [Hk1 Hs1]. fold w1 in Hk1, Hs1.
    destruct (shared_bounded_leapfrog_rel (fst w1) (fst (snd w1)) (vneg (snd (snd w1))) n Hk1)
      as [Hk2 Hs2].
    fold w2 in Hk2, Hs2. split; [|exact Hk2].
    set (s1 := bounded_leapfrog grad m inv_temp eps lo hi t r n) in *.
    destruct Hs1 as [H1t H1r].
    etransitivity; [apply flip_proper; exact Hs2|].
    etransitivity.
    { apply flip_proper.
      apply (bounded_leapfrog_proper n _ (fst s1) _ (vneg (snd s1))).
      - exact H1t.
      - apply vneg_proper. exact H1r. }
    apply (bounded_leapfrog_reversible grad m inv_temp eps lo hi grad_proper Hd n t r Hin).
  Qed.
End SharedProofs.

(* --- a stored vector is left bit for bit as it was (no hypothesis at all) --------- *)
Section Untouched.
  Variable grad : vec -> vec.
  Variable m : mass.
  Variable inv_temp eps : Q.

  Definition stored_is (g : vec) (w : world) : Prop := fst w = KStored g.

  Lemma skick_stored : forall g h w, stored_is g w -> stored_is g (skick grad kick_stmt h w).
  Proof.
    intros g h [k [t r]] H. unfold stored_is in *. simpl in H. subst k. reflexivity.
  Qed.

  Lemma sdrift_stored : forall g w, stored_is g w -> stored_is g (sdrift m eps w).
  Proof. intros g w H. exact H. Qed.

  Lemma sbdrift_stored : forall lo hi g w, stored_is g w -> stored_is g (sbdrift m eps lo hi w).
  Proof. intros lo hi g w H. exact H. Qed.

  Lemma iter_stored : forall g (F : world -> world),
    (forall w, stored_is g w -> stored_is g (F w)) ->
    forall n w, stored_is g w -> stored_is g (Nat.iter n F w).
  Proof. intros g F H n. induction n; intros w Hw; simpl; auto. Qed.

  Lemma stored_untouched : forall g t r n,
    fst (shared_standard_leapfrog grad kick_stmt m inv_temp eps (KStored g) t r n) = KStored g.
  Proof.
    intros g t r n. unfold shared_standard_leapfrog.
    apply (skick_stored g). apply sdrift_stored.
    apply (iter_stored g).
    - intros w Hw. unfold sinner. apply skick_stored. apply sdrift_stored. exact Hw.
    - apply skick_stored. reflexivity.
  Qed.

  Lemma stored_untouched_bounded : forall lo hi g t r n,
    fst (shared_bounded_leapfrog grad kick_stmt m inv_temp eps lo hi (KStored g) t r n) = KStored g.
  Proof.
    intros lo hi g t r n. unfold shared_bounded_leapfrog.
    apply (skick_stored g). apply sbdrift_stored.
    apply (iter_stored g).
    - intros w Hw. unfold sbinner. apply skick_stored. apply sbdrift_stored. exact Hw.
    - apply skick_stored. reflexivity.
  Qed.
End Untouched.

(* --- scaling the returned array in place: everything fails ------------------------- *)
(* log-density -x (gradient -1 at every point, the callable returns its stored [-1]),
   unit mass, T = 1, eps = 1/2, two steps from (0, 1) *)
Lemma inplace_scaling_refuted :
  exists (g t r : vec) (eps : Q) (n : nat),
    let grad := fun _ : vec => g in
    let run := shared_standard_leapfrog grad kick_stmt_inplace (ScalarMass 1) 1 eps in
    let w1 := run (KStored g) t r n in
    let w2 := run (fst w1) (fst (snd w1)) (vneg (snd (snd w1))) n in
    let w1' := run (fst w1) t r n in
    kinv grad (KStored g) /\
    (* the caller's vector has been changed *)
    kept (fst w1) <> Some g /\
    (* the trajectory is not the leapfrog trajectory of the log-density *)
    ~ snd w1 =s= standard_leapfrog grad (ScalarMass 1) 1 eps t r n /\
    (* not reversible *)
    ~ flip (snd w2) =s= (t, r) /\
    (* the same request a second time gives something else *)
    ~ snd w1' =s= snd w1.
Proof.
  exists [-1], [0], [1], (1 # 2), 2%nat. cbv zeta. split; [|split; [|split; [|split]]].
  - intros t. simpl. constructor; [reflexivity | constructor].
  - vm_compute. intro H. discriminate H.
  - intro H. apply state_eqb_complete in H. vm_compute in H. discriminate.
  - intro H. apply state_eqb_complete in H. vm_compute in H. discriminate.
  - intro H. apply state_eqb_complete in H. vm_compute in H. discriminate.
Qed.
