(* Positive semi-definiteness is closed under the operations by which
   inference/gp/covariance.py combines kernels (property C10).

   psd k: for every finite list of (coefficient, point) pairs,
            sum_a sum_b c_a c_b k(x_a, x_b) >= 0.
   PSD of the squared-exponential and rational-quadratic base kernels themselves is a
   classical fact that is NOT proved here; it appears as a hypothesis. *)
From Coq Require Import Reals List Arith Lia Lra.
From IT Require Import Model.Slices RealModel.Kernels Proofs.SlicesProofs Proofs.KernelsProofs.
Import ListNotations.
Open Scope R_scope.

Section Psd.
  Context {A : Type}.

  Definition qf (k : A -> A -> R) (l : list (R * A)) : R :=
    lsum (map (fun a => lsum (map (fun b => fst a * fst b * k (snd a) (snd b)) l)) l).

  Definition psd (k : A -> A -> R) : Prop := forall l : list (R * A), 0 <= qf k l.

  Lemma lsum_map_ext_in : forall {B} (l : list B) f g, (forall x, In x l -> f x = g x) ->
    lsum (map f l) = lsum (map g l).
  Proof.
    intros B. induction l as [|x l IH]; intros f g H; simpl; [reflexivity|].
    rewrite (H x) by now left. f_equal. apply IH. intros y Hy. apply H. now right.
  Qed.

  Lemma lsum_map_plus : forall {B} (l : list B) f g,
    lsum (map (fun x => f x + g x) l) = lsum (map f l) + lsum (map g l).
  Proof. intros B. induction l as [|x l IH]; intros; simpl; [ring|]. rewrite IH. ring. Qed.

  Lemma lsum_map_scal : forall {B} (l : list B) c f,
    lsum (map (fun x => c * f x) l) = c * lsum (map f l).
  Proof. intros B. induction l as [|x l IH]; intros; simpl; [ring|]. rewrite IH. ring. Qed.

  Lemma qf_ext_in : forall k k' l,
    (forall a b, In a l -> In b l -> k (snd a) (snd b) = k' (snd a) (snd b)) -> qf k l = qf k' l.
  Proof.
    intros k k' l H. unfold qf. apply lsum_map_ext_in. intros a Ha.
    apply lsum_map_ext_in. intros b Hb. now rewrite H.
  Qed.

  Lemma psd_ext : forall k k', (forall a b, k a b = k' a b) -> psd k -> psd k'.
  Proof. intros k k' H Hk l. rewrite <- (qf_ext_in k k'); [apply Hk|]. intros; apply H. Qed.

  Lemma psd_zero : psd (fun _ _ => 0).
  Proof.
    intros l. unfold qf. right. symmetry.
    rewrite (lsum_map_ext_in l _ (fun _ => 0 * 0)).
    - rewrite (lsum_map_scal l 0 (fun _ => 0)). ring.
    - intros a _. rewrite (lsum_map_ext_in l _ (fun _ => 0 * 0)).
      + rewrite (lsum_map_scal l 0 (fun _ => 0)). ring.
      + intros; ring.
  Qed.

  Lemma qf_plus : forall k1 k2 l, qf (fun a b => k1 a b + k2 a b) l = qf k1 l + qf k2 l.
  Proof.
    intros. unfold qf. rewrite <- lsum_map_plus. apply lsum_map_ext_in. intros a _.
    rewrite <- lsum_map_plus. apply lsum_map_ext_in. intros b _. ring.
  Qed.

  (* sums of PSD kernels *)
  Lemma psd_plus : forall k1 k2, psd k1 -> psd k2 -> psd (fun a b => k1 a b + k2 a b).
  Proof. intros k1 k2 H1 H2 l. rewrite qf_plus. specialize (H1 l). specialize (H2 l). lra. Qed.

  (* products with g(u) g(v) *)
  Lemma qf_gg : forall k g l,
    qf (fun a b => k a b * (g a * g b)) l = qf k (map (fun ca => (fst ca * g (snd ca), snd ca)) l).
  Proof.
    intros. unfold qf. rewrite map_map. apply lsum_map_ext_in. intros a _.
    rewrite map_map. apply lsum_map_ext_in. intros b _. simpl. ring.
  Qed.

  Lemma psd_gg : forall k g, psd k -> psd (fun a b => k a b * (g a * g b)).
  Proof. intros k g H l. rewrite qf_gg. apply H. Qed.

  Lemma psd_scale : forall k c, 0 <= c -> psd k -> psd (fun a b => c * k a b).
  Proof.
    intros k c Hc H l. unfold qf.
    rewrite (lsum_map_ext_in l _ (fun a => c * lsum (map (fun b => fst a * fst b * k (snd a) (snd b)) l))).
    - rewrite lsum_map_scal. apply Rmult_le_pos; [exact Hc|apply H].
    - intros a _. rewrite <- lsum_map_scal. apply lsum_map_ext_in. intros b _. ring.
  Qed.

  (* rank one: g(u) g(v) *)
  Lemma psd_rank1 : forall g, psd (fun a b => g a * g b).
  Proof.
    intros g l. unfold qf.
    set (S := lsum (map (fun a => fst a * g (snd a)) l)).
    rewrite (lsum_map_ext_in l _ (fun a => (fst a * g (snd a)) * S)).
    - rewrite (lsum_map_ext_in l _ (fun a => S * (fst a * g (snd a)))) by (intros; ring).
      rewrite lsum_map_scal. fold S. nra.
    - intros a _. unfold S. rewrite <- lsum_map_scal. apply lsum_map_ext_in. intros b _. ring.
  Qed.
End Psd.

(* pulling a kernel back along a map (Gram matrix of the points x_i) *)
Lemma psd_pull : forall {A B} (k : B -> B -> R) (f : A -> B), psd k -> psd (fun a b => k (f a) (f b)).
Proof.
  intros A B k f H l.
  replace (qf (fun a b => k (f a) (f b)) l) with (qf k (map (fun ca => (fst ca, f (snd ca))) l)); [apply H|].
  unfold qf. rewrite map_map. apply lsum_map_ext_in. intros a _.
  rewrite map_map. reflexivity.
Qed.

(* non-negative diagonal matrices (noise variances, jitter) *)
Lemma psd_diag_below : forall (d : nat -> R) N, (forall i, 0 <= d i) ->
  psd (fun i j : nat => if Nat.ltb i N then d i * delta i j else 0).
Proof.
  intros d N Hd. induction N as [|N IH].
  - apply (psd_ext (fun _ _ => 0)); [reflexivity|apply psd_zero].
  - apply (psd_ext (fun i j => (if Nat.ltb i N then d i * delta i j else 0)
                               + d N * ((if Nat.eqb i N then 1 else 0) * (if Nat.eqb j N then 1 else 0)))).
    + intros i j. unfold delta.
      destruct (Nat.ltb_spec i N), (Nat.ltb_spec i (S N)), (Nat.eqb_spec i N), (Nat.eqb_spec j N),
        (Nat.eqb_spec i j); try lia; subst; ring.
    + apply psd_plus; [exact IH|]. apply psd_scale; [apply Hd|]. apply psd_rank1.
Qed.

Lemma psd_diag_nat : forall d : nat -> R, (forall i, 0 <= d i) -> psd (fun i j : nat => d i * delta i j).
Proof.
  intros d Hd l.
  set (N := S (list_max (map snd l))).
  rewrite (qf_ext_in _ (fun i j : nat => if Nat.ltb i N then d i * delta i j else 0)).
  - now apply psd_diag_below.
  - intros a b Ha _.
    assert (snd a < N)%nat.
    { unfold N. pose proof (proj1 (list_max_le (map snd l) (list_max (map snd l))) (Nat.le_refl _)) as Hall.
      rewrite Forall_forall in Hall. specialize (Hall (snd a) (in_map snd l a Ha)). lia. }
    destruct (Nat.ltb_spec (snd a) N); [reflexivity|lia].
Qed.

(* ------------------------------------------------------------------ *)
(* kernels of the model                                                 *)

Definition kpsd (K : kernel) : Prop := forall th, psd (kval K th).
Definition bpsd (K : kernel) : Prop := forall xs th, psd (fun i j : nat => kbuild K xs th i j).

Lemma bpsd_of_bep : forall K, bep K -> kpsd K -> (forall xs th i, 0 <= kdiag K xs th i) -> bpsd K.
Proof.
  intros K Hb Hk Hd xs th.
  apply (psd_ext (fun i j => kval K th (point xs i) (point xs j) + kdiag K xs th i * delta i j)).
  - intros i j. symmetry. apply Hb.
  - apply psd_plus.
    + apply (psd_pull (kval K th) (point xs)). apply Hk.
    + apply psd_diag_nat. apply Hd.
Qed.

Lemma wn_kpsd : kpsd wn.
Proof. intros th. apply psd_zero. Qed.
Lemma hn_kpsd : forall n, kpsd (hn n).
Proof. intros n th. apply psd_zero. Qed.

Lemma se_diag_nonneg : forall xs th i, 0 <= se_diag xs th i.
Proof.
  intros. unfold se_diag, jitter. pose proof (exp_pos (par th 0)).
  apply Rmult_le_pos; [nra|lra].
Qed.

Lemma se_bpsd : forall d, kpsd (se d) -> bpsd (se d).
Proof. intros d H. apply bpsd_of_bep; [apply se_bep|exact H|apply se_diag_nonneg]. Qed.
Lemma rq_bpsd : forall d, kpsd (rq d) -> bpsd (rq d).
Proof. intros d H. apply bpsd_of_bep; [apply rq_bep|exact H|apply se_diag_nonneg]. Qed.
Lemma wn_bpsd : bpsd wn.
Proof.
  apply bpsd_of_bep; [apply wn_bep|apply wn_kpsd|]. intros. simpl. unfold wn_diag. apply Rlt_le, exp_pos.
Qed.
Lemma hn_bpsd : forall n, bpsd (hn n).
Proof.
  intros n. apply bpsd_of_bep; [apply hn_bep|apply hn_kpsd|]. intros. simpl. unfold hn_diag. apply Rlt_le, exp_pos.
Qed.

(* sums *)
Lemma psd_each_lsum : forall {A} ks sls (F : kernel -> list R -> A -> A -> R) th,
  (forall k t, In k ks -> psd (F k t)) ->
  psd (fun a b => lsum (each ks sls (fun k t => F k t a b) th)).
Proof.
  intros A. induction ks as [|k kr IH]; intros [|s sr] F th H; simpl; try apply psd_zero.
  apply psd_plus; [apply H; now left|]. apply IH. intros k' t Hk. apply H. now right.
Qed.

Lemma sum_kpsd : forall ks, List.Forall kpsd ks -> kpsd (ksum ks).
Proof.
  intros ks H th. simpl. rewrite Forall_forall in H.
  apply (psd_each_lsum ks (sum_slices ks) (fun k t => kval k t) th). intros k t Hk. now apply H.
Qed.

Lemma sum_bpsd : forall ks, List.Forall bpsd ks -> bpsd (ksum ks).
Proof.
  intros ks H xs th. simpl. rewrite Forall_forall in H.
  apply (psd_each_lsum ks (sum_slices ks) (fun k t i j => kbuild k xs t i j) th). intros k t Hk. now apply H.
Qed.

(* change-points: every coefficient has the form g(u) g(v) *)
Lemma psd_each_wsum : forall {A} (h : A -> R) ks sls (F : kernel -> list R -> A -> A -> R) th cps (gl : R -> R),
  (forall k t, In k ks -> psd (F k t)) ->
  psd (fun a b => wsum (each ks sls (fun k t => F k t a b) th)
                       (coeffs_from (gl (h a) * gl (h b)) cps (h a) (h b))).
Proof.
  intros A h. induction ks as [|k kr IH]; intros [|s sr] F th cps gl H; simpl; try apply psd_zero.
  destruct cps as [|cw r]; simpl.
    + apply psd_plus.
      * apply (psd_gg (F k (apply_slice s th)) (fun a => gl (h a))). apply H. now left.
      * apply (psd_ext (fun _ _ => 0)); [intros; now rewrite wsum_nil_r|apply psd_zero].
    + apply psd_plus.
      * apply (psd_ext (fun a b => F k (apply_slice s th) a b *
                  ((gl (h a) * (1 - logistic (fst cw) (snd cw) (h a))) * (gl (h b) * (1 - logistic (fst cw) (snd cw) (h b)))))).
        { intros a b. unfold cp_a. ring. }
        apply (psd_gg (F k (apply_slice s th)) (fun a => gl (h a) * (1 - logistic (fst cw) (snd cw) (h a)))).
        apply H. now left.
      * unfold cp_b. apply (IH sr F th r (fun x => logistic (fst cw) (snd cw) x)).
        intros k' t Hk. apply H. now right.
Qed.

Lemma cp_kpsd : forall ax ks, List.Forall kpsd ks -> kpsd (kcp ax ks).
Proof.
  intros ax ks H th. cbn [kval kcp]. unfold cp_val, coeffs. rewrite Forall_forall in H.
  apply (psd_ext (fun u v => wsum (each ks (cov_slc ks) (fun k t => kval k t u v) th)
                                  (coeffs_from ((fun _ => 1) (coord u ax) * (fun _ => 1) (coord v ax))
                                               (cp_params ks th) (coord u ax) (coord v ax)))).
  { intros u v. f_equal. f_equal. ring. }
  apply (psd_each_wsum (fun u : pt => coord u ax) ks (cov_slc ks) (fun k t => kval k t) th (cp_params ks th) (fun _ => 1)).
  intros k t Hk. now apply H.
Qed.

Lemma cp_bpsd : forall ax ks, List.Forall bpsd ks -> bpsd (kcp ax ks).
Proof.
  intros ax ks H xs th. cbn [kbuild kcp]. unfold cp_build, coeffs. rewrite Forall_forall in H.
  apply (psd_ext (fun i j => wsum (each ks (cov_slc ks) (fun k t => kbuild k xs t i j) th)
                                  (coeffs_from ((fun _ => 1) (coord (point xs i) ax) * (fun _ => 1) (coord (point xs j) ax))
                                               (cp_params ks th) (coord (point xs i) ax) (coord (point xs j) ax)))).
  { intros i j. f_equal. f_equal. ring. }
  apply (psd_each_wsum (fun i : nat => coord (point xs i) ax) ks (cov_slc ks) (fun k t i j => kbuild k xs t i j) th (cp_params ks th) (fun _ => 1)).
  intros k t Hk. now apply H.
Qed.
