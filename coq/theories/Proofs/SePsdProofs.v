(* Proofs/SePsdProofs.v -- the squared-exponential kernel of covariance.py is positive
   semi-definite (property C10), in any dimension and for any hyper-parameters.

     se_val d th u v = a^2 * exp( - 1/2 * sum_k ((u_k - v_k) / l_k)^2 )
                     = a^2 * g(u) * g(v) * exp( <p(u), p(v)> ),     p(u)_k = u_k / l_k,
                                                                    g(u) = exp(- |p(u)|^2 / 2)

   * <p(u), p(v)> is a FINITE-FEATURE kernel  ffk Phi u v = sum_{phi in Phi} phi(u) phi(v);
   * the product of a PSD kernel with a finite-feature kernel is PSD (sum of kernels
     k(u,v) phi(u) phi(v), psd_gg) -- the Schur product theorem in the form needed here;
   * hence every power of a finite-feature kernel is PSD, and so is every partial sum
     expsum N of the exponential series (non-negative coefficients);
   * a pointwise limit of PSD kernels is PSD (the quadratic form is a finite sum of entries);
     exp(x) = lim expsum N x (the definition of exp in Rtrigo_def);
   * products with g(u) g(v) and non-negative factors keep PSD.

   Consequently build_covariance of the squared-exponential kernel (se_bpsd of PsdProofs.v
   needed this as a hypothesis), and __call__ Gram matrices / build_covariance of every
   kernel built from squared-exponential and noise kernels by sums and change-points, with
   any nesting, are positive semi-definite: se_noise_tree_psd. *)
From Coq Require Import Reals List Arith Lia Lra.
From Coquelicot Require Import Coquelicot.
From IT Require Import Model.Slices RealModel.Kernels Proofs.SlicesProofs Proofs.KernelsProofs Proofs.PsdProofs.
Import ListNotations.
Open Scope R_scope.

(* ------------------------------------------------------------------ *)
(* finite-feature kernels and the Schur product with them               *)

Definition ffk {A : Type} (Phi : list (A -> R)) (u v : A) : R :=
  lsum (map (fun phi => phi u * phi v) Phi).

Lemma psd_mul_ffk : forall {A : Type} (k : A -> A -> R) (Phi : list (A -> R)),
  psd k -> psd (fun u v => k u v * ffk Phi u v).
Proof.
  intros A k Phi Hk. induction Phi as [|phi Phi IH].
  - apply (psd_ext (fun _ _ => 0)); [|apply psd_zero].
    intros u v. unfold ffk. simpl. ring.
  - apply (psd_ext (fun u v => k u v * (phi u * phi v) + k u v * ffk Phi u v)).
    + intros u v. unfold ffk. simpl. ring.
    + apply psd_plus; [now apply psd_gg|exact IH].
Qed.

Lemma psd_pow_ffk : forall {A : Type} (Phi : list (A -> R)) n, psd (fun u v => ffk Phi u v ^ n).
Proof.
  intros A Phi n. induction n as [|n IH].
  - apply (psd_ext (fun u v : A => (fun _ => 1) u * (fun _ => 1) v)); [|apply psd_rank1].
    intros u v. simpl. ring.
  - apply (psd_ext (fun u v => ffk Phi u v ^ n * ffk Phi u v)).
    + intros u v. simpl. ring.
    + now apply psd_mul_ffk.
Qed.

(* ------------------------------------------------------------------ *)
(* partial sums of the exponential series                               *)

Fixpoint expsum (N : nat) (x : R) : R :=
  match N with
  | O => 1
  | S n => expsum n x + / INR (fact (S n)) * x ^ (S n)
  end.

Lemma expsum_sum_f : forall N x, expsum N x = sum_f_R0 (fun i => / INR (fact i) * x ^ i) N.
Proof.
  intros N x. induction N as [|n IH].
  - simpl. field.
  - cbn [expsum sum_f_R0]. now rewrite IH.
Qed.

(* exp x is by definition (Rtrigo_def.exist_exp) the sum of this series *)
Lemma expsum_lim : forall x, is_lim_seq (fun N => expsum N x) (exp x).
Proof.
  intros x. apply is_lim_seq_Reals.
  pose proof (proj2_sig (exist_exp x)) as H. fold (exp x) in H. unfold exp_in, infinite_sum in H.
  intros eps Heps. destruct (H eps Heps) as [N HN]. exists N. intros n Hn.
  rewrite expsum_sum_f. now apply HN.
Qed.

Lemma psd_expsum_ffk : forall {A : Type} (Phi : list (A -> R)) N,
  psd (fun u v => expsum N (ffk Phi u v)).
Proof.
  intros A Phi N. induction N as [|n IH].
  - apply (psd_ext (fun u v : A => (fun _ => 1) u * (fun _ => 1) v)); [|apply psd_rank1].
    intros u v. simpl. ring.
  - cbn [expsum]. apply psd_plus; [exact IH|].
    apply psd_scale; [|apply psd_pow_ffk].
    apply Rlt_le, Rinv_0_lt_compat, INR_fact_lt_0.
Qed.

(* ------------------------------------------------------------------ *)
(* pointwise limits of PSD kernels                                      *)

Lemma lim_lsum_map : forall {B : Type} (l : list B) (f : nat -> B -> R) (g : B -> R),
  (forall b, In b l -> is_lim_seq (fun N => f N b) (g b)) ->
  is_lim_seq (fun N => lsum (map (f N) l)) (lsum (map g l)).
Proof.
  intros B l f g. induction l as [|b l IH]; intros H.
  - simpl. apply is_lim_seq_const.
  - simpl. apply (is_lim_seq_plus' (fun N => f N b) (fun N => lsum (map (f N) l))).
    + apply H. now left.
    + apply IH. intros b' Hb'. apply H. now right.
Qed.

Lemma qf_lim : forall {A : Type} (kN : nat -> A -> A -> R) (k : A -> A -> R) (l : list (R * A)),
  (forall u v, is_lim_seq (fun N => kN N u v) (k u v)) ->
  is_lim_seq (fun N => qf (kN N) l) (qf k l).
Proof.
  intros A kN k l H. unfold qf.
  apply (lim_lsum_map l (fun N a => lsum (map (fun b => fst a * fst b * kN N (snd a) (snd b)) l))
                        (fun a => lsum (map (fun b => fst a * fst b * k (snd a) (snd b)) l))).
  intros a _.
  apply (lim_lsum_map l (fun N b => fst a * fst b * kN N (snd a) (snd b))
                        (fun b => fst a * fst b * k (snd a) (snd b))).
  intros b _.
  apply (is_lim_seq_mult' (fun _ => fst a * fst b) (fun N => kN N (snd a) (snd b))).
  - apply is_lim_seq_const.
  - apply H.
Qed.

Lemma psd_lim : forall {A : Type} (kN : nat -> A -> A -> R) (k : A -> A -> R),
  (forall N, psd (kN N)) -> (forall u v, is_lim_seq (fun N => kN N u v) (k u v)) -> psd k.
Proof.
  intros A kN k Hp Hl l.
  pose proof (is_lim_seq_le (fun _ => 0) (fun N => qf (kN N) l) 0 (qf k l)) as Hle.
  simpl in Hle. apply Hle.
  - intros N. apply Hp.
  - apply is_lim_seq_const.
  - now apply qf_lim.
Qed.

Lemma psd_exp_ffk : forall {A : Type} (Phi : list (A -> R)), psd (fun u v => exp (ffk Phi u v)).
Proof.
  intros A Phi.
  apply (psd_lim (fun N u v => expsum N (ffk Phi u v))).
  - intros N. apply psd_expsum_ffk.
  - intros u v. apply expsum_lim.
Qed.

(* ------------------------------------------------------------------ *)
(* the squared-exponential kernel                                       *)

(* p(u)_k = u_k / l_k *)
Definition se_feature (th : list R) (k : nat) (u : pt) : R := coord u k / exp (par th (S k)).

Lemma se_expo_split : forall th u v l,
  Rsum l (fun k => se_dist u v k / (exp (par th (S k))) ^ 2)
  = - (1/2) * Rsum l (fun k => se_feature th k u ^ 2)
    + - (1/2) * Rsum l (fun k => se_feature th k v ^ 2)
    + Rsum l (fun k => se_feature th k u * se_feature th k v).
Proof.
  intros th u v l. induction l as [|k l IH].
  - simpl. ring.
  - cbn [Rsum]. rewrite IH. unfold se_dist, se_feature.
    pose proof (exp_pos (par th (S k))) as Hp. field. lra.
Qed.

Lemma Rsum_ffk : forall th u v l,
  Rsum l (fun k => se_feature th k u * se_feature th k v) = ffk (map (se_feature th) l) u v.
Proof.
  intros th u v l. induction l as [|k l IH].
  - reflexivity.
  - cbn [Rsum]. rewrite IH. unfold ffk. reflexivity.
Qed.

Lemma se_kpsd : forall d, kpsd (se d).
Proof.
  intros d th. cbn [kval se].
  set (g := fun u : pt => exp (- (1/2) * Rsum (seq 0 d) (fun k => se_feature th k u ^ 2))).
  apply (psd_ext (fun u v => (exp (par th 0)) ^ 2
                             * (exp (ffk (map (se_feature th) (seq 0 d)) u v) * (g u * g v)))).
  - intros u v. unfold se_val, se_expo. rewrite se_expo_split, Rsum_ffk, !exp_plus.
    unfold g. ring.
  - apply psd_scale; [apply pow2_ge_0|]. apply psd_gg. apply psd_exp_ffk.
Qed.

Lemma se_bpsd_proved : forall d, bpsd (se d).
Proof. intros d. apply se_bpsd. apply se_kpsd. Qed.

(* ------------------------------------------------------------------ *)
(* everything built from squared-exponential and noise kernels          *)

Inductive se_noise_tree : kernel -> Prop :=
  | snt_se : forall d, se_noise_tree (se d)
  | snt_wn : se_noise_tree wn
  | snt_hn : forall n, se_noise_tree (hn n)
  | snt_sum : forall ks, se_noise_trees ks -> se_noise_tree (ksum ks)
  | snt_cp : forall axis ks, se_noise_trees ks -> se_noise_tree (kcp axis ks)
with se_noise_trees : list kernel -> Prop :=
  | snts_nil : se_noise_trees []
  | snts_cons : forall k ks, se_noise_tree k -> se_noise_trees ks -> se_noise_trees (k :: ks).

Scheme snt_mut := Minimality for se_noise_tree Sort Prop
  with snts_mut := Minimality for se_noise_trees Sort Prop.

Lemma se_noise_tree_psd : forall K, se_noise_tree K -> kpsd K /\ bpsd K.
Proof.
  apply (snt_mut (fun K => kpsd K /\ bpsd K)
                 (fun ks => List.Forall kpsd ks /\ List.Forall bpsd ks)).
  - intros d. split; [apply se_kpsd|apply se_bpsd_proved].
  - split; [apply wn_kpsd|apply wn_bpsd].
  - intros n. split; [apply hn_kpsd|apply hn_bpsd].
  - intros ks _ [Hk Hb]. split; [now apply sum_kpsd|now apply sum_bpsd].
  - intros axis ks _ [Hk Hb]. split; [now apply cp_kpsd|now apply cp_bpsd].
  - split; apply List.Forall_nil.
  - intros k ks _ [Hk Hb] _ [Hks Hbs]. split; apply List.Forall_cons; assumption.
Qed.

Lemma se_noise_tree_example :
  se_noise_tree (ksum [se 2; kcp 1 [se 2; ksum [se 2; wn]; se 2]; hn 3]).
Proof.
  apply snt_sum. apply snts_cons; [apply snt_se|]. apply snts_cons; [|apply snts_cons; [apply snt_hn|apply snts_nil]].
  apply snt_cp. apply snts_cons; [apply snt_se|]. apply snts_cons; [|apply snts_cons; [apply snt_se|apply snts_nil]].
  apply snt_sum. apply snts_cons; [apply snt_se|]. apply snts_cons; [apply snt_wn|apply snts_nil].
Qed.
