(* Proofs/SelectionReprProofs.v -- lemmas about Matrix/SelectionRepr.v (property C11:
   hyper-parameters and data given in other representations than float64 arrays). *)
From Coq Require Import List QArith Qabs Bool Arith ZArith Lia Qreduction.
From IT Require Import Matrix.MxOps Matrix.ListOps Matrix.Selection Matrix.SelectionCheck Matrix.SelectionRepr.
Import ListNotations.
Open Scope Q_scope.

(* ---- integers and floating-point representability ---------------------------------------- *)
Lemma pos_odd_part_le (n : positive) : (Zpos (pos_odd_part n) <= Zpos n)%Z.
Proof.
  induction n as [n IH | n IH | ]; simpl; try lia.
Qed.

Lemma float_repr_b_mono (p p' : Z) (q : Q) :
  (0 <= p <= p')%Z -> float_repr_b p q = true -> float_repr_b p' q = true.
Proof.
  intros Hp. unfold float_repr_b.
  intro H. apply andb_true_iff in H. destruct H as [Hd Hn].
  apply andb_true_iff. split; [exact Hd|].
  assert (Hpow : (2 ^ p <= 2 ^ p')%Z) by (apply Z.pow_le_mono_r; lia).
  destruct (Qnum (Qred q)) as [|n|n]; [reflexivity| |];
    apply Z.ltb_lt in Hn; apply Z.ltb_lt; lia.
Qed.

Lemma Qred_inject_Z (z : Z) : Qred (inject_Z z) = inject_Z z.
Proof.
  unfold Qred, inject_Z.
  generalize (Z.ggcd_gcd z 1) (Z.ggcd_correct_divisors z 1).
  destruct (Z.ggcd z 1) as [g [a b]]. simpl.
  intros Hg [Ha Hb].
  rewrite Z.gcd_1_r in Hg. subst g.
  rewrite Z.mul_1_l in Ha, Hb. subst. reflexivity.
Qed.

Lemma is_int_spec (q : Q) : is_int q = true -> q == inject_Z (int_of q).
Proof.
  unfold is_int, int_of. intro H. apply Z.eqb_eq in H.
  destruct q as [a d]. simpl in *.
  unfold Qeq, inject_Z. simpl.
  rewrite Z.mul_1_r.
  pose proof (Z.div_mod a (Zpos d) ltac:(lia)) as E. rewrite H in E. lia.
Qed.

Lemma is_int_inject_Z (z : Z) : is_int (inject_Z z) = true.
Proof. unfold is_int, inject_Z. simpl. rewrite Z.mod_1_r. reflexivity. Qed.

Lemma is_int_Qeq (q : Q) (z : Z) : q == inject_Z z -> is_int q = true.
Proof.
  destruct q as [a d]. unfold Qeq, inject_Z, is_int. simpl. intro H.
  rewrite Z.mul_1_r in H. subst a. rewrite Z.mod_mul by lia. reflexivity.
Qed.

Lemma int_float_repr (q : Q) :
  is_int q = true -> (Z.abs (int_of q) < two53)%Z -> float_repr_b 53 q = true.
Proof.
  intros Hi Hb. pose proof (is_int_spec q Hi) as E.
  unfold float_repr_b.
  rewrite (Qred_complete _ _ E), Qred_inject_Z. simpl.
  unfold two53 in Hb.
  destruct (int_of q) as [|n|n]; [reflexivity| |];
    apply Z.ltb_lt; pose proof (pos_odd_part_le n); simpl in Hb; lia.
Qed.

Lemma carrier_repr_f64 (c : carrier) (q : Q) :
  carrier_ok c = true -> carrier_repr_b c q = true -> float_repr_b 53 q = true.
Proof.
  destruct c as [p | [|] b | ]; simpl; intros Hok H.
  - apply andb_true_iff in Hok. destruct Hok as [H1 H2].
    apply Z.leb_le in H1. apply Z.leb_le in H2.
    apply (float_repr_b_mono p 53); [lia | exact H].
  - repeat (apply andb_true_iff in H; destruct H as [H ?]).
    apply int_float_repr; [assumption | apply Z.ltb_lt; assumption].
  - repeat (apply andb_true_iff in H; destruct H as [H ?]).
    apply int_float_repr; [assumption | apply Z.ltb_lt; assumption].
  - apply andb_true_iff in H. destruct H as [H1 H2].
    apply int_float_repr; [assumption | apply Z.ltb_lt; assumption].
Qed.

(* ---- wrap-around -------------------------------------------------------------------------------- *)
Lemma wrap_signed_in_range (b z : Z) :
  (1 <= b)%Z -> (- 2 ^ (b - 1) <= z < 2 ^ (b - 1))%Z -> wrap (CInt true b) z = z.
Proof.
  intros Hb Hz. unfold wrap.
  assert (E : (2 ^ b = 2 * 2 ^ (b - 1))%Z).
  { replace b with (Z.succ (b - 1)) at 1 by lia. rewrite Z.pow_succ_r by lia. reflexivity. }
  rewrite Z.mod_small by lia. lia.
Qed.

Lemma wrap_unsigned_in_range (b z : Z) :
  (0 <= z < 2 ^ b)%Z -> wrap (CInt false b) z = z.
Proof. intro Hz. unfold wrap. apply Z.mod_small. exact Hz. Qed.

(* ---- truncation / storing into an integer array ----------------------------------------------------- *)
Lemma trunc_close (v : Q) : Qabs (inject_Z (trunc v) - v) < 1.
Proof.
  destruct v as [a d]. unfold trunc. simpl.
  pose proof (Z.quot_rem' a (Zpos d)) as E.
  assert (Hr : (Z.abs (Z.rem a (Zpos d)) < Zpos d)%Z).
  { pose proof (Z.rem_bound_abs a (Zpos d) ltac:(lia)). lia. }
  set (k := Z.quot a (Zpos d)) in *. set (r := Z.rem a (Zpos d)) in *.
  unfold Qabs, Qminus, Qplus, Qopp, Qlt, inject_Z. simpl.
  lia.
Qed.

Section WithRounding.
Variable rnd : Z -> Q -> Q.
Hypothesis rnd_exact : forall p q, float_repr_b p q = true -> Qred (rnd p q) = Qred q.

Lemma as_f64_exact (r : rvec) : rvec_valid_b r = true -> as_f64 rnd r = denote r.
Proof.
  unfold rvec_valid_b, as_f64, denote. intro H.
  apply andb_true_iff in H. destruct H as [Hok Hall].
  rewrite forallb_forall in Hall.
  apply map_ext_in. intros q Hq.
  apply rnd_exact. apply (carrier_repr_f64 (r_car r)); [exact Hok | apply Hall; exact Hq].
Qed.

Lemma as_f64_independent (r1 r2 : rvec) :
  rvec_valid_b r1 = true -> rvec_valid_b r2 = true -> denote r1 = denote r2 ->
  as_f64 rnd r1 = as_f64 rnd r2.
Proof. intros H1 H2 E. rewrite (as_f64_exact r1 H1), (as_f64_exact r2 H2). exact E. Qed.

Lemma inputs_valid_parts (i : inputs) :
  inputs_valid_b i = true ->
  rvec_valid_b (i_theta i) = true /\ rvec_valid_b (i_x i) = true /\
  rvec_valid_b (i_y i) = true /\ rvec_valid_b (i_err i) = true.
Proof.
  unfold inputs_valid_b. intro H.
  apply andb_true_iff in H. destruct H as [H H4].
  apply andb_true_iff in H. destruct H as [H H3].
  apply andb_true_iff in H. destruct H as [H1 H2].
  repeat split; assumption.
Qed.

(* storing a float64 value into a float64 buffer changes nothing *)
Lemma store_f64_exact (v : Q) : float_repr_b 53 v = true -> Qred (store rnd grad_buffer v) = Qred v.
Proof. intro H. unfold store, grad_buffer. apply rnd_exact. exact H. Qed.

Lemma grad_vector_f64_exact (mean_part cov_part : list Q) :
  forallb (float_repr_b 53) (mean_part ++ cov_part) = true ->
  map Qred (grad_vector rnd grad_buffer mean_part cov_part) = map Qred (mean_part ++ cov_part).
Proof.
  unfold grad_vector. intro H. rewrite forallb_forall in H.
  rewrite map_map. apply map_ext_in. intros v Hv. apply store_f64_exact. apply H. exact Hv.
Qed.

(* an integer buffer holds integers: every non-integer component is changed, by less than 1 *)
Lemma store_int_is_int (s : bool) (b : Z) (v : Q) : is_int (store rnd (CInt s b) v) = true.
Proof. unfold store. apply is_int_inject_Z. Qed.

Lemma store_int_changes_non_integers (s : bool) (b : Z) (v : Q) :
  is_int v = false -> ~ store rnd (CInt s b) v == v.
Proof.
  intros Hv E. unfold store in E. symmetry in E.
  apply is_int_Qeq in E. congruence.
Qed.

Section Scores.
Variable O : mxops.
Variable n : nat.
Variable chol_of : list Q -> list Q -> list Q -> mx O n n.
Variable mu_of : list Q -> list Q -> mx O n 1.
Variable dK_of : list Q -> list Q -> list (mx O n n).
Variable dmu_of : list Q -> list Q -> list (mx O n 1).
Variable y_of : list Q -> mx O n 1.
Variable rd : mx O 1 1 -> Q.

Notation scores_of' := (scores_of rnd chol_of mu_of dK_of dmu_of y_of rd).
Notation arrays' := (scores_of_arrays rnd chol_of mu_of dK_of dmu_of y_of rd).

(* the scores of represented inputs are the scores of the NUMBERS they hold *)
Lemma scores_of_denote (i : inputs) :
  inputs_valid_b i = true ->
  scores_of' i = arrays' grad_buffer (denote (i_theta i)) (denote (i_x i)) (denote (i_y i)) (denote (i_err i)).
Proof.
  intro H. destruct (inputs_valid_parts i H) as (Ht & Hx & Hy & He).
  unfold scores_of, data_x, data_y.
  rewrite (as_f64_exact _ Ht), (as_f64_exact _ Hx), (as_f64_exact _ Hy), (as_f64_exact _ He).
  reflexivity.
Qed.

Lemma scores_repr_independent (i j : inputs) :
  inputs_valid_b i = true -> inputs_valid_b j = true -> same_numbers i j ->
  scores_of' i = scores_of' j.
Proof.
  intros Hi Hj (Et & Ex & Ey & Ee).
  rewrite (scores_of_denote i Hi), (scores_of_denote j Hj), Et, Ex, Ey, Ee. reflexivity.
Qed.

(* the returned gradient vectors are the computed components, mean part first *)
Lemma scores_gradients_exact (i : inputs) :
  let th := as_f64 rnd (i_theta i) in let x := data_x rnd (i_x i) in
  let L := chol_of th x (as_f64 rnd (i_err i)) in
  let yv := y_of (data_y rnd (i_y i)) in let mu := mu_of th x in
  let ml_parts := map (fun dmu => rd (mlg_mean_grad L yv mu dmu)) (dmu_of th x)
                  ++ map (fun dK => rd (mlg_cov_grad L yv mu dK)) (dK_of th x) in
  let loo_parts := map (fun dmu => rd (loo_mean_grad L yv mu dmu)) (dmu_of th x)
                   ++ map (fun dK => rd (loo_cov_grad L yv mu dK)) (dK_of th x) in
  forallb (float_repr_b 53) ml_parts = true -> forallb (float_repr_b 53) loo_parts = true ->
  map Qred (sc_mlg_grad (scores_of' i)) = map Qred ml_parts /\
  map Qred (sc_loo_grad (scores_of' i)) = map Qred loo_parts.
Proof.
  intros th x L yv mu ml_parts loo_parts H1 H2. unfold scores_of. simpl.
  split; apply grad_vector_f64_exact; assumption.
Qed.

End Scores.
End WithRounding.

(* ---- pinned data handling (before fix D51) refuted; zeros_like buffer refuted ------------------------- *)
Definition int8 : carrier := CInt true 8.
Definition uint8 : carrier := CInt false 8.
Definition int64 : carrier := CInt true 64.

Lemma sq_pinned_int8_refuted :
  carrier_repr_b int8 12 = true /\ ~ sq_pinned int8 12 == 12 * 12.
Proof. split; [vm_compute; reflexivity | vm_compute; discriminate]. Qed.

Lemma sq_pinned_uint8_refuted :
  carrier_repr_b uint8 16 = true /\ ~ sq_pinned uint8 16 == 16 * 16.
Proof. split; [vm_compute; reflexivity | vm_compute; discriminate]. Qed.

Lemma sqdist_pinned_int8_refuted :
  carrier_repr_b int8 0 = true /\ carrier_repr_b int8 12 = true /\ ~ sqdist_pinned int8 0 12 == sqdist 0 12.
Proof. repeat split; try (vm_compute; reflexivity). vm_compute. discriminate. Qed.

Lemma sqdist_pinned_uint8_refuted :
  carrier_repr_b uint8 0 = true /\ carrier_repr_b uint8 31 = true /\ ~ sqdist_pinned uint8 0 31 == sqdist 0 31.
Proof. repeat split; try (vm_compute; reflexivity). vm_compute. discriminate. Qed.

(* as long as nothing leaves the range the pinned arithmetic was right: why small data did not show it *)
Lemma sq_pinned_in_range (b : Z) (e : Q) :
  (1 <= b)%Z -> is_int e = true -> (int_of e * int_of e < 2 ^ (b - 1))%Z ->
  sq_pinned (CInt true b) e == e * e.
Proof.
  intros Hb Hi Hr. unfold sq_pinned.
  rewrite wrap_signed_in_range; [| exact Hb |].
  - pose proof (is_int_spec e Hi) as E.
    transitivity (inject_Z (int_of e) * inject_Z (int_of e)).
    + unfold inject_Z, Qeq, Qmult. simpl. lia.
    + rewrite <- E. reflexivity.
  - assert (0 <= 2 ^ (b - 1))%Z by (apply Z.pow_nonneg; lia). nia.
Qed.
