(* The accept / reject decision of the sampler models IS the Metropolis test
   u < min(1, exp(p_new - p_old)) over the reals (C01). *)
From Coq Require Import QArith Qreals Reals Lra List.
From IT Require Import Common.ExpBounds Model.Reflect Model.Samplers Proofs.ExpBoundsProofs.
Import ListNotations.

Local Open Scope R_scope.

(* the Metropolis acceptance probability of a move that changes the tempered
   log-density by d *)
Definition mh_prob (d : R) : R := Rmin 1 (exp d).

Lemma Qlt_bool_true a b : Qlt_bool a b = true -> (a < b)%Q.
Proof.
  unfold Qlt_bool. intros H. apply Bool.negb_true_iff in H.
  apply Qnot_le_lt. intros Hc. apply Qle_bool_iff in Hc. congruence.
Qed.

(* mh_test: `if p_new > p_old: accept` else `rng.random() < exp(p_new - p_old)` *)
Theorem mh_test_sound (p_new p_old : Q) (tape tape' : list Q) (b : bool) :
  mh_test p_new p_old tape = Ok (b, tape') ->
  (* no draw: the move is uphill, acceptance probability 1 *)
  (b = true /\ tape' = tape /\ mh_prob (Q2R (p_new - p_old)) = 1) \/
  (* one draw u, accepted iff u < exp(p_new - p_old) *)
  (exists u, tape = u :: tape' /\
     (b = true -> Q2R u < exp (Q2R (p_new - p_old))) /\
     (b = false -> exp (Q2R (p_new - p_old)) < Q2R u)).
Proof.
  unfold mh_test. destruct (Qlt_bool p_old p_new) eqn:E.
  - intros H. inversion H; subst. left. split; [reflexivity|]. split; [reflexivity|].
    apply Qlt_bool_true in E. unfold mh_prob.
    assert (Hd : 0 < Q2R (p_new - p_old)).
    { unfold Qminus. rewrite Q2R_plus, Q2R_opp. apply Qlt_Rlt in E. lra. }
    assert (1 < exp (Q2R (p_new - p_old))) by (rewrite <- exp_0; apply exp_increasing; exact Hd).
    unfold Rmin. destruct (Rle_dec 1 (exp (Q2R (p_new - p_old)))); lra.
  - destruct tape as [|u tape1]; [discriminate|].
    destruct (decide_accept u (p_new - p_old)) as [b0|] eqn:Ed; [|discriminate].
    intros H. inversion H; subst. right. exists u. split; [reflexivity|].
    exact (decide_accept_sound u (p_new - p_old) b Ed).
Qed.

(* a uniform draw u in [0,1) is below exp d  iff  it is below min(1, exp d) *)
Lemma below_mh_prob (u d : R) : u < 1 -> (u < exp d <-> u < mh_prob d).
Proof.
  intros Hu. unfold mh_prob, Rmin. destruct (Rle_dec 1 (exp d)); split; intros; lra.
Qed.
