(* Lemmas about Model/Reflect.v (property C04).  Stdlib style throughout. *)
From Coq Require Import QArith Qround Qabs ZArith List Bool Lia Lra Psatz Morphisms.
From IT Require Import Model.Reflect.
Import ListNotations.
Open Scope Q_scope.

Ltac qconst :=
  change (1 - 0)%Z with 1%Z in *; change (1 - 1)%Z with 0%Z in *;
  change (inject_Z 0) with 0 in *; change (inject_Z 1) with 1 in *;
  change (inject_Z (-1)) with (-1) in *; change (inject_Z (- (1))) with (-1) in *.

(* ------------------------------------------------------------------ floor *)
Lemma Qfloor_unique : forall x k,
  inject_Z k <= x -> x < inject_Z (k + 1) -> Qfloor x = k.
Proof.
  intros x k Hlo Hhi.
  assert (H1 : (k <= Qfloor x)%Z).
  { rewrite <- (Qfloor_Z k). apply Qfloor_resp_le. exact Hlo. }
  assert (H2 : (Qfloor x < k + 1)%Z).
  { rewrite Zlt_Qlt. eapply Qle_lt_trans; [apply Qfloor_le | exact Hhi]. }
  lia.
Qed.

Lemma inject_Z_succ : forall k, inject_Z (k + 1) == inject_Z k + 1.
Proof. intro k. rewrite inject_Z_plus. reflexivity. Qed.

Lemma fdiv_unique : forall d w k, 0 < w ->
  inject_Z k * w <= d -> d < (inject_Z k + 1) * w -> fdiv d w = k.
Proof.
  intros d w k Hw Hlo Hhi. unfold fdiv. apply Qfloor_unique.
  - apply Qle_shift_div_l; assumption.
  - rewrite inject_Z_succ. apply Qlt_shift_div_r; assumption.
Qed.

Lemma fdiv_spec : forall d w, 0 < w ->
  inject_Z (fdiv d w) * w <= d /\ d < (inject_Z (fdiv d w) + 1) * w.
Proof.
  intros d w Hw. unfold fdiv.
  assert (Hne : ~ w == 0) by (intro E; rewrite E in Hw; discriminate).
  assert (Hd : d == (d / w) * w) by (field; exact Hne).
  pose proof (Qfloor_le (d / w)) as H1.
  pose proof (Qlt_floor (d / w)) as H2.
  rewrite inject_Z_succ in H2.
  split.
  - rewrite Hd at 2. apply Qmult_le_compat_r; [exact H1 | apply Qlt_le_weak; exact Hw].
  - rewrite Hd at 1. apply Qmult_lt_compat_r; assumption.
Qed.

Lemma fmod_range : forall d w, 0 < w -> 0 <= fmod d w /\ fmod d w < w.
Proof.
  intros d w Hw. unfold fmod. destruct (fdiv_spec d w Hw) as [H1 H2]. split; nra.
Qed.

Lemma fdiv_fmod : forall d w, d == inject_Z (fdiv d w) * w + fmod d w.
Proof. intros. unfold fmod. ring. Qed.

Global Instance fdiv_comp : Proper (Qeq ==> Qeq ==> eq) fdiv.
Proof. intros a a' Ha b b' Hb. unfold fdiv. apply Qfloor_comp. rewrite Ha, Hb. reflexivity. Qed.

Global Instance fmod_comp : Proper (Qeq ==> Qeq ==> Qeq) fmod.
Proof.
  intros a a' Ha b b' Hb. unfold fmod. rewrite (fdiv_comp a a' Ha b b' Hb).
  rewrite Ha, Hb. reflexivity.
Qed.

Global Instance reflect_comp : Proper (Qeq ==> Qeq ==> Qeq ==> Qeq) reflect.
Proof.
  intros lo lo' Hlo w w' Hw t t' Ht.
  assert (Hk : fdiv (t - lo) w = fdiv (t' - lo') w').
  { apply fdiv_comp; [rewrite Ht, Hlo; reflexivity | exact Hw]. }
  unfold reflect, fmod. cbv zeta. rewrite Hk.
  generalize (inject_Z (parity (fdiv (t' - lo') w'))) (inject_Z (fdiv (t' - lo') w')).
  intros n q. rewrite Hlo, Hw, Ht. reflexivity.
Qed.

(* ----------------------------------------------------------------- parity *)
Lemma parity_cases : forall k, parity k = 0%Z \/ parity k = 1%Z.
Proof. intro k. unfold parity. Z.div_mod_to_equations. lia. Qed.

Lemma parity_add_even : forall k m, parity (k + 2 * m) = parity k.
Proof. intros. unfold parity. Z.div_mod_to_equations. lia. Qed.

Lemma parity_opp : forall k, parity (- k) = parity k.
Proof. intros. unfold parity. Z.div_mod_to_equations. lia. Qed.

Lemma parity_opp_pred : forall k, parity (- k - 1) = (1 - parity k)%Z.
Proof. intros. unfold parity. Z.div_mod_to_equations. lia. Qed.

Lemma parity_even : forall k, Z.even k = true <-> parity k = 0%Z.
Proof.
  intro k. rewrite Z.even_spec. unfold parity. split.
  - intros [m Hm]. subst k. Z.div_mod_to_equations. lia.
  - intro H. exists (k / 2)%Z. Z.div_mod_to_equations. lia.
Qed.

(* ------------------------------------------------ characterisation of reflect *)
(* if theta - lo = k*w + r with 0 <= r < w then reflect is the fold of cell k *)
Lemma reflect_char : forall lo w theta k r, 0 < w -> 0 <= r -> r < w ->
  theta - lo == inject_Z k * w + r ->
  reflect lo w theta ==
  lo + (1 - 2 * inject_Z (parity k)) * r + inject_Z (parity k) * w.
Proof.
  intros lo w theta k r Hw Hr0 Hr1 Hd.
  assert (Hk : fdiv (theta - lo) w = k) by (apply fdiv_unique; nra).
  unfold reflect, fmod. cbv zeta. rewrite Hk. rewrite Hd. ring.
Qed.

Lemma reflect_decompose : forall lo w theta, 0 < w ->
  exists k r, 0 <= r /\ r < w /\ theta - lo == inject_Z k * w + r /\
              k = crossings lo w theta.
Proof.
  intros lo w theta Hw.
  exists (fdiv (theta - lo) w), (fmod (theta - lo) w).
  destruct (fmod_range (theta - lo) w Hw) as [H0 H1].
  repeat split; try assumption. apply fdiv_fmod.
Qed.

(* ------------------------------------------------------------------ range *)
Lemma reflect_range : forall lo w theta, 0 < w ->
  lo <= reflect lo w theta /\ reflect lo w theta <= lo + w.
Proof.
  intros lo w theta Hw.
  destruct (reflect_decompose lo w theta Hw) as (k & r & Hr0 & Hr1 & Hd & _).
  rewrite (reflect_char lo w theta k r Hw Hr0 Hr1 Hd).
  destruct (parity_cases k) as [E | E]; rewrite E; split; qconst; nra.
Qed.

(* --------------------------------------------------------------- identity *)
Lemma reflect_id : forall lo w theta, 0 < w ->
  lo <= theta -> theta <= lo + w -> reflect lo w theta == theta.
Proof.
  intros lo w theta Hw H0 H1.
  destruct (Qlt_le_dec theta (lo + w)) as [Hlt | Hge].
  - rewrite (reflect_char lo w theta 0 (theta - lo) Hw); [| lra | lra | qconst; ring].
    change (parity 0) with 0%Z. qconst. ring.
  - assert (E : theta == lo + w) by lra.
    rewrite (reflect_char lo w theta 1 0 Hw); [| lra | lra | qconst; rewrite E; ring].
    change (parity 1) with 1%Z. qconst. rewrite E. ring.
Qed.

(* ------------------------------------------------------------------- fold *)
Lemma reflect_fold_lower : forall lo w t, 0 < w ->
  reflect lo w (lo - t) == reflect lo w (lo + t).
Proof.
  intros lo w t Hw.
  destruct (reflect_decompose lo w (lo + t) Hw) as (k & r & Hr0 & Hr1 & Hd & _).
  rewrite (reflect_char lo w (lo + t) k r Hw Hr0 Hr1 Hd).
  assert (Ht : t == inject_Z k * w + r) by (rewrite <- Hd; ring).
  destruct (Qeq_dec r 0) as [Ez | Enz].
  - (* on a wall: cell -k, remainder 0 *)
    rewrite (reflect_char lo w (lo - t) (- k) 0 Hw); [| lra | lra |].
    + rewrite parity_opp. rewrite Ez. ring.
    + rewrite inject_Z_opp. rewrite Ht, Ez. ring.
  - (* strictly inside a cell: cell -k-1, remainder w - r *)
    assert (Hpos : 0 < r).
    { destruct (Qlt_le_dec 0 r) as [H | H]; [exact H | exfalso; apply Enz; lra]. }
    rewrite (reflect_char lo w (lo - t) (- k - 1) (w - r) Hw); [| lra | lra |].
    + rewrite parity_opp_pred.
      destruct (parity_cases k) as [E | E]; rewrite E; qconst; ring.
    + unfold Z.sub. rewrite inject_Z_plus, inject_Z_opp. qconst.
      rewrite Ht. ring.
Qed.

Lemma reflect_period_gen : forall lo w theta m, 0 < w ->
  reflect lo w (theta + inject_Z (2 * m) * w) == reflect lo w theta.
Proof.
  intros lo w theta m Hw.
  destruct (reflect_decompose lo w theta Hw) as (k & r & Hr0 & Hr1 & Hd & _).
  rewrite (reflect_char lo w theta k r Hw Hr0 Hr1 Hd).
  rewrite (reflect_char lo w (theta + inject_Z (2 * m) * w) (k + 2 * m) r Hw Hr0 Hr1).
  - rewrite parity_add_even. reflexivity.
  - rewrite inject_Z_plus.
    setoid_replace (theta + inject_Z (2 * m) * w - lo)
      with ((theta - lo) + inject_Z (2 * m) * w) by ring.
    rewrite Hd. ring.
Qed.

Lemma reflect_period : forall lo w theta, 0 < w ->
  reflect lo w (theta + 2 * w) == reflect lo w theta.
Proof.
  intros lo w theta Hw.
  pose proof (reflect_period_gen lo w theta 1 Hw) as H. change (inject_Z (2 * 1)) with 2 in H.
  exact H.
Qed.

Lemma reflect_fold_upper : forall lo w t, 0 < w ->
  reflect lo w (lo + w + t) == reflect lo w (lo + w - t).
Proof.
  intros lo w t Hw.
  setoid_replace (lo + w + t) with (lo + (w + t)) by ring.
  rewrite <- (reflect_fold_lower lo w (w + t) Hw).
  rewrite <- (reflect_period lo w (lo - (w + t)) Hw).
  apply reflect_comp; try reflexivity. ring.
Qed.

(* --------------------------------------------------------------- momentum *)
Lemma reflect_momenta_fst : forall lo w theta,
  fst (reflect_momenta lo w theta) = reflect lo w theta.
Proof. reflexivity. Qed.

Lemma momentum_parity : forall lo w theta,
  snd (reflect_momenta lo w theta) == sign_pow (crossings lo w theta).
Proof.
  intros lo w theta. unfold reflect_momenta, crossings, sign_pow. cbv zeta. simpl snd.
  destruct (Z.even (fdiv (theta - lo) w)) eqn:Ev.
  - apply parity_even in Ev. rewrite Ev. reflexivity.
  - destruct (parity_cases (fdiv (theta - lo) w)) as [E | E].
    + apply parity_even in E. congruence.
    + rewrite E. reflexivity.
Qed.

(* the cell index: theta lies in [lo + q*w, lo + (q+1)*w), and q is the only
   integer with that property -- walls are the points lo + k*w, so a straight
   path from the allowed interval to theta crosses |q| of them *)
Lemma crossings_cell : forall lo w theta, 0 < w ->
  lo + inject_Z (crossings lo w theta) * w <= theta /\
  theta < lo + (inject_Z (crossings lo w theta) + 1) * w.
Proof.
  intros lo w theta Hw. unfold crossings.
  destruct (fdiv_spec (theta - lo) w Hw) as [H1 H2]. split; lra.
Qed.

Lemma crossings_unique : forall lo w theta k, 0 < w ->
  lo + inject_Z k * w <= theta -> theta < lo + (inject_Z k + 1) * w ->
  crossings lo w theta = k.
Proof.
  intros lo w theta k Hw H1 H2. unfold crossings. apply fdiv_unique; try assumption; lra.
Qed.

(* inside one cell the fold is affine with slope = the returned momentum factor *)
Lemma momentum_slope : forall lo w theta theta',
  crossings lo w theta' = crossings lo w theta ->
  reflect lo w theta' - reflect lo w theta ==
  snd (reflect_momenta lo w theta) * (theta' - theta).
Proof.
  intros lo w theta theta' Hc. unfold crossings in Hc.
  unfold reflect, reflect_momenta, fmod. cbv zeta. simpl snd. rewrite Hc. ring.
Qed.

Lemma momentum_square : forall lo w theta,
  snd (reflect_momenta lo w theta) * snd (reflect_momenta lo w theta) == 1.
Proof.
  intros. rewrite momentum_parity. unfold sign_pow.
  destruct (Z.even _); reflexivity.
Qed.

(* ------------------------------------------------------------ unfolding *)
(* moving on from the folded point along the folded direction is the same as
   folding the point moved along the original direction (billiard unfolding) *)
Lemma reflect_unfold : forall lo w x d, 0 < w ->
  reflect lo w (reflect lo w x + snd (reflect_momenta lo w x) * d) ==
  reflect lo w (x + d).
Proof.
  intros lo w x d Hw.
  destruct (reflect_decompose lo w x Hw) as (k & r & Hr0 & Hr1 & Hd & Hk).
  unfold crossings in Hk.
  assert (Hx : x + d == (lo + r + d) + inject_Z k * w).
  { setoid_replace (x + d) with ((x - lo) + lo + d) by ring. rewrite Hd. ring. }
  set (m := (k / 2)%Z).
  destruct (parity_cases k) as [E | E].
  - assert (Hkm : k = (2 * m)%Z) by (unfold parity in E; unfold m; Z.div_mod_to_equations; lia).
    transitivity (reflect lo w (lo + r + d)).
    + apply reflect_comp; try reflexivity.
      rewrite (reflect_char lo w x k r Hw Hr0 Hr1 Hd).
      unfold reflect_momenta. cbv zeta. simpl snd. rewrite <- Hk. rewrite E. qconst. ring.
    + symmetry. rewrite Hx. rewrite Hkm. apply reflect_period_gen. exact Hw.
  - assert (Hkm : k = (2 * m + 1)%Z) by (unfold parity in E; unfold m; Z.div_mod_to_equations; lia).
    transitivity (reflect lo w (lo + w - (r + d))).
    + apply reflect_comp; try reflexivity.
      rewrite (reflect_char lo w x k r Hw Hr0 Hr1 Hd).
      unfold reflect_momenta. cbv zeta. simpl snd. rewrite <- Hk. rewrite E. qconst. ring.
    + symmetry. rewrite <- (reflect_fold_upper lo w (r + d) Hw).
      rewrite <- (reflect_period_gen lo w (lo + w + (r + d)) m Hw).
      apply reflect_comp; try reflexivity.
      rewrite Hx. rewrite Hkm. rewrite inject_Z_plus. qconst. ring.
Qed.

Lemma momentum_pm1 : forall lo w theta,
  snd (reflect_momenta lo w theta) == 1 \/ snd (reflect_momenta lo w theta) == -1.
Proof.
  intros. rewrite momentum_parity. unfold sign_pow.
  destruct (Z.even _); [left | right]; reflexivity.
Qed.

(* bounded_leapfrog with a vanishing force: invariant carried along the steps.
   (t, r) is the state, T the position of the unbounded free particle, s the
   accumulated momentum factor *)
Lemma free_leapfrog_inv : forall lo w eps im r0, 0 < w -> forall n t r T s,
  r == s * r0 -> (s == 1 \/ s == -1) ->
  (forall d, reflect lo w (t + s * d) == reflect lo w (T + d)) ->
  lo <= t -> t <= lo + w ->
  fst (free_bounded_leapfrog lo w eps im n (t, r)) ==
    reflect lo w (T + inject_Z (Z.of_nat n) * (eps * (r0 * im))) /\
  lo <= fst (free_bounded_leapfrog lo w eps im n (t, r)) /\
  fst (free_bounded_leapfrog lo w eps im n (t, r)) <= lo + w /\
  exists s', (s' == 1 \/ s' == -1) /\
             snd (free_bounded_leapfrog lo w eps im n (t, r)) == s' * r0.
Proof.
  intros lo w eps im r0 Hw. induction n as [| n IH]; intros t r T s Hr Hs Hphi Ht0 Ht1.
  - simpl. split; [| split; [exact Ht0 | split; [exact Ht1 | exists s; split; assumption]]].
    rewrite <- (reflect_id lo w t Hw Ht0 Ht1) at 1.
    rewrite <- (Hphi (inject_Z 0 * (eps * (r0 * im)))).
    apply reflect_comp; try reflexivity. qconst. ring.
  - simpl free_bounded_leapfrog. unfold free_step.
    set (y := t + eps * (r * im)).
    set (sy := snd (reflect_momenta lo w y)).
    change (fst (reflect_momenta lo w y)) with (reflect lo w y).
    destruct (reflect_range lo w y Hw) as [Hy0 Hy1].
    assert (Hsy : sy == 1 \/ sy == -1) by apply momentum_pm1.
    assert (Hs' : s * sy == 1 \/ s * sy == -1).
    { destruct Hs as [A | A], Hsy as [B | B]; rewrite A, B; [left | right | right | left]; reflexivity. }
    assert (Hr' : r * sy == (s * sy) * r0) by (rewrite Hr; ring).
    assert (Hphi' : forall d, reflect lo w (reflect lo w y + (s * sy) * d) ==
                              reflect lo w ((T + eps * (r0 * im)) + d)).
    { intro d.
      transitivity (reflect lo w (reflect lo w y + sy * (s * d))).
      { apply reflect_comp; try reflexivity. ring. }
      unfold sy. rewrite (reflect_unfold lo w y (s * d) Hw).
      transitivity (reflect lo w (t + s * (eps * (r0 * im) + d))).
      { apply reflect_comp; try reflexivity. unfold y. rewrite Hr. ring. }
      rewrite (Hphi (eps * (r0 * im) + d)).
      apply reflect_comp; try reflexivity. ring. }
    destruct (IH (reflect lo w y) (r * sy) (T + eps * (r0 * im)) (s * sy) Hr' Hs' Hphi' Hy0 Hy1)
      as (I1 & I2 & I3 & I4).
    split; [| split; [exact I2 | split; [exact I3 | exact I4]]].
    eapply Qeq_trans; [exact I1 |]. apply reflect_comp; try reflexivity.
    rewrite Nat2Z.inj_succ. unfold Z.succ. rewrite inject_Z_plus. qconst. ring.
Qed.

(* the bounded free trajectory is the fold of the free trajectory *)
Lemma free_leapfrog_unfold : forall lo w eps im n t0 r0, 0 < w ->
  lo <= t0 -> t0 <= lo + w ->
  fst (free_bounded_leapfrog lo w eps im n (t0, r0)) ==
    reflect lo w (t0 + inject_Z (Z.of_nat n) * (eps * (r0 * im))) /\
  lo <= fst (free_bounded_leapfrog lo w eps im n (t0, r0)) /\
  fst (free_bounded_leapfrog lo w eps im n (t0, r0)) <= lo + w /\
  exists s, (s == 1 \/ s == -1) /\
            snd (free_bounded_leapfrog lo w eps im n (t0, r0)) == s * r0.
Proof.
  intros lo w eps im n t0 r0 Hw H0 H1.
  apply (free_leapfrog_inv lo w eps im r0 Hw n t0 r0 t0 1); try assumption.
  - ring.
  - left. reflexivity.
  - intro d. apply reflect_comp; try reflexivity. ring.
Qed.

(* ------------------------------------------------------------ gibbs / abs *)
Lemma gibbs_fold_reflect : forall lo hi w x, hi == lo + w ->
  gibbs_fold lo hi w x == reflect lo w x.
Proof.
  intros lo hi w x Hhi. unfold gibbs_fold, reflect. cbv zeta.
  destruct (parity_cases (fdiv (x - lo) w)) as [E | E]; rewrite E; simpl Z.eqb; cbv iota.
  - qconst. ring.
  - qconst. rewrite Hhi. ring.
Qed.

Lemma gibbs_fold_range : forall lo hi x, lo < hi ->
  lo <= gibbs_fold lo hi (hi - lo) x /\ gibbs_fold lo hi (hi - lo) x <= hi.
Proof.
  intros lo hi x H.
  assert (Hw : 0 < hi - lo) by lra.
  assert (Hhi : hi == lo + (hi - lo)) by ring.
  rewrite (gibbs_fold_reflect lo hi (hi - lo) x Hhi).
  destruct (reflect_range lo (hi - lo) x Hw) as [H1 H2]. split; lra.
Qed.

Lemma abs_nonneg : forall x, 0 <= abs_fold x.
Proof. intro x. apply Qabs_nonneg. Qed.

Lemma abs_id : forall x, 0 <= x -> abs_fold x == x.
Proof. intros x H. apply Qabs_pos. exact H. Qed.

Lemma abs_even : forall x, abs_fold (- x) == abs_fold x.
Proof. intro x. apply Qabs_opp. Qed.

(* ---------------------------------------------------------------- vectors *)
Lemma reflect_vec_inside : forall los ws thetas,
  Forall (fun w => 0 < w) ws ->
  inside_vec los ws (reflect_vec los ws thetas).
Proof.
  induction los as [| lo los IH]; intros ws thetas Hws; simpl; [exact I |].
  destruct ws as [| w ws]; [exact I |].
  destruct thetas as [| t ts]; [exact I |].
  inversion Hws as [| ? ? Hw Hrest]; subst.
  simpl. split.
  - apply reflect_range. exact Hw.
  - apply IH. exact Hrest.
Qed.

Lemma reflect_vec_length : forall los ws thetas,
  length ws = length los -> length thetas = length los ->
  length (reflect_vec los ws thetas) = length los.
Proof.
  induction los as [| lo los IH]; intros ws thetas H1 H2; simpl; [reflexivity |].
  destruct ws; [discriminate |]. destruct thetas; [discriminate |].
  simpl in *. f_equal. apply IH; lia.
Qed.

Lemma reflect_momenta_vec_fst : forall los ws thetas,
  map fst (reflect_momenta_vec los ws thetas) = reflect_vec los ws thetas.
Proof.
  induction los as [| lo los IH]; intros ws thetas; simpl; [reflexivity |].
  destruct ws; [reflexivity |]. destruct thetas; [reflexivity |].
  simpl. f_equal. apply IH.
Qed.

Lemma inside_b_spec : forall lo hi x, inside_b lo hi x = true <-> inside lo hi x.
Proof.
  intros. unfold inside_b, inside. rewrite andb_true_iff, !Qle_bool_iff. reflexivity.
Qed.
