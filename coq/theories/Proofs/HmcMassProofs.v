(* Lemmas for Model/HmcMass.v: if the factor used to draw the momenta is consistent with
   the inverse mass used in the kinetic energy (L^T inv_mass L = I, resp.
   sqrt_mass^2 * inv_mass = 1), then kinetic (momentum z) = 1/2 z.z for every vector z
   of standard-normal draws, any number of parameters. *)
From Coq Require Import QArith Qabs List Bool Lia Lqa.
From IT Require Import Common.ExpBounds Model.Reflect Model.Samplers Model.HmcMass.
Import ListNotations.
Open Scope Q_scope.

Notation veq := (Forall2 Qeq).
Notation rows_len n := (Forall (fun r : list Q => length r = n)).

(* ---------- dot product ---------- *)
Lemma vdot_nil_r a : vdot a [] = 0.
Proof. destruct a; reflexivity. Qed.

Lemma veq_refl a : veq a a.
Proof. induction a; constructor; [reflexivity | assumption]. Qed.

Lemma vdot_proper a a' : veq a a' -> forall b b', veq b b' -> vdot a b == vdot a' b'.
Proof.
  induction 1 as [|x x' a a' Hx Ha IH]; intros b b' Hb.
  - reflexivity.
  - inversion Hb as [|y y' b0 b0' Hy Hb0]; subst; simpl.
    + reflexivity.
    + rewrite Hx, Hy, (IH _ _ Hb0). reflexivity.
Qed.

Lemma vdot_proper_l a a' b : veq a a' -> vdot a b == vdot a' b.
Proof. intros H. apply vdot_proper; [assumption | apply veq_refl]. Qed.

Lemma vdot_comm a : forall b, vdot a b == vdot b a.
Proof.
  induction a as [|x a IH]; intros [|y b]; simpl; try reflexivity.
  rewrite IH. ring.
Qed.

Lemma vdot_vscale_r c a : forall b, vdot a (vscale c b) == c * vdot a b.
Proof.
  induction a as [|x a IH]; intros [|y b]; simpl; try ring.
  rewrite IH. ring.
Qed.

Lemma vdot_vscale_l c a b : vdot (vscale c a) b == c * vdot a b.
Proof. rewrite vdot_comm, vdot_vscale_r, vdot_comm. reflexivity. Qed.

Lemma vdot_vadd_r z : forall a b, length a = length b ->
  vdot z (vadd a b) == vdot z a + vdot z b.
Proof.
  induction z as [|x z IH]; intros [|p a] [|q b] Hl; simpl in *; try discriminate; try ring.
  rewrite IH by lia. ring.
Qed.

Lemma vdot_vadd_l a b z : length a = length b ->
  vdot (vadd a b) z == vdot a z + vdot b z.
Proof.
  intros Hl. rewrite vdot_comm, vdot_vadd_r by assumption.
  rewrite (vdot_comm z a), (vdot_comm z b). reflexivity.
Qed.

Lemma vdot_repeat0_r z : forall n, vdot z (repeat 0 n) == 0.
Proof.
  induction z as [|x z IH]; intros [|n]; simpl; try reflexivity.
  rewrite IH. ring.
Qed.

Lemma vdot_repeat0_l z n : vdot (repeat 0 n) z == 0.
Proof. rewrite vdot_comm. apply vdot_repeat0_r. Qed.

(* ---------- lengths ---------- *)
Lemma length_vscale c a : length (vscale c a) = length a.
Proof. unfold vscale. apply map_length. Qed.

Lemma length_vadd a : forall b, length a = length b -> length (vadd a b) = length a.
Proof.
  induction a as [|x a IH]; intros [|y b] Hl; simpl in *; try discriminate; try reflexivity.
  rewrite IH by lia. reflexivity.
Qed.

Lemma length_vec_mat n A : rows_len n A -> forall w, length (vec_mat n w A) = n.
Proof.
  induction 1 as [|r A Hr HA IH]; intros [|x w]; simpl; try apply repeat_length.
  rewrite length_vadd; rewrite length_vscale; [assumption | rewrite IH; assumption].
Qed.

Lemma rows_len_mat_mul n A B : rows_len n B -> rows_len n (mat_mul n A B).
Proof.
  intros HB. unfold mat_mul. apply Forall_forall. intros r Hr.
  apply in_map_iff in Hr. destruct Hr as [w [<- _]]. apply length_vec_mat. assumption.
Qed.

(* ---------- (A z) . w = z . (w^T A) ---------- *)
Lemma adjoint n A : rows_len n A -> forall w z,
  vdot (mat_vec A z) w == vdot z (vec_mat n w A).
Proof.
  induction 1 as [|r A Hr HA IH]; intros [|x w] z; simpl;
    try (rewrite vdot_repeat0_r; reflexivity).
  rewrite vdot_vadd_r, vdot_vscale_r, <- IH, (vdot_comm z r).
  - unfold mat_vec. ring.
  - rewrite length_vscale, length_vec_mat; assumption.
Qed.

(* inv_mass (L z) = (inv_mass L) z, tested against any y *)
Lemma mat_vec_mat_mul n L z : rows_len n L -> forall im y,
  vdot y (mat_vec im (mat_vec L z)) == vdot y (mat_vec (mat_mul n im L) z).
Proof.
  intros HL. induction im as [|r im IH]; intros [|y0 y]; simpl; try reflexivity.
  unfold mat_vec, mat_mul in IH. rewrite IH.
  rewrite (vdot_comm r), (adjoint n L HL r z), (vdot_comm z). reflexivity.
Qed.

(* ---------- quadratic forms ---------- *)
Lemma qf_zero n k z : forall y, vdot y (mat_vec (repeat (repeat 0 n) k) z) == 0.
Proof.
  induction k as [|k IH]; intros [|y0 y]; simpl; try reflexivity.
  unfold mat_vec in IH. rewrite IH, vdot_repeat0_l. ring.
Qed.

Lemma qf_outer b z : forall l y, vdot y (mat_vec (outer l b) z) == vdot y l * vdot b z.
Proof.
  induction l as [|x l IH]; intros [|y0 y]; simpl; try ring.
  unfold mat_vec, outer in IH. rewrite IH.
  fold (vscale x b). rewrite vdot_vscale_l. ring.
Qed.

Lemma qf_madd z A C : Forall2 (fun ra rc : list Q => length ra = length rc) A C ->
  forall y, vdot y (mat_vec (madd A C) z) == vdot y (mat_vec A z) + vdot y (mat_vec C z).
Proof.
  unfold mat_vec. induction 1 as [|ra rc A C Hl HAC IH]; intros [|y0 y]; simpl; try ring.
  rewrite IH, vdot_vadd_l by assumption. ring.
Qed.

Lemma qf_proper z G G' : mat_eq G G' ->
  forall y, vdot y (mat_vec G z) == vdot y (mat_vec G' z).
Proof.
  unfold mat_vec. induction 1 as [|r r' G G' Hr HG IH]; intros [|y0 y]; simpl; try reflexivity.
  rewrite IH, (vdot_proper_l r r' z Hr). reflexivity.
Qed.

(* shapes *)
Definition mshapeP (n k : nat) (A : list (list Q)) : Prop := length A = k /\ rows_len n A.

Lemma same_shape n k A : mshapeP n k A -> forall C, mshapeP n k C ->
  Forall2 (fun ra rc : list Q => length ra = length rc) A C.
Proof.
  revert k. induction A as [|ra A IH]; intros k [HlA HrA] [|rc C] [HlC HrC]; simpl in *; subst;
    try discriminate; constructor.
  - pose proof (Forall_inv HrA) as Ha. pose proof (Forall_inv HrC) as Hc. simpl in *. congruence.
  - apply (IH (length A)); split; auto; [apply (Forall_inv_tail HrA) | apply (Forall_inv_tail HrC)].
Qed.

Lemma shape_madd n k A : mshapeP n k A -> forall C, mshapeP n k C -> mshapeP n k (madd A C).
Proof.
  revert k. induction A as [|ra A IH]; intros k [HlA HrA] [|rc C] [HlC HrC]; simpl in *; subst;
    try discriminate.
  - split; [reflexivity | constructor].
  - pose proof (Forall_inv HrA) as Ha. pose proof (Forall_inv HrC) as Hc. simpl in Ha, Hc.
    destruct (IH (length A) (conj eq_refl (Forall_inv_tail HrA)) C) as [Hl Hr];
      [split; [lia | apply (Forall_inv_tail HrC)]|].
    split; simpl; [rewrite Hl; reflexivity|].
    constructor; [rewrite length_vadd; congruence | assumption].
Qed.

Lemma shape_outer n l b : length b = n -> mshapeP n (length l) (outer l b).
Proof.
  intros Hb. split; unfold outer; [apply map_length|].
  apply Forall_forall. intros r Hr. apply in_map_iff in Hr. destruct Hr as [x [<- _]].
  rewrite length_vscale. assumption.
Qed.

Lemma shape_mzero n : mshapeP n n (mzero n).
Proof.
  split; unfold mzero; [apply repeat_length|].
  apply Forall_forall. intros r Hr. apply repeat_spec in Hr. subst. apply repeat_length.
Qed.

Lemma shape_gram n : forall L B, rows_len n L -> rows_len n B -> mshapeP n n (gram_sum n L B).
Proof.
  induction L as [|l L IH]; intros [|b B] HL HB; simpl; try apply shape_mzero.
  pose proof (Forall_inv HL) as Hl. pose proof (Forall_inv HB) as Hb. simpl in Hl, Hb.
  apply shape_madd; [|apply IH; [apply (Forall_inv_tail HL) | apply (Forall_inv_tail HB)]].
  rewrite <- Hl at 2. apply shape_outer. assumption.
Qed.

(* (L z) . (B z) = z . (L^T B) z *)
Lemma qform_gram n z : forall L B, rows_len n L -> rows_len n B ->
  vdot (mat_vec L z) (mat_vec B z) == vdot z (mat_vec (gram_sum n L B) z).
Proof.
  induction L as [|l L IH]; intros [|b B] HL HB; simpl;
    try (unfold mzero; rewrite qf_zero; reflexivity).
  pose proof (Forall_inv HL) as Hl. pose proof (Forall_inv HB) as Hb. simpl in Hl, Hb.
  pose proof (Forall_inv_tail HL) as HL'. pose proof (Forall_inv_tail HB) as HB'.
  rewrite qf_madd, qf_outer.
  - rewrite <- (IH B HL' HB'). rewrite (vdot_comm z l). unfold mat_vec. reflexivity.
  - apply (same_shape n n); [rewrite <- Hl at 2; apply shape_outer; assumption|].
    apply shape_gram; assumption.
Qed.

(* ---------- identity ---------- *)
Lemma qf_cons0 x z : forall M y,
  vdot y (mat_vec (map (cons 0) M) (x :: z)) == vdot y (mat_vec M z).
Proof.
  unfold mat_vec. induction M as [|r M IH]; intros [|y0 y]; simpl; try reflexivity.
  rewrite IH. ring.
Qed.

Lemma qf_ident : forall n z, length z = n ->
  forall y, vdot y (mat_vec (ident n) z) == vdot y z.
Proof.
  induction n as [|n IH]; intros [|x z] Hl [|y0 y]; simpl in *; try discriminate; try reflexivity.
  pose proof (qf_cons0 x z (ident n) y) as Hc. unfold mat_vec in Hc. rewrite Hc.
  pose proof (IH z ltac:(lia) y) as Hi. unfold mat_vec in Hi. rewrite Hi.
  rewrite vdot_repeat0_l. ring.
Qed.

(* ---------- the momentum law ---------- *)
Lemma momentum_law_full n im L z :
  rows_len n L -> mat_eq (mass_gram n im L) (ident n) -> length z = n ->
  kinetic (MFull im L) (momentum (MFull im L) z) == (1 # 2) * vdot z z.
Proof.
  intros HL HG Hz. unfold kinetic, momentum, velocity.
  rewrite (mat_vec_mat_mul n L z HL im (mat_vec L z)).
  rewrite (qform_gram n z L (mat_mul n im L) HL (rows_len_mat_mul n im L HL)).
  fold (mass_gram n im L).
  rewrite (qf_proper z _ _ HG z), (qf_ident n z Hz z). reflexivity.
Qed.

Lemma diag_form sm im : Forall2 (fun s i => s * s * i == 1) sm im ->
  forall z, length z = length sm ->
  vdot (vmul sm z) (vmul (vmul sm z) im) == vdot z z.
Proof.
  induction 1 as [|s i sm im Hsi Hrest IH]; intros [|x z] Hl; simpl in *; try discriminate;
    try reflexivity.
  rewrite IH by lia.
  setoid_replace (s * x * (s * x * i)) with ((s * s * i) * (x * x)) by ring.
  rewrite Hsi. ring.
Qed.

Lemma momentum_law_diag im sm z :
  Forall2 (fun s i => s * s * i == 1) sm im -> length z = length sm ->
  kinetic (MDiag im sm) (momentum (MDiag im sm) z) == (1 # 2) * vdot z z.
Proof.
  intros H Hz. unfold kinetic, momentum, velocity. rewrite (diag_form sm im H z Hz). reflexivity.
Qed.

Lemma momentum_law n m z : mass_exact n m -> length z = n ->
  kinetic m (momentum m z) == (1 # 2) * vdot z z.
Proof.
  destruct m as [im sm | im L]; simpl; intros [H1 H2] Hz.
  - apply momentum_law_diag; [assumption | congruence].
  - apply (momentum_law_full n); assumption.
Qed.

(* ---------- the executable comparison at tolerance 0 is the exact hypothesis ---------- *)
Lemma Qclose0 a b : Qclose 0 a b = true -> a == b.
Proof.
  unfold Qclose. intros H. apply Qle_bool_iff in H.
  assert (E : 0 * (1 + Qabs b) == 0) by ring.
  assert (Hz : Qabs (a - b) <= 0) by (eapply Qle_trans; [exact H | rewrite E; apply Qle_refl]).
  apply Qabs_Qle_condition in Hz. destruct Hz. lra.
Qed.

Lemma vclose0 a : forall b, vclose 0 a b = true -> veq a b.
Proof.
  induction a as [|x a IH]; intros [|y b] H; simpl in H; try discriminate; constructor.
  - apply andb_prop in H. apply Qclose0. tauto.
  - apply andb_prop in H. apply IH. tauto.
Qed.

Lemma mclose0 A : forall B, mclose 0 A B = true -> mat_eq A B.
Proof.
  induction A as [|r A IH]; intros [|r' B] H; simpl in H; try discriminate; constructor.
  - apply andb_prop in H. apply vclose0. tauto.
  - apply andb_prop in H. apply IH. tauto.
Qed.

Lemma mshape_rows n A : mshape n A = true -> rows_len n A.
Proof.
  unfold mshape. intros H. apply andb_prop in H. destruct H as [_ H].
  rewrite forallb_forall in H. apply Forall_forall. intros r Hr.
  apply Nat.eqb_eq. apply H. assumption.
Qed.

Lemma diag_exact : forall sm im n, length sm = n ->
  veq (vmul (vmul sm sm) im) (repeat 1 n) -> length im = n ->
  Forall2 (fun s i => s * s * i == 1) sm im.
Proof.
  induction sm as [|s sm IH]; intros [|i im] [|n] Hs Hv Hi; simpl in *; try discriminate;
    constructor.
  - inversion Hv as [|u1 u2 v1 v2 Hhead Htail]. assumption.
  - inversion Hv as [|u1 u2 v1 v2 Hhead Htail]. apply (IH im n); auto.
Qed.

Lemma mass_ok_exact n m : mass_ok 0 n m = true -> mass_exact n m.
Proof.
  destruct m as [im sm | im L]; simpl; intros H.
  - apply andb_prop in H. destruct H as [H Hv]. apply andb_prop in H. destruct H as [Hi Hs].
    apply Nat.eqb_eq in Hi. apply Nat.eqb_eq in Hs. split; [assumption|].
    apply (diag_exact sm im n Hs (vclose0 _ _ Hv) Hi).
  - apply andb_prop in H. destruct H as [H Hg]. apply andb_prop in H. destruct H as [_ HL].
    split; [apply mshape_rows; assumption | apply mclose0; assumption].
Qed.

(* ---------- a factor that is the transpose of the right one ---------- *)
(* inv_mass = [[1, 1/2], [1/2, 5/4]] = iL iL^T with iL = [[1, 0], [1/2, 1]];
   inv(iL) = [[1, 0], [-1/2, 1]].  The code uses L = inv(iL)^T; using inv(iL) itself
   (also a "Cholesky-like" triangular factor, L L^T = (iL^T iL)^-1) is inconsistent. *)
Definition im_w : list (list Q) := [[1; 1 # 2]; [1 # 2; 5 # 4]].
Definition L_right : list (list Q) := [[1; - (1 # 2)]; [0; 1]].
Definition L_transposed : list (list Q) := [[1; 0]; [- (1 # 2); 1]].

Lemma right_factor_exact : mass_exact 2 (MFull im_w L_right).
Proof. apply mass_ok_exact. vm_compute. reflexivity. Qed.

Lemma transposed_factor_refuted :
  mass_ok (1 # 100) 2 (MFull im_w L_transposed) = false /\
  ~ (kinetic (MFull im_w L_transposed) (momentum (MFull im_w L_transposed) [1; 0]) ==
     (1 # 2) * vdot [1; 0] [1; 0]).
Proof. split; [vm_compute; reflexivity | vm_compute; discriminate]. Qed.
