(* C08, extension: freshly constructed chains and whole call histories.
   - a chain is `good` as its constructor leaves it (stored = beta * logp(start));
   - hence an exchange round BEFORE any step decides on the exponent
     (beta_i - beta_j)(logp start_j - logp start_i);
   - a whole round (all decisions, all update messages) preserves `good` for every
     chain, and so does every history of take_steps / swap / advance / return
     calls (in any order, in particular starting with swap), provided single
     steps do (C03's subject; proved here for the stub chain). *)
From Coq Require Import List Arith ZArith QArith Bool Lia Field.
From IT Require Import Common.ExpBounds Model.Tempering Model.TemperingStart
  Proofs.TemperingPairsProofs Proofs.TemperingProofs.
Import ListNotations.
Open Scope Q_scope.

(* ====================================================================== *)
(* construction                                                           *)
(* ====================================================================== *)
Lemma fresh_good : forall logp beta start tape quad rp,
  ~ beta == 0 -> good logp (fresh_chain logp beta start tape quad rp).
Proof.
  intros logp beta start tape quad rp Hb. unfold good, fresh_chain, aligned.
  cbn [c_hist c_beta].
  split; [| split].
  - constructor; [| constructor]. cbn [fst snd]. rewrite Qred_correct. ring.
  - discriminate.
  - assumption.
Qed.

Lemma fresh_fields : forall logp beta start tape quad rp,
  let c := fresh_chain logp beta start tape quad rp in
  c_beta c = beta /\ get_last c = start /\ last_prob c == beta * logp start /\
  length (c_hist c) = 1%nat.
Proof.
  intros. unfold c, fresh_chain, get_last, last_prob. cbn [c_hist c_beta hd fst snd length].
  repeat split; try reflexivity. rewrite Qred_correct. ring.
Qed.

Lemma stub_chain_is_fresh : forall beta start tape quad,
  stub_chain beta start tape quad = fresh_chain (quad_logp quad) beta start tape quad false.
Proof. reflexivity. Qed.

(* an exchange round before any step: the decision for the pair (i, j) *)
Theorem swap_first_decision : forall logp u bi bj xi xj ti tj qi qj ri rj,
  ~ bi == 0 -> ~ bj == 0 ->
  exists d, d == (bi - bj) * (logp xj - logp xi) /\
    swap_decide u bi bj (last_prob (fresh_chain logp bi xi ti qi ri))
                        (last_prob (fresh_chain logp bj xj tj qj rj)) = decide_accept u d.
Proof.
  intros logp u bi bj xi xj ti tj qi qj ri rj Hi Hj.
  apply swap_decide_exponent; try assumption;
    unfold last_prob, fresh_chain; cbn [c_hist hd snd]; rewrite Qred_correct; ring.
Qed.

(* ... and what the two chains hold afterwards *)
Theorem swap_first_state : forall (take_step : chain -> chain) logp bi bj xi xj ti tj qi qj ri rj,
  ~ bi == 0 -> ~ bj == 0 ->
  let ci := fresh_chain logp bi xi ti qi ri in
  let cj := fresh_chain logp bj xj tj qj rj in
  match exchange take_step [ci; cj] 0 1 with
  | [ci'; cj'] =>
      get_last ci' = xj /\ last_prob ci' == bi * logp xj /\
      get_last cj' = xi /\ last_prob cj' == bj * logp xi /\
      c_beta ci' = bi /\ c_beta cj' = bj /\
      length (c_hist ci') = 1%nat /\ length (c_hist cj') = 1%nat
  | _ => False
  end.
Proof.
  intros take_step logp bi bj xi xj ti tj qi qj ri rj Hi Hj ci cj.
  unfold exchange, swap_pair_msgs, ci, cj, fresh_chain.
  cbn [map nth c_beta c_hist get_last last_prob hd fst snd fold_left deliver nth_error handle
       update_position set_nth set_hist c_tape c_quad c_replay length].
  repeat split; try reflexivity.
  - rewrite Qred_correct. field. assumption.
  - rewrite Qred_correct. field. assumption.
Qed.

(* mutation witness: if the constructor loses the factor inv_temp, the first round
   decides wrongly.  T = (1, 4), logp = -x^2, starts 4 and 3: the true exponent is
   (1 - 1/4)(-9 + 16) >= 0 (exchange with probability 1), the untempered start
   values give exponent -15. *)
Lemma untempered_start_refuted :
  let logp := quad_logp [(1, 0)] in
  let ci := fresh_chain logp 1 [4] [] [] true in
  let cj := fresh_chain logp (1 # 4) [3] [] [] true in
  let ci' := fresh_chain_untempered logp 1 [4] [] [] true in
  let cj' := fresh_chain_untempered logp (1 # 4) [3] [] [] true in
  swap_decide (1 # 2) 1 (1 # 4) (last_prob ci) (last_prob cj) = Some true /\
  swap_decide (1 # 2) 1 (1 # 4) (last_prob ci') (last_prob cj') = Some false /\
  ~ good logp cj'.
Proof.
  cbv zeta. split; [vm_compute; reflexivity |]. split; [vm_compute; reflexivity |].
  intros [Ha _]. unfold aligned in Ha. simpl in Ha.
  inversion Ha as [| ? ? Hp _]; subst. vm_compute in Hp. discriminate Hp.
Qed.

(* ====================================================================== *)
(* list helpers                                                           *)
(* ====================================================================== *)
Lemma Forall_set_nth : forall (A : Type) (P : A -> Prop) l k x,
  Forall P l -> P x -> Forall P (set_nth k x l).
Proof.
  induction l as [| y t IH]; intros k x Hl Hx; simpl; [constructor |].
  inversion Hl; subst. destruct k; constructor; auto.
Qed.

Lemma map_set_nth_same : forall (A B : Type) (f : A -> B) l k c c',
  nth_error l k = Some c -> f c' = f c -> map f (set_nth k c' l) = map f l.
Proof.
  induction l as [| y t IH]; intros k c c' Hk Hf; destruct k; simpl in *; try discriminate.
  - inversion Hk; subst. rewrite Hf. reflexivity.
  - rewrite (IH k c c' Hk Hf). reflexivity.
Qed.

(* ====================================================================== *)
(* a whole round and whole histories                                      *)
(* ====================================================================== *)
Section History.
  Variable logp : point -> Q.
  Variable take_step : chain -> chain.
  (* what else the step function needs to know about a chain (for the stub: its
     quadratic form and mode); must not depend on the history *)
  Variable P : chain -> Prop.

  Definition inv (c : chain) : Prop := good logp c /\ P c.

  Hypothesis Hstep : forall c, inv c -> inv (take_step c) /\ c_beta (take_step c) = c_beta c.
  Hypothesis Hupd : forall c x p, P c -> P (update_position x p c).

  Definition msg_ok (im : nat * msg) : Prop :=
    match snd im with UpdatePosition x p => p == logp x | _ => False end.

  Definition data_ok (betas : list Q) (data : list (point * Q)) (k : nat) : Prop :=
    snd (nth k data ([], 0)) == nth k betas 0 * logp (fst (nth k data ([], 0))) /\
    ~ nth k betas 0 == 0.

  Lemma good_data : forall cs betas k,
    Forall inv cs -> map c_beta cs = betas -> (k < length cs)%nat ->
    data_ok betas (map (fun c => (get_last c, last_prob c)) cs) k.
  Proof.
    intros cs betas k Hall Hb Hk.
    destruct (nth_error cs k) as [c |] eqn:Hc; [| apply nth_error_None in Hc; lia].
    unfold data_ok. rewrite <- Hb.
    rewrite (nth_map_default _ _ c_beta cs k c 0 Hc).
    rewrite (nth_map_default _ _ (fun c => (get_last c, last_prob c)) cs k c ([], 0) Hc).
    simpl.
    assert (Hg : inv c) by (eapply Forall_forall; [exact Hall | eapply nth_error_In; exact Hc]).
    destruct Hg as [[Ha [Hne Hnz]] _].
    split; [| assumption].
    unfold get_last, last_prob. unfold aligned in Ha.
    destruct (c_hist c) as [| [x p] older]; [congruence |].
    inversion Ha as [| ? ? Hp _]; subst. simpl in *. assumption.
  Qed.

  (* every decision of a round on good chains uses the untempered log-densities
     of the chains' current points *)
  Theorem round_decision : forall cs betas i j u,
    Forall inv cs -> map c_beta cs = betas -> (i < length cs)%nat -> (j < length cs)%nat ->
    let data := map (fun c => (get_last c, last_prob c)) cs in
    let bi := nth i betas 0 in let bj := nth j betas 0 in
    exists d, d == (bi - bj) * (logp (fst (nth j data ([], 0))) - logp (fst (nth i data ([], 0)))) /\
      swap_decide u bi bj (snd (nth i data ([], 0))) (snd (nth j data ([], 0))) = decide_accept u d.
  Proof.
    intros cs betas i j u Hall Hb Hi Hj data bi bj.
    destruct (good_data cs betas i Hall Hb Hi) as [Hpi Hzi].
    destruct (good_data cs betas j Hall Hb Hj) as [Hpj Hzj].
    apply swap_decide_exponent; assumption.
  Qed.

  Lemma swap_pair_msgs_ok : forall betas data i j,
    data_ok betas data i -> data_ok betas data j ->
    Forall msg_ok (swap_pair_msgs betas data i j).
  Proof.
    intros betas data i j [Hpi Hzi] [Hpj Hzj]. unfold swap_pair_msgs.
    destruct (nth i data ([], 0)) as [xi pri]. destruct (nth j data ([], 0)) as [xj prj].
    simpl in *.
    constructor; [| constructor; [| constructor]]; unfold msg_ok; simpl.
    - rewrite Hpj. field. assumption.
    - rewrite Hpi. field. assumption.
  Qed.

  Lemma swap_pairs_msgs_ok : forall betas data pairs st ms st',
    (forall k, In k (flatten pairs) -> data_ok betas data k) ->
    swap_pairs betas data pairs st = (ms, st') -> Forall msg_ok ms.
  Proof.
    intros betas data pairs. induction pairs as [| [i j] rest IH]; intros st ms st' Hok H; simpl in H.
    - inversion H; subst. constructor.
    - assert (Hrest : forall k, In k (flatten rest) -> data_ok betas data k).
      { intros k Hk. apply Hok. change (flatten ((i, j) :: rest)) with (i :: j :: flatten rest).
        right; right; assumption. }
      destruct (swap_decide _ _ _ _ _) as [[|] |].
      + destruct (swap_pairs betas data rest _) as [ms1 st3] eqn:Hr in H.
        inversion H; subst. apply Forall_app. split.
        * apply swap_pair_msgs_ok; apply Hok; change (flatten ((i, j) :: rest)) with (i :: j :: flatten rest);
            [left; reflexivity | right; left; reflexivity].
        * eapply IH; [exact Hrest | exact Hr].
      + eapply IH; [exact Hrest | exact H].
      + eapply IH; [exact Hrest | exact H].
  Qed.

  Lemma update_position_inv : forall c x p,
    inv c -> p == logp x ->
    inv (update_position x p c) /\ c_beta (update_position x p c) = c_beta c /\
    length (c_hist (update_position x p c)) = length (c_hist c).
  Proof.
    intros c x p [[Ha [Hne Hnz]] HP] Hp.
    split; [split |].
    - unfold update_position, good, aligned in *.
      destruct (c_hist c) as [| h older] eqn:Hh; [congruence |].
      simpl. split; [| split; [discriminate | assumption]].
      inversion Ha; subst. constructor; [| assumption]. simpl. rewrite Hp. ring.
    - apply Hupd. assumption.
    - unfold update_position. destruct (c_hist c) as [| h older] eqn:Hh; [congruence |].
      simpl. split; reflexivity.
  Qed.

  Lemma deliver_inv : forall cs im,
    Forall inv cs -> msg_ok im ->
    Forall inv (deliver take_step cs im) /\
    map c_beta (deliver take_step cs im) = map c_beta cs /\
    map (fun c => length (c_hist c)) (deliver take_step cs im) = map (fun c => length (c_hist c)) cs.
  Proof.
    intros cs [k m] Hall Hok. unfold deliver. simpl.
    destruct (nth_error cs k) as [c |] eqn:Hc; [| repeat split; assumption].
    unfold msg_ok in Hok. simpl in Hok. destruct m as [n | | x p |]; try contradiction.
    simpl.
    assert (Hg : inv c) by (eapply Forall_forall; [exact Hall | eapply nth_error_In; exact Hc]).
    destruct (update_position_inv c x p Hg Hok) as [Hi [Hb Hl]].
    split; [apply Forall_set_nth; assumption |].
    split; [eapply map_set_nth_same; eassumption |].
    eapply (map_set_nth_same _ _ (fun c => length (c_hist c))); eassumption.
  Qed.

  Lemma deliver_all_inv : forall ms cs,
    Forall inv cs -> Forall msg_ok ms ->
    Forall inv (fold_left (deliver take_step) ms cs) /\
    map c_beta (fold_left (deliver take_step) ms cs) = map c_beta cs /\
    map (fun c => length (c_hist c)) (fold_left (deliver take_step) ms cs)
      = map (fun c => length (c_hist c)) cs.
  Proof.
    induction ms as [| im t IH]; intros cs Hall Hok; simpl; [repeat split; assumption |].
    inversion Hok as [| ? ? Him Ht]; subst.
    destruct (deliver_inv cs im Hall Him) as [H1 [H2 H3]].
    destruct (IH _ H1 Ht) as [G1 [G2 G3]].
    split; [assumption |]. split; [rewrite G2; assumption | rewrite G3; assumption].
  Qed.

  Definition vec_inv (betas : list Q) (cs : list chain) : Prop :=
    Forall inv cs /\ map c_beta cs = betas.

  Lemma map_length_eq : forall (A B : Type) (f : A -> B) l1 l2, map f l1 = map f l2 -> length l1 = length l2.
  Proof. intros A B f l1 l2 H. rewrite <- (map_length f l1), <- (map_length f l2), H. reflexivity. Qed.

  (* a whole exchange round, whatever pairs are proposed (in range), whatever is
     drawn and decided: every chain is still good, the temperatures and the chain
     lengths are unchanged *)
  Theorem swap_round_inv : forall betas cs pairs st,
    vec_inv betas cs -> (forall k, In k (flatten pairs) -> (k < length cs)%nat) ->
    let cs' := fst (swap_round take_step betas cs pairs st) in
    vec_inv betas cs' /\
    map (fun c => length (c_hist c)) cs' = map (fun c => length (c_hist c)) cs.
  Proof.
    intros betas cs pairs st [Hall Hb] Hrange. unfold swap_round.
    destruct (swap_pairs betas _ pairs st) as [ms st'] eqn:Hs. simpl.
    assert (Hok : Forall msg_ok ms).
    { eapply swap_pairs_msgs_ok; [| exact Hs].
      intros k Hk. apply good_data; auto. }
    destruct (deliver_all_inv ms cs Hall Hok) as [G1 [G2 G3]].
    split; [split; [assumption | rewrite G2; assumption] | assumption].
  Qed.

  Lemma pure_swap_inv : forall betas cs st,
    vec_inv betas cs ->
    vec_inv betas (fst (pure_swap take_step betas cs st)) /\
    map (fun c => length (c_hist c)) (fst (pure_swap take_step betas cs st))
      = map (fun c => length (c_hist c)) cs.
  Proof.
    intros betas cs st Hv. unfold pure_swap.
    pose proof (tight_pairs_disjoint (length cs) (cs_choices st) (cs_draws st)) as Hd.
    destruct (tight_pairs (length cs) (cs_choices st) (cs_draws st)) as [[pairs ch'] dr'].
    simpl in Hd. destruct Hd as [_ [Hrange _]].
    apply swap_round_inv; assumption.
  Qed.

  Lemma iter_step_inv : forall n c, inv c ->
    inv (Nat.iter n take_step c) /\ c_beta (Nat.iter n take_step c) = c_beta c.
  Proof.
    induction n as [| n IH]; intros c Hc; simpl; [split; [assumption | reflexivity] |].
    destruct (IH c Hc) as [H1 H2]. destruct (Hstep _ H1) as [H3 H4].
    split; [assumption | rewrite H4; assumption].
  Qed.

  Lemma pure_take_steps_inv : forall betas n cs,
    vec_inv betas cs -> vec_inv betas (pure_take_steps take_step n cs).
  Proof.
    intros betas n cs [Hall Hb]. unfold pure_take_steps, vec_inv. subst betas.
    induction cs as [| c t IH]; simpl; [split; [constructor | reflexivity] |].
    inversion Hall; subst. destruct (IH H2) as [I1 I2].
    destruct (iter_step_inv n c H1) as [J1 J2].
    split; [constructor; assumption | rewrite J2, I2; reflexivity].
  Qed.

  Definition snaps_inv (betas : list Q) (st : cstate) : Prop :=
    Forall (vec_inv betas) (cs_snaps st).

  Lemma swap_pairs_snaps : forall betas data pairs st ms st',
    swap_pairs betas data pairs st = (ms, st') -> cs_snaps st' = cs_snaps st.
  Proof.
    intros betas data pairs st ms st' H.
    destruct (swap_pairs_round betas data pairs st ms st' H) as [acc [_ [_ [_ [_ [_ Hs]]]]]].
    exact Hs.
  Qed.

  Lemma pure_swap_snaps : forall betas cs st,
    cs_snaps (snd (pure_swap take_step betas cs st)) = cs_snaps st.
  Proof.
    intros betas cs st. unfold pure_swap.
    destruct (tight_pairs (length cs) (cs_choices st) (cs_draws st)) as [[pairs ch'] dr'].
    unfold swap_round.
    destruct (swap_pairs betas _ pairs _) as [ms st'] eqn:Hs. simpl.
    rewrite (swap_pairs_snaps _ _ _ _ _ _ Hs). reflexivity.
  Qed.

  Lemma pure_ops_inv : forall betas ops cs st,
    vec_inv betas cs -> snaps_inv betas st ->
    vec_inv betas (fst (pure_ops take_step betas ops cs st)) /\
    snaps_inv betas (snd (pure_ops take_step betas ops cs st)).
  Proof.
    intros betas ops. induction ops as [| o t IH]; intros cs st Hv Hs; simpl; [split; assumption |].
    destruct o as [n |].
    - apply IH; [apply pure_take_steps_inv; assumption | assumption].
    - destruct (pure_swap take_step betas cs st) as [cs' st'] eqn:Hp.
      pose proof (pure_swap_inv betas cs st Hv) as [H1 _]. rewrite Hp in H1. simpl in H1.
      pose proof (pure_swap_snaps betas cs st) as H2. rewrite Hp in H2. simpl in H2.
      apply IH; [assumption | unfold snaps_inv; rewrite H2; assumption].
  Qed.

  (* every history of calls: all chains are good after it, and so are all the
     chains handed back by every return_chains() on the way *)
  Theorem pure_calls_inv : forall betas calls cs st,
    vec_inv betas cs -> snaps_inv betas st ->
    vec_inv betas (fst (pure_calls take_step betas calls cs st)) /\
    snaps_inv betas (snd (pure_calls take_step betas calls cs st)).
  Proof.
    intros betas calls. induction calls as [| c t IH]; intros cs st Hv Hs; simpl; [split; assumption |].
    destruct c as [n | | n s |].
    - apply IH; [apply pure_take_steps_inv; assumption | assumption].
    - destruct (pure_swap take_step betas cs st) as [cs' st'] eqn:Hp.
      pose proof (pure_swap_inv betas cs st Hv) as [H1 _]. rewrite Hp in H1. simpl in H1.
      pose proof (pure_swap_snaps betas cs st) as H2. rewrite Hp in H2. simpl in H2.
      apply IH; [assumption | unfold snaps_inv; rewrite H2; assumption].
    - destruct (pure_ops take_step betas (advance_plan n s) cs st) as [cs' st'] eqn:Hp.
      pose proof (pure_ops_inv betas (advance_plan n s) cs st Hv Hs) as [H1 H2].
      rewrite Hp in H1, H2. simpl in H1, H2.
      apply IH; assumption.
    - apply IH; [assumption |]. unfold snaps_inv. simpl. constructor; assumption.
  Qed.

  Theorem session_inv : forall chains calls choices draws unis,
    Forall inv chains ->
    let r := pure_session take_step chains calls choices draws unis in
    Forall inv (fst r) /\ map c_beta (fst r) = map c_beta chains /\
    Forall (fun snap => Forall inv snap /\ map c_beta snap = map c_beta chains) (cs_snaps (snd r)).
  Proof.
    intros chains calls choices draws unis Hall r. unfold r, pure_session.
    destruct (pure_calls_inv (map c_beta chains) calls chains (mkCstate [] [] choices draws unis [] 0))
      as [[H1 H2] H3].
    - split; [assumption | reflexivity].
    - constructor.
    - split; [assumption |]. split; [assumption |]. exact H3.
  Qed.
End History.

(* ====================================================================== *)
(* the stub chain's step meets the hypotheses                             *)
(* ====================================================================== *)
Definition stub_like (qd : list (Q * Q)) (c : chain) : Prop := c_quad c = qd /\ c_replay c = false.

Lemma chain_step_stub_inv : forall qd c,
  inv (quad_logp qd) (stub_like qd) c ->
  inv (quad_logp qd) (stub_like qd) (chain_step c) /\ c_beta (chain_step c) = c_beta c.
Proof.
  intros qd c [[Ha [Hne Hnz]] [Hq Hr]]. unfold chain_step.
  destruct (c_tape c) as [| [d thr] tape'] eqn:Ht.
  - split; [split; [split; [| split] | split] | reflexivity]; assumption.
  - rewrite Hr. cbv zeta.
    destruct (c_hist c) as [| [x p] older] eqn:Hh; [congruence |].
    unfold aligned in Ha. rewrite Hh in Ha. inversion Ha as [| ? ? Hp Hold]. simpl in Hp.
    unfold get_last, last_prob. rewrite Hh. cbn [hd fst snd].
    destruct (Qle_bool thr _); unfold set_hist, inv, good, aligned, stub_like;
      cbn [c_beta c_hist c_quad c_replay c_tape];
      (split; [split; [split; [| split; [discriminate | assumption]] | split; [assumption | reflexivity]]
              | reflexivity]).
    + constructor; [| constructor; assumption]. cbn [fst snd]. rewrite Qred_correct, Hq. ring.
    + constructor; [| constructor; assumption]. cbn [fst snd]. assumption.
Qed.

Lemma update_position_stub_like : forall qd c x p, stub_like qd c -> stub_like qd (update_position x p c).
Proof.
  intros qd c x p [Hq Hr]. unfold update_position, stub_like.
  destruct (c_hist c); [split; assumption |]. simpl. split; assumption.
Qed.

(* sessions of stub chains, any number of chains, any ladder of non-zero inverse
   temperatures, any tapes, any calls: all stored values stay beta * logp(point) *)
Theorem stub_session_good : forall qd (specs : list (Q * point * list (point * Q))) calls choices draws unis,
  Forall (fun s => ~ fst (fst s) == 0) specs ->
  let chains := map (fun s => stub_chain (fst (fst s)) (snd (fst s)) (snd s) qd) specs in
  let r := pure_session chain_step chains calls choices draws unis in
  Forall (good (quad_logp qd)) (fst r) /\
  Forall (fun snap => Forall (good (quad_logp qd)) snap) (cs_snaps (snd r)).
Proof.
  intros qd specs calls choices draws unis Hnz chains r.
  assert (Hall : Forall (inv (quad_logp qd) (stub_like qd)) chains).
  { unfold chains. apply Forall_forall. intros c Hc. apply in_map_iff in Hc.
    destruct Hc as [s [Hs Hin]]. subst c. split.
    - rewrite stub_chain_is_fresh. apply fresh_good.
      eapply (proj1 (Forall_forall _ _) Hnz); exact Hin.
    - split; reflexivity. }
  destruct (session_inv (quad_logp qd) chain_step (stub_like qd)
              (chain_step_stub_inv qd) (update_position_stub_like qd)
              chains calls choices draws unis Hall) as [H1 [_ H3]].
  fold r in H1, H3. split.
  - eapply Forall_impl; [| exact H1]. intros c [Hg _]. exact Hg.
  - eapply Forall_impl; [| exact H3]. intros snap [Hs _].
    eapply Forall_impl; [| exact Hs]. intros c [Hg _]. exact Hg.
Qed.

(* sessions of freshly constructed chains of any class: whatever calls follow the
   construction -- in particular when the first call is swap() -- every chain's
   stored value is beta * logp(point), at the end and in every returned snapshot *)
Theorem fresh_session_inv :
  forall (logp : point -> Q) (take_step : chain -> chain) (P : chain -> Prop),
  (forall c, inv logp P c -> inv logp P (take_step c) /\ c_beta (take_step c) = c_beta c) ->
  (forall c x p, P c -> P (update_position x p c)) ->
  forall (specs : list (Q * point * list (point * Q) * list (Q * Q) * bool)) calls choices draws unis,
  let mk := fun s : Q * point * list (point * Q) * list (Q * Q) * bool =>
    let '(beta, start, tape, quad, rp) := s in fresh_chain logp beta start tape quad rp in
  let chains := map mk specs in
  Forall (fun c => ~ c_beta c == 0) chains -> Forall P chains ->
  let r := pure_session take_step chains calls choices draws unis in
  Forall (inv logp P) (fst r) /\ map c_beta (fst r) = map c_beta chains /\
  Forall (fun snap => Forall (inv logp P) snap /\ map c_beta snap = map c_beta chains)
         (cs_snaps (snd r)).
Proof.
  intros logp take_step P Hstep Hupd specs calls choices draws unis mk chains Hnz HP r.
  apply session_inv; try assumption.
  apply Forall_forall. intros c Hc. split.
  - unfold chains in Hc. apply in_map_iff in Hc. destruct Hc as [[[[[beta start] tape] quad] rp] [Hs Hin]].
    assert (Hb : ~ c_beta c == 0).
    { eapply (proj1 (Forall_forall _ _) Hnz). unfold chains. apply in_map_iff.
      exists (beta, start, tape, quad, rp). split; assumption. }
    subst c. simpl in Hb. apply fresh_good. exact Hb.
  - eapply (proj1 (Forall_forall _ _) HP). exact Hc.
Qed.
