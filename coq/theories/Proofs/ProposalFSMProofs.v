(* Lemmas about Model/ProposalFSM.v (property C04).  Stdlib style throughout. *)
From Coq Require Import QArith Qround Qabs Qminmax ZArith List Bool Lia Lra Psatz.
From IT Require Import Model.Reflect Model.ProposalFSM Proofs.ReflectProofs.
Import ListNotations.
Open Scope Q_scope.

Lemma Qltb_true : forall a b, Qltb a b = true <-> a < b.
Proof.
  intros a b. unfold Qltb. rewrite negb_true_iff. split.
  - intro H. apply Qnot_le_lt. intro Hle. apply Qle_bool_iff in Hle. congruence.
  - intro H. destruct (Qle_bool b a) eqn:E; [| reflexivity].
    apply Qle_bool_iff in E. exfalso. apply (Qlt_not_le _ _ H). exact E.
Qed.

Lemma Qltb_false : forall a b, Qltb a b = false <-> b <= a.
Proof.
  intros a b. unfold Qltb. rewrite negb_false_iff. apply Qle_bool_iff.
Qed.

(* ------------------------------------------------------------ the invariant *)
(* `proposal` is what load would choose from the switches; stored boundaries are
   a proper interval whose upper end is positive when non-negativity is on *)
Definition Inv (st : pstate) : Prop :=
  active st = select (bounded st) (nonneg st) /\
  (bounded st = true ->
     lower st < upper st /\ width st == upper st - lower st /\
     (nonneg st = true -> 0 < upper st)) /\
  (bounded st = false -> lower st = 0 /\ upper st = 0 /\ width st = 0).

Lemma Inv_init : Inv init.
Proof.
  unfold Inv, init; simpl. split; [reflexivity |]. split; [discriminate | auto].
Qed.

Lemma Inv_step : forall st o, Inv st -> Inv (step st o).
Proof.
  intros st o (Ha & Hb & Hu).
  destruct o as [lo hi | | b | |]; simpl.
  - (* SetBoundaries *)
    destruct (Qltb lo hi) eqn:Elt; [| exact (conj Ha (conj Hb Hu))].
    destruct (nonneg st && negb (Qltb 0 hi)) eqn:Eref; [exact (conj Ha (conj Hb Hu)) |].
    apply Qltb_true in Elt.
    unfold Inv, update; simpl. split; [reflexivity |]. split; [| discriminate].
    intros _. split; [exact Elt |]. split; [reflexivity |].
    intro Hnn. rewrite Hnn in Eref. simpl in Eref.
    apply negb_false_iff in Eref. apply Qltb_true in Eref. exact Eref.
  - (* RemoveBoundaries *)
    unfold Inv, update; simpl. split; [reflexivity |]. split; [discriminate | auto].
  - (* SetNonNegative b *)
    destruct (b && bounded st && negb (Qltb 0 (upper st))) eqn:Eref;
      [exact (conj Ha (conj Hb Hu)) |].
    unfold Inv, update; simpl. split; [reflexivity |]. split; [| exact Hu].
    intro Hbd. destruct (Hb Hbd) as (H1 & H2 & H3).
    split; [exact H1 |]. split; [exact H2 |].
    intro Hnn. subst b. rewrite Hbd in Eref. simpl in Eref.
    apply negb_false_iff in Eref. apply Qltb_true in Eref. exact Eref.
  - (* SetNonNegativeInvalid *)
    exact (conj Ha (conj Hb Hu)).
  - (* Load *)
    unfold Inv, update; simpl. split; [reflexivity |]. split; assumption.
Qed.

Lemma Inv_run : forall ops st, Inv st -> Inv (run ops st).
Proof.
  induction ops as [| o ops IH]; intros st H; simpl; [exact H |].
  apply IH. apply Inv_step. exact H.
Qed.

Lemma Inv_reachable : forall ops, Inv (run ops init).
Proof. intro ops. apply Inv_run. apply Inv_init. Qed.

(* ------------------------------------------- the invariant implies the limits *)
Lemma eff_lower_bounds : forall st, Inv st -> bounded st = true ->
  lower st <= eff_lower st /\ eff_lower st < upper st /\
  (nonneg st = true -> 0 <= eff_lower st).
Proof.
  intros st (_ & Hb & _) Hbd. destruct (Hb Hbd) as (H1 & _ & H3).
  unfold eff_lower. destruct (nonneg st) eqn:Enn.
  - split; [apply Q.le_max_l |]. split; [| intros _; apply Q.le_max_r].
    apply Q.max_lub_lt; [exact H1 | apply H3; reflexivity].
  - split; [apply Qle_refl |]. split; [exact H1 | discriminate].
Qed.

Lemma Inv_limits : forall st, Inv st -> limits_in_force propose st.
Proof.
  intros st HI. pose proof HI as (Ha & Hb & Hu). unfold limits_in_force. split.
  - intros Hbd x. unfold propose. rewrite Ha, Hbd. simpl select. cbv iota.
    destruct (eff_lower_bounds st HI Hbd) as (E1 & E2 & _).
    destruct (gibbs_fold_range (eff_lower st) (upper st) x E2) as [G1 G2].
    split; [eapply Qle_trans; [exact E1 | exact G1] | exact G2].
  - intros Hnn x. unfold propose. rewrite Ha, Hnn.
    destruct (bounded st) eqn:Hbd; simpl select; cbv iota.
    + destruct (eff_lower_bounds st HI Hbd) as (_ & E2 & E3).
      destruct (gibbs_fold_range (eff_lower st) (upper st) x E2) as [G1 _].
      eapply Qle_trans; [apply E3; exact Hnn | exact G1].
    + apply abs_nonneg.
Qed.

Lemma fsm_limits_in_force : forall ops, limits_in_force propose (run ops init).
Proof. intro ops. apply Inv_limits. apply Inv_reachable. Qed.

(* no limit in force: the raw draw is returned untouched *)
Lemma fsm_unlimited : forall ops x,
  bounded (run ops init) = false -> nonneg (run ops init) = false ->
  propose (run ops init) x = x.
Proof.
  intros ops x Hb Hn. destruct (Inv_reachable ops) as (Ha & _).
  unfold propose. rewrite Ha, Hb, Hn. reflexivity.
Qed.

(* limits leave points that already satisfy them alone *)
Lemma fsm_identity_inside : forall ops x,
  let st := run ops init in
  (bounded st = true -> lower st <= x -> x <= upper st) ->
  (nonneg st = true -> 0 <= x) ->
  (bounded st = true -> lower st <= x) ->
  propose st x == x.
Proof.
  intros ops x st Hup Hnn Hlo. pose proof (Inv_reachable ops) as HI. fold st in HI.
  pose proof HI as (Ha & Hb & _).
  unfold propose. rewrite Ha.
  destruct (bounded st) eqn:Hbd; simpl select; cbv iota.
  - destruct (eff_lower_bounds st HI Hbd) as (E1 & E2 & E3).
    assert (Hhi : upper st == eff_lower st + (upper st - eff_lower st)) by ring.
    rewrite (gibbs_fold_reflect _ _ _ x Hhi).
    assert (Hel : eff_lower st <= x).
    { unfold eff_lower in *. destruct (nonneg st) eqn:En.
      - apply Q.max_lub; [apply Hlo; reflexivity | apply Hnn; reflexivity].
      - apply Hlo; reflexivity. }
    apply reflect_id; [lra | exact Hel |].
    specialize (Hup eq_refl (Hlo eq_refl)). lra.
  - destruct (nonneg st) eqn:En; [| reflexivity].
    apply abs_id. apply Hnn. reflexivity.
Qed.

(* a save / load round trip restores exactly the proposal that was active *)
Lemma fsm_load_fixpoint : forall ops, step (run ops init) Load = run ops init.
Proof.
  intro ops. destruct (Inv_reachable ops) as (Ha & _).
  destruct (run ops init) as [b n lo hi w a]. simpl in *. unfold update. simpl.
  rewrite Ha. reflexivity.
Qed.

(* calls that set or clear one limit leave the other limit's switch and values alone *)
Lemma fsm_other_limit_untouched : forall st o,
  match o with
  | SetBoundaries _ _ | RemoveBoundaries => nonneg (step st o) = nonneg st
  | SetNonNegative _ =>
      bounded (step st o) = bounded st /\ lower (step st o) = lower st /\
      upper (step st o) = upper st
  | SetNonNegativeInvalid | Load =>
      nonneg (step st o) = nonneg st /\ bounded (step st o) = bounded st /\
      lower (step st o) = lower st /\ upper (step st o) = upper st
  end.
Proof.
  intros st o. destruct o as [lo hi | | b | |]; simpl.
  - destruct (Qltb lo hi); [| reflexivity].
    destruct (nonneg st && negb (Qltb 0 hi)); reflexivity.
  - reflexivity.
  - destruct (b && bounded st && negb (Qltb 0 (upper st))); simpl; auto.
  - auto.
  - auto.
Qed.

(* accepted calls take effect (the invariant is not satisfied vacuously by a
   machine that never switches a limit on) *)
Lemma fsm_set_boundaries_effect : forall st lo hi,
  lo < hi -> (nonneg st = true -> 0 < hi) ->
  let st' := step st (SetBoundaries lo hi) in
  bounded st' = true /\ lower st' = lo /\ upper st' = hi /\ active st' = Bnd.
Proof.
  intros st lo hi Hlt Hnn. simpl.
  apply Qltb_true in Hlt. rewrite Hlt.
  destruct (nonneg st) eqn:En; simpl.
  - assert (H : Qltb 0 hi = true) by (apply Qltb_true; apply Hnn; reflexivity).
    rewrite H. simpl. auto.
  - auto.
Qed.

Lemma fsm_set_non_negative_effect : forall st,
  (bounded st = true -> 0 < upper st) ->
  let st' := step st (SetNonNegative true) in
  nonneg st' = true /\ active st' = select (bounded st) true.
Proof.
  intros st Hb. simpl. destruct (bounded st) eqn:Eb; simpl.
  - assert (H : Qltb 0 (upper st) = true) by (apply Qltb_true; apply Hb; reflexivity).
    rewrite H. simpl. auto.
  - auto.
Qed.

Lemma fsm_clear_effect : forall st,
  bounded (step st RemoveBoundaries) = false /\
  nonneg (step st (SetNonNegative false)) = false.
Proof.
  intro st. simpl. split; [reflexivity |].
  reflexivity.
Qed.

(* refused calls change nothing *)
Lemma fsm_refused_calls : forall st lo hi,
  (hi <= lo -> step st (SetBoundaries lo hi) = st) /\
  step st SetNonNegativeInvalid = st.
Proof.
  intros st lo hi. split; [| reflexivity].
  intro H. simpl. apply Qltb_false in H. rewrite H. reflexivity.
Qed.

(* ------------------------------------------------------------ the pinned FSM *)
Lemma limits_hold_at_sound : forall prop st,
  limits_in_force prop st -> forall x, limits_hold_at prop st x = true.
Proof.
  intros prop st [Hb Hn] x. unfold limits_hold_at.
  apply andb_true_iff. split.
  - destruct (bounded st) eqn:Eb; [| reflexivity]. simpl.
    destruct (Hb eq_refl x) as [H1 H2].
    apply andb_true_iff. split; apply Qle_bool_iff; assumption.
  - destruct (nonneg st) eqn:En; [| reflexivity]. simpl.
    apply Qle_bool_iff. apply Hn. reflexivity.
Qed.

(* set_boundaries then set_non_negative(False): bounded stays True, the
   proposal is standard_proposal *)
Definition witness_ops_1 : list op := [SetBoundaries (1 # 2) 2; SetNonNegative false].
(* set_non_negative(True), set_boundaries, remove_boundaries: the switch stays
   on, the proposal is standard_proposal *)
Definition witness_ops_2 : list op :=
  [SetNonNegative true; SetBoundaries (1 # 2) 2; RemoveBoundaries].
(* set_boundaries then set_non_negative(True): abs_proposal ignores the boundaries *)
Definition witness_ops_3 : list op := [SetBoundaries (1 # 2) 2; SetNonNegative true].
(* set_non_negative(True) then set_boundaries(-3, 2): the fold reaches below zero *)
Definition witness_ops_4 : list op := [SetNonNegative true; SetBoundaries (-3) 2].

Lemma pinned_witnesses :
  limits_hold_at propose_pinned (run_pinned witness_ops_1 init) (-5) = false /\
  limits_hold_at propose_pinned (run_pinned witness_ops_2 init) (-5) = false /\
  limits_hold_at propose_pinned (run_pinned witness_ops_3 init) 7 = false /\
  limits_hold_at propose_pinned (run_pinned witness_ops_4 init) (-1) = false.
Proof. repeat split; vm_compute; reflexivity. Qed.

Lemma fsm_limits_in_force_pinned_refuted :
  exists ops x,
    let st := run_pinned ops init in
    bounded st = true /\ ~ (lower st <= propose_pinned st x /\ propose_pinned st x <= upper st).
Proof.
  exists witness_ops_1, (-5). cbv zeta. split; [vm_compute; reflexivity |].
  intros [H _]. vm_compute in H. apply H. reflexivity.
Qed.

Lemma fsm_non_negative_pinned_refuted :
  exists ops x,
    let st := run_pinned ops init in
    nonneg st = true /\ ~ (0 <= propose_pinned st x).
Proof.
  exists witness_ops_2, (-5). cbv zeta. split; [vm_compute; reflexivity |].
  intro H. vm_compute in H. apply H. reflexivity.
Qed.

Lemma fsm_pinned_not_invariant :
  ~ (forall ops, limits_in_force propose_pinned (run_pinned ops init)).
Proof.
  intro H. pose proof (limits_hold_at_sound _ _ (H witness_ops_1) (-5)) as C.
  destruct pinned_witnesses as [W _]. rewrite W in C. discriminate.
Qed.

(* on the pinned machine a save / load round trip changes the active proposal *)
Lemma fsm_load_pinned_refuted :
  exists ops, step_pinned (run_pinned ops init) Load <> run_pinned ops init.
Proof. exists witness_ops_3. vm_compute. discriminate. Qed.
