(* Proofs/InversionReprProofs.v -- lemmas about Model/InversionRepr.v (property C17). *)
From Coq Require Import List ZArith QArith Qabs Bool Lia.
From IT Require Import Model.InversionRepr.
Import ListNotations.

Lemma eval_values_only : forall (T : Type) (F : list Q -> T) t1 t2,
  map val t1 = map val t2 -> eval_at F t1 = eval_at F t2.
Proof. intros T F t1 t2 H. unfold eval_at. now rewrite H. Qed.

Lemma as_float_values : forall t, map val (as_float t) = map val t.
Proof. intros t. unfold as_float. rewrite map_map. reflexivity. Qed.

Lemma as_float_store : forall t, store_of (as_float t) = SFloat.
Proof. intros [|x t]; reflexivity. Qed.

Lemma report_float : forall g, report SFloat g = g.
Proof. intros g. unfold report. simpl. apply map_id. Qed.

Lemma gradient_exact : forall G t, gradient_reported grad_buffer G t = G (map val t).
Proof. intros G t. unfold gradient_reported, grad_buffer. apply report_float. Qed.

Lemma gradient_values_only : forall G t1 t2, map val t1 = map val t2 ->
  gradient_reported grad_buffer G t1 = gradient_reported grad_buffer G t2.
Proof. intros G t1 t2 H. rewrite !gradient_exact. now rewrite H. Qed.

Lemma gradient_like_float : forall G t, store_of t = SFloat ->
  gradient_reported grad_buffer_like G t = G (map val t).
Proof. intros G t H. unfold gradient_reported, grad_buffer_like. rewrite H. apply report_float. Qed.

(* truncation keeps whole numbers and moves every number by less than one, toward zero *)
Lemma trunc_whole : forall z, trunc (inject_Z z) = inject_Z z.
Proof. intros z. unfold trunc. simpl. now rewrite Z.quot_1_r. Qed.

Lemma trunc_error : forall x, Qabs (x - trunc x) < 1.
Proof.
  intros [n d]. unfold trunc, Qlt, Qabs, Qminus, Qplus, Qopp, inject_Z. simpl.
  rewrite !Z.mul_1_r.
  pose proof (Z.quot_rem' n (Z.pos d)) as Hqr.
  pose proof (Z.rem_bound_abs n (Z.pos d) ltac:(lia)) as Hb.
  replace (n + - (n ÷ Z.pos d) * Z.pos d)%Z with (Z.rem n (Z.pos d)) by lia.
  lia.
Qed.

(* the zeros_like buffer: an integer theta and a float theta of the same values give
   different reported gradients *)
Lemma gradient_like_refuted :
  exists (G : list Q -> list Q) (t : list num),
    gradient_reported grad_buffer_like G t <> G (map val t)
    /\ gradient_reported grad_buffer_like G (as_float t) = G (map val t)
    /\ gradient_reported grad_buffer G t = G (map val t).
Proof.
  exists (fun _ => [(-364 # 100); (6684 # 100); (1 # 2)]), [NInt 2; NInt 0; NInt (-1)].
  split; [|split]; [discriminate | reflexivity | reflexivity].
Qed.
