(* Lemmas about the read-outs in a world that holds the caller's objects, about the options of
   the read-outs and about size-dependent shortcuts (property C14). *)
From Coq Require Import List ZArith Bool Arith Lia Uint63.
From IT Require Import Model.Readouts Proofs.ReadoutsProofs Model.ReadoutsSteps
  Proofs.ReadoutsStepsProofs Model.ReadoutsWorld.
Import ListNotations.

(* ------------------------------------------------------------------ the caller's memory *)
Lemma calls_cons_call s t : calls (Call s :: t) = s :: calls t.
Proof. reflexivity. Qed.

Lemma calls_cons_write b j v t : calls (CallerWrite b j v :: t) = calls t.
Proof. reflexivity. Qed.

(* a store none of whose cells is shared with the caller: whatever the caller writes into its own
   arrays, and wherever in the history, the store is the one the calls alone produce *)
Lemma run_events_no_links lay evs : forall w, w_links w = [] ->
  w_store (run_events lay evs w) = run_history lay (calls evs) (w_store w) /\
  w_links (run_events lay evs w) = [].
Proof.
  induction evs as [|e t IH]; intros w Hl.
  - split; [reflexivity|exact Hl].
  - destruct e as [s|b j v].
    + rewrite calls_cons_call. unfold run_events. simpl fold_left.
      fold (run_events lay t (mkWorld (w_heap w) (run_step lay (w_store w) s) (w_links w))).
      destruct (IH (mkWorld (w_heap w) (run_step lay (w_store w) s) (w_links w)) Hl) as [H1 H2].
      split; [|exact H2]. rewrite H1. reflexivity.
    + rewrite calls_cons_write. unfold run_events. simpl fold_left.
      fold (run_events lay t (caller_write b j v w)).
      assert (Hs : w_store (caller_write b j v w) = w_store w).
      { unfold caller_write. simpl. rewrite Hl. reflexivity. }
      assert (Hk : w_links (caller_write b j v w) = []) by exact Hl.
      destruct (IH (caller_write b j v w) Hk) as [H1 H2].
      split; [|exact H2]. rewrite H1, Hs. reflexivity.
Qed.

(* the writes themselves do happen: the caller's array holds the new value *)
Lemma set_nth_length {A} (v : A) l : forall i, length (set_nth i v l) = length l.
Proof. induction l as [|x t IH]; intros [|i]; simpl; auto. Qed.

Lemma set_nth_same {A} (v d : A) l : forall i, i < length l -> nth i (set_nth i v l) d = v.
Proof.
  induction l as [|x t IH]; intros [|i] Hi; simpl in *; try lia; [reflexivity|].
  apply IH. lia.
Qed.

Lemma caller_write_heap b j v w : b < length (w_heap w) -> j < length (nth b (w_heap w) []) ->
  nth j (nth b (w_heap (caller_write b j v w)) []) 0%Z = v.
Proof.
  intros Hb Hj. unfold caller_write, set_cell. simpl.
  rewrite set_nth_same by exact Hb. apply set_nth_same. exact Hj.
Qed.

(* ------------------------------------------------------------------ what a constructor stores *)
Lemma map_nth_seq {A} (d : A) (l : list A) : map (fun k => nth k l d) (seq 0 (length l)) = l.
Proof.
  induction l as [|x t IH]; [reflexivity|].
  simpl length. simpl seq. simpl map. f_equal.
  rewrite <- seq_shift, map_map. exact IH.
Qed.

Lemma init_store_wf lay npar rows ps : 1 <= npar -> length rows = length ps ->
  wf lay (fst (init_store lay npar rows ps)) (snd (init_store lay npar rows ps)) (length rows).
Proof.
  intros Hn Hl. destruct lay; simpl.
  - split; [symmetry; exact Hl|]. split.
    + destruct npar; [lia|]. simpl. discriminate.
    + apply Forall_forall. intros c Hc. apply in_map_iff in Hc. destruct Hc as [i [Hc _]].
      subst c. apply map_length.
  - split; [symmetry; exact Hl|reflexivity].
Qed.

Lemma init_store_rows lay npar rows ps : Forall (fun r => length r = npar) rows ->
  all_rows lay (fst (init_store lay npar rows ps)) (length rows) = rows.
Proof.
  intros Hr. destruct lay; simpl; [|reflexivity].
  unfold transpose.
  transitivity (map (fun k => nth k rows []) (seq 0 (length rows))); [|apply map_nth_seq].
  apply map_ext_in. intros k Hk. apply in_seq in Hk.
  rewrite map_map.
  assert (Hlen : length (nth k rows []) = npar).
  { rewrite Forall_forall in Hr. apply Hr. apply nth_In. lia. }
  transitivity (map (fun i => nth i (nth k rows []) 0%Z) (seq 0 (length (nth k rows []))));
    [|apply map_nth_seq].
  rewrite Hlen. apply map_ext. intros i.
  apply (nth_map_default (fun r => nth i r 0%Z) rows k [] 0%Z). lia.
Qed.

Lemma init_store_data_length npar rows ps :
  length (fst (init_store ColMajor npar rows ps)) = npar.
Proof. simpl. rewrite map_length, seq_length. reflexivity. Qed.

(* the read-outs of a constructed chain after any history of calls (completed or interrupted) and of
   writes of the caller to its own arrays: the chain is the VALUES the start buffers had at
   construction time followed by the rows of the completed calls *)
Lemma readouts_after_caller_writes lay npar evs h starts ps i burn thin :
  1 <= thin -> i < npar -> length starts = length ps ->
  Forall (fun b => length (nth b h []) = npar) starts ->
  Forall (step_ok npar) (calls evs) ->
  let w' := run_events lay evs (construct lay npar h starts ps) in
  let rows := start_rows h starts ++ completed_rows (calls evs) in
  let pss := ps ++ completed_probs (calls evs) in
  let L := slice_len (length pss) burn thin in
  w_links w' = [] /\
  length rows = length pss /\
  length (get_sample lay (fst (w_store w')) burn thin) = L /\
  length (get_parameter lay (fst (w_store w')) i burn thin) = L /\
  length (get_probabilities (snd (w_store w')) burn thin) = L /\
  forall k, k < L ->
    burn + k * thin < length pss /\
    nth k (get_sample lay (fst (w_store w')) burn thin) [] = nth (burn + k * thin) rows [] /\
    nth k (get_parameter lay (fst (w_store w')) i burn thin) 0%Z
      = nth i (nth (burn + k * thin) rows []) 0%Z /\
    nth k (get_probabilities (snd (w_store w')) burn thin) 0%Z = nth (burn + k * thin) pss 0%Z.
Proof.
  intros Hthin Hi Hlen Hrows Hok. cbv zeta.
  destruct (run_events_no_links lay evs (construct lay npar h starts ps) eq_refl) as [Hst Hlk].
  split; [exact Hlk|]. rewrite Hst. unfold construct. simpl w_store.
  assert (Hrl : length (start_rows h starts) = length ps).
  { unfold start_rows. rewrite map_length. exact Hlen. }
  assert (Hfr : Forall (fun r => length r = npar) (start_rows h starts)).
  { unfold start_rows. apply Forall_forall. intros r Hr. apply in_map_iff in Hr.
    destruct Hr as [b [Hr Hb]]. subst r. rewrite Forall_forall in Hrows. apply Hrows. exact Hb. }
  pose proof (init_store_wf lay npar (start_rows h starts) ps ltac:(lia) Hrl) as Hwf.
  pose proof (init_store_rows lay npar (start_rows h starts) ps Hfr) as Hall.
  remember (init_store lay npar (start_rows h starts) ps) as st0 eqn:Est.
  destruct st0 as [d0 p0]. simpl fst in *. simpl snd in *.
  assert (Hp0 : p0 = ps).
  { destruct lay; simpl in Est; inversion Est; reflexivity. }
  assert (Hcol : lay = ColMajor -> length d0 = npar /\ i < npar).
  { intros El. split; [|exact Hi]. subst lay. simpl in Est. inversion Est.
    rewrite map_length, seq_length. reflexivity. }
  pose proof (readouts_after_interruptions lay npar (calls evs) d0 p0
                (length (start_rows h starts)) i burn thin Hthin Hwf Hcol Hok) as H.
  cbv zeta in H. rewrite Hall in H. subst p0. exact H.
Qed.

(* a constructor that keeps the caller's array as the stored row: one later write of the caller
   and entry 0 of the chain is no longer the point the chain was started at, while the
   log-probability stored next to it is still that of the original point *)
Lemma shared_start_refuted :
  exists h ps b j v,
    let w := construct_shared 2 h [b] ps in
    let w' := run_events RowMajor [CallerWrite b j v] w in
    get_sample RowMajor (fst (w_store w)) 0 1 = [nth b h []] /\
    get_sample RowMajor (fst (w_store w')) 0 1 <> [nth b h []] /\
    get_probabilities (snd (w_store w')) 0 1 = get_probabilities (snd (w_store w)) 0 1 /\
    w_store (run_events RowMajor [CallerWrite b j v] (construct RowMajor 2 h [b] ps))
    = w_store (construct RowMajor 2 h [b] ps).
Proof.
  exists [[10; 20]%Z], [5%Z], 0, 1, 99%Z. cbv zeta.
  repeat split; try (vm_compute; reflexivity).
  vm_compute. discriminate.
Qed.

(* ------------------------------------------------------------------ options *)
Lemma marginal_input_opt_spec unimodal lay data probs n i burn thin :
  1 <= thin -> wf lay data probs n -> (lay = ColMajor -> i < length data) ->
  marginal_input_opt unimodal lay data i burn thin = get_parameter lay data i burn thin /\
  length (marginal_input_opt unimodal lay data i burn thin) = slice_len n burn thin /\
  forall k, k < slice_len n burn thin ->
    nth k (marginal_input_opt unimodal lay data i burn thin) 0%Z
    = nth i (chain_row lay data (burn + k * thin)) 0%Z.
Proof.
  intros Hthin Hwf Hi.
  assert (E : marginal_input_opt unimodal lay data i burn thin = marginal_input lay data i burn thin).
  { unfold marginal_input_opt, marginal_input. destruct unimodal; reflexivity. }
  rewrite E. apply (marginal_input_spec lay data probs n i burn thin Hthin Hwf Hi).
Qed.

(* ------------------------------------------------------------------ size-dependent shortcuts *)
Lemma decimate_small {A} m (l : list A) : 1 <= m -> length l < 2 * m -> decimate m l = l.
Proof.
  intros Hm Hl. unfold decimate.
  assert (Hq : length l / m < 2) by (apply Nat.div_lt_upper_bound; lia).
  replace (Nat.max (length l / m) 1) with 1 by lia.
  apply slice_all.
Qed.

Lemma decimate_large {A} m (l : list A) : 1 <= m -> 2 * m <= length l ->
  length (decimate m l) < length l.
Proof.
  intros Hm Hl. unfold decimate.
  assert (Hq : 2 <= length l / m) by (apply Nat.div_le_lower_bound; lia).
  assert (Hq' : length l / m <= length l) by (apply Nat.div_le_upper_bound; nia).
  set (s := length l / m) in *.
  replace (Nat.max s 1) with s by lia.
  rewrite slice_length by lia. unfold slice_len.
  apply Nat.div_lt_upper_bound; [lia|]. nia.
Qed.

(* the shortcut of threshold m cannot be told from the documented behaviour on any chain that
   retains fewer than 2m values, and loses values on every chain that retains 2m or more *)
Lemma size_shortcut_refuted m unimodal lay data i burn thin : 1 <= m ->
  (length (get_parameter lay data i burn thin) < 2 * m ->
   marginal_input_decimated m unimodal lay data i burn thin
   = marginal_input_opt unimodal lay data i burn thin) /\
  (2 * m <= length (get_parameter lay data i burn thin) ->
   length (marginal_input_decimated m true lay data i burn thin)
   < length (marginal_input_opt true lay data i burn thin)).
Proof.
  intros Hm. split; intros H.
  - unfold marginal_input_decimated, marginal_input_opt. destruct unimodal; [|reflexivity].
    apply decimate_small; assumption.
  - unfold marginal_input_decimated, marginal_input_opt. apply decimate_large; assumption.
Qed.

(* ------------------------------------------------------------------ packed arrays *)
Lemma unpack_example :
  unpack [(4, [1152920405095219202; 4398046511104]%uint63)]
  = [1048575; 0; 2; 4]%Z.
Proof. vm_compute. reflexivity. Qed.
