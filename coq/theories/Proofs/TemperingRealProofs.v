(* C08 (b) over the reals: the accept decision of the exchange is the truth about
   u < exp((beta_i - beta_j)(L_j - L_i)); uses the soundness of the rational exp
   bounds (Proofs/ExpBoundsProofs.v), hence Coq's classical real numbers. *)
From Coq Require Import Reals QArith Qreals Lra.
From IT Require Import Common.ExpBounds Proofs.ExpBoundsProofs Model.Tempering Proofs.TemperingProofs.
Open Scope R_scope.

Theorem swap_decision_real : forall (u bi bj Li Lj pri prj : Q) (b : bool),
  ~ (bi == 0)%Q -> ~ (bj == 0)%Q -> (pri == bi * Li)%Q -> (prj == bj * Lj)%Q ->
  swap_decide u bi bj pri prj = Some b ->
  (b = true -> Q2R u < exp ((Q2R bi - Q2R bj) * (Q2R Lj - Q2R Li))) /\
  (b = false -> exp ((Q2R bi - Q2R bj) * (Q2R Lj - Q2R Li)) < Q2R u).
Proof.
  intros u bi bj Li Lj pri prj b Hi Hj Hpi Hpj Hdec.
  unfold swap_decide in Hdec.
  pose proof (decide_accept_sound u _ b Hdec) as Hs.
  pose proof (swap_exponent_untempered bi bj Li Lj pri prj Hi Hj Hpi Hpj) as He.
  apply Qeq_eqR in He. rewrite He in Hs.
  rewrite Q2R_mult, !Q2R_minus in Hs. exact Hs.
Qed.

(* the code compares with  <=  where decide_accept decides  <  : outside the
   undecided gap the two agree, because the answers are strict both ways *)
Corollary swap_decision_real_le : forall (u bi bj Li Lj pri prj : Q) (b : bool),
  ~ (bi == 0)%Q -> ~ (bj == 0)%Q -> (pri == bi * Li)%Q -> (prj == bj * Lj)%Q ->
  swap_decide u bi bj pri prj = Some b ->
  (b = true <-> Q2R u <= exp ((Q2R bi - Q2R bj) * (Q2R Lj - Q2R Li))).
Proof.
  intros u bi bj Li Lj pri prj b Hi Hj Hpi Hpj Hdec.
  destruct (swap_decision_real u bi bj Li Lj pri prj b Hi Hj Hpi Hpj Hdec) as [Ht Hf].
  destruct b; split; intros H.
  - specialize (Ht eq_refl). lra.
  - reflexivity.
  - discriminate H.
  - specialize (Hf eq_refl). lra.
Qed.
