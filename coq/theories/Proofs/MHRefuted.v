(* Witnesses (exact rationals, vm_compute) for the two C01 defects of the pinned
   tree that are about the algorithm rather than a slip of the pen:
   - a sampler that retries until a proposal is accepted does NOT have the target
     as the stationary law of the chain it stores (D3);
   - the pinned ensemble proposal X_i + z (X_j - X_i) cannot be undone by any
     stretch in the support of z, so it is not reversible (D2). *)
From Coq Require Import QArith Qminmax List Lqa.
Import ListNotations.
Open Scope Q_scope.

Definition qsum (f : nat -> Q) (n : nat) : Q :=
  fold_right (fun i acc => f i + acc) 0 (seq 0 n).

Section Retry.
  Variable n : nat.
  Variable pi : nat -> Q.
  Variable q : nat -> nat -> Q.
  Definition accQ (x y : nat) : Q := Qmin 1 (pi y / pi x).
  Definition PQ (x y : nat) : Q := q x y * accQ x y.
  Definition AQ (x : nat) : Q := qsum (fun z => if Nat.eqb z x then 0 else PQ x z) n.
  (* single attempt, rejected attempt repeats the state *)
  Definition KQ (x y : nat) : Q := if Nat.eqb x y then 1 - AQ x else PQ x y.
  (* retry until accepted *)
  Definition JQ (x y : nat) : Q := if Nat.eqb x y then 0 else PQ x y / AQ x.
  Definition stationary (T : nat -> nat -> Q) : bool :=
    forallb (fun y => Qeq_bool (qsum (fun x => pi x * T x y) n) (pi y)) (seq 0 n).
End Retry.

Definition w_pi (x : nat) : Q := match x with O => 1 # 7 | S O => 2 # 7 | _ => 4 # 7 end.
Definition w_q (x y : nat) : Q := if Nat.eqb x y then 0 else 1 # 2.

(* the ordinary Metropolis kernel keeps the target ... *)
Example single_attempt_ok : stationary 3 w_pi (KQ 3 w_pi w_q) = true.
Proof. vm_compute. reflexivity. Qed.

(* ... the retry-until-accept chain does not *)
Theorem retry_chain_refuted :
  exists (n : nat) (pi : nat -> Q) (q : nat -> nat -> Q),
    (forall x y, q x y = q y x) /\ qsum pi n == 1 /\
    stationary n pi (KQ n pi q) = true /\ stationary n pi (JQ n pi q) = false.
Proof.
  exists 3%nat, w_pi, w_q. split.
  - intros x y. unfold w_q. rewrite (Nat.eqb_sym x y). reflexivity.
  - split; [vm_compute; reflexivity|]. split; vm_compute; reflexivity.
Qed.

(* pinned ensemble proposal (1-D is enough): from X_i = 0 with partner X_j = 2 and
   z = 1/2 (inside [1/a, a] for a = 2) the walker moves to Y = 1, but no z' in
   [1/2, 2] brings it back: Y + z' (X_j - Y) = 1 + z' <> 0 *)
Definition stretch_pinned1 (xi xj z : Q) : Q := xi + z * (xj - xi).
Definition stretch1 (xi xj z : Q) : Q := xj + z * (xi - xj).

Theorem stretch_pinned_irreversible :
  exists xi xj z, (1 # 2) <= z <= 2 /\
    forall z', (1 # 2) <= z' <= 2 -> ~ stretch_pinned1 (stretch_pinned1 xi xj z) xj z' == xi.
Proof.
  exists 0, 2, (1 # 2). split; [lra|]. intros z' Hz'. unfold stretch_pinned1. intros H. lra.
Qed.

(* the repaired proposal is undone by z' = 1/z, which is in the support iff z is *)
Theorem stretch_reversible xi xj z : 0 < z ->
  stretch1 (stretch1 xi xj z) xj (/ z) == xi.
Proof. intros Hz. unfold stretch1. field. lra. Qed.

Lemma support_inverse (a z : Q) : 0 < a -> / a <= z <= a -> / a <= / z <= a.
Proof.
  intros Ha [H1 H2].
  assert (Hia : 0 < / a) by (apply Qinv_lt_0_compat; exact Ha).
  assert (Hz : 0 < z) by lra.
  assert (Hiz : 0 < / z) by (apply Qinv_lt_0_compat; exact Hz).
  assert (Hzw : z * / z == 1) by (field; lra).
  assert (Hab : a * / a == 1) by (field; lra).
  revert Hia Hiz Hzw Hab H1. generalize (/ z) as w. generalize (/ a) as b.
  intros b w Hb Hw Hzw Hab H1. split; nra.
Qed.
