(* Lemmas about RealModel/AcquisitionScale.v: the code-level acquisition functions are
   covariant under a change of units of the objective (all scales behave alike, there is no
   scale at which they stop being the definition); an absolute floor on sigma is not. *)
From Coq Require Import Reals Lra.
From Coquelicot Require Import Coquelicot.
From IT Require Import RealModel.Acquisition RealModel.AcquisitionScale
                       Proofs.AcquisitionProofs Proofs.GaussianProofs.
Open Scope R_scope.

Lemma zscore_units c mu sig ymax : c <> 0 -> sig <> 0 ->
  zscore (c * mu) (c * sig) (c * ymax) = zscore mu sig ymax.
Proof. intros Hc Hs. unfold zscore. field. split; assumption. Qed.

Lemma ei_spec_units c mu sig ymax : 0 < c -> 0 < sig ->
  ei_spec (c * mu) (c * sig) (c * ymax) = c * ei_spec mu sig ymax.
Proof.
  intros Hc Hs. unfold ei_spec. rewrite zscore_units; [ring | lra | lra].
Qed.

Lemma ei_call_units c mu sig ymax : 0 < c -> 0 < sig ->
  ei_call (c * mu) (c * sig) (c * ymax) = c * ei_call mu sig ymax.
Proof.
  intros Hc Hs. assert (Hcs : 0 < c * sig) by (apply Rmult_lt_0_compat; assumption).
  rewrite !ei_call_spec; auto using ei_kernel_pos. apply ei_spec_units; assumption.
Qed.

Lemma ei_opt_func_units c mu sig ymax : 0 < c -> 0 < sig ->
  ei_opt_func (c * mu) (c * sig) (c * ymax) = ei_opt_func mu sig ymax - ln c.
Proof.
  intros Hc Hs. assert (Hcs : 0 < c * sig) by (apply Rmult_lt_0_compat; assumption).
  rewrite !ei_opt_func_spec; auto using ei_kernel_pos.
  rewrite ei_spec_units; auto.
  rewrite ln_mult; [ring | exact Hc | apply ei_spec_pos; auto using ei_kernel_pos].
Qed.

Lemma ei_opt_grad_units c mu sig ymax dmu dvar : 0 < c -> 0 < sig ->
  ei_opt_grad (c * mu) (c * sig) (c * ymax) (c * dmu) (c * c * dvar)
  = ei_opt_grad mu sig ymax dmu dvar.
Proof.
  intros Hc Hs. assert (Hcs : 0 < c * sig) by (apply Rmult_lt_0_compat; assumption).
  rewrite !ei_opt_grad_spec; auto using ei_kernel_pos.
  unfold ln_ei_grad_spec. cbv zeta. rewrite ei_spec_units; auto.
  rewrite zscore_units; [ | lra | lra].
  pose proof (ei_spec_pos mu sig ymax Hs (ei_kernel_pos _)) as Hp.
  field. repeat split; lra.
Qed.

Lemma ucb_units c kappa mu sig dmu dvar : 0 < c -> 0 < sig ->
  ucb_call kappa (c * mu) (c * sig) = c * ucb_call kappa mu sig /\
  ucb_opt_func kappa (c * mu) (c * sig) = c * ucb_opt_func kappa mu sig /\
  ucb_opt_grad kappa (c * sig) (c * dmu) (c * c * dvar) = c * ucb_opt_grad kappa sig dmu dvar.
Proof.
  intros Hc Hs. unfold ucb_call, ucb_opt_func, ucb_opt_grad. repeat split; try ring.
  field. split; lra.
Qed.

Lemma mv_units c sig dvar :
  mv_call (c * sig) = c * c * mv_call sig /\
  mv_opt_func (c * sig) = c * c * mv_opt_func sig /\
  mv_opt_grad (c * c * dvar) = c * c * mv_opt_grad dvar.
Proof. unfold mv_call, mv_opt_func, mv_opt_grad. repeat split; ring. Qed.

(* ---- an absolute floor on sigma: whatever its value, there are data (an objective in
   small enough units) for which the floored EI is not the expected improvement ---- *)
Lemma floored_above floor sig : floor <= sig -> floored floor sig = sig.
Proof. intros H. unfold floored. apply Rmax_left. exact H. Qed.

Lemma floored_below floor sig : sig <= floor -> floored floor sig = floor.
Proof. intros H. unfold floored. apply Rmax_right. exact H. Qed.

Lemma ei_kernel_0_pos : 0 < ei_kernel 0.
Proof. apply ei_kernel_pos. Qed.

Lemma sigma_floor_refuted floor : 0 < floor ->
  exists mu sig ymax, 0 < sig /\
    ei_call_floored floor mu sig ymax <> ei_spec mu sig ymax /\
    ei_opt_func_floored floor mu sig ymax <> - ln (ei_spec mu sig ymax).
Proof.
  intros Hf. exists 0, (floor / 2), 0.
  assert (Hs : 0 < floor / 2) by lra.
  split; [exact Hs | ].
  unfold ei_call_floored, ei_opt_func_floored. rewrite floored_below; [ | lra].
  rewrite ei_call_spec, ei_opt_func_spec; auto using ei_kernel_pos.
  assert (Hz1 : zscore 0 floor 0 = 0) by (unfold zscore; field; lra).
  assert (Hz2 : zscore 0 (floor / 2) 0 = 0) by (unfold zscore; field; lra).
  unfold ei_spec. rewrite Hz1, Hz2.
  pose proof ei_kernel_0_pos as Hk.
  assert (Hlt : floor / 2 * ei_kernel 0 < floor * ei_kernel 0).
  { apply Rmult_lt_compat_r; lra. }
  split; [lra | ].
  intros H. apply Ropp_eq_compat in H. rewrite !Ropp_involutive in H.
  apply ln_inv in H; [lra | | ]; apply Rmult_lt_0_compat; lra.
Qed.

(* ... while at and above the floor nothing changes (which is why data of order 1 never
   show it) *)
Lemma sigma_floor_invisible floor mu sig ymax : floor <= sig ->
  ei_call_floored floor mu sig ymax = ei_call mu sig ymax /\
  ei_opt_func_floored floor mu sig ymax = ei_opt_func mu sig ymax.
Proof.
  intros H. unfold ei_call_floored, ei_opt_func_floored. rewrite floored_above; auto.
Qed.
