(* decode (encode s) = Some s  whenever the rendered keys are pairwise distinct. *)
From Coq Require Import String Ascii List Bool Arith QArith Lia.
From IT Require Import Model.SaveLoad.
Import ListNotations.
Open Scope nat_scope.
Open Scope string_scope.

Lemma lookup_encode_notin k fields :
  ~ In k (map (fun kv => render (fst kv)) fields) -> lookup k (encode fields) = None.
Proof.
  induction fields as [|[k' v] t IH]; intros Hn; simpl; [reflexivity|].
  simpl in Hn. destruct (String.eqb_spec k (render k')) as [->|Hne].
  - exfalso. apply Hn. left. reflexivity.
  - apply IH. intros Hin. apply Hn. right. exact Hin.
Qed.

Lemma lookup_encode_in fields : forall k v,
  NoDup (map (fun kv => render (fst kv)) fields) -> In (k, v) fields ->
  lookup (render k) (encode fields) = Some v.
Proof.
  induction fields as [|[k' v'] t IH]; intros k v Hnd Hin; [destruct Hin|].
  simpl in *. inversion Hnd as [|? ? Hnotin Hnd']; subst.
  destruct Hin as [Heq|Hin].
  - inversion Heq; subst. rewrite String.eqb_refl. reflexivity.
  - destruct (String.eqb_spec (render k) (render k')) as [He|Hne].
    + exfalso. apply Hnotin. rewrite <- He.
      apply (in_map (fun kv => render (fst kv)) t (k, v)). exact Hin.
    + apply IH; assumption.
Qed.

Lemma decode_encode_sub fields : NoDup (map (fun kv => render (fst kv)) fields) ->
  forall sub, incl sub fields -> decode (map fst sub) (encode fields) = Some sub.
Proof.
  intros Hnd sub. induction sub as [|[k v] t IH]; intros Hincl; simpl; [reflexivity|].
  rewrite (lookup_encode_in fields k v Hnd) by (apply Hincl; left; reflexivity).
  rewrite IH by (intros x Hx; apply Hincl; right; exact Hx). reflexivity.
Qed.

(* reading back exactly the saved schema returns exactly the saved state *)
Theorem decode_encode fields : NoDup (map (fun kv => render (fst kv)) fields) ->
  decode (map fst fields) (encode fields) = Some fields.
Proof. intros Hnd. apply decode_encode_sub; [exact Hnd|apply incl_refl]. Qed.

(* a key that save() does not write makes load() fail -- it cannot silently
   default (this is what the generated lemma keys_available excludes) *)
Theorem decode_missing_key fields schema k :
  In k schema -> ~ In (render k) (map (fun kv => render (fst kv)) fields) ->
  decode schema (encode fields) = None.
Proof.
  induction schema as [|k' ks IH]; intros Hin Hn; [destruct Hin|].
  simpl. destruct Hin as [->|Hin].
  - rewrite lookup_encode_notin by exact Hn. reflexivity.
  - rewrite IH by assumption. destruct (lookup (render k') (encode fields)); reflexivity.
Qed.

(* continuation: any function of the decoded state equals that function of the
   original state (so `steps k (load (save s)) = steps k s`) *)
Corollary continue_after_reload {A} (run : list (key * value) -> A) fields :
  NoDup (map (fun kv => render (fst kv)) fields) ->
  option_map run (decode (map fst fields) (encode fields)) = Some (run fields).
Proof. intros H. rewrite decode_encode by exact H. reflexivity. Qed.

(* injectivity of the rendered Parameter keys: swept for every parameter index
   below 40 (so "param_1samples" vs "param_11samples"-style clashes are excluded
   for all 19 suffixes); a finite check, the bound is part of the statement *)
Lemma nodup_b_sound l : nodup_b l = true -> NoDup l.
Proof.
  induction l as [|x t IH]; intros H; [constructor|].
  simpl in H. apply andb_true_iff in H as [H1 H2]. constructor; [|apply IH; exact H2].
  intros Hin. apply negb_true_iff in H1. unfold mem_b in H1.
  assert (existsb (String.eqb x) t = true).
  { apply existsb_exists. exists x. split; [exact Hin|apply String.eqb_refl]. }
  congruence.
Qed.

Theorem param_keys_injective_40 : NoDup (map render (param_keys 40)).
Proof. apply nodup_b_sound. vm_compute. reflexivity. Qed.
