(* Scale lemmas about RealModel/Trapezium.v: the sample drawn from a cell does not depend
   on the absolute size of the two end densities, scales with the unit of the grid, and a
   wrong slope parameter (what an absolute floor under the cell mean produces on a tiny
   table) gives a wrong distribution. *)
From Coq Require Import Reals Lra Psatz.
From IT Require Import RealModel.Trapezium Proofs.TrapeziumProofs.
Open Scope R_scope.

Lemma cell_delta_scale c p0 p1 : c <> 0 -> p0 + p1 <> 0 ->
  cell_delta (c * p0) (c * p1) = cell_delta p0 p1.
Proof.
  intros Hc Hp. unfold cell_delta. field. split.
  - intros H. apply Hp. lra.
  - replace (c * p1 + c * p0) with (c * (p0 + p1)) by ring. now apply Rmult_integral_contrapositive.
Qed.

Lemma pls_sample_scale_values c x0 x1 p0 p1 u : c <> 0 -> p0 + p1 <> 0 ->
  pls_sample_full x0 x1 (c * p0) (c * p1) u = pls_sample_full x0 x1 p0 p1 u.
Proof. intros Hc Hp. unfold pls_sample_full. now rewrite cell_delta_scale. Qed.

Lemma pls_sample_scale_grid s x0 x1 p0 p1 u :
  pls_sample_full (s * x0) (s * x1) p0 p1 u = s * pls_sample_full x0 x1 p0 p1 u.
Proof. unfold pls_sample_full, cell_sample. ring. Qed.

(* cell probability (of the scaled table, normalised by the scaled total) times the density
   of the sample is the UNSCALED interpolant / total *)
Lemma cell_density_scale_lemma c x0 dx p0 p1 total x :
  c <> 0 -> dx <> 0 -> p0 + p1 <> 0 -> total <> 0 ->
  let mean := (c * p0 + c * p1) / 2 in
  let d := (c * p1 - c * p0) / 2 / mean in
  (mean * dx / (c * total)) * (trap_pdf d ((x - x0) / dx) / dx) = interp x0 dx p0 p1 x / total.
Proof.
  intros Hc Hdx Hm Ht. cbv zeta. unfold trap_pdf, interp. field.
  repeat split; try assumption.
  replace (c * p0 + c * p1) with (c * (p0 + p1)) by ring. now apply Rmult_integral_contrapositive.
Qed.

(* two different slope parameters give different distribution functions inside the cell *)
Lemma trap_cdf_slope_injective d d' t : 0 < t < 1 -> trap_cdf d t = trap_cdf d' t -> d = d'.
Proof.
  intros Ht E. unfold trap_cdf in E.
  assert (F : (d - d') * (t * (t - 1)) = 0) by lra.
  apply Rmult_integral in F. destruct F as [F | F]; [lra | ].
  exfalso. assert (t * (1 - t) > 0) by (apply Rmult_lt_0_compat; lra). lra.
Qed.

(* hence a sample drawn with a wrong slope parameter d' does not have CDF value u under the
   interpolant's slope d *)
Lemma wrong_slope_wrong_quantile u d d' :
  0 <= u <= 1 -> -1 <= d' <= 1 -> d' <> 0 -> d <> d' ->
  0 < trapezium_full u d' < 1 ->
  trap_cdf d (trapezium_full u d') <> u.
Proof.
  intros Hu Hd' Hd0 Hne Ht E.
  apply Hne. apply (trap_cdf_slope_injective d d' (trapezium_full u d') Ht).
  rewrite E. symmetry. now apply IT.Proofs.TrapeziumProofs.trapezium_full_cdf.
Qed.
