(* Lemmas about table-based moments and sample moments (property C19). *)
From Coq Require Import List ZArith QArith Qabs Lia Lqa Qfield Setoid.
From IT Require Import Model.Moments.
Import ListNotations.
Open Scope Q_scope.

(* ---------- induction in steps of two ---------- *)

Lemma list_ind_step2 {A} (P : list A -> Prop) :
  P [] -> (forall a, P [a]) -> (forall a b, P [a; b]) ->
  (forall a b c rest, P (c :: rest) -> P (a :: b :: c :: rest)) -> forall l, P l.
Proof.
  intros H0 H1 H2 Hs.
  assert (H : forall n l, (length l <= n)%nat -> P l).
  { induction n as [|n IH]; intros l Hl.
    - destruct l; [exact H0|simpl in Hl; lia].
    - destruct l as [|a [|b [|c rest]]]; auto.
      apply Hs. apply IH. simpl in *. lia. }
  intros l. apply (H (length l)). apply Nat.le_refl.
Qed.

Lemma simp_step p0 p1 p2 rest :
  simp (p0 :: p1 :: p2 :: rest) == triple p0 p1 p2 + corr_of p1 p2 rest + simp (p2 :: rest).
Proof.
  change (simp (p0 :: p1 :: p2 :: rest))
    with (Qred (Qred (triple p0 p1 p2) + Qred (corr_of p1 p2 rest) + simp (p2 :: rest))).
  rewrite !Qred_correct. reflexivity.
Qed.

(* ---------- the segment formulas through "core" functions ---------- *)

Definition tri_core (hsum r rr y0 y1 y2 : Q) : Q :=
  hsum / 6 * (y0 * (2 - 1 / r) + y1 * rr + y2 * (2 - r)).

Lemma triple_core p0 p1 p2 :
  triple p0 p1 p2 =
  tri_core ((fst p1 - fst p0) + (fst p2 - fst p1))
           ((fst p1 - fst p0) / (fst p2 - fst p1))
           (((fst p1 - fst p0) + (fst p2 - fst p1)) *
            (((fst p1 - fst p0) + (fst p2 - fst p1)) / ((fst p1 - fst p0) * (fst p2 - fst p1))))
           (snd p0) (snd p1) (snd p2).
Proof. reflexivity. Qed.

Lemma tri_core_ext hs r rr y0 y1 y2 hs' r' rr' y0' y1' y2' :
  hs == hs' -> r == r' -> rr == rr' -> y0 == y0' -> y1 == y1' -> y2 == y2' ->
  tri_core hs r rr y0 y1 y2 == tri_core hs' r' rr' y0' y1' y2'.
Proof.
  intros E1 E2 E3 E4 E5 E6. unfold tri_core. rewrite E1, E2, E3, E4, E5, E6. reflexivity.
Qed.

Definition lc_core (alpha beta eta y1 y2 y3 : Q) : Q := alpha * y3 + beta * y2 - eta * y1.

Lemma last_corr_core p1 p2 p3 :
  last_corr p1 p2 p3 =
  lc_core ((2 * ((fst p3 - fst p2) * (fst p3 - fst p2)) + 3 * (fst p2 - fst p1) * (fst p3 - fst p2))
             / (6 * ((fst p3 - fst p2) + (fst p2 - fst p1))))
          (((fst p3 - fst p2) * (fst p3 - fst p2) + 3 * (fst p2 - fst p1) * (fst p3 - fst p2))
             / (6 * (fst p2 - fst p1)))
          (((fst p3 - fst p2) * (fst p3 - fst p2) * (fst p3 - fst p2))
             / (6 * (fst p2 - fst p1) * ((fst p2 - fst p1) + (fst p3 - fst p2))))
          (snd p1) (snd p2) (snd p3).
Proof. reflexivity. Qed.

Lemma lc_core_ext al be et y1 y2 y3 al' be' et' y1' y2' y3' :
  al == al' -> be == be' -> et == et' -> y1 == y1' -> y2 == y2' -> y3 == y3' ->
  lc_core al be et y1 y2 y3 == lc_core al' be' et' y1' y2' y3'.
Proof.
  intros E1 E2 E3 E4 E5 E6. unfold lc_core. rewrite E1, E2, E3, E4, E5, E6. reflexivity.
Qed.

(* x / 0 = 0 in Q, so a common non-zero factor cancels whatever the denominator *)
Lemma div_cancel a p q : ~ a == 0 -> (a * p) / (a * q) == p / q.
Proof.
  intros Ha. destruct (Qeq_dec q 0) as [Hq|Hq].
  - rewrite Hq. setoid_replace (a * 0) with 0 by ring. unfold Qdiv.
    change (/ 0) with 0. ring.
  - field. split; assumption.
Qed.

(* ---------- pointwise equal tables ---------- *)

Definition pt_eq (p q : pt) : Prop := fst p == fst q /\ snd p == snd q.

Lemma triple_ext p0 p1 p2 q0 q1 q2 : pt_eq p0 q0 -> pt_eq p1 q1 -> pt_eq p2 q2 ->
  triple p0 p1 p2 == triple q0 q1 q2.
Proof.
  intros [X0 Y0] [X1 Y1] [X2 Y2]. rewrite !triple_core.
  apply tri_core_ext; try assumption; rewrite X0, X1, X2; reflexivity.
Qed.

Lemma last_corr_ext p1 p2 p3 q1 q2 q3 : pt_eq p1 q1 -> pt_eq p2 q2 -> pt_eq p3 q3 ->
  last_corr p1 p2 p3 == last_corr q1 q2 q3.
Proof.
  intros [X1 Y1] [X2 Y2] [X3 Y3]. rewrite !last_corr_core.
  apply lc_core_ext; try assumption; rewrite X1, X2, X3; reflexivity.
Qed.

Section Maps.
  Context {A : Type}.

  Lemma corr_of_map (f : A -> pt) a b rest :
    corr_of (f a) (f b) (map f rest) =
    match rest with [c] => last_corr (f a) (f b) (f c) | _ => 0 end.
  Proof. destruct rest as [|c [|d r]]; reflexivity. Qed.

  Lemma simp_map_ext (f g : A -> pt) l :
    (forall a, In a l -> pt_eq (f a) (g a)) -> simp (map f l) == simp (map g l).
  Proof.
    induction l as [| a | a b | a b c rest IH] using list_ind_step2; intros H; try reflexivity.
    change (map f (a :: b :: c :: rest)) with (f a :: f b :: f c :: map f rest).
    change (map g (a :: b :: c :: rest)) with (g a :: g b :: g c :: map g rest).
    rewrite !simp_step.
    change (f c :: map f rest) with (map f (c :: rest)).
    change (g c :: map g rest) with (map g (c :: rest)).
    rewrite IH by (intros e He; apply H; right; right; exact He).
    assert (Ha := H a (or_introl eq_refl)).
    assert (Hb := H b (or_intror (or_introl eq_refl))).
    assert (Hc := H c (or_intror (or_intror (or_introl eq_refl)))).
    rewrite (triple_ext _ _ _ _ _ _ Ha Hb Hc).
    destruct rest as [|d [|e r]]; cbn [corr_of map]; try reflexivity.
    assert (Hd := H d (or_intror (or_intror (or_intror (or_introl eq_refl))))).
    rewrite (last_corr_ext _ _ _ _ _ _ Hb Hc Hd). reflexivity.
  Qed.

  Lemma simpson_map_ext (f g : A -> pt) l :
    (forall a, In a l -> pt_eq (f a) (g a)) -> simpson (map f l) == simpson (map g l).
  Proof.
    intros H. destruct l as [|a [|b [|c rest]]]; try reflexivity.
    - destruct (H a (or_introl eq_refl)) as [Xa Ya].
      destruct (H b (or_intror (or_introl eq_refl))) as [Xb Yb].
      simpl. rewrite Xa, Xb, Ya, Yb. reflexivity.
    - apply (simp_map_ext f g (a :: b :: c :: rest) H).
  Qed.

  (* ---------- linear in the ordinates ---------- *)
  Variables (fx fy fz : A -> Q) (c1 c2 : Q).

  Lemma triple_lin a b c :
    triple (fx a, c1 * fy a + c2 * fz a) (fx b, c1 * fy b + c2 * fz b) (fx c, c1 * fy c + c2 * fz c)
    == c1 * triple (fx a, fy a) (fx b, fy b) (fx c, fy c) + c2 * triple (fx a, fz a) (fx b, fz b) (fx c, fz c).
  Proof. rewrite !triple_core. unfold tri_core. simpl. unfold Qdiv. ring. Qed.

  Lemma last_corr_lin a b c :
    last_corr (fx a, c1 * fy a + c2 * fz a) (fx b, c1 * fy b + c2 * fz b) (fx c, c1 * fy c + c2 * fz c)
    == c1 * last_corr (fx a, fy a) (fx b, fy b) (fx c, fy c)
       + c2 * last_corr (fx a, fz a) (fx b, fz b) (fx c, fz c).
  Proof. rewrite !last_corr_core. unfold lc_core. simpl. unfold Qdiv. ring. Qed.

  Lemma simp_lin l :
    simp (map (fun a => (fx a, c1 * fy a + c2 * fz a)) l)
    == c1 * simp (map (fun a => (fx a, fy a)) l) + c2 * simp (map (fun a => (fx a, fz a)) l).
  Proof.
    induction l as [| a | a b | a b c rest IH] using list_ind_step2; try (simpl; ring).
    cbn [map]. rewrite !simp_step.
    change ((fx c, c1 * fy c + c2 * fz c) :: map (fun a => (fx a, c1 * fy a + c2 * fz a)) rest)
      with (map (fun a => (fx a, c1 * fy a + c2 * fz a)) (c :: rest)).
    change ((fx c, fy c) :: map (fun a => (fx a, fy a)) rest)
      with (map (fun a => (fx a, fy a)) (c :: rest)).
    change ((fx c, fz c) :: map (fun a => (fx a, fz a)) rest)
      with (map (fun a => (fx a, fz a)) (c :: rest)).
    rewrite IH, triple_lin.
    destruct rest as [|d [|e r]]; cbn [corr_of map]; try ring.
    rewrite last_corr_lin. ring.
  Qed.

  Lemma simpson_lin l :
    simpson (map (fun a => (fx a, c1 * fy a + c2 * fz a)) l)
    == c1 * simpson (map (fun a => (fx a, fy a)) l) + c2 * simpson (map (fun a => (fx a, fz a)) l).
  Proof.
    destruct l as [|a [|b [|c rest]]]; try (simpl; ring).
    apply (simp_lin (a :: b :: c :: rest)).
  Qed.

  (* ---------- homogeneous of degree one in the abscissae ---------- *)
  Variables (sa sb : Q).
  Hypothesis Hsa : ~ sa == 0.

  Lemma triple_affine a b c :
    triple (sa * fx a + sb, fy a) (sa * fx b + sb, fy b) (sa * fx c + sb, fy c)
    == sa * triple (fx a, fy a) (fx b, fy b) (fx c, fy c).
  Proof.
    rewrite !triple_core. simpl.
    set (h0 := fx b - fx a). set (h1 := fx c - fx b).
    rewrite (tri_core_ext _ _ _ _ _ _ (sa * (h0 + h1)) (h0 / h1) ((h0 + h1) * ((h0 + h1) / (h0 * h1)))
               (fy a) (fy b) (fy c)); try reflexivity.
    - unfold tri_core, Qdiv. ring.
    - unfold h0, h1. ring.
    - setoid_replace (sa * fx b + sb - (sa * fx a + sb)) with (sa * h0) by (unfold h0; ring).
      setoid_replace (sa * fx c + sb - (sa * fx b + sb)) with (sa * h1) by (unfold h1; ring).
      apply div_cancel. exact Hsa.
    - setoid_replace (sa * fx b + sb - (sa * fx a + sb)) with (sa * h0) by (unfold h0; ring).
      setoid_replace (sa * fx c + sb - (sa * fx b + sb)) with (sa * h1) by (unfold h1; ring).
      setoid_replace ((sa * h0 + sa * h1) / (sa * h0 * (sa * h1)))
        with ((sa * (h0 + h1)) / (sa * (sa * (h0 * h1)))) by (unfold Qdiv; apply Qmult_comp; [ring|apply Qinv_comp; ring]).
      rewrite div_cancel by exact Hsa.
      setoid_replace ((sa * h0 + sa * h1) * ((h0 + h1) / (sa * (h0 * h1))))
        with ((h0 + h1) * ((sa * (h0 + h1)) / (sa * (h0 * h1)))) by (unfold Qdiv; ring).
      rewrite div_cancel by exact Hsa. reflexivity.
  Qed.

  Lemma last_corr_affine a b c :
    last_corr (sa * fx a + sb, fy a) (sa * fx b + sb, fy b) (sa * fx c + sb, fy c)
    == sa * last_corr (fx a, fy a) (fx b, fy b) (fx c, fy c).
  Proof.
    rewrite !last_corr_core. simpl.
    set (h0 := fx b - fx a). set (h1 := fx c - fx b).
    assert (E0 : sa * fx b + sb - (sa * fx a + sb) == sa * h0) by (unfold h0; ring).
    assert (E1 : sa * fx c + sb - (sa * fx b + sb) == sa * h1) by (unfold h1; ring).
    rewrite (lc_core_ext _ _ _ _ _ _
               (sa * ((2 * (h1 * h1) + 3 * h0 * h1) / (6 * (h1 + h0))))
               (sa * ((h1 * h1 + 3 * h0 * h1) / (6 * h0)))
               (sa * ((h1 * h1 * h1) / (6 * h0 * (h0 + h1))))
               (fy a) (fy b) (fy c)); try reflexivity.
    - unfold lc_core. ring.
    - rewrite E0, E1.
      setoid_replace ((2 * (sa * h1 * (sa * h1)) + 3 * (sa * h0) * (sa * h1)) / (6 * (sa * h1 + sa * h0)))
        with (sa * ((sa * (2 * (h1 * h1) + 3 * h0 * h1)) / (sa * (6 * (h1 + h0))))).
      + rewrite div_cancel by exact Hsa. reflexivity.
      + setoid_replace (6 * (sa * h1 + sa * h0)) with (sa * (6 * (h1 + h0))) by ring.
        unfold Qdiv. ring.
    - rewrite E0, E1.
      setoid_replace ((sa * h1 * (sa * h1) + 3 * (sa * h0) * (sa * h1)) / (6 * (sa * h0)))
        with (sa * ((sa * (h1 * h1 + 3 * h0 * h1)) / (sa * (6 * h0)))).
      + rewrite div_cancel by exact Hsa. reflexivity.
      + setoid_replace (6 * (sa * h0)) with (sa * (6 * h0)) by ring. unfold Qdiv. ring.
    - rewrite E0, E1.
      setoid_replace ((sa * h1 * (sa * h1) * (sa * h1)) / (6 * (sa * h0) * (sa * h0 + sa * h1)))
        with (sa * ((sa * (sa * (h1 * h1 * h1))) / (sa * (sa * (6 * h0 * (h0 + h1)))))).
      + rewrite !div_cancel by exact Hsa. reflexivity.
      + setoid_replace (6 * (sa * h0) * (sa * h0 + sa * h1)) with (sa * (sa * (6 * h0 * (h0 + h1)))) by ring.
        unfold Qdiv. ring.
  Qed.

  Lemma simp_affine l :
    simp (map (fun a => (sa * fx a + sb, fy a)) l) == sa * simp (map (fun a => (fx a, fy a)) l).
  Proof.
    induction l as [| a | a b | a b c rest IH] using list_ind_step2; try (simpl; ring).
    cbn [map]. rewrite !simp_step.
    change ((sa * fx c + sb, fy c) :: map (fun a => (sa * fx a + sb, fy a)) rest)
      with (map (fun a => (sa * fx a + sb, fy a)) (c :: rest)).
    change ((fx c, fy c) :: map (fun a => (fx a, fy a)) rest)
      with (map (fun a => (fx a, fy a)) (c :: rest)).
    rewrite IH, triple_affine.
    destruct rest as [|d [|e r]]; cbn [corr_of map]; try ring.
    rewrite last_corr_affine. ring.
  Qed.

  Lemma simpson_affine l :
    simpson (map (fun a => (sa * fx a + sb, fy a)) l) == sa * simpson (map (fun a => (fx a, fy a)) l).
  Proof.
    destruct l as [|a [|b [|c rest]]]; try (simpl; ring).
    apply (simp_affine (a :: b :: c :: rest)).
  Qed.
End Maps.

(* ---------- integrals over a table ---------- *)

Lemma integ_ext (g g' : Q -> Q -> Q) l :
  (forall xp, In xp l -> g (fst xp) (snd xp) == g' (fst xp) (snd xp)) -> integ g l == integ g' l.
Proof.
  intros H. unfold integ. apply simpson_map_ext. intros xp Hin. split; simpl; [reflexivity|apply H; exact Hin].
Qed.

Lemma integ_lin (g g' : Q -> Q -> Q) c1 c2 l :
  integ (fun x p => c1 * g x p + c2 * g' x p) l == c1 * integ g l + c2 * integ g' l.
Proof.
  unfold integ.
  apply (simpson_lin (fun xp => fst xp) (fun xp => g (fst xp) (snd xp)) (fun xp => g' (fst xp) (snd xp)) c1 c2 l).
Qed.

Lemma integ_scale (g : Q -> Q -> Q) c l : integ (fun x p => c * g x p) l == c * integ g l.
Proof.
  rewrite (integ_ext (fun x p => c * g x p) (fun x p => c * g x p + 0 * g x p)) by (intros; ring).
  rewrite integ_lin. ring.
Qed.

Lemma integ_transform (g : Q -> Q -> Q) a b l : ~ a == 0 ->
  integ g (transform a b l) == a * integ (fun x p => g (a * x + b) (p / a)) l.
Proof.
  intros Ha. unfold integ, transform. rewrite map_map. simpl.
  apply (simpson_affine (fun xp => fst xp) (fun xp => g (a * fst xp + b) (snd xp / a)) a b Ha l).
Qed.

Lemma pw_ext d d' k : d == d' -> pw d k == pw d' k.
Proof. intros E. induction k as [|k IH]; simpl; [reflexivity|]. rewrite IH, E. reflexivity. Qed.

Lemma pw_mult a d k : pw (a * d) k == pw a k * pw d k.
Proof. induction k as [|k IH]; simpl; [ring|]. rewrite IH. ring. Qed.

(* ---------- moments of a transformed table ---------- *)

Definition m_mu (m : Q * Q * Q * Q) : Q := fst (fst (fst m)).
Definition m_var (m : Q * Q * Q * Q) : Q := snd (fst (fst m)).
Definition m_3 (m : Q * Q * Q * Q) : Q := snd (fst m).
Definition m_4 (m : Q * Q * Q * Q) : Q := snd m.

Definition mass (l : list pt) : Q := integ (fun _ p => p) l.

(* the pinned mean: shifting the data by b moves it by b * (mass of the table) *)
Lemma pinned_mean_affine a b l : ~ a == 0 ->
  m_mu (moments_pinned (transform a b l)) == a * m_mu (moments_pinned l) + b * mass l.
Proof.
  intros Ha. unfold moments_pinned, m_mu, mass. simpl. rewrite !Qred_correct.
  rewrite integ_transform by exact Ha.
  rewrite (integ_ext (fun x p => p / a * (a * x + b))
                     (fun x p => 1 * (p * x) + (b / a) * p)) by (intros; field; exact Ha).
  rewrite integ_lin. field. exact Ha.
Qed.

Lemma central_transform a b mu mu' k l : ~ a == 0 -> mu' == a * mu + b ->
  integ (central mu' k) (transform a b l) == pw a k * integ (central mu k) l.
Proof.
  intros Ha Hmu. rewrite integ_transform by exact Ha.
  rewrite (integ_ext (fun x p => central mu' k (a * x + b) (p / a))
                     (fun x p => (pw a k / a) * central mu k x p)).
  - rewrite integ_scale. field. exact Ha.
  - intros xp _. unfold central.
    rewrite (pw_ext (a * fst xp + b - mu') (a * (fst xp - mu))) by (rewrite Hmu; ring).
    rewrite pw_mult. field. exact Ha.
Qed.

Lemma moments_pinned_transform a b l : ~ a == 0 -> mass l == 1 ->
  let m := moments_pinned l in
  let m' := moments_pinned (transform a b l) in
  m_mu m' == a * m_mu m + b /\ m_var m' == pw a 2 * m_var m /\
  m_3 m' == pw a 3 * m_3 m /\ m_4 m' == pw a 4 * m_4 m.
Proof.
  intros Ha Hmass m m'.
  assert (Hmu : m_mu m' == a * m_mu m + b).
  { unfold m, m'. rewrite pinned_mean_affine by exact Ha. rewrite Hmass. ring. }
  split; [exact Hmu|].
  unfold m, m', moments_pinned, m_mu, m_var, m_3, m_4 in *. simpl in *.
  repeat split; apply central_transform; try exact Ha; exact Hmu.
Qed.

(* normalising commutes with the transformation, up to Qeq on the ordinates *)
Lemma mass_transform a b l : ~ a == 0 -> mass (transform a b l) == mass l.
Proof.
  intros Ha. unfold mass. rewrite integ_transform by exact Ha.
  rewrite (integ_ext (fun _ p => p / a) (fun x p => (1 / a) * p)) by (intros; field; exact Ha).
  rewrite integ_scale. field. exact Ha.
Qed.

Lemma integ_map_y (G : Q -> Q -> Q) (phi : Q -> Q) l :
  integ G (map (fun xp => (fst xp, phi (snd xp))) l) = integ (fun x p => G x (phi p)) l.
Proof. unfold integ. rewrite map_map. reflexivity. Qed.

Lemma mass_normalise l : ~ mass l == 0 -> mass (normalise l) == 1.
Proof.
  intros HZ. unfold normalise. fold (mass l). unfold mass at 1.
  rewrite (integ_map_y (fun _ p => p) (fun p => Qred (p / mass l)) l).
  rewrite (integ_ext (fun _ p => Qred (p / mass l)) (fun x p => (1 / mass l) * p))
    by (intros; rewrite Qred_correct; field; exact HZ).
  rewrite integ_scale. fold (mass l). field. exact HZ.
Qed.

Lemma integ_map_ext {A} (f f' : A -> pt) (G G' : Q -> Q -> Q) l :
  (forall e, In e l -> pt_eq (f e) (f' e)) ->
  (forall x x' p p', x == x' -> p == p' -> G x p == G' x' p') ->
  integ G (map f l) == integ G' (map f' l).
Proof.
  intros Hf HG. unfold integ. rewrite !map_map.
  apply simpson_map_ext. intros e He. destruct (Hf e He) as [X Y].
  split; simpl; [exact X|apply HG; assumption].
Qed.

Lemma moments_pinned_map_ext {A} (f f' : A -> pt) l :
  (forall e, In e l -> pt_eq (f e) (f' e)) ->
  let m := moments_pinned (map f l) in
  let m' := moments_pinned (map f' l) in
  m_mu m == m_mu m' /\ m_var m == m_var m' /\ m_3 m == m_3 m' /\ m_4 m == m_4 m'.
Proof.
  intros Hf m m'.
  assert (Hmu : m_mu m == m_mu m').
  { unfold m, m', moments_pinned, m_mu. simpl. rewrite !Qred_correct. apply integ_map_ext; [exact Hf|].
    intros x x' p p' Ex Ep. rewrite Ex, Ep. reflexivity. }
  split; [exact Hmu|].
  unfold m, m', moments_pinned, m_var, m_3, m_4 in *. simpl in *. unfold m_mu in Hmu. simpl in Hmu.
  repeat split; (apply integ_map_ext; [exact Hf|]);
    intros x x' p p' Ex Ep; unfold central; rewrite Ep;
    (rewrite (pw_ext (x - _) (x' - _)) by (rewrite Ex, Hmu; reflexivity)); reflexivity.
Qed.

(* the repaired moments are covariant: location shifts and scales, the k-th
   central integral scales by a^k *)
Theorem moments_shift_scale a b l : ~ a == 0 -> ~ mass l == 0 ->
  let m := moments l in
  let m' := moments (transform a b l) in
  m_mu m' == a * m_mu m + b /\ m_var m' == pw a 2 * m_var m /\
  m_3 m' == pw a 3 * m_3 m /\ m_4 m' == pw a 4 * m_4 m.
Proof.
  intros Ha HZ m m'. unfold m, m', moments.
  assert (E : let m1 := moments_pinned (normalise (transform a b l)) in
              let m2 := moments_pinned (transform a b (normalise l)) in
              m_mu m1 == m_mu m2 /\ m_var m1 == m_var m2 /\ m_3 m1 == m_3 m2 /\ m_4 m1 == m_4 m2).
  { unfold normalise. fold (mass (transform a b l)). fold (mass l). unfold transform. rewrite !map_map.
    apply moments_pinned_map_ext. intros e _. split; cbn [fst snd]; [reflexivity|].
    fold (transform a b l). rewrite !Qred_correct. rewrite (mass_transform a b l Ha). unfold Qdiv. ring. }
  cbv zeta in E. destruct E as [E1 [E2 [E3 E4]]].
  destruct (moments_pinned_transform a b (normalise l) Ha (mass_normalise l HZ)) as [T1 [T2 [T3 T4]]].
  rewrite E1, E2, E3, E4. repeat split; assumption.
Qed.

(* shape statistics are therefore unchanged *)
Corollary kurtosis_invariant a b l : ~ a == 0 -> ~ mass l == 0 -> ~ m_var (moments l) == 0 ->
  kurtosis (moments (transform a b l)) == kurtosis (moments l).
Proof.
  intros Ha HZ Hv. destruct (moments_shift_scale a b l Ha HZ) as [_ [T2 [_ T4]]].
  unfold kurtosis. unfold m_var, m_4 in *.
  destruct (moments (transform a b l)) as [[[mu' var'] m3'] m4'].
  destruct (moments l) as [[[mu var] m3] m4]. simpl in *.
  rewrite T2, T4. field. split; assumption.
Qed.

Corollary skewness_sq_invariant a b l : ~ a == 0 -> ~ mass l == 0 -> ~ m_var (moments l) == 0 ->
  let m := moments l in let m' := moments (transform a b l) in
  (m_3 m' * m_3 m') / (m_var m' * m_var m' * m_var m') == (m_3 m * m_3 m) / (m_var m * m_var m * m_var m).
Proof.
  intros Ha HZ Hv m m'. destruct (moments_shift_scale a b l Ha HZ) as [_ [T2 [T3 _]]].
  fold m in T2, T3, Hv. fold m' in T2, T3. rewrite T2, T3. simpl. field. split; assumption.
Qed.

(* D19a: the pinned mean is covariant under a shift only if the table has unit mass *)
Theorem pinned_mean_shift b l :
  m_mu (moments_pinned (transform 1 b l)) == m_mu (moments_pinned l) + b * mass l.
Proof.
  rewrite pinned_mean_affine by (intros E; discriminate E). ring.
Qed.

Corollary pinned_mean_shift_iff b l :
  m_mu (moments_pinned (transform 1 b l)) == m_mu (moments_pinned l) + b <-> b * (mass l - 1) == 0.
Proof.
  rewrite pinned_mean_shift. split; intros H.
  - setoid_replace (b * (mass l - 1)) with ((m_mu (moments_pinned l) + b * mass l) - (m_mu (moments_pinned l) + b)) by ring.
    rewrite H. ring.
  - setoid_replace (b * mass l) with (b * (mass l - 1) + b) by ring. rewrite H. ring.
Qed.

Definition refute_table : list pt := [(0, 1 # 4); (1, 1 # 2); (2, 1 # 4); (3, 1 # 8); (4, 0)].

Theorem kde_mean_shift_refuted :
  exists (l : list pt) (b : Q),
    ~ m_mu (moments_pinned (transform 1 b l)) == m_mu (moments_pinned l) + b.
Proof.
  exists refute_table, 1000000. vm_compute. discriminate.
Qed.

(* ---------- sample moments: one-pass = centred, over Q ---------- *)

Lemma qsum_sq_centred m l :
  qsum (map (fun x => (x - m) * (x - m)) l)
  == qsum (map (fun x => x * x) l) - 2 * m * qsum l + qlen l * (m * m).
Proof.
  unfold qlen. induction l as [|x l IH].
  - simpl. ring.
  - change (length (x :: l)) with (S (length l)). rewrite Nat2Z.inj_succ. unfold Z.succ.
    rewrite inject_Z_plus. simpl qsum. simpl map. simpl qsum. rewrite IH. simpl. ring.
Qed.

Lemma qsum_cube_centred m l :
  qsum (map (fun x => (x - m) * (x - m) * (x - m)) l)
  == qsum (map (fun x => x * x * x) l) - 3 * m * qsum (map (fun x => x * x) l)
     + 3 * (m * m) * qsum l - qlen l * (m * m * m).
Proof.
  unfold qlen. induction l as [|x l IH].
  - simpl. ring.
  - change (length (x :: l)) with (S (length l)). rewrite Nat2Z.inj_succ. unfold Z.succ.
    rewrite inject_Z_plus. simpl qsum. simpl map. simpl qsum. rewrite IH. simpl. ring.
Qed.

Lemma qlen_pos l : l <> [] -> 0 < qlen l.
Proof.
  intros H. unfold qlen. destruct l; [congruence|].
  change 0 with (inject_Z 0). rewrite <- Zlt_Qlt. simpl length. lia.
Qed.

Lemma qlen_map {A} (f : A -> Q) l : qlen (map f l) = inject_Z (Z.of_nat (length l)).
Proof. unfold qlen. rewrite map_length. reflexivity. Qed.

Theorem central_moment_identity l : l <> [] ->
  let '(mu, s2, m3) := sample_moments_pinned l in
  let '(mu', s2', m3') := sample_moments l in
  mu == mu' /\ s2 == s2' /\ m3 == m3'.
Proof.
  intros Hne. unfold sample_moments_pinned, sample_moments. cbv zeta.
  assert (Hn := qlen_pos l Hne).
  split; [reflexivity|].
  unfold qmean. rewrite !qlen_map. fold (qlen l).
  rewrite qsum_sq_centred, qsum_cube_centred.
  set (n := qlen l) in *. set (s1 := qsum l). set (sq := qsum (map (fun x => x * x) l)).
  set (sc := qsum (map (fun x => x * x * x) l)).
  split; field; lra.
Qed.
