(* Proofs about the constructor stage (RealModel/LikelihoodsTyped.v), property C05. *)
From Coq Require Import Reals List ZArith Lra Lia.
From Coquelicot Require Import Coquelicot.
From IT Require Import RealModel.Likelihoods Proofs.LikelihoodsProofs RealModel.LikelihoodsTyped.
Import ListNotations.
Open Scope R_scope.

(* the state-reading methods take (data, predictions, pre-computed constant); the
   formula model takes (data, uncertainty, prediction) *)
Lemma map3_state {A B C D B'} (g : A -> C -> B' -> D) (h : A -> B -> C -> D) (k : B -> B') :
  (forall a b c, g a c (k b) = h a b c) ->
  forall xs ys zs, map3 g xs zs (map k ys) = map3 h xs ys zs.
Proof.
  intros H xs. induction xs as [|x xs IH]; intros [|y ys] [|z zs]; simpl; try reflexivity.
  rewrite H, IH. reflexivity.
Qed.

Lemma map3_map1 {A A' B C D} (h : A' -> B -> C -> D) (k : A -> A') xs ys zs :
  map3 h (map k xs) ys zs = map3 (fun a b c => h (k a) b c) xs ys zs.
Proof.
  revert ys zs. induction xs as [|x xs IH]; intros [|y ys] [|z zs]; simpl; try reflexivity.
  rewrite IH. reflexivity.
Qed.

Lemma map3_map2 {A B B' C D} (h : A -> B' -> C -> D) (k : B -> B') xs ys zs :
  map3 h xs (map k ys) zs = map3 (fun a b c => h a (k b) c) xs ys zs.
Proof.
  revert ys zs. induction xs as [|x xs IH]; intros [|y ys] [|z zs]; simpl; try reflexivity.
  rewrite IH. reflexivity.
Qed.

Lemma map3_ext {A B C D} (g h : A -> B -> C -> D) :
  (forall a b c, g a b c = h a b c) -> forall xs ys zs, map3 g xs ys zs = map3 h xs ys zs.
Proof.
  intros H xs. induction xs as [|x xs IH]; intros [|y ys] [|z zs]; simpl; try reflexivity.
  rewrite H, IH. reflexivity.
Qed.

Lemma sumR_map_ext {A} (g h : A -> R) l : (forall a, g a = h a) -> sumR (map g l) = sumR (map h l).
Proof. intros H. induction l as [|a l IH]; simpl; [reflexivity|]. rewrite H, IH. reflexivity. Qed.

(* ---------------- the state-reading methods are the formula model on the real values ---------------- *)
Lemma gauss_call_model ys ss fs :
  gauss_call (gauss_init ys ss) fs = gauss_loglike (map sval ys) (map sval ss) fs.
Proof.
  unfold gauss_call, gauss_init, gauss_init_with, gauss_loglike, gauss_normalisation. simpl.
  rewrite map_map, map_length. f_equal. f_equal.
  rewrite (map3_map2 (fun y s f => gauss_z y s f ^ 2) sval).
  rewrite (map3_state (fun y f i => ((y - f) * i) ^ 2)
                      (fun y s f => gauss_z y (sval s) f ^ 2) true_recip); [reflexivity|].
  intros a b c. unfold gauss_z, true_recip. reflexivity.
Qed.

Lemma gauss_grad_model ys ss fs J j :
  gauss_grad (gauss_init ys ss) fs J j = gauss_gradient (map sval ys) (map sval ss) fs J j.
Proof.
  unfold gauss_grad, gauss_init, gauss_init_with, gauss_gradient, gauss_dLdF. simpl. f_equal.
  rewrite (map3_map2 (fun y s f => (y - f) * (1 / s) ^ 2) sval).
  rewrite (map3_state (fun y f i2 => (y - f) * i2)
                      (fun y s f => (y - f) * (1 / sval s) ^ 2) (fun s => true_recip s ^ 2)); [reflexivity|].
  intros a b c. unfold true_recip. reflexivity.
Qed.

Lemma cauchy_call_model ys gs fs :
  cauchy_call (cauchy_init ys gs) fs = cauchy_loglike (map sval ys) (map sval gs) fs.
Proof.
  unfold cauchy_call, cauchy_init, cauchy_init_with, cauchy_loglike, cauchy_normalisation. simpl.
  rewrite map_map. f_equal. f_equal.
  rewrite (map3_map2 (fun y g f => ln (1 + cauchy_z y g f ^ 2)) sval).
  rewrite (map3_state (fun y f i => ln (1 + ((y - f) * i) ^ 2))
                      (fun y g f => ln (1 + cauchy_z y (sval g) f ^ 2)) true_recip); [reflexivity|].
  intros a b c. unfold cauchy_z, true_recip. reflexivity.
Qed.

Lemma cauchy_grad_model ys gs fs J j :
  cauchy_grad (cauchy_init ys gs) fs J j = cauchy_gradient (map sval ys) (map sval gs) fs J j.
Proof.
  unfold cauchy_grad, cauchy_init, cauchy_init_with, cauchy_gradient, cauchy_dLdF. simpl. f_equal.
  rewrite (map3_map2 (fun y g f => 2 * (1 / g) * cauchy_z y g f / (1 + cauchy_z y g f ^ 2)) sval).
  rewrite (map3_state (fun y f i => 2 * i * ((y - f) * i) / (1 + ((y - f) * i) ^ 2))
                      (fun y g f => 2 * (1 / sval g) * cauchy_z y (sval g) f / (1 + cauchy_z y (sval g) f ^ 2))
                      true_recip); [reflexivity|].
  intros a b c. unfold cauchy_z, true_recip. reflexivity.
Qed.

Lemma logistic_call_model ys ss fs :
  logistic_call (logistic_init ys ss) fs = logistic_loglike (map sval ys) (map sval ss) fs.
Proof.
  unfold logistic_call, logistic_init, logistic_loglike, logistic_normalisation. simpl.
  rewrite map_map. f_equal. f_equal.
  - rewrite (map3_map2 logistic_z sval).
    rewrite (map3_state (fun y f i => (y - f) * i) (fun y s f => logistic_z y (sval s) f)
                        (fun s => 1 / (sval s * (sqrt 3 / PI)))); [reflexivity|].
    intros a b c. reflexivity.
  - f_equal.
    rewrite (map3_map2 (fun y s f => logaddexp 0 (logistic_z y s f)) sval).
    rewrite (map3_state (fun y f i => logaddexp 0 ((y - f) * i))
                        (fun y s f => logaddexp 0 (logistic_z y (sval s) f))
                        (fun s => 1 / (sval s * (sqrt 3 / PI)))); [reflexivity|].
    intros a b c. reflexivity.
Qed.

Lemma logistic_grad_model ys ss fs J j :
  logistic_grad (logistic_init ys ss) fs J j = logistic_gradient (map sval ys) (map sval ss) fs J j.
Proof.
  unfold logistic_grad, logistic_init, logistic_gradient, logistic_dLdF. simpl. f_equal.
  rewrite (map3_map2 (fun y s f => (2 / (1 + exp (- logistic_z y s f)) - 1) * (1 / logistic_scale s)) sval).
  rewrite (map3_state (fun y f i => (2 / (1 + exp (- ((y - f) * i))) - 1) * i)
                      (fun y s f => (2 / (1 + exp (- logistic_z y (sval s) f)) - 1) * (1 / logistic_scale (sval s)))
                      (fun s => 1 / (sval s * (sqrt 3 / PI)))); [reflexivity|].
  intros a b c. reflexivity.
Qed.

Lemma Forall_sval_pos ss : List.Forall (fun s => 0 < sval s) ss -> List.Forall (fun s => 0 < s) (map sval ss).
Proof. intros H. induction H; simpl; constructor; assumption. Qed.

(* ---------------- value = sum of ln of the named density, whatever the dtype ---------------- *)
Lemma typed_gauss_is_sum_logpdf ys ss fs :
  length ys = length ss -> length ss = length fs -> List.Forall (fun s => 0 < sval s) ss ->
  gauss_call (gauss_init ys ss) fs = sum_logpdf gauss_pdf (map sval ys) (map sval ss) fs.
Proof.
  intros H1 H2 H3. rewrite gauss_call_model.
  apply gauss_is_sum_logpdf; rewrite ?map_length; try assumption; apply Forall_sval_pos; assumption.
Qed.

Lemma typed_cauchy_is_sum_logpdf ys gs fs :
  length ys = length gs -> length gs = length fs -> List.Forall (fun g => 0 < sval g) gs ->
  cauchy_call (cauchy_init ys gs) fs = sum_logpdf cauchy_pdf (map sval ys) (map sval gs) fs.
Proof.
  intros H1 H2 H3. rewrite cauchy_call_model.
  apply cauchy_is_sum_logpdf; rewrite ?map_length; try assumption; apply Forall_sval_pos; assumption.
Qed.

Lemma typed_logistic_is_sum_logpdf ys ss fs :
  length ys = length ss -> length ss = length fs -> List.Forall (fun s => 0 < sval s) ss ->
  logistic_call (logistic_init ys ss) fs =
  sum_logpdf (fun mu s y => logistic_pdf mu (s * (sqrt 3 / PI)) y) (map sval ys) (map sval ss) fs.
Proof.
  intros H1 H2 H3. rewrite logistic_call_model.
  apply logistic_is_sum_logpdf; rewrite ?map_length; try assumption; apply Forall_sval_pos; assumption.
Qed.

(* ---------------- gradient = derivative of the value ---------------- *)
Lemma typed_gauss_gradient_is_derivative ys ss (F : list (R -> R)) J j t :
  length ys = length ss -> length ss = length F -> length F = length J ->
  List.Forall (fun s => 0 < sval s) ss ->
  (forall i, (i < length F)%nat -> is_derive (nth i F (fun _ => 0)) t (nth j (nth i J []) 0)) ->
  is_derive (fun u => gauss_call (gauss_init ys ss) (map (fun f => f u) F)) t
            (gauss_grad (gauss_init ys ss) (map (fun f => f t) F) J j).
Proof.
  intros H1 H2 H3 H4 H5. rewrite gauss_grad_model.
  apply (is_derive_ext (fun u => gauss_loglike (map sval ys) (map sval ss) (map (fun f => f u) F))).
  - intros u. symmetry. apply gauss_call_model.
  - apply gauss_gradient_is_derivative; rewrite ?map_length; try assumption; apply Forall_sval_pos; assumption.
Qed.

Lemma typed_cauchy_gradient_is_derivative ys gs (F : list (R -> R)) J j t :
  length ys = length gs -> length gs = length F -> length F = length J ->
  List.Forall (fun g => 0 < sval g) gs ->
  (forall i, (i < length F)%nat -> is_derive (nth i F (fun _ => 0)) t (nth j (nth i J []) 0)) ->
  is_derive (fun u => cauchy_call (cauchy_init ys gs) (map (fun f => f u) F)) t
            (cauchy_grad (cauchy_init ys gs) (map (fun f => f t) F) J j).
Proof.
  intros H1 H2 H3 H4 H5. rewrite cauchy_grad_model.
  apply (is_derive_ext (fun u => cauchy_loglike (map sval ys) (map sval gs) (map (fun f => f u) F))).
  - intros u. symmetry. apply cauchy_call_model.
  - apply cauchy_gradient_is_derivative; rewrite ?map_length; try assumption; apply Forall_sval_pos; assumption.
Qed.

Lemma typed_logistic_gradient_is_derivative ys ss (F : list (R -> R)) J j t :
  length ys = length ss -> length ss = length F -> length F = length J ->
  List.Forall (fun s => 0 < sval s) ss ->
  (forall i, (i < length F)%nat -> is_derive (nth i F (fun _ => 0)) t (nth j (nth i J []) 0)) ->
  is_derive (fun u => logistic_call (logistic_init ys ss) (map (fun f => f u) F)) t
            (logistic_grad (logistic_init ys ss) (map (fun f => f t) F) J j).
Proof.
  intros H1 H2 H3 H4 H5. rewrite logistic_grad_model.
  apply (is_derive_ext (fun u => logistic_loglike (map sval ys) (map sval ss) (map (fun f => f u) F))).
  - intros u. symmetry. apply logistic_call_model.
  - apply logistic_gradient_is_derivative; rewrite ?map_length; try assumption; apply Forall_sval_pos; assumption.
Qed.

(* ---------------- the dtype does not matter: only the real values do ---------------- *)
Lemma typed_representation_independent ys ys' ss ss' fs J j :
  map sval ys = map sval ys' -> map sval ss = map sval ss' ->
  (gauss_call (gauss_init ys ss) fs = gauss_call (gauss_init ys' ss') fs /\
   gauss_grad (gauss_init ys ss) fs J j = gauss_grad (gauss_init ys' ss') fs J j) /\
  (cauchy_call (cauchy_init ys ss) fs = cauchy_call (cauchy_init ys' ss') fs /\
   cauchy_grad (cauchy_init ys ss) fs J j = cauchy_grad (cauchy_init ys' ss') fs J j) /\
  (logistic_call (logistic_init ys ss) fs = logistic_call (logistic_init ys' ss') fs /\
   logistic_grad (logistic_init ys ss) fs J j = logistic_grad (logistic_init ys' ss') fs J j).
Proof.
  intros Hy Hs.
  rewrite !gauss_call_model, !gauss_grad_model, !cauchy_call_model, !cauchy_grad_model,
          !logistic_call_model, !logistic_grad_model, Hy, Hs.
  repeat split; reflexivity.
Qed.

(* ---------------- contrast: a reciprocal that keeps the dtype is not the density ---------------- *)
(* integer division: reciprocal(k) = 0 for every integer k >= 2 *)
Lemma samedtype_recip_int k : (2 <= k)%Z -> samedtype_recip (SInt k) = 0.
Proof.
  intros H. unfold samedtype_recip. rewrite Z.quot_small; [reflexivity|lia].
Qed.

Lemma samedtype_recip_float x : samedtype_recip (SFlt x) = true_recip (SFlt x).
Proof. reflexivity. Qed.

(* one datum 1, integer uncertainty 2, prediction 0 *)
Lemma samedtype_gauss_refuted :
  exists ys ss fs, length ys = length ss /\ length ss = length fs /\
    List.Forall (fun s => 0 < sval s) ss /\
    gauss_call (gauss_init_with samedtype_recip ys ss) fs
      <> sum_logpdf gauss_pdf (map sval ys) (map sval ss) fs.
Proof.
  exists [SFlt 1], [SInt 2], [0]. repeat split.
  - repeat constructor. simpl. lra.
  - rewrite <- typed_gauss_is_sum_logpdf; [|reflexivity|reflexivity|repeat constructor; simpl; lra].
    unfold gauss_call, gauss_init, gauss_init_with. simpl.
    unfold true_recip. simpl.
    replace (IZR (1 ÷ 2)) with 0 by (rewrite Z.quot_small; [reflexivity|lia]).
    intros H. lra.
Qed.

Lemma samedtype_cauchy_refuted :
  exists ys gs fs, length ys = length gs /\ length gs = length fs /\
    List.Forall (fun g => 0 < sval g) gs /\
    cauchy_call (cauchy_init_with samedtype_recip ys gs) fs
      <> sum_logpdf cauchy_pdf (map sval ys) (map sval gs) fs.
Proof.
  exists [SFlt 1], [SInt 2], [0]. repeat split.
  - repeat constructor. simpl. lra.
  - rewrite <- typed_cauchy_is_sum_logpdf; [|reflexivity|reflexivity|repeat constructor; simpl; lra].
    unfold cauchy_call, cauchy_init, cauchy_init_with. simpl.
    unfold true_recip. simpl.
    replace (IZR (1 ÷ 2)) with 0 by (rewrite Z.quot_small; [reflexivity|lia]).
    replace (1 + (1 - 0) * 0 * ((1 - 0) * 0 * 1)) with 1 by ring.
    replace (1 + (1 - 0) * (1 / 2) * ((1 - 0) * (1 / 2) * 1)) with (5 / 4) by field.
    rewrite ln_1. intros H.
    assert (Hl : 0 < ln (5 / 4)) by (rewrite <- ln_1; apply ln_increasing; lra).
    lra.
Qed.
