(* C04 on the sampler models: every point at which the log-density is evaluated
   (every event of a transition) and every stored sample satisfies the limits
   in force -- Gibbs per-parameter boundaries / non-negativity, and the bounds
   box of PCA, ensemble and Hamiltonian samplers. *)
From Coq Require Import QArith Qround Qabs ZArith List Bool Lia Lqa.
From IT Require Import Common.ExpBounds Model.Reflect Model.Samplers Proofs.ReflectProofs
  Proofs.SamplersProofs.
Import ListNotations.
Open Scope Q_scope.

Local Arguments Qred : simpl never.
Local Arguments propose : simpl never.
Local Arguments tlogp : simpl never.
Local Arguments elogp : simpl never.
Local Arguments decide_accept : simpl never.
Local Arguments decide_accept_any : simpl never.
Local Arguments Qlt_bool : simpl never.
Local Arguments Qle_bool : simpl never.
Local Arguments leapfrog : simpl never.
Local Arguments momentum : simpl never.
Local Arguments kinetic : simpl never.
Local Arguments hmc_nsteps : simpl never.
Local Arguments take : simpl never.
Local Arguments stretch : simpl never.
Local Arguments qpow : simpl never.
Local Arguments Qfloor : simpl never.

(* ---------- box membership is insensitive to Qred ---------- *)
Lemma inside_vec_vred los ws x : inside_vec los ws x -> inside_vec los ws (vred x).
Proof.
  revert ws x. induction los as [|lo los IH]; intros ws x H; simpl in *; [exact I|].
  destruct ws as [|w ws]; [exact I|]. destruct x as [|v x]; [exact I|].
  simpl in *. destruct H as [[H1 H2] H3]. split.
  - unfold inside. rewrite Qred_correct. split; assumption.
  - apply IH. exact H3.
Qed.

Definition box_ok (bounds : option (list Q * list Q)) (x : list Q) : Prop :=
  match bounds with
  | None => True
  | Some (los, his) => inside_vec los (vsub his los) x
  end.

Definition box_wf (bounds : option (list Q * list Q)) : Prop :=
  match bounds with
  | None => True
  | Some (los, his) => Forall (fun w => 0 < w) (vsub his los)
  end.

Lemma process_inside bounds x : box_wf bounds -> box_ok bounds (vred (process bounds x)).
Proof.
  destruct bounds as [[los his]|]; simpl; intros H; [|exact I].
  apply inside_vec_vred. apply reflect_vec_inside. exact H.
Qed.

Definition events_ok (P : list Q -> Prop) (ev : list event) : Prop := Forall (fun e => P (fst e)) ev.

Section WithLogp.
  Variable logp : list Q -> Q.
  Variable beta : Q.

  (* ---------- PCA ---------- *)
  Lemma pca_dir_inside bounds : box_wf bounds ->
    forall tape theta0 v sigma p_old ev x' p' tape' ev',
    events_ok (box_ok bounds) ev ->
    pca_dir logp beta bounds tape theta0 v sigma p_old ev = Ok (x', p', tape', ev') ->
    events_ok (box_ok bounds) ev' /\ box_ok bounds x'.
  Proof.
    intros Hwf tape. induction tape as [tape IH] using list_len_ind.
    intros theta0 v sigma p_old ev x' p' tape' ev' Hev H.
    destruct tape as [|xi tape1]; [discriminate H|].
    cbn [pca_dir] in H.
    set (prop := vred (process bounds (vadd theta0 (vscale xi (vscale sigma v))))) in H.
    assert (Hp : box_ok bounds prop) by (apply process_inside; exact Hwf).
    assert (Hev1 : events_ok (box_ok bounds) ((prop, tlogp logp beta prop) :: ev))
      by (constructor; [exact Hp|exact Hev]).
    destruct (Qlt_bool p_old (tlogp logp beta prop)).
    - inversion H; subst. split; assumption.
    - destruct tape1 as [|u tape2]; [discriminate H|].
      destruct (decide_accept u (tlogp logp beta prop - p_old)) as [[|]|].
      + inversion H; subst. split; assumption.
      + eapply IH; [|exact Hev1|exact H]. simpl. lia.
      + discriminate H.
  Qed.

  Lemma pca_dirs_inside bounds : box_wf bounds ->
    forall dirs sigmas tape theta0 p_old ev x' p' tape' ev',
    events_ok (box_ok bounds) ev -> box_ok bounds theta0 ->
    pca_dirs logp beta bounds dirs sigmas tape theta0 p_old ev = Ok (x', p', tape', ev') ->
    events_ok (box_ok bounds) ev' /\ box_ok bounds x'.
  Proof.
    intros Hwf dirs. induction dirs as [|v dirs IH];
      intros sigmas tape theta0 p_old ev x' p' tape' ev' Hev H0 H.
    - cbn [pca_dirs] in H. inversion H; subst. split; assumption.
    - destruct sigmas as [|sg sigmas]; [cbn [pca_dirs] in H; inversion H; subst; split; assumption|].
      cbn [pca_dirs] in H.
      destruct (pca_dir logp beta bounds tape theta0 v sg p_old ev) as [[[[x1 p1] tape1] ev1]| | |] eqn:Ec;
        try discriminate H.
      destruct (pca_dir_inside bounds Hwf _ _ _ _ _ _ _ _ _ _ Hev Ec) as [Hev1 Hx1].
      eapply IH; [exact Hev1|exact Hx1|exact H].
  Qed.

  (* every posterior evaluation of a PCA step, and the new sample, lie in the bounds *)
  Theorem pca_step_inside s tape s' tape' ev :
    box_wf (ps_bounds s) -> box_ok (ps_bounds s) (hd [] (ps_samples s)) ->
    pca_step logp beta s tape = Ok (s', tape', ev) ->
    events_ok (box_ok (ps_bounds s)) ev /\ box_ok (ps_bounds s) (hd [] (ps_samples s')).
  Proof.
    intros Hwf H0 H. unfold pca_step in H.
    destruct (ps_samples s) as [|x samples]; [discriminate H|].
    destruct (ps_probs s) as [|p_old probs]; [discriminate H|].
    destruct (ps_dirs s) as [|d0 ds]; [discriminate H|].
    destruct (pca_dirs logp beta (ps_bounds s) (d0 :: ds) (ps_sigmas s) tape x p_old [])
      as [[[[x1 p1] tape1] ev1]| | |] eqn:Ec; try discriminate H.
    inversion H; subst; clear H. simpl.
    destruct (pca_dirs_inside _ Hwf _ _ _ _ _ _ _ _ _ _ (Forall_nil _) H0 Ec) as [Hev Hx].
    split; [|exact Hx]. unfold events_ok. apply Forall_rev. exact Hev.
  Qed.

  (* ---------- Hamiltonian: the proposal's end point ---------- *)
  Variable grad : list Q -> list Q.

  Lemma bounce_inside bounds t r : box_wf bounds -> box_ok bounds (fst (bounce bounds t r)).
  Proof.
    destruct bounds as [[los his]|]; simpl; intros H; [|exact I].
    rewrite reflect_momenta_vec_fst. apply reflect_vec_inside. exact H.
  Qed.

  Lemma box_ok_vred bounds x : box_ok bounds x -> box_ok bounds (vred x).
  Proof. destruct bounds as [[los his]|]; simpl; [apply inside_vec_vred|trivial]. Qed.

  Lemma leapfrog_inside bounds m eps n t r : box_wf bounds ->
    box_ok bounds (fst (leapfrog beta grad bounds m eps n t r)).
  Proof.
    intros Hwf. unfold leapfrog. cbv zeta.
    destruct (leap_inner grad (n - 1) bounds m eps (beta * eps) t
                (kick grad ((1 # 2) * (beta * eps)) t r)) as [t2 r2].
    pose proof (bounce_inside bounds (drift m eps t2 r2) r2 Hwf) as Hb.
    destruct (bounce bounds (drift m eps t2 r2) r2) as [t4 r4]. simpl in *.
    apply box_ok_vred. exact Hb.
  Qed.

  Lemma hmc_attempts_inside : forall fuel s n t0 p_old tape taken ev t p k tape' ev',
    box_wf (hs_bounds s) -> events_ok (box_ok (hs_bounds s)) ev ->
    hmc_attempts logp beta grad fuel s n t0 p_old tape taken ev = Ok (t, p, k, tape', ev') ->
    events_ok (box_ok (hs_bounds s)) ev' /\ box_ok (hs_bounds s) t.
  Proof.
    induction fuel as [|fuel IH]; intros s n t0 p_old tape taken ev t p k tape' ev' Hwf Hev H;
      [discriminate H|].
    cbn [hmc_attempts] in H.
    destruct (take n tape) as [[z tape1]|]; [|discriminate H].
    destruct tape1 as [|u1 tape2]; [discriminate H|].
    destruct (hmc_nsteps (hs_steps s) u1) as [ns|]; [|discriminate H].
    pose proof (leapfrog_inside (hs_bounds s) (hs_mass s) (hs_eps s) ns t0 (momentum (hs_mass s) z) Hwf) as Hin.
    destruct (leapfrog beta grad (hs_bounds s) (hs_mass s) (hs_eps s) ns t0 (momentum (hs_mass s) z))
      as [t1 r1] eqn:El.
    simpl in Hin.
    assert (Hev1 : events_ok (box_ok (hs_bounds s)) ((t1, tlogp logp beta t1) :: ev))
      by (constructor; [exact Hin|exact Hev]).
    destruct (Qle_bool 0 _).
    - inversion H; subst. split; assumption.
    - destruct tape2 as [|u2 tape3]; [discriminate H|].
      destruct (decide_accept u2 _) as [[|]|].
      + inversion H; subst. split; assumption.
      + eapply IH; [exact Hwf|exact Hev1|exact H].
      + discriminate H.
  Qed.

  (* every posterior evaluation of a Hamiltonian step, and the new sample, lie in the bounds *)
  Theorem hmc_step_inside ma s tape s' tape' ev :
    box_wf (hs_bounds s) ->
    hmc_step logp beta grad ma s tape = Ok (s', tape', ev) ->
    events_ok (box_ok (hs_bounds s)) ev /\ box_ok (hs_bounds s) (hd [] (hs_theta s')).
  Proof.
    intros Hwf H. unfold hmc_step in H.
    destruct (hs_theta s) as [|t0 thetas]; [discriminate H|].
    destruct (hs_probs s) as [|p_old probs]; [discriminate H|].
    destruct (hmc_attempts logp beta grad ma s (length t0) t0 p_old tape 0 [])
      as [[[[[t1 p1] k1] tape1] ev1]| | |] eqn:Ec; try discriminate H.
    inversion H; subst; clear H. simpl.
    destruct (hmc_attempts_inside _ _ _ _ _ _ _ _ _ _ _ _ _ Hwf (Forall_nil _) Ec) as [Hev Hx].
    split; [|exact Hx]. unfold events_ok. apply Forall_rev. exact Hev.
  Qed.
End WithLogp.

(* ---------- ensemble ---------- *)
Section Ens.
  Variable logp : list Q -> Q.

  Lemma ens_walker_inside pinned : forall fuel s i tape ev s' tape' ev',
    box_wf (es_bounds s) -> events_ok (box_ok (es_bounds s)) ev ->
    ens_walker logp pinned fuel s i tape ev = Ok (s', tape', ev') ->
    events_ok (box_ok (es_bounds s)) ev' /\ es_bounds s' = es_bounds s.
  Proof.
    induction fuel as [|fuel IH]; intros s i tape ev s' tape' ev' Hwf Hev H.
    - cbn [ens_walker] in H. inversion H; subst. split; [exact Hev|reflexivity].
    - cbn [ens_walker] in H.
      destruct tape as [|k [|u1 tape2]]; try discriminate H.
      destruct tape2 as [|u2 tape3]; [discriminate H|].
      match type of H with context [process (es_bounds s) ?raw] =>
        pose proof (process_inside (es_bounds s) raw Hwf) as Hin; set (Y := vred (process (es_bounds s) raw)) in * end.
      assert (Hev1 : events_ok (box_ok (es_bounds s)) ((Y, elogp logp Y) :: ev))
        by (constructor; [exact Hin|exact Hev]).
      match type of H with context [decide_accept_any ?a ?b] =>
        destruct (decide_accept_any a b) as [[|]|] end.
      + inversion H; subst. split; [exact Hev1|reflexivity].
      + eapply IH; [exact Hwf|exact Hev1|exact H].
      + discriminate H.
  Qed.

  Lemma ens_walkers_inside pinned : forall todo i s tape ev s' tape' ev',
    box_wf (es_bounds s) -> events_ok (box_ok (es_bounds s)) ev ->
    ens_walkers logp pinned todo i s tape ev = Ok (s', tape', ev') ->
    events_ok (box_ok (es_bounds s)) ev'.
  Proof.
    induction todo as [|todo IH]; intros i s tape ev s' tape' ev' Hwf Hev H.
    - cbn [ens_walkers] in H. inversion H; subst. exact Hev.
    - cbn [ens_walkers] in H.
      destruct (ens_walker logp pinned (es_max_attempts s) s i tape ev) as [[[s1 t1] ev1]| | |] eqn:E;
        try discriminate H.
      destruct (ens_walker_inside pinned _ _ _ _ _ _ _ _ Hwf Hev E) as [Hev1 Hb].
      rewrite <- Hb. eapply IH; [rewrite Hb; exact Hwf|rewrite Hb; exact Hev1|exact H].
  Qed.

  (* every posterior evaluation of an ensemble iteration lies in the bounds *)
  Theorem ens_iteration_inside pinned s tape s' tape' ev :
    box_wf (es_bounds s) ->
    ens_iteration logp pinned s tape = Ok (s', tape', ev) ->
    events_ok (box_ok (es_bounds s)) ev.
  Proof.
    intros Hwf H. unfold ens_iteration in H.
    match type of H with context [ens_walkers _ _ ?n ?i ?s0 ?t ?e] =>
      destruct (ens_walkers logp pinned n i s0 t e) as [[[s1 t1] ev1]| | |] eqn:E end;
      try discriminate H.
    inversion H; subst. unfold events_ok. apply Forall_rev.
    eapply ens_walkers_inside in E; [exact E|exact Hwf|constructor].
  Qed.
End Ens.
