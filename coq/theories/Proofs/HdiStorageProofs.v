(* Lemmas about the storage-level model of sample_hdi (property C13). *)
From Coq Require Import List ZArith Bool Lia Sorting.Sorted Sorting.Permutation.
From IT Require Import Model.Hdi Model.HdiStorage Proofs.HdiProofs.
Import ListNotations.
Open Scope Z_scope.

(* ---------- little-endian byte strings ---------- *)

Lemma le_bytes_length n : forall u, length (le_bytes n u) = n.
Proof. induction n as [|n IH]; intros u; simpl; [reflexivity|]. rewrite IH. reflexivity. Qed.

Lemma le_value_le_bytes n : forall u, le_value (le_bytes n u) = u mod 256 ^ Z.of_nat n.
Proof.
  induction n as [|n IH]; intros u.
  - simpl. rewrite Z.mod_1_r. reflexivity.
  - cbn [le_bytes le_value]. rewrite IH.
    rewrite Nat2Z.inj_succ, Z.pow_succ_r by lia.
    rewrite Z.rem_mul_r; [reflexivity|lia|]. apply Z.pow_pos_nonneg; lia.
Qed.

Lemma pow256 n : 256 ^ Z.of_nat n = 2 ^ (8 * Z.of_nat n).
Proof. change 256 with (2 ^ 8). rewrite <- Z.pow_mul_r by lia. reflexivity. Qed.

Lemma raw_bytes_stores size mem p bs :
  length bs = size -> stores mem p bs -> raw_bytes size mem p = bs.
Proof.
  intros Hlen Hst. unfold raw_bytes.
  apply (nth_ext _ _ 0 0).
  - rewrite map_length, seq_length. symmetry. exact Hlen.
  - intros k Hk. rewrite map_length, seq_length in Hk.
    rewrite (nth_indep _ 0 (mem (p + Z.of_nat 0%nat))) by (rewrite map_length, seq_length; exact Hk).
    rewrite (map_nth (fun k => mem (p + Z.of_nat k)) (seq 0 size) 0%nat k).
    rewrite seq_nth by exact Hk. simpl. apply Hst. lia.
Qed.

(* what is decoded from memory holding encode_int dt x is x mod 2^bits, whatever the byte order *)
Lemma elem_bytes_encode dt mem p x :
  stores mem p (encode_int dt x) ->
  le_value (elem_bytes dt mem p) = x mod 2 ^ bits_of dt.
Proof.
  intros Hst. unfold elem_bytes, encode_int in *.
  set (u := x mod 2 ^ bits_of dt) in *.
  assert (Hu : le_value (le_bytes (dsize dt) u) = u).
  { rewrite le_value_le_bytes, pow256. unfold u, bits_of.
    apply Z.mod_small. apply Z.mod_pos_bound. apply Z.pow_pos_nonneg; lia. }
  destruct (dorder dt).
  - rewrite (raw_bytes_stores _ _ _ (le_bytes (dsize dt) u)); [exact Hu| |exact Hst].
    apply le_bytes_length.
  - rewrite (raw_bytes_stores _ _ _ (rev (le_bytes (dsize dt) u))); [| |exact Hst].
    + rewrite rev_involutive. exact Hu.
    + rewrite rev_length. apply le_bytes_length.
Qed.

Lemma to_signed_mod bits x : 0 < bits ->
  - 2 ^ (bits - 1) <= x < 2 ^ (bits - 1) -> to_signed bits (x mod 2 ^ bits) = x.
Proof.
  intros Hb Hx. unfold to_signed.
  assert (Hp : 2 ^ bits = 2 * 2 ^ (bits - 1)).
  { replace bits with (Z.succ (bits - 1)) at 1 by lia. apply Z.pow_succ_r. lia. }
  assert (Hpos : 0 < 2 ^ (bits - 1)) by (apply Z.pow_pos_nonneg; lia).
  destruct (Z_lt_le_dec x 0) as [Hneg|Hnn].
  - assert (E : x mod 2 ^ bits = x + 2 ^ bits).
    { symmetry. apply (Z.mod_unique_pos _ _ (-1)); lia. }
    rewrite E. destruct (Z.ltb_spec (x + 2 ^ bits) (2 ^ (bits - 1))); lia.
  - rewrite Z.mod_small by lia.
    destruct (Z.ltb_spec x (2 ^ (bits - 1))); lia.
Qed.

(* round trip for every integer dtype, both byte orders: the element decoded from
   memory that holds NumPy's encoding of x is x *)
Lemma decode_encode_int dt k mem p x :
  dkind dt <> KFloat -> (0 < dsize dt)%nat -> in_range dt x ->
  stores mem p (encode_int dt x) -> decode dt k mem p = Some x.
Proof.
  intros Hk Hs Hr Hst. unfold decode. rewrite (elem_bytes_encode _ _ _ _ Hst).
  unfold in_range in Hr. destruct (dkind dt); [| |congruence].
  - f_equal. apply to_signed_mod; [unfold bits_of; lia|exact Hr].
  - f_equal. apply Z.mod_small. exact Hr.
Qed.

(* decoding reads the item's own bytes only *)
Lemma decode_ext dt k mem mem' p :
  (forall j, (j < dsize dt)%nat -> mem (p + Z.of_nat j) = mem' (p + Z.of_nat j)) ->
  decode dt k mem p = decode dt k mem' p.
Proof.
  intros H. unfold decode, elem_bytes.
  assert (E : raw_bytes (dsize dt) mem p = raw_bytes (dsize dt) mem' p).
  { unfold raw_bytes. apply map_ext_in. intros j Hj. apply in_seq in Hj. apply H. lia. }
  rewrite E. reflexivity.
Qed.

Lemma gather_col_ext dt k mem mem' v j :
  (forall i b, (i < vrows v)%nat -> (b < dsize dt)%nat ->
     mem (addr v i j + Z.of_nat b) = mem' (addr v i j + Z.of_nat b)) ->
  gather_col dt k mem v j = gather_col dt k mem' v j.
Proof.
  intros H. unfold gather_col. f_equal. apply map_ext_in.
  intros i Hi. apply in_seq in Hi. apply decode_ext. intros b Hb. apply H; lia.
Qed.

Lemma hdi_storage_ext dt k mem mem' v L :
  (forall i j b, (i < vrows v)%nat -> (j < vcols v)%nat -> (b < dsize dt)%nat ->
     mem (addr v i j + Z.of_nat b) = mem' (addr v i j + Z.of_nat b)) ->
  hdi_storage dt k mem v L = hdi_storage dt k mem' v L.
Proof.
  intros H. unfold hdi_storage. f_equal. apply map_ext_in.
  intros j Hj. apply in_seq in Hj. f_equal. apply gather_col_ext.
  intros i b Hi Hb. apply H; lia.
Qed.

(* ---------- machine arithmetic ---------- *)

Lemma wrap_signed_small b x : 0 < b -> 0 <= x < 2 ^ (b - 1) -> wrap (Signed b) x = x.
Proof.
  intros Hb Hx. unfold wrap. apply to_signed_mod; [exact Hb|].
  assert (0 < 2 ^ (b - 1)) by (apply Z.pow_pos_nonneg; lia). lia.
Qed.

Lemma wrap_unsigned_small b x : 0 <= x < 2 ^ b -> wrap (Unsigned b) x = x.
Proof. intros Hx. unfold wrap. apply Z.mod_small. exact Hx. Qed.

Lemma Forall_nth_Z (P : Z -> Prop) l :
  (forall j, (j < length l)%nat -> P (nth j l 0)) -> Forall P l.
Proof.
  intros H. apply Forall_forall. intros x Hx.
  destruct (In_nth _ _ 0 Hx) as (j & Hj & E). rewrite <- E. apply H. exact Hj.
Qed.

Lemma map_id_Forall (f : Z -> Z) l : Forall (fun x => f x = x) l -> map f l = l.
Proof.
  intros H. induction H as [|x t Hx Ht IH]; simpl; [reflexivity|]. rewrite Hx, IH. reflexivity.
Qed.

(* the widths of a sorted list are differences of two of its elements, hi - lo with lo <= hi *)
Lemma widths_between s L : sorted s ->
  Forall (fun w => exists x y, In x s /\ In y s /\ x <= y /\ w = y - x) (widths s L).
Proof.
  intros Hs. apply Forall_nth_Z. intros j Hj. rewrite widths_length in Hj.
  rewrite widths_nth by exact Hj.
  exists (nth j s 0), (nth (j + L) s 0).
  split; [apply nth_In; lia|]. split; [apply nth_In; lia|].
  split; [apply sorted_nth; [exact Hs|lia]|reflexivity].
Qed.

Lemma hdi_arith_exact a sample L :
  Forall (fun w => wrap a w = w) (widths (ZSort.sort sample) L) ->
  hdi_arith a sample L = hdi sample L.
Proof.
  intros H. unfold hdi_arith, hdi, widths_m. rewrite (map_id_Forall _ _ H). reflexivity.
Qed.

Lemma pow2_le a b : 0 <= a <= b -> 2 ^ a <= 2 ^ b.
Proof. intros H. apply Z.pow_le_mono_r; lia. Qed.

(* with the widening of hdi.py and the unsigned reading of the int64 differences no width
   ever wraps: the machine computation is the ideal one, for every sample the dtype holds *)
Lemma hdi_machine_exact dt sample L :
  (0 < dsize dt <= 8)%nat -> Forall (in_range dt) sample ->
  hdi_machine dt sample L = hdi sample L.
Proof.
  intros Hsz Hr. unfold hdi_machine. apply hdi_arith_exact.
  set (s := ZSort.sort sample).
  assert (Hrs : Forall (in_range dt) s)
    by (eapply Permutation_Forall; [apply sort_perm|exact Hr]).
  eapply Forall_impl; [|apply widths_between; apply sort_sorted].
  intros w (x & y & Hx & Hy & Hxy & ->).
  rewrite Forall_forall in Hrs.
  assert (Rx := Hrs x Hx). assert (Ry := Hrs y Hy).
  unfold arith_of, in_range in *.
  assert (Hbits : 8 <= bits_of dt <= 64) by (unfold bits_of; lia).
  destruct (dkind dt) eqn:Ek.
  - apply wrap_unsigned_small.
    assert (Hp : 2 ^ (bits_of dt - 1) <= 2 ^ 63) by (apply pow2_le; lia).
    assert (H64 : 2 ^ 64 = 2 * 2 ^ 63) by reflexivity. lia.
  - apply wrap_unsigned_small.
    assert (Hp : 2 ^ bits_of dt <= 2 ^ 64) by (apply pow2_le; lia). lia.
  - reflexivity.
Qed.

(* the code before repair D53 is right exactly as far as no int64 sample spans 2^63 *)
Lemma hdi_pinned_exact dt sample L :
  (0 < dsize dt <= 8)%nat -> Forall (in_range dt) sample -> span_ok dt sample ->
  hdi_arith (arith_pinned dt) sample L = hdi sample L.
Proof.
  intros Hsz Hr Hspan. apply hdi_arith_exact.
  set (s := ZSort.sort sample).
  assert (Hrs : Forall (in_range dt) s)
    by (eapply Permutation_Forall; [apply sort_perm|exact Hr]).
  assert (Hin : forall x, In x s -> In x sample)
    by (intros x Hx; eapply Permutation_in; [symmetry; apply sort_perm|exact Hx]).
  eapply Forall_impl; [|apply widths_between; apply sort_sorted].
  intros w (x & y & Hx & Hy & Hxy & ->).
  rewrite Forall_forall in Hrs.
  assert (Rx := Hrs x Hx). assert (Ry := Hrs y Hy).
  unfold arith_pinned, in_range, span_ok in *.
  assert (Hbits : 8 <= bits_of dt <= 64) by (unfold bits_of; lia).
  destruct (dkind dt) eqn:Ek.
  - (* signed: int64 arithmetic *)
    apply wrap_signed_small; [lia|]. change (64 - 1) with 63.
    destruct (Nat.eq_dec (dsize dt) 8) as [E8|N8].
    + specialize (Hspan eq_refl E8 x y (Hin x Hx) (Hin y Hy)). lia.
    + assert (Hb : bits_of dt - 1 <= 55) by (unfold bits_of; lia).
      assert (Hp : 2 ^ (bits_of dt - 1) <= 2 ^ 55) by (apply pow2_le; lia).
      assert (H63 : 2 ^ 63 = 256 * 2 ^ 55) by reflexivity. lia.
  - (* unsigned *)
    destruct (Nat.ltb_spec (dsize dt) 8) as [Hlt|Hge].
    + apply wrap_signed_small; [lia|]. change (64 - 1) with 63.
      assert (Hb : bits_of dt <= 56) by (unfold bits_of; lia).
      assert (Hp : 2 ^ bits_of dt <= 2 ^ 56) by (apply pow2_le; lia).
      assert (H63 : 2 ^ 63 = 128 * 2 ^ 56) by reflexivity. lia.
    + apply wrap_unsigned_small.
      assert (Hp : 2 ^ bits_of dt <= 2 ^ 64) by (apply pow2_le; lia). lia.
  - reflexivity.
Qed.

(* ... and wrong beyond (defect D53): an int64 sample spanning more than 2^63 *)
Lemma pinned_int64_span_refuted :
  exists dt sample L,
    (0 < dsize dt <= 8)%nat /\ Forall (in_range dt) sample /\ (L < length sample)%nat /\
    hdi_arith (arith_pinned dt) sample L = (-4700000000000000000, 4600000000000000000) /\
    hdi sample L = (-4400000000000000000, 4600000000000000001) /\
    hdi_machine dt sample L = hdi sample L /\
    count_in (-4400000000000000000) 4600000000000000001 sample =
    count_in (-4700000000000000000) 4600000000000000000 sample.
Proof.
  exists (mkdt KInt 8 LittleE),
    [-4700000000000000000; -4400000000000000000; 0; 4600000000000000000; 4600000000000000001],
    3%nat.
  split; [simpl; lia|]. split.
  { repeat constructor; unfold in_range; simpl; lia. }
  split; [simpl; lia|].
  repeat split; vm_compute; reflexivity.
Qed.

(* two representations of the same values give the same intervals, and these are
   the ideal ones of Model.Hdi (to which all C13 theorems apply) *)
Lemma hdi_storage_values dt k mem v L cols :
  (0 < dsize dt <= 8)%nat ->
  (forall j, (j < vcols v)%nat -> exists xs, gather_col dt k mem v j = Some xs /\
     nth_error cols j = Some xs /\ Forall (in_range dt) xs) ->
  length cols = vcols v ->
  hdi_storage dt k mem v L = Some (hdi_columns cols L).
Proof.
  intros Hsz Hg Hlen. unfold hdi_storage, hdi_columns.
  remember (vcols v) as nc eqn:Enc. clear Enc.
  (* generalise over the starting column *)
  assert (G : forall n start cs,
    length cs = n ->
    (forall j, (j < n)%nat -> exists xs, gather_col dt k mem v (start + j) = Some xs /\
       nth_error cs j = Some xs /\ Forall (in_range dt) xs) ->
    sequence (map (fun j => option_map (fun xs => hdi_machine dt xs L) (gather_col dt k mem v j))
                  (seq start n)) = Some (map (fun c => hdi c L) cs)).
  { induction n as [|n IH]; intros start cs Hl Hj.
    - destruct cs; [reflexivity|discriminate].
    - destruct cs as [|c cs]; [discriminate|].
      simpl. destruct (Hj 0%nat ltac:(lia)) as (xs & G0 & N0 & R0).
      rewrite Nat.add_0_r in G0. simpl in N0. injection N0 as <-.
      rewrite G0. simpl. rewrite (IH (S start) cs).
      + rewrite (hdi_machine_exact dt c L Hsz R0). reflexivity.
      + simpl in Hl. lia.
      + intros j Hjn. destruct (Hj (S j) ltac:(lia)) as (ys & G1 & N1 & R1).
        exists ys. replace (S start + j)%nat with (start + S j)%nat by lia.
        simpl in N1. auto. }
  apply (G nc 0%nat cols Hlen). intros j Hj. simpl. apply Hg. exact Hj.
Qed.

Lemma hdi_storage_independent dt1 k1 mem1 v1 dt2 k2 mem2 v2 L cols :
  (0 < dsize dt1 <= 8)%nat -> (0 < dsize dt2 <= 8)%nat ->
  length cols = vcols v1 -> length cols = vcols v2 ->
  (forall j, (j < vcols v1)%nat -> exists xs, gather_col dt1 k1 mem1 v1 j = Some xs /\
     nth_error cols j = Some xs /\ Forall (in_range dt1) xs) ->
  (forall j, (j < vcols v2)%nat -> exists xs, gather_col dt2 k2 mem2 v2 j = Some xs /\
     nth_error cols j = Some xs /\ Forall (in_range dt2) xs) ->
  hdi_storage dt1 k1 mem1 v1 L = hdi_storage dt2 k2 mem2 v2 L.
Proof.
  intros S1 S2 L1 L2 G1 G2.
  rewrite (hdi_storage_values dt1 k1 mem1 v1 L cols S1 G1 L1).
  rewrite (hdi_storage_values dt2 k2 mem2 v2 L cols S2 G2 L2). reflexivity.
Qed.

(* without the widening (widths in the sample's own integer type) the property fails:
   a big-endian -- or any other -- int16 sample whose range exceeds 2^15 *)
Lemma native_arithmetic_refuted :
  exists dt sample L,
    (0 < dsize dt <= 8)%nat /\ Forall (in_range dt) sample /\ span_ok dt sample /\
    (L < length sample)%nat /\
    hdi_arith (arith_native dt) sample L = (-30000, 10001) /\
    hdi sample L = (10000, 10002) /\
    count_in 10000 10002 sample = count_in (-30000) 10001 sample.
Proof.
  exists (mkdt KInt 2 BigE), [-30000; 10000; 10001; 10002; 30000], 2%nat.
  split; [simpl; lia|]. split.
  { repeat constructor; unfold in_range; simpl; lia. }
  split; [intros _ E; discriminate E|].
  split; [simpl; lia|]. split; [vm_compute; reflexivity|].
  split; vm_compute; reflexivity.
Qed.
