(* Proofs/SelectionValueProofs.v -- the logarithm steps of the model-selection scores
   (RealModel/SelectionValue.v, property C11) over Coq's reals. *)
From Coq Require Import Reals List Lra Lia.
From Coquelicot Require Import Coquelicot.
From IT Require Import RealModel.SelectionValue.
Import ListNotations.
Open Scope R_scope.

Lemma prod_list_pos : forall l, List.Forall (fun x => 0 < x) l -> 0 < prod_list l.
Proof.
  induction l as [|x l IH]; intros H; simpl; [lra|].
  inversion H; subst. apply Rmult_lt_0_compat; auto.
Qed.

(* sum_i ln l_i = ln prod_i l_i *)
Lemma sum_ln_prod : forall l, List.Forall (fun x => 0 < x) l -> sum_ln l = ln (prod_list l).
Proof.
  induction l as [|x l IH]; intros H; simpl; [now rewrite ln_1|].
  inversion H; subst. rewrite ln_mult; auto using prod_list_pos. now rewrite IH.
Qed.

(* sum_i ln L_ii = 1/2 ln det A  when det A = (prod_i L_ii)^2 and the diagonal is positive *)
Lemma ml_value_closed : forall quad diagL detA,
  List.Forall (fun x => 0 < x) diagL -> detA = (prod_list diagL) ^ 2 ->
  ml_value quad diagL = ml_closed quad detA.
Proof.
  intros quad diagL detA Hpos ->. unfold ml_value, ml_closed.
  pose proof (prod_list_pos diagL Hpos) as Hp.
  rewrite (sum_ln_prod diagL Hpos). simpl. rewrite Rmult_1_r, ln_mult by assumption. lra.
Qed.

(* the LOO score is the sum of the Gaussian log-densities of the LOO predictions *)
Lemma loo_value_closed : forall ys ms vs,
  length ms = length ys -> length vs = length ys ->
  loo_value (loo_quad_R ys ms vs) vs = loo_closed ys ms vs.
Proof.
  unfold loo_value.
  induction ys as [|y ys IH]; intros [|m ms] [|v vs] Hm Hv; simpl in *; try discriminate; try lra.
  specialize (IH ms vs ltac:(lia) ltac:(lia)). unfold gauss_logpdf. lra.
Qed.

(* n = 2: the trace form IS the derivative of the marginal likelihood along the direction
   dA = [[da, db], [db, dc]] (Jacobi's formula and d(A^-1) = -A^-1 dA A^-1 in the 2 x 2 case) *)
Lemma ml2_trace_form_is_derivative : forall a b c r1 r2 da db dc,
  0 < det2 a b c ->
  is_derive (fun t => ml2 (a + t * da) (b + t * db) (c + t * dc) r1 r2) 0
            (ml2_trace_form a b c r1 r2 da db dc).
Proof.
  intros a b c r1 r2 da db dc HD.
  unfold ml2, quad2, ml2_trace_form, alpha2_1, alpha2_2, det2 in *.
  auto_derive.
  - rewrite !Rmult_0_l, !Rplus_0_r. repeat split; lra.
  - rewrite !Rmult_0_l, !Rplus_0_r. field. lra.
Qed.
