(* Lemmas for Model/PriorHistory.v: every method of a prior / posterior object hands out a
   NEW array whose contents are the function-level result, so a call history on the heap
   reads exactly like the function-level history (property C06). *)
From Coq Require Import List QArith Qabs ZArith Bool Arith Lia.
From IT Require Import Model.JointPrior Model.PriorHistory Proofs.JointPriorProofs.
Import ListNotations.
Open Scope nat_scope.

(* ---------- the heap ---------- *)
Lemma hread_alloc_old h a p : p < length h -> hread (fst (alloc h a)) p = hread h p.
Proof. intros Hp. unfold hread, alloc. simpl. now rewrite app_nth1. Qed.

Lemma hread_alloc_new h a : hread (fst (alloc h a)) (snd (alloc h a)) = a.
Proof. unfold hread, alloc. simpl. rewrite app_nth2 by lia. now rewrite Nat.sub_diag. Qed.

Lemma alloc_length h a : length (fst (alloc h a)) = S (length h).
Proof. unfold alloc. simpl. rewrite app_length. simpl. lia. Qed.

Lemma hwrite_length h p a : length (hwrite h p a) = length h.
Proof. apply upd_length. Qed.

Lemma hread_hwrite_eq h p a : p < length h -> hread (hwrite h p a) p = a.
Proof. intros. now apply nth_upd_eq. Qed.

Lemma hread_hwrite_neq h p q a : p <> q -> hread (hwrite h p a) q = hread h q.
Proof. intros. now apply nth_upd_neq. Qed.

(* r = (heap, address) was produced from h by a call that left every old array alone and
   returns a NEW array holding v *)
Definition fresh_from (h : heap) (r : heap * nat) (v : list Q) : Prop :=
  length h <= snd r < length (fst r) /\
  (forall a, a < length h -> hread (fst r) a = hread h a) /\
  hread (fst r) (snd r) = v.

Lemma alloc_fresh h v : fresh_from h (alloc h v) v.
Proof.
  split; [|split].
  - rewrite alloc_length. unfold alloc. simpl. lia.
  - intros a Ha. now apply hread_alloc_old.
  - apply hread_alloc_new.
Qed.

Lemma neg_fresh h r v : fresh_from h r v -> fresh_from h (neg_h r) (map Qopp v).
Proof.
  intros (Hr & Hold & Hv). destruct r as [h1 p]. simpl in *.
  unfold neg_h. destruct (alloc_fresh h1 (map Qopp (hread h1 p))) as (A1 & A2 & A3).
  split; [|split].
  - lia.
  - intros a Ha. rewrite A2 by lia. now apply Hold.
  - now rewrite A3, Hv.
Qed.

(* ---------- JointPrior.gradient ---------- *)
Lemma jp_grad_loop_spec cs : forall tp p h,
  p < length h -> tp < length h -> tp <> p ->
  length h <= length (jp_grad_loop cs tp p h) /\
  (forall a, a < length h -> a <> p -> hread (jp_grad_loop cs tp p h) a = hread h a) /\
  hread (jp_grad_loop cs tp p h) p =
    fold_left (fun g c => scatter g (cvars c) (comp_grad c (hread h tp))) cs (hread h p).
Proof.
  induction cs as [|c cs IH]; intros tp p h Hp Htp Hne; simpl.
  - repeat split; auto.
  - set (h1 := h ++ [comp_grad c (hread h tp)]).
    set (h2 := hwrite h1 p (scatter (hread h1 p) (cvars c) (hread h1 (length h)))).
    assert (L1 : length h1 = S (length h)) by (unfold h1; rewrite app_length; simpl; lia).
    assert (L2 : length h2 = S (length h)) by (unfold h2; rewrite hwrite_length; exact L1).
    assert (R1 : forall a, a < length h -> hread h1 a = hread h a)
      by (intros a Ha; unfold h1, hread; now rewrite app_nth1).
    assert (Rq : hread h1 (length h) = comp_grad c (hread h tp))
      by (unfold h1, hread; rewrite app_nth2 by lia; now rewrite Nat.sub_diag).
    destruct (IH tp p h2) as (I1 & I2 & I3); try lia.
    split; [lia|split].
    + intros a Ha Hap. rewrite I2 by lia. unfold h2. rewrite hread_hwrite_neq by congruence.
      now apply R1.
    + rewrite I3. unfold h2 at 1 2.
      rewrite hread_hwrite_neq by congruence. rewrite hread_hwrite_eq by lia.
      now rewrite Rq, !R1 by lia.
Qed.

Lemma jp_gradient_fresh comps n tp h : tp < length h ->
  fresh_from h (jp_gradient_h comps n tp h) (joint_grad comps n (hread h tp)).
Proof.
  intros Htp. unfold jp_gradient_h, alloc.
  set (h1 := h ++ [repeat 0%Q n]).
  assert (L1 : length h1 = S (length h)) by (unfold h1; rewrite app_length; simpl; lia).
  assert (R1 : forall a, a < length h -> hread h1 a = hread h a)
    by (intros a Ha; unfold h1, hread; now rewrite app_nth1).
  assert (Rp : hread h1 (length h) = repeat 0%Q n)
    by (unfold h1, hread; rewrite app_nth2 by lia; now rewrite Nat.sub_diag).
  destruct (jp_grad_loop_spec (merged comps) tp (length h) h1) as (I1 & I2 & I3); try lia.
  split; [|split]; simpl.
  - lia.
  - intros a Ha. rewrite I2 by lia. now apply R1.
  - rewrite I3, Rp, R1 by lia. reflexivity.
Qed.

Lemma prior_gradient_fresh o tp h : tp < length h ->
  fresh_from h (prior_gradient_h o tp h) (prior_grad o (hread h tp)).
Proof.
  intros Htp. destruct o as [c|comps n]; simpl.
  - apply alloc_fresh.
  - now apply jp_gradient_fresh.
Qed.

(* ---------- JointPrior.sample ---------- *)
Lemma jp_sample_loop_spec cs : forall script p h,
  p < length h ->
  length h <= length (jp_sample_loop cs script p h) /\
  (forall a, a < length h -> a <> p -> hread (jp_sample_loop cs script p h) a = hread h a) /\
  hread (jp_sample_loop cs script p h) p = sample_loop cs script (hread h p).
Proof.
  induction cs as [|c cs IH]; intros script p h Hp; simpl.
  - repeat split; auto.
  - set (d := firstn (length (cpar1 c)) script).
    set (h1 := h ++ [comp_sample c d]).
    set (h2 := hwrite h1 p (scatter (hread h1 p) (cvars c) (hread h1 (length h)))).
    assert (L1 : length h1 = S (length h)) by (unfold h1; rewrite app_length; simpl; lia).
    assert (L2 : length h2 = S (length h)) by (unfold h2; rewrite hwrite_length; exact L1).
    assert (R1 : forall a, a < length h -> hread h1 a = hread h a)
      by (intros a Ha; unfold h1, hread; now rewrite app_nth1).
    assert (Rq : hread h1 (length h) = comp_sample c d)
      by (unfold h1, hread; rewrite app_nth2 by lia; now rewrite Nat.sub_diag).
    destruct (IH (skipn (length (cpar1 c)) script) p h2) as (I1 & I2 & I3); try lia.
    split; [lia|split].
    + intros a Ha Hap. rewrite I2 by lia. unfold h2. rewrite hread_hwrite_neq by congruence.
      now apply R1.
    + rewrite I3. unfold h2 at 1. rewrite hread_hwrite_eq by lia.
      now rewrite Rq, R1 by lia.
Qed.

Lemma jp_sample_fresh comps n script h :
  fresh_from h (jp_sample_h comps n script h) (joint_sample comps n script).
Proof.
  unfold jp_sample_h, alloc.
  set (h1 := h ++ [repeat 0%Q n]).
  assert (L1 : length h1 = S (length h)) by (unfold h1; rewrite app_length; simpl; lia).
  assert (R1 : forall a, a < length h -> hread h1 a = hread h a)
    by (intros a Ha; unfold h1, hread; now rewrite app_nth1).
  assert (Rp : hread h1 (length h) = repeat 0%Q n)
    by (unfold h1, hread; rewrite app_nth2 by lia; now rewrite Nat.sub_diag).
  destruct (jp_sample_loop_spec (merged comps) script (length h) h1) as (I1 & I2 & I3); try lia.
  split; [|split]; simpl.
  - lia.
  - intros a Ha. rewrite I2 by lia. now apply R1.
  - rewrite I3, Rp. reflexivity.
Qed.

Lemma prior_sample_fresh o script h :
  fresh_from h (prior_sample_h o script h) (prior_sample o script).
Proof.
  destruct o as [c|comps n]; simpl.
  - apply alloc_fresh.
  - apply jp_sample_fresh.
Qed.

(* ---------- Posterior.gradient ---------- *)
Lemma post_gradient_fresh o lg tp h : tp < length h ->
  fresh_from h (post_gradient_h o lg tp h) (zip2 Qplus lg (prior_grad o (hread h tp))).
Proof.
  intros Htp. unfold post_gradient_h.
  destruct (alloc_fresh h lg) as (A1 & A2 & A3).
  destruct (alloc h lg) as [h1 a] eqn:E1. simpl in *.
  assert (Htp1 : tp < length h1) by lia.
  destruct (prior_gradient_fresh o tp h1 Htp1) as (B1 & B2 & B3).
  destruct (prior_gradient_h o tp h1) as [h2 b] eqn:E2. simpl in *.
  destruct (alloc_fresh h2 (zip2 Qplus (hread h2 a) (hread h2 b))) as (C1 & C2 & C3).
  split; [|split].
  - lia.
  - intros x Hx. rewrite C2 by lia. rewrite B2 by lia. now apply A2.
  - rewrite C3, B3, B2 by lia. rewrite A3, A2 by lia. reflexivity.
Qed.

(* every method: a new array holding the function-level result on the CONTENTS of the argument *)
Definition fresh_method (res : meth -> list Q -> list Q) (call : meth -> nat -> heap -> heap * nat) : Prop :=
  forall m tp h, tp < length h -> fresh_from h (call m tp h) (res m (hread h tp)).

Lemma meth_call_fresh o : fresh_method (meth_result o) (meth_call o).
Proof.
  intros m tp h Htp. destruct m; simpl.
  - now apply prior_gradient_fresh.
  - apply neg_fresh. now apply prior_gradient_fresh.
  - apply prior_sample_fresh.
  - now apply post_gradient_fresh.
  - apply neg_fresh. now apply post_gradient_fresh.
Qed.

(* ---------- histories ---------- *)
Definition hist_inv (s : heap * list nat) (vals : list (list Q)) : Prop :=
  Forall (fun p => p < length (fst s)) (snd s) /\ NoDup (snd s) /\ map (hread (fst s)) (snd s) = vals.

Lemma map_ext_Forall {A B} (f g : A -> B) (P : A -> Prop) l :
  Forall P l -> (forall x, P x -> f x = g x) -> map f l = map g l.
Proof. induction 1; simpl; intros E; [reflexivity|]. rewrite E by assumption. f_equal. now apply IHForall. Qed.

Lemma NoDup_app_intro_end {A} (l : list A) x : NoDup l -> ~ In x l -> NoDup (l ++ [x]).
Proof.
  induction l as [|a t IH]; simpl; intros HN Hx.
  - constructor; [intros []|constructor].
  - inversion HN as [|? ? Ha Ht]; subst. constructor.
    + rewrite in_app_iff. simpl. intros [H|[H|[]]]; [contradiction|]. apply Hx. now left.
    + apply IH; [exact Ht|]. intros H. apply Hx. now right.
Qed.

Lemma nth_map_default {A B} (f : A -> B) l k da db : k < length l -> nth k (map f l) db = f (nth k l da).
Proof. intros Hk. rewrite (nth_indep _ db (f da)) by now rewrite map_length. apply map_nth. Qed.

Lemma map_hread_upd h held : forall k x,
  Forall (fun p => p < length h) held -> NoDup held -> k < length held ->
  map (hread (hwrite h (nth k held 0) x)) held = upd (map (hread h) held) k x.
Proof.
  induction held as [|a t IH]; intros k x HF HN Hk; simpl in Hk; [lia|].
  inversion HF as [|? ? Ha HFt]; subst. inversion HN as [|? ? Hnin HNt]; subst.
  destruct k as [|k]; simpl.
  - rewrite hread_hwrite_eq by assumption. f_equal.
    apply map_ext_Forall with (P := fun p => p <> a).
    + rewrite Forall_forall. intros p Hp ->. contradiction.
    + intros p Hp. apply hread_hwrite_neq. congruence.
  - assert (Hne : nth k t 0 <> a).
    { intros E. apply Hnin. rewrite <- E. apply nth_In. lia. }
    rewrite hread_hwrite_neq by assumption. f_equal. apply IH; auto; lia.
Qed.

Lemma heap_step_inv res call s vals o :
  fresh_method res call -> hist_inv s vals -> ops_ok (length (snd s)) [o] = true ->
  hist_inv (heap_step call s o) (spec_step res vals o) /\
  length (snd (heap_step call s o)) =
    if produces o then S (length (snd s)) else length (snd s).
Proof.
  intros Hfresh (HF & HN & HM) Hok. destruct s as [h held]. simpl in *.
  destruct o as [a|m k|k adds|k]; simpl in *.
  - (* HNew *)
    split; [|rewrite app_length; simpl; lia].
    split; [|split]; simpl.
    + rewrite app_length. simpl. apply Forall_app. split.
      * eapply Forall_impl; [|exact HF]. simpl. intros; lia.
      * constructor; [lia|constructor].
    + apply NoDup_app_intro_end; [exact HN|].
      intros Hin. rewrite Forall_forall in HF. specialize (HF _ Hin). lia.
    + rewrite map_app. simpl. f_equal.
      * rewrite <- HM. apply map_ext_Forall with (P := fun p => p < length h); [exact HF|].
        intros p Hp. unfold hread. now rewrite app_nth1.
      * unfold hread. rewrite app_nth2 by lia. now rewrite Nat.sub_diag.
  - (* HCall *)
    rewrite andb_true_r in Hok. apply Nat.ltb_lt in Hok.
    assert (Htp : nth k held 0 < length h).
    { rewrite Forall_forall in HF. apply HF. now apply nth_In. }
    destruct (Hfresh m (nth k held 0) h Htp) as (F1 & F2 & F3).
    destruct (call m (nth k held 0) h) as [h1 q]. simpl in *.
    split; [|rewrite app_length; simpl; lia].
    split; [|split]; simpl.
    + apply Forall_app. split.
      * eapply Forall_impl; [|exact HF]. simpl. intros; lia.
      * constructor; [lia|constructor].
    + apply NoDup_app_intro_end; [exact HN|].
      intros Hin. rewrite Forall_forall in HF. specialize (HF _ Hin). lia.
    + rewrite map_app. simpl. f_equal.
      * rewrite <- HM. apply map_ext_Forall with (P := fun p => p < length h); [exact HF|].
        intros p Hp. now apply F2.
      * rewrite F3. f_equal. f_equal. rewrite <- HM. symmetry. now apply nth_map_default.
  - (* HAdd *)
    rewrite andb_true_r in Hok. apply Nat.ltb_lt in Hok.
    split; [|reflexivity].
    split; [|split]; simpl.
    + rewrite hwrite_length. exact HF.
    + exact HN.
    + rewrite map_hread_upd by assumption. rewrite <- HM.
      now rewrite (nth_map_default (hread h) held k 0 []) by assumption.
  - (* HValue *)
    split; [|reflexivity]. split; [exact HF|split; [exact HN|exact HM]].
Qed.

Lemma heap_run_inv res call : fresh_method res call ->
  forall ops s vals, hist_inv s vals -> ops_ok (length (snd s)) ops = true ->
  read_held (fold_left (heap_step call) ops s) = fold_left (spec_step res) ops vals.
Proof.
  intros Hfresh. induction ops as [|o ops IH]; intros s vals Hinv Hok; simpl.
  - destruct Hinv as (_ & _ & HM). exact HM.
  - assert (Hok1 : ops_ok (length (snd s)) [o] = true /\
                   ops_ok (if produces o then S (length (snd s)) else length (snd s)) ops = true).
    { destruct o; simpl in *.
      - split; [reflexivity|exact Hok].
      - apply andb_true_iff in Hok. destruct Hok as [H1 H2]. rewrite H1. split; [reflexivity|exact H2].
      - apply andb_true_iff in Hok. destruct Hok as [H1 H2]. rewrite H1. split; [reflexivity|exact H2].
      - apply andb_true_iff in Hok. destruct Hok as [H1 H2]. rewrite H1. split; [reflexivity|exact H2]. }
    destruct Hok1 as [Ho Hrest].
    destruct (heap_step_inv res call s vals o Hfresh Hinv Ho) as [Hinv' Hlen].
    apply IH; [exact Hinv'|]. rewrite Hlen. exact Hrest.
Qed.

(* the heap-level history reads like the function-level history, from any initial heap *)
Lemma history_refines_generic res call h0 ops :
  fresh_method res call -> ops_ok 0 ops = true ->
  read_held (heap_run call h0 ops) = spec_run res ops.
Proof.
  intros Hfresh Hok. unfold heap_run, spec_run.
  apply (heap_run_inv res call Hfresh ops (h0, []) []); [|exact Hok].
  split; [constructor|split; [constructor|reflexivity]].
Qed.

Lemma history_refines o ops : ops_ok 0 ops = true ->
  history_final o ops = spec_run (meth_result o) ops.
Proof. intros Hok. unfold history_final. apply history_refines_generic; [apply meth_call_fresh|exact Hok]. Qed.

(* ---------- consequences at the function level ---------- *)
Definition touches (j : nat) (o : hop) : bool :=
  match o with HAdd k _ => Nat.eqb k j | _ => false end.

Lemma spec_step_length res held o :
  length held <= length (spec_step res held o).
Proof. destruct o; simpl; rewrite ?app_length, ?upd_length; simpl; lia. Qed.

Lemma spec_step_keeps res held o j :
  j < length held -> touches j o = false -> nth j (spec_step res held o) [] = nth j held [].
Proof.
  intros Hj Ht. destruct o as [a|m k|k adds|k]; simpl in *.
  - now rewrite app_nth1.
  - now rewrite app_nth1.
  - apply Nat.eqb_neq in Ht. now apply nth_upd_neq.
  - reflexivity.
Qed.

Lemma spec_fold_keeps res ops : forall held j,
  j < length held -> forallb (fun o => negb (touches j o)) ops = true ->
  nth j (fold_left (spec_step res) ops held) [] = nth j held [].
Proof.
  induction ops as [|o ops IH]; intros held j Hj Hall; simpl in *; [reflexivity|].
  apply andb_true_iff in Hall. destruct Hall as [H1 H2]. apply negb_true_iff in H1.
  rewrite IH; [now apply spec_step_keeps| |exact H2].
  pose proof (spec_step_length res held o). lia.
Qed.

Lemma ops_ok_prefix ops1 ops2 : forall n, ops_ok n (ops1 ++ ops2) = true -> ops_ok n ops1 = true.
Proof.
  induction ops1 as [|x t IH]; intros n Hok; simpl in *; [reflexivity|].
  destruct x; simpl in *.
  - now apply IH.
  - apply andb_true_iff in Hok. destruct Hok as [H1 H2]. rewrite H1. simpl. now apply IH.
  - apply andb_true_iff in Hok. destruct Hok as [H1 H2]. rewrite H1. simpl. now apply IH.
  - apply andb_true_iff in Hok. destruct Hok as [H1 H2]. rewrite H1. simpl. now apply IH.
Qed.

(* an array the caller holds -- a returned gradient / sample, or a parameter vector it passed --
   keeps its contents through every later call on the object; only the caller's own in-place
   update of THAT array changes it *)
Lemma history_persists o ops1 ops2 j :
  ops_ok 0 (ops1 ++ ops2) = true ->
  j < length (history_final o ops1) ->
  forallb (fun op => negb (touches j op)) ops2 = true ->
  nth j (history_final o (ops1 ++ ops2)) [] = nth j (history_final o ops1) [].
Proof.
  intros Hok Hj Hall.
  assert (Hok1 : ops_ok 0 ops1 = true) by (eapply ops_ok_prefix; exact Hok).
  rewrite (history_refines o (ops1 ++ ops2) Hok).
  rewrite (history_refines o ops1 Hok1) in Hj. rewrite (history_refines o ops1 Hok1).
  unfold spec_run in *. rewrite fold_left_app. now apply spec_fold_keeps.
Qed.

(* the array returned by a call holds the method's function-level result on the contents the
   argument had when the call was made (whatever was called, returned or updated before) *)
Lemma history_call_value o ops m k :
  ops_ok 0 (ops ++ [HCall m k]) = true ->
  history_final o (ops ++ [HCall m k]) =
  history_final o ops ++ [meth_result o m (nth k (history_final o ops) [])].
Proof.
  intros Hok.
  assert (Hok1 : ops_ok 0 ops = true) by (eapply ops_ok_prefix; exact Hok).
  rewrite !history_refines by assumption.
  unfold spec_run. rewrite fold_left_app. reflexivity.
Qed.

(* without in-place updates by the caller: the arrays held at the end are, one per operation,
   the parameter vectors as created and the results of the calls on them *)
Fixpoint pure_results (res : meth -> list Q -> list Q) (ops : list hop) (held : list (list Q)) : list (list Q) :=
  match ops with
  | [] => held
  | HNew a :: t => pure_results res t (held ++ [a])
  | HCall m k :: t => pure_results res t (held ++ [res m (nth k held [])])
  | HAdd _ _ :: t => pure_results res t held
  | HValue _ :: t => pure_results res t held
  end.

Lemma history_without_updates o ops :
  ops_ok 0 ops = true -> forallb (fun op => match op with HAdd _ _ => false | _ => true end) ops = true ->
  history_final o ops = pure_results (meth_result o) ops [] /\
  length (history_final o ops) = length (filter produces ops).
Proof.
  intros Hok Hno. rewrite history_refines by assumption. unfold spec_run.
  assert (G : forall held, fold_left (spec_step (meth_result o)) ops held = pure_results (meth_result o) ops held /\
                           length (fold_left (spec_step (meth_result o)) ops held) =
                           length held + length (filter produces ops)).
  { clear Hok. induction ops as [|x t IH]; intros held; simpl in *.
    - split; [reflexivity|lia].
    - destruct x; simpl in *; try discriminate.
      + destruct (IH Hno (held ++ [a])) as [E L]. split; [exact E|]. rewrite L, app_length. simpl. lia.
      + destruct (IH Hno (held ++ [meth_result o m (nth k held [])])) as [E L]. split; [exact E|].
        rewrite L, app_length. simpl. lia.
      + apply IH. exact Hno. }
  destruct (G []) as [E L]. split; [exact E|]. rewrite L. reflexivity.
Qed.

(* a JointPrior that re-used one gradient buffer does NOT read like the function-level history *)
Lemma shared_buffer_refuted :
  exists comps n ops,
    partitions comps n /\ ops_ok 0 ops = true /\
    forallb (fun op => match op with HAdd _ _ => false | _ => true end) ops = true /\
    arrays_agree 0 (shared_final comps n ops) (spec_run (meth_result (OJoint comps n)) ops) = false /\
    arrays_agree 0 (history_final (OJoint comps n) ops) (spec_run (meth_result (OJoint comps n)) ops) = true.
Proof.
  exists [mkComp KGauss [0#1] [1#1] [0%nat]]%Q, 1%nat,
         [HNew [1#1]; HNew [2#1]; HCall MGrad 0; HCall MGrad 1]%Q.
  split; [|split; [|split; [|split]]]; try (vm_compute; reflexivity).
  split.
  - repeat constructor.
  - vm_compute. apply Permutation.Permutation_refl.
Qed.
