(* Proofs/GpProofs.v -- lemmas about Matrix/GpModel.v at the MathComp instance
   (property C02).  Any realFieldType, any sizes. *)
From mathcomp Require Import all_ssreflect all_algebra fingroup perm.
From IT Require Import Matrix.MxOps Matrix.McOps Matrix.GpModel.

Set Implicit Arguments.
Unset Strict Implicit.
Unset Printing Implicit Defensive.

Import Order.TTheory GRing.Theory Num.Theory.
Local Open Scope ring_scope.

Section Gp.
Variable R : realFieldType.
Notation O := (McOps R).

(* ---- the model's functions at this instance, in MathComp notation ---------- *)
Lemma gp_alphaE n (L : 'M[R]_n) (y mu : 'cV[R]_n) :
  @gp_alpha O n L y mu = invmx L^T *m (invmx L *m (y - mu)).
Proof. by []. Qed.

Lemma post_meanE n b (alpha : 'cV[R]_n) (K_qx : 'M[R]_(b, n)) (mu_q : 'cV[R]_b) :
  @post_mean O n b alpha K_qx mu_q = K_qx *m alpha + mu_q.
Proof. by []. Qed.

Lemma post_covE n b (L : 'M[R]_n) (K_qx : 'M[R]_(b, n)) (K_qq : 'M[R]_b) :
  @post_cov O n b L K_qx K_qq = K_qq - (invmx L *m K_qx^T)^T *m (invmx L *m K_qx^T).
Proof. by []. Qed.

Lemma closed_meanE n b (A : 'M[R]_n) (y mu : 'cV[R]_n) (K_qx : 'M[R]_(b, n)) (mu_q : 'cV[R]_b) :
  @closed_mean O n b A y mu K_qx mu_q = mu_q + K_qx *m invmx A *m (y - mu).
Proof. by rewrite /closed_mean /= mulmxA. Qed.

Lemma closed_covE n b (A : 'M[R]_n) (K_qx : 'M[R]_(b, n)) (K_qq : 'M[R]_b) :
  @closed_cov O n b A K_qx K_qq = K_qq - K_qx *m invmx A *m K_qx^T.
Proof. by rewrite /closed_cov /= mulmxA. Qed.

(* ---- closed forms ----------------------------------------------------------- *)
Section Closed.
Variables (n b : nat).
Variables (K S L : 'M[R]_n) (y mu : 'cV[R]_n).
Variables (K_qx : 'M[R]_(b, n)) (K_qq : 'M[R]_b) (mu_q : 'cV[R]_b).
Hypothesis HL : L *m L^T = K + S.
Hypothesis uL : L \in unitmx.

Lemma alpha_closed : @gp_alpha O n L y mu = invmx (K + S) *m (y - mu).
Proof. by rewrite gp_alphaE (inv_of_factor HL uL) mulmxA. Qed.

Lemma mean_closed :
  @post_mean O n b (@gp_alpha O n L y mu) K_qx mu_q
  = mu_q + K_qx *m invmx (K + S) *m (y - mu).
Proof. by rewrite post_meanE alpha_closed addrC mulmxA. Qed.

Lemma cov_closed :
  @post_cov O n b L K_qx K_qq = K_qq - K_qx *m invmx (K + S) *m K_qx^T.
Proof.
rewrite post_covE (inv_of_factor HL uL); congr (_ - _).
by rewrite trmx_mul trmxK trmx_inv !mulmxA.
Qed.

Lemma mean_closed_model :
  @post_mean O n b (@gp_alpha O n L y mu) K_qx mu_q
  = @closed_mean O n b (@data_cov O n K S) y mu K_qx mu_q.
Proof. by rewrite closed_meanE mean_closed. Qed.

Lemma cov_closed_model :
  @post_cov O n b L K_qx K_qq = @closed_cov O n b (@data_cov O n K S) K_qx K_qq.
Proof. by rewrite closed_covE cov_closed. Qed.

(* the covariance is symmetric when the prior one is *)
Lemma cov_sym : K_qq^T = K_qq -> (@post_cov O n b L K_qx K_qq)^T = @post_cov O n b L K_qx K_qq.
Proof.
move=> sK; rewrite post_covE linearB /= sK; congr (_ - _).
by rewrite trmx_mul trmxK.
Qed.

End Closed.

(* ---- the three call paths agree ----------------------------------------------- *)
Section Paths.
Variables (n b : nat).
Variables (L : 'M[R]_n) (alpha : 'cV[R]_n).
Variables (K_qx : 'M[R]_(b, n)) (K_qq : 'M[R]_b) (mu_q : 'cV[R]_b).

(* __call__ on query point i receives row i of K_qx, entry (i,i) of K_qq and
   entry i of mu_q (the kernel is evaluated point by point: C10 builder = pairwise) *)
Lemma pointwise_mean_eq_joint i :
  @call_mean O n alpha (row i K_qx) (mu_q i 0)%:M
  = ((@post_mean O n b alpha K_qx mu_q) i 0)%:M.
Proof.
rewrite /call_mean post_meanE /= -row_mul.
apply/matrixP=> a c; rewrite !ord1 !mxE eqxx !mulr1n.
by congr (_ + _); apply: eq_bigr => k _; rewrite !mxE.
Qed.

Lemma sum_sq_col (v : 'cV[R]_n) : @msum O n (@mhad O n 1 v v) = v^T *m v.
Proof.
rewrite msumE; apply/matrixP=> a c; rewrite !ord1 !mxE eqxx mulr1n.
by apply: eq_bigr => k _; rewrite !mxE.
Qed.

Lemma pointwise_var_eq_joint_diag i :
  @call_var O n L (row i K_qx) (K_qq i i)%:M
  = ((@post_cov O n b L K_qx K_qq) i i)%:M.
Proof.
rewrite /call_var /call_var_s sum_sq_col post_covE /=.
set Q := invmx L *m K_qx^T.
have -> : invmx L *m (row i K_qx)^T = col i Q by rewrite tr_row /Q !colE mulmxA.
apply/matrixP=> a c; rewrite !ord1 !mxE eqxx !mulr1n.
by congr (_ - _); apply: eq_bigr => k _; rewrite !mxE.
Qed.

Lemma mean_only_eq_joint_mean :
  @build_posterior_mean_only O n b alpha K_qx mu_q
  = (@build_posterior O n b L alpha K_qx K_qq mu_q).1.
Proof. by []. Qed.

End Paths.

(* ---- y_err versus the equivalent diagonal y_cov ---------------------------------- *)
Lemma sig_yerr_entries n (e : 'cV[R]_n) i j :
  (@sig_of_yerr O n e) i j = (e i 0) ^+ 2 *+ (i == j).
Proof. by rewrite /sig_of_yerr /= /mc_diagv /mc_had !mxE expr2. Qed.

Lemma yerr_eq_ycov n (e : 'cV[R]_n) (C : 'M[R]_n) :
  (forall i j, C i j = (e i 0) ^+ 2 *+ (i == j)) ->
  @sig_of_yerr O n e = @sig_of_ycov O n C.
Proof. by move=> hC; apply/matrixP=> i j; rewrite sig_yerr_entries hC. Qed.

(* no error data: S = 0 *)
Lemma sig_noneE n : @sig_none O n = 0.
Proof. by apply/matrixP=> i j; rewrite /sig_none /= !mxE Q2F_0. Qed.

(* ---- training-order invariance ----------------------------------------------------- *)
Lemma inv_eq n (B X : 'M[R]_n) : B *m X = 1%:M -> invmx B = X.
Proof.
move=> BX; have uB := unitmx_of_right_inv BX.
by rewrite -[RHS](mulKmx uB) BX mulmx1.
Qed.

Section Perm.
Variables (n b : nat) (s : 'S_n).
Let P : 'M[R]_n := perm_mx s.

Lemma perm_tr_l : P^T *m P = 1%:M.
Proof. by rewrite /P tr_perm_mx -perm_mxM mulVg perm_mx1. Qed.

Lemma perm_tr_r : P *m P^T = 1%:M.
Proof. by rewrite /P tr_perm_mx -perm_mxM mulgV perm_mx1. Qed.

Lemma inv_perm_conj (A : 'M[R]_n) :
  A \in unitmx -> invmx (P *m A *m P^T) = P *m invmx A *m P^T.
Proof.
move=> uA; apply: inv_eq.
rewrite !mulmxA -(mulmxA (P *m A)) perm_tr_l mulmx1 -(mulmxA P) mulmxV // mulmx1.
exact: perm_tr_r.
Qed.

Variables (K S L L' : 'M[R]_n) (y mu : 'cV[R]_n).
Variables (K_qx : 'M[R]_(b, n)) (K_qq : 'M[R]_b) (mu_q : 'cV[R]_b).
Hypothesis HL : L *m L^T = K + S.
Hypothesis uL : L \in unitmx.
(* any factor of the permuted data covariance, e.g. its own Cholesky factor
   (which is NOT P L P^T in general) *)
Hypothesis HL' : L' *m L'^T = P *m K *m P^T + P *m S *m P^T.
Hypothesis uL' : L' \in unitmx.

Lemma perm_data_cov : P *m K *m P^T + P *m S *m P^T = P *m (K + S) *m P^T.
Proof. by rewrite mulmxDr mulmxDl. Qed.

Lemma train_perm_mean :
  @post_mean O n b (@gp_alpha O n L' (P *m y) (P *m mu)) (K_qx *m P^T) mu_q
  = @post_mean O n b (@gp_alpha O n L y mu) K_qx mu_q.
Proof.
rewrite (mean_closed _ _ _ _ HL' uL') (mean_closed _ _ _ _ HL uL); congr (_ + _).
rewrite perm_data_cov inv_perm_conj ?(unit_of_factor HL uL) // -mulmxBr.
rewrite !mulmxA -(mulmxA K_qx) perm_tr_l mulmx1.
by rewrite -(mulmxA (K_qx *m _)) perm_tr_l mulmx1.
Qed.

Lemma train_perm_cov :
  @post_cov O n b L' (K_qx *m P^T) K_qq = @post_cov O n b L K_qx K_qq.
Proof.
rewrite (cov_closed _ _ HL' uL') (cov_closed _ _ HL uL); congr (_ - _).
rewrite perm_data_cov inv_perm_conj ?(unit_of_factor HL uL) // trmx_mul trmxK.
rewrite !mulmxA -(mulmxA K_qx) perm_tr_l mulmx1.
by rewrite -(mulmxA (K_qx *m _)) perm_tr_l mulmx1.
Qed.

End Perm.

(* ---- variance bounds ------------------------------------------------------------------ *)
Section Bounds.
Variables (n b : nat).
Variables (K S L : 'M[R]_n).
Variables (K_qx : 'M[R]_(b, n)) (K_qq : 'M[R]_b).
Hypothesis HL : L *m L^T = K + S.
Hypothesis uL : L \in unitmx.
(* the joint prior covariance of (noisy data, query values) is PSD *)
Hypothesis Hjoint : psd (block_mx (K + S) K_qx^T K_qx K_qq).

Lemma post_cov_psd : psd (@post_cov O n b L K_qx K_qq).
Proof.
rewrite (cov_closed _ _ HL uL).
have sA := sym_of_factor HL.
have uA := unit_of_factor HL uL.
have := @schur_psd R n b (K + S) K_qx^T K_qq sA uA.
by rewrite trmxK; apply.
Qed.

Lemma prior_minus_post_psd : psd (K_qq - @post_cov O n b L K_qx K_qq).
Proof.
rewrite post_covE opprB addrC subrK => x; rewrite /qform.
move: (invmx L *m K_qx^T) => Q.
have -> : x^T *m (Q^T *m Q) *m x = (Q *m x)^T *m (Q *m x) by rewrite trmx_mul !mulmxA.
exact: sqnorm_ge0.
Qed.

(* 0 <= var_i <= prior var_i, joint path *)
Lemma var_bounds_joint i :
  0 <= (@post_cov O n b L K_qx K_qq) i i <= K_qq i i.
Proof.
apply/andP; split; first exact: (psd_diag_ge0 i post_cov_psd).
have := psd_diag_ge0 i prior_minus_post_psd.
by rewrite !mxE subr_ge0.
Qed.

(* ... and for the point-wise call (whose abs() is therefore the identity) *)
Lemma var_bounds_pointwise i :
  0 <= (@call_var O n L (row i K_qx) (K_qq i i)%:M) 0 0 <= K_qq i i.
Proof. by rewrite pointwise_var_eq_joint_diag mxE eqxx mulr1n var_bounds_joint. Qed.

Lemma call_absvar_eq_var i :
  @call_absvar O n L (row i K_qx) (K_qq i i)%:M = @call_var O n L (row i K_qx) (K_qq i i)%:M.
Proof.
rewrite /call_absvar /=; apply/matrixP=> a c; rewrite !ord1 /mc_abs mxE.
by rewrite ger0_norm //; case/andP: (var_bounds_pointwise i).
Qed.

End Bounds.

(* the joint-PSD hypothesis is what a PSD kernel gives: if the prior covariance of
   (f(x), f(q)) is PSD and the noise covariance S is PSD, the joint matrix is PSD *)
Lemma joint_psd_of_kernel n b (K S : 'M[R]_n) (K_qx : 'M[R]_(b, n)) (K_qq : 'M[R]_b) :
  psd (block_mx K K_qx^T K_qx K_qq) -> psd S ->
  psd (block_mx (K + S) K_qx^T K_qx K_qq).
Proof. exact: joint_psd. Qed.

End Gp.
