(* Lemmas about RealModel/AcquisitionConfig.v *)
From Coq Require Import Reals Lra.
From IT Require Import RealModel.Acquisition RealModel.AcquisitionConfig.
Open Scope R_scope.

Lemma ucb_config_spec :
  (forall k m s, ucb_call (ucb_kappa (Some k)) m s = m + k * s /\
                 ucb_opt_func (ucb_kappa (Some k)) m s = - (m + k * s)) /\
  (forall m s, ucb_call (ucb_kappa None) m s = m + 2 * s) /\
  (forall m s dmu dvar, ucb_call (ucb_kappa (Some 0)) m s = m /\
                        ucb_opt_func (ucb_kappa (Some 0)) m s = - m /\
                        ucb_opt_grad (ucb_kappa (Some 0)) s dmu dvar = - dmu).
Proof.
  unfold ucb_call, ucb_opt_func, ucb_opt_grad, ucb_kappa. repeat split; intros;
    try (unfold Rdiv); ring.
Qed.

Lemma ucb_falsy_refuted :
  exists m s, 0 < s /\ ucb_call (ucb_kappa_falsy (Some 0)) m s <> ucb_call (ucb_kappa (Some 0)) m s.
Proof.
  exists 0, 1. split; [lra | ]. unfold ucb_call, ucb_kappa_falsy, ucb_kappa.
  destruct (Req_EM_T 0 0) as [_ | N]; [lra | exfalso; apply N; reflexivity].
Qed.
