(* C08 (a): the pairing routines propose disjoint, in-range pairs -- for every
   number of chains and every script of random choices. *)
From Coq Require Import List Arith Bool Lia Sorting.Permutation.
From IT Require Import Model.Tempering.
Import ListNotations.
Open Scope nat_scope.

(* ------------------------------------------------------------------ lists *)
Lemma in_removelast : forall (A : Type) (l : list A) x, In x (removelast l) -> In x l.
Proof.
  induction l as [| a l IH]; intros x H; simpl in *; [assumption |].
  destruct l as [| b l]; [contradiction |].
  destruct H as [H | H]; [left; assumption | right; apply IH; assumption].
Qed.

Lemma removelast_app2 : forall (A : Type) (l : list A) a b, removelast (l ++ [a; b]) = l ++ [a].
Proof.
  intros A l a b. rewrite removelast_app by discriminate. reflexivity.
Qed.

Lemma NoDup_app_intro : forall (A : Type) (l1 l2 : list A),
  NoDup l1 -> NoDup l2 -> (forall x, In x l1 -> ~ In x l2) -> NoDup (l1 ++ l2).
Proof.
  induction l1 as [| a l1 IH]; intros l2 H1 H2 Hd; simpl; [assumption |].
  inversion H1; subst. constructor.
  - rewrite in_app_iff. intros [H | H]; [contradiction |]. apply (Hd a); [left; reflexivity | assumption].
  - apply IH; [assumption | assumption |]. intros x Hx. apply Hd. right. assumption.
Qed.

Lemma flatten_app : forall a b, flatten (a ++ b) = flatten a ++ flatten b.
Proof. intros a b. unfold flatten. apply flat_map_app. Qed.

Lemma in_flatten : forall ps x, In x (flatten ps) <-> exists p, In p ps /\ (x = fst p \/ x = snd p).
Proof.
  intros ps x. unfold flatten. rewrite in_flat_map. split.
  - intros [p [Hp Hx]]. exists p. split; [assumption |]. simpl in Hx. intuition.
  - intros [p [Hp Hx]]. exists p. split; [assumption |]. simpl. intuition.
Qed.

(* ------------------------------------------------------------ mem_pair etc. *)
Lemma mem_pair_false : forall j k, mem_pair j k = false <-> j <> fst k /\ j <> snd k.
Proof.
  intros j k. unfold mem_pair. rewrite orb_false_iff, !Nat.eqb_neq. tauto.
Qed.

Lemma mem_pair_true : forall j k, mem_pair j k = true <-> j = fst k \/ j = snd k.
Proof.
  intros j k. unfold mem_pair. rewrite orb_true_iff, !Nat.eqb_eq. tauto.
Qed.

Lemma in_sample_false : forall i sample, in_sample i sample = false -> ~ In i (flatten sample).
Proof.
  intros i sample H Hin. apply in_flatten in Hin. destruct Hin as [p [Hp Hx]].
  unfold in_sample in H.
  assert (Ht : existsb (mem_pair i) sample = true).
  { apply existsb_exists. exists p. split; [assumption | apply mem_pair_true; assumption]. }
  congruence.
Qed.

(* ------------------------------------------------------------- candidates *)
Definition good_pair (N : nat) (p : pair) : Prop := fst p < snd p /\ snd p < N.

Lemma candidate_pairs_good : forall N p, In p (candidate_pairs N) -> good_pair N p.
Proof.
  intros N p H. unfold candidate_pairs in H.
  destruct (N - 1) as [| m] eqn:Hm; [simpl in H; contradiction |].
  rewrite seq_S, flat_map_app in H. simpl in H.
  rewrite removelast_app2 in H.
  apply in_app_iff in H. destruct H as [H | H].
  - apply in_flat_map in H. destruct H as [i [Hi Hp]]. apply in_seq in Hi.
    simpl in Hp. unfold good_pair.
    destruct Hp as [Hp | [Hp | []]]; subst p; simpl; lia.
  - simpl in H. destruct H as [H | []]. subst p. unfold good_pair. simpl. lia.
Qed.

(* ------------------------------------------------------------- tight_loop *)
Definition loop_inv (N : nat) (pairs sample : list pair) : Prop :=
  (forall p, In p pairs -> good_pair N p) /\
  (forall p, In p sample -> good_pair N p) /\
  NoDup (flatten sample) /\
  (forall k x, In k pairs -> In x (flatten sample) -> mem_pair x k = false).

Lemma NoDup_snoc2 : forall (l : list nat) a b,
  NoDup l -> ~ In a l -> ~ In b l -> a <> b -> NoDup (l ++ [a; b]).
Proof.
  intros l a b Hl Ha Hb Hab. apply NoDup_app_intro; [assumption | |].
  - constructor; [simpl; intuition | constructor; [simpl; tauto | constructor]].
  - intros x Hx [H | [H | []]]; subst; contradiction.
Qed.

Lemma tight_loop_inv : forall N fuel pairs script sample,
  loop_inv N pairs sample ->
  let '(sample', pairs', _) := tight_loop fuel pairs script sample in
  loop_inv N pairs' sample'.
Proof.
  intros N fuel. induction fuel as [| f IH]; intros pairs script sample Hinv; simpl.
  - assumption.
  - destruct pairs as [| q qs] eqn:Hpairs; [assumption |].
    rewrite <- Hpairs in *.
    set (p := nth (hd 0 script mod length pairs) pairs (0, 0)).
    assert (Hp : In p pairs).
    { apply nth_In. apply Nat.mod_upper_bound. rewrite Hpairs. simpl. discriminate. }
    apply IH.
    destruct Hinv as [Hg [Hs [Hnd Hc]]].
    assert (Hpg : good_pair N p) by (apply Hg; assumption).
    unfold loop_inv. split; [| split; [| split]].
    + intros k Hk. apply filter_In in Hk. apply Hg. tauto.
    + intros k Hk. apply in_app_iff in Hk. destruct Hk as [Hk | [Hk | []]]; [apply Hs; assumption | subst; assumption].
    + rewrite flatten_app. change (flatten [p]) with [fst p; snd p].
      apply NoDup_snoc2; [assumption | | |].
      * intros Hin. specialize (Hc p (fst p) Hp Hin). apply mem_pair_false in Hc. tauto.
      * intros Hin. specialize (Hc p (snd p) Hp Hin). apply mem_pair_false in Hc. tauto.
      * unfold good_pair in Hpg. lia.
    + intros k x Hk Hx. apply filter_In in Hk. destruct Hk as [Hk Hnc].
      rewrite flatten_app in Hx. apply in_app_iff in Hx. destruct Hx as [Hx | Hx].
      * apply Hc; assumption.
      * apply negb_true_iff in Hnc. unfold conflicts in Hnc. apply orb_false_iff in Hnc.
        change (flatten [p]) with [fst p; snd p] in Hx. simpl in Hx. destruct Hx as [Hx | [Hx | []]]; subst x; tauto.
Qed.

Lemma filter_len_le : forall (A : Type) (f : A -> bool) l, length (filter f l) <= length l.
Proof. induction l as [| a l IH]; simpl; [lia |]. destruct (f a); simpl; lia. Qed.

(* with fuel >= len(pairs) the loop runs until no pair is left, as the while loop does *)
Lemma filter_length_lt : forall p (pairs : list pair), In p pairs -> fst p <> snd p \/ True ->
  length (filter (fun k => negb (conflicts p k)) pairs) < length pairs.
Proof.
  intros p pairs Hp _. induction pairs as [| a l IH]; [contradiction |].
  simpl. destruct Hp as [Hp | Hp].
  - subst a.
    assert (Hc : conflicts p p = true).
    { unfold conflicts, mem_pair. rewrite Nat.eqb_refl. reflexivity. }
    rewrite Hc. simpl.
    pose proof (filter_len_le _ (fun k => negb (conflicts p k)) l). lia.
  - specialize (IH Hp). destruct (negb (conflicts p a)); simpl; lia.
Qed.

Lemma tight_loop_exhausts : forall fuel pairs script sample,
  length pairs <= fuel ->
  let '(_, pairs', _) := tight_loop fuel pairs script sample in pairs' = [].
Proof.
  induction fuel as [| f IH]; intros pairs script sample Hlen; simpl.
  - destruct pairs; [reflexivity | simpl in Hlen; lia].
  - destruct pairs as [| q qs] eqn:Hpairs; [reflexivity |].
    rewrite <- Hpairs in *.
    apply IH.
    set (p := nth (hd 0 script mod length pairs) pairs (0, 0)).
    assert (Hp : In p pairs).
    { apply nth_In. apply Nat.mod_upper_bound. rewrite Hpairs. simpl. discriminate. }
    pose proof (filter_length_lt p pairs Hp (or_intror I)). lia.
Qed.

(* ---------------------------------------------------------------- shuffle *)
Lemma insert_at_perm : forall (A : Type) k (x : A) l, Permutation (insert_at k x l) (x :: l).
Proof.
  intros A k x l. revert k. induction l as [| y t IH]; intros k.
  - destruct k; simpl; apply Permutation_refl.
  - destruct k; simpl; [apply Permutation_refl |].
    eapply perm_trans; [apply perm_skip; apply IH | apply perm_swap].
Qed.

Lemma shuffle_perm : forall l draws, Permutation (shuffle draws l) l.
Proof.
  induction l as [| x t IH]; intros draws; simpl; [constructor |].
  eapply perm_trans; [apply insert_at_perm | apply perm_skip; apply IH].
Qed.

(* ---------------------------------------------------------------- pair_up *)
Lemma pair_up_sub : forall n l, length l <= n ->
  (forall x, In x (flatten (pair_up l)) -> In x l) /\ (NoDup l -> NoDup (flatten (pair_up l))).
Proof.
  induction n as [| n IH]; intros l Hlen.
  - destruct l; [| simpl in Hlen; lia]. simpl. split; [tauto | intros; constructor].
  - destruct l as [| a [| b t]]; simpl.
    + split; [tauto | intros; constructor].
    + split; [tauto | intros; constructor].
    + assert (Ht : length t <= n) by (simpl in Hlen; lia).
      destruct (IH t Ht) as [Hin Hnd].
      unfold flatten. simpl. fold (flatten (pair_up t)).
      split.
      * intros x [Hx | [Hx | Hx]]; [left; assumption | right; left; assumption | right; right; apply Hin; assumption].
      * intros Hn. inversion Hn as [| ? ? Ha Hn']; subst. inversion Hn' as [| ? ? Hb Hn'']; subst.
        constructor.
        -- simpl. intros [He | Hx]; [apply Ha; left; assumption |].
           apply Ha. right. apply Hin. assumption.
        -- constructor; [intros Hx; apply Hb; apply Hin; assumption | apply Hnd; assumption].
Qed.

Lemma pair_up_in : forall l x, In x (flatten (pair_up l)) -> In x l.
Proof. intros l. exact (proj1 (pair_up_sub (length l) l (le_n _))). Qed.

Lemma pair_up_nodup : forall l, NoDup l -> NoDup (flatten (pair_up l)).
Proof. intros l. exact (proj2 (pair_up_sub (length l) l (le_n _))). Qed.

(* ------------------------------------------------------------- order_pair *)
Lemma flatten_order_perm : forall ps, Permutation (flatten (map order_pair ps)) (flatten ps).
Proof.
  induction ps as [| p ps IH]; simpl; [constructor |].
  unfold flatten in *. simpl.
  unfold order_pair at 1 2. destruct (fst p <? snd p); simpl.
  - do 2 apply perm_skip. exact IH.
  - eapply perm_trans; [apply perm_swap |]. do 2 apply perm_skip. exact IH.
Qed.

Lemma nodup_flatten_distinct : forall ps p, NoDup (flatten ps) -> In p ps -> fst p <> snd p.
Proof.
  induction ps as [| q ps IH]; intros p Hnd Hp; [contradiction |].
  unfold flatten in Hnd. simpl in Hnd. fold (flatten ps) in Hnd.
  inversion Hnd as [| ? ? Ha Hn']; subst. inversion Hn' as [| ? ? Hb Hn'']; subst.
  destruct Hp as [Hp | Hp].
  - subst q. intros He. apply Ha. left. symmetry. assumption.
  - apply IH; assumption.
Qed.

Lemma order_pair_ordered : forall p, fst p <> snd p -> fst (order_pair p) < snd (order_pair p).
Proof.
  intros p Hne. unfold order_pair. destruct (Nat.ltb_spec (fst p) (snd p)); simpl; lia.
Qed.

(* --------------------------------------------------------------- leftovers *)
Lemma leftovers_spec : forall N sample,
  NoDup (leftovers N sample) /\
  (forall x, In x (leftovers N sample) -> x < N /\ ~ In x (flatten sample)).
Proof.
  intros N sample. unfold leftovers. split.
  - apply NoDup_filter. apply seq_NoDup.
  - intros x Hx. apply filter_In in Hx. destruct Hx as [Hs Hf].
    apply in_seq in Hs. split; [lia |].
    apply in_sample_false. apply negb_true_iff. assumption.
Qed.

(* ============================================================ main results *)
Definition pairs_ok (N : nat) (ps : list pair) : Prop :=
  NoDup (flatten ps) /\ (forall x, In x (flatten ps) -> x < N).

Lemma tight_pairs_ok : forall N choices draws,
  let '(ps, _, _) := tight_pairs N choices draws in
  pairs_ok N ps /\ (forall p, In p ps -> fst p < snd p).
Proof.
  intros N choices draws. unfold tight_pairs.
  pose proof (tight_loop_inv N (length (candidate_pairs N)) (candidate_pairs N) choices []) as Hinv.
  destruct (tight_loop (length (candidate_pairs N)) (candidate_pairs N) choices [])
    as [[sample pairs'] choices'] eqn:Hloop.
  assert (H0 : loop_inv N (candidate_pairs N) []).
  { unfold loop_inv. split; [| split; [| split]].
    - apply candidate_pairs_good.
    - intros p [].
    - constructor.
    - intros k x _ []. }
  specialize (Hinv H0). destruct Hinv as [_ [Hs [Hnd _]]].
  assert (Hsample : pairs_ok N sample /\ (forall p, In p sample -> fst p < snd p)).
  { split; [split; [assumption |] |].
    - intros x Hx. apply in_flatten in Hx. destruct Hx as [p [Hp Hx]].
      destruct (Hs p Hp). destruct Hx; subst; lia.
    - intros p Hp. destruct (Hs p Hp). assumption. }
  destruct (length sample =? N / 2); [exact Hsample |].
  destruct Hsample as [[_ Hrange] Hord].
  destruct (leftovers_spec N sample) as [Hlnd Hlin].
  set (lo := leftovers N sample) in *.
  set (extra := pair_up (shuffle draws lo)).
  assert (Hextra_nd : NoDup (flatten extra)).
  { apply pair_up_nodup. eapply Permutation_NoDup; [apply Permutation_sym; apply shuffle_perm | assumption]. }
  assert (Hextra_in : forall x, In x (flatten extra) -> In x lo).
  { intros x Hx. apply pair_up_in in Hx.
    eapply Permutation_in; [apply shuffle_perm | eassumption]. }
  split; [split |].
  - rewrite flatten_app. apply NoDup_app_intro.
    + assumption.
    + eapply Permutation_NoDup; [apply Permutation_sym; apply flatten_order_perm | assumption].
    + intros x Hx Hx2.
      apply (Permutation_in _ (flatten_order_perm extra)) in Hx2.
      apply Hextra_in in Hx2. apply Hlin in Hx2. tauto.
  - intros x Hx. rewrite flatten_app in Hx. apply in_app_iff in Hx. destruct Hx as [Hx | Hx].
    + apply Hrange; assumption.
    + apply (Permutation_in _ (flatten_order_perm extra)) in Hx.
      apply Hextra_in in Hx. apply Hlin in Hx. tauto.
  - intros p Hp. apply in_app_iff in Hp. destruct Hp as [Hp | Hp]; [apply Hord; assumption |].
    apply in_map_iff in Hp. destruct Hp as [q [Hq Hin]]. subst p.
    apply order_pair_ordered. eapply nodup_flatten_distinct; eassumption.
Qed.

Lemma uniform_pairs_ok : forall N draws, pairs_ok N (fst (uniform_pairs N draws)).
Proof.
  intros N draws. unfold uniform_pairs. simpl. split.
  - apply pair_up_nodup.
    eapply Permutation_NoDup; [apply Permutation_sym; apply shuffle_perm | apply seq_NoDup].
  - intros x Hx. apply pair_up_in in Hx.
    apply (Permutation_in _ (shuffle_perm (seq 0 N) draws)) in Hx.
    apply in_seq in Hx. lia.
Qed.

(* "each chain takes part in at most one proposed pair" *)
Definition occurrences (i : nat) (ps : list pair) : nat := length (filter (mem_pair i) ps).

Lemma nodup_occurrences : forall ps i, NoDup (flatten ps) -> occurrences i ps <= 1.
Proof.
  induction ps as [| p ps IH]; intros i Hnd; unfold occurrences in *; simpl; [lia |].
  unfold flatten in Hnd. simpl in Hnd. fold (flatten ps) in Hnd.
  inversion Hnd as [| ? ? Ha Hn']; subst. inversion Hn' as [| ? ? Hb Hn'']; subst.
  destruct (mem_pair i p) eqn:Hm; [| apply IH; assumption].
  simpl.
  assert (Hz : filter (mem_pair i) ps = []).
  { destruct (filter (mem_pair i) ps) as [| q r] eqn:Hf; [reflexivity |].
    exfalso.
    assert (Hq : In q (filter (mem_pair i) ps)) by (rewrite Hf; left; reflexivity).
    apply filter_In in Hq. destruct Hq as [Hq Hmq].
    assert (Hi : In i (flatten ps)).
    { apply in_flatten. exists q. split; [assumption | apply mem_pair_true; assumption]. }
    apply mem_pair_true in Hm. destruct Hm as [Hm | Hm]; subst i.
    - apply Ha. right. assumption.
    - apply Hb. assumption. }
  rewrite Hz. simpl. lia.
Qed.

(* the pairing routine WITHOUT the conflict filter (a mutation of l.173) is
   refuted by evaluation: chain 1 is proposed twice *)
Definition tight_loop_nofilter (pairs : list pair) (script : list nat) : list pair :=
  map (fun k => nth (k mod length pairs) pairs (0, 0)) script.
Lemma nofilter_not_disjoint :
  ~ NoDup (flatten (tight_loop_nofilter (candidate_pairs 4) [0; 2])).
Proof.
  vm_compute. intros H. inversion H as [| ? ? _ H1]; subst.
  inversion H1 as [| ? ? Hn _]; subst. apply Hn. simpl. tauto.
Qed.

(* the statements in the form used by Properties/C08.v *)
Lemma tight_pairs_disjoint : forall N choices draws,
  let ps := fst (fst (tight_pairs N choices draws)) in
  NoDup (flatten ps) /\
  (forall x, In x (flatten ps) -> x < N) /\
  (forall p, In p ps -> fst p < snd p) /\
  (forall i, occurrences i ps <= 1).
Proof.
  intros N choices draws.
  pose proof (tight_pairs_ok N choices draws) as H.
  destruct (tight_pairs N choices draws) as [[ps c'] d']. simpl.
  destruct H as [[Hnd Hr] Ho].
  split; [assumption |]. split; [assumption |]. split; [assumption |].
  intros i. apply nodup_occurrences. assumption.
Qed.

Lemma uniform_pairs_disjoint : forall N draws,
  let ps := fst (uniform_pairs N draws) in
  NoDup (flatten ps) /\
  (forall x, In x (flatten ps) -> x < N) /\
  (forall i, occurrences i ps <= 1).
Proof.
  intros N draws. destruct (uniform_pairs_ok N draws) as [Hnd Hr].
  cbv zeta. split; [assumption |]. split; [assumption |].
  intros i. apply nodup_occurrences. assumption.
Qed.

(* the while loop of tight_pairs is run to completion by the fuel given *)
Lemma tight_pairs_loop_complete : forall N choices,
  snd (fst (tight_loop (length (candidate_pairs N)) (candidate_pairs N) choices [])) = [].
Proof.
  intros N choices.
  pose proof (tight_loop_exhausts (length (candidate_pairs N)) (candidate_pairs N) choices [] (le_n _)) as H.
  destruct (tight_loop (length (candidate_pairs N)) (candidate_pairs N) choices []) as [[a b] c].
  exact H.
Qed.
