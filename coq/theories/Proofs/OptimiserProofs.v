(* Lemmas about Model/Optimiser.v *)
From Coq Require Import List QArith Qminmax Qabs Bool Lia Lqa.
From IT Require Import Model.Optimiser.
Import ListNotations.
Open Scope Q_scope.

(* ---------------- clipping and the shrunk box ---------------- *)
Lemma Qmax_cases x y : (x <= y /\ Qmax x y == y) \/ (y <= x /\ Qmax x y == x).
Proof.
  destruct (Q.max_spec x y) as [[H1 H2] | [H1 H2]].
  - left. split; [apply Qlt_le_weak, H1 | exact H2].
  - right. split; assumption.
Qed.

Lemma Qmin_cases x y : (x <= y /\ Qmin x y == x) \/ (y <= x /\ Qmin x y == y).
Proof.
  destruct (Q.min_spec x y) as [[H1 H2] | [H1 H2]].
  - left. split; [apply Qlt_le_weak, H1 | exact H2].
  - right. split; assumption.
Qed.

Lemma clip_in b s : fst b <= snd b -> fst b <= clip b s /\ clip b s <= snd b.
Proof.
  intros Hb. unfold clip.
  destruct (Qmax_cases (fst b) s) as [[H1 E1] | [H1 E1]];
  destruct (Qmin_cases (snd b) (Qmax (fst b) s)) as [[H2 E2] | [H2 E2]];
  rewrite E2; rewrite ?E1 in *; split; lra.
Qed.

Lemma shrunk_in b c1 :
  fst b <= snd b -> 0 <= c1 -> c1 <= 1 # 2 ->
  fst b <= fst (shrunk c1 b) /\ fst (shrunk c1 b) <= snd (shrunk c1 b) /\
  snd (shrunk c1 b) <= snd b.
Proof.
  intros Hb H0 H1. unfold shrunk. cbv zeta. simpl fst. simpl snd.
  set (w := snd b - fst b).
  assert (Hw : 0 <= w) by (unfold w; lra).
  assert (0 <= w * c1) by (apply Qmult_le_0_compat; assumption).
  assert (w * c1 <= w * (1 # 2)).
  { rewrite (Qmult_comm w c1), (Qmult_comm w (1 # 2)). apply Qmult_le_compat_r; assumption. }
  unfold w in *. repeat split; lra.
Qed.

Definition box_ok (bs : list bnd) : Prop := Forall (fun b => fst b <= snd b) bs.
Definition unit_vec (u : list Q) : Prop := Forall (fun ui => 0 <= ui /\ ui <= 1) u.

Lemma cand_in_box c1 c2 bs : box_ok bs -> 0 <= c1 -> c1 <= 1 # 2 ->
  forall x0 u, length x0 = length bs -> length u = length bs ->
  in_box bs (cand c1 c2 bs x0 u).
Proof.
  intros Hb H0 H1. induction Hb as [ | b bs Hbb Hbs IH]; intros x0 u Lx Lu.
  - destruct x0; [ | discriminate]. simpl. exact I.
  - destruct x0 as [ | x x0]; [discriminate | ]. destruct u as [ | ui u]; [discriminate | ].
    simpl. split.
    + destruct (shrunk_in b c1 Hbb H0 H1) as (A & B & C).
      destruct (clip_in (shrunk c1 b) (x + c2 * (snd b - fst b) * (2 * ui - 1)) B) as [D E].
      split; lra.
    + apply IH; simpl in *; lia.
Qed.

Lemma unif_in_box c1 bs : box_ok bs -> 0 <= c1 -> c1 <= 1 # 2 ->
  forall u, unit_vec u -> length u = length bs -> in_box bs (unif c1 bs u).
Proof.
  intros Hb H0 H1. induction Hb as [ | b bs Hbb Hbs IH]; intros u Hu Lu.
  - destruct u; [ | discriminate]. exact I.
  - destruct u as [ | ui u]; [discriminate | ]. inversion Hu as [ | ? ? [U0 U1] Hu']; subst.
    destruct (shrunk_in b c1 Hbb H0 H1) as (A & B & C).
    change (in_box (b :: bs)
              ((fst (shrunk c1 b) + (snd (shrunk c1 b) - fst (shrunk c1 b)) * ui) :: unif c1 bs u)).
    set (lo := fst (shrunk c1 b)) in *. set (hi := snd (shrunk c1 b)) in *. clearbody lo hi.
    cbn [in_box]. split.
    + assert (0 <= (hi - lo) * ui) by (apply Qmult_le_0_compat; lra).
      assert ((hi - lo) * ui <= (hi - lo) * 1).
      { rewrite (Qmult_comm _ ui), (Qmult_comm _ 1). apply Qmult_le_compat_r; lra. }
      split; lra.
    + apply IH; [assumption | simpl in Lu; lia].
Qed.

Lemma first_min_In {A} (key : A -> Q) l : forall best,
  first_min key best l = best \/ In (first_min key best l) l.
Proof.
  induction l as [ | a l IH]; intros best; simpl.
  - now left.
  - destruct (Qlt_le_dec (key a) (key best)).
    + destruct (IH a) as [-> | H]; [right; now left | right; now right].
    + destruct (IH best) as [-> | H]; [now left | right; now right].
Qed.

(* first_min really returns a least-key element *)
Lemma first_min_least {A} (key : A -> Q) l : forall best,
  key (first_min key best l) <= key best /\
  forall a, In a l -> key (first_min key best l) <= key a.
Proof.
  induction l as [ | a l IH]; intros best; simpl.
  - split; [lra | intros ? []].
  - destruct (Qlt_le_dec (key a) (key best)) as [Hlt | Hle].
    + destruct (IH a) as [H1 H2]. split; [lra | ].
      intros a' [<- | Hin]; [exact H1 | now apply H2].
    + destruct (IH best) as [H1 H2]. split; [exact H1 | ].
      intros a' [<- | Hin]; [lra | now apply H2].
Qed.

Lemma firstn_incl {A} n : forall (l : list A) a, In a (firstn n l) -> In a l.
Proof.
  induction n as [ | n IH]; intros [ | b l] a H; simpl in *; try contradiction.
  destruct H as [-> | H]; [now left | right; now apply IH].
Qed.

Lemma starts_in_bounds_lemma c1 c2 bs key : box_ok bs -> 0 <= c1 -> c1 <= 1 # 2 ->
  forall xs script,
  Forall (fun x0 => length x0 = length bs) xs ->
  Forall (fun u => unit_vec u /\ length u = length bs) script ->
  Forall (in_box bs) (starts c1 c2 bs key xs script).
Proof.
  intros Hb H0 H1 xs. induction xs as [ | x0 xs IH]; intros script Hx Hs; cbn [starts].
  - constructor.
  - inversion Hx as [ | ? ? Lx Hx']; subst.
    destruct (inside c1 bs x0).
    + destruct (map (cand c1 c2 bs x0) (firstn n_local script)) as [ | s ss] eqn:E.
      * constructor.
      * constructor.
        -- assert (Hall : Forall (in_box bs) (s :: ss)).
           { rewrite <- E. apply Forall_forall. intros v Hv.
             apply in_map_iff in Hv. destruct Hv as (u & <- & Hu).
             apply firstn_incl in Hu.
             rewrite Forall_forall in Hs. destruct (Hs u Hu) as [_ Lu].
             now apply cand_in_box. }
           destruct (first_min_In key ss s) as [-> | Hin].
           ++ now inversion Hall.
           ++ inversion Hall as [ | ? ? Hs0 Hss]; subst. rewrite Forall_forall in Hss. now apply Hss.
        -- apply IH; [assumption | ].
           apply Forall_forall. intros u Hu. rewrite Forall_forall in Hs. apply Hs.
           rewrite <- (firstn_skipn n_local script). apply in_or_app. now right.
    + destruct script as [ | u rest]; [constructor | ].
      inversion Hs as [ | ? ? [Hu Lu] Hs']; subst.
      constructor; [now apply unif_in_box | now apply IH].
Qed.

(* the same sample without the clipping line can leave the box *)
Lemma cand_unclipped_escapes :
  exists bs x0 u, box_ok bs /\ unit_vec u /\ inside (1 # 100) bs x0 = true /\
                  in_box_b bs (cand_unclipped (2 # 100) bs x0 u) = false.
Proof.
  exists [(0, 1)], [1 # 100], [0]. repeat split.
  - repeat constructor. simpl. lra.
  - repeat constructor; simpl; lra.
Qed.

(* ---------------- add_evaluation ---------------- *)
Lemma fold_max_ge l : forall a, a <= fold_left Qmax l a /\
  forall y, In y l -> y <= fold_left Qmax l a.
Proof.
  induction l as [ | b l IH]; intros a; simpl.
  - split; [lra | intros ? []].
  - destruct (IH (Qmax a b)) as [H1 H2]. split.
    + apply Qle_trans with (2 := H1). apply Q.le_max_l.
    + intros y [<- | Hy]; [apply Qle_trans with (2 := H1); apply Q.le_max_r | now apply H2].
Qed.

Lemma fold_max_in l : forall a, fold_left Qmax l a == a \/
  exists y, In y l /\ fold_left Qmax l a == y.
Proof.
  induction l as [ | b l IH]; intros a; simpl.
  - left. reflexivity.
  - assert (Hcompat : forall p q, p == q -> fold_left Qmax l p == fold_left Qmax l q).
    { clear. induction l as [ | c l IH]; intros p q Hpq; simpl; [exact Hpq | ].
      apply IH. now rewrite Hpq. }
    destruct (IH (Qmax a b)) as [H | (y & Hy & H)].
    + destruct (Qmax_cases a b) as [[Hab E] | [Hab E]].
      * right. exists b. split; [now left | ]. now rewrite H.
      * left. now rewrite H.
    + right. exists y. split; [now right | exact H].
Qed.

Lemma list_max_upper l y : In y l -> y <= list_max l.
Proof.
  destruct l as [ | a l]; [intros [] | ]. simpl.
  destruct (fold_max_ge l a) as [H1 H2]. intros [<- | Hy]; [exact H1 | now apply H2].
Qed.

Lemma list_max_attained l : l <> [] -> exists y, In y l /\ list_max l == y.
Proof.
  destruct l as [ | a l]; [congruence | intros _]. simpl.
  destruct (fold_max_in l a) as [H | (y & Hy & H)].
  - exists a. split; [now left | exact H].
  - exists y. split; [now right | exact H].
Qed.

Lemma fold_max_app l : forall a b, fold_left Qmax (l ++ [b]) a = Qmax (fold_left Qmax l a) b.
Proof. induction l as [ | c l IH]; intros a b; simpl; [reflexivity | apply IH]. Qed.

(* the incumbent is updated incrementally: new max = max(old max, new value) *)
Lemma list_max_snoc l b : l <> [] -> list_max (l ++ [b]) = Qmax (list_max l) b.
Proof. destruct l as [ | a l]; [congruence | intros _]. simpl. apply fold_max_app. Qed.

Lemma add_evaluation_spec_lemma st nx ny ne st' :
  add_evaluation st nx ny ne = Some st' ->
  st_x st' = st_x st ++ [nx] /\
  st_y st' = st_y st ++ [ny] /\
  (st_yerr st' = match st_yerr st, ne with
                 | Some e, Some v => Some (e ++ [v])
                 | _, _ => None end) /\
  st_ymax st' = list_max (st_y st') /\
  (forall y, In y (st_y st') -> y <= st_ymax st') /\
  (exists y, In y (st_y st') /\ st_ymax st' == y) /\
  (st_y st <> [] -> st_ymax st = list_max (st_y st) -> st_ymax st' = Qmax (st_ymax st) ny).
Proof.
  unfold add_evaluation. intros H.
  assert (Hne : st_y st ++ [ny] <> []) by (destruct (st_y st); discriminate).
  destruct (st_yerr st) as [e | ] eqn:Ee; [destruct ne as [v | ]; [ | discriminate] | ];
    inversion H; subst; clear H; simpl; repeat split; auto;
    try (intros y Hy; now apply list_max_upper);
    try (now apply list_max_attained);
    try (intros Hn ->; now apply list_max_snoc).
Qed.

Lemma add_evaluation_error st nx ny ne :
  add_evaluation st nx ny ne = None <-> (st_yerr st <> None /\ ne = None).
Proof.
  unfold add_evaluation. destruct (st_yerr st); destruct ne; split;
    try discriminate; try (intros [A B]; congruence); auto.
  intros _. split; [discriminate | reflexivity].
Qed.

Lemma add_all_spec_lemma news : forall st st',
  add_all st news = Some st' ->
  st_x st' = st_x st ++ map (fun n => fst (fst n)) news /\
  st_y st' = st_y st ++ map (fun n => snd (fst n)) news /\
  (news <> [] -> st_ymax st' = list_max (st_y st')).
Proof.
  induction news as [ | [[nx ny] ne] news IH]; intros st st' H; simpl in H.
  - inversion H; subst. rewrite !app_nil_r. repeat split; congruence.
  - destruct (add_evaluation st nx ny ne) as [st1 | ] eqn:E; [ | discriminate].
    destruct (add_evaluation_spec_lemma _ _ _ _ _ E) as (X & Y & _ & M & _).
    destruct (IH _ _ H) as (X' & Y' & M').
    split; [ | split].
    + simpl. rewrite X', X, <- app_assoc. reflexivity.
    + simpl. rewrite Y', Y, <- app_assoc. reflexivity.
    + intros _. destruct news as [ | n news].
      * simpl in H. inversion H; subst. exact M.
      * apply M'. discriminate.
Qed.

(* ---------------- the caller's arrays ---------------- *)
Lemma init_x_preserves_caller x r : init_x x = Some r -> snd r = x.
Proof.
  unfold init_x. destruct (shape x) as [ | ? [ | ? ?]]; intros H; inversion H; reflexivity.
Qed.

Lemma init_x_total x : init_x x <> None.
Proof. unfold init_x. destruct (shape x) as [ | ? [ | ? ?]]; discriminate. Qed.

Lemma init_x_pinned_refuted :
  exists x r, init_x_pinned x = Some r /\ shape (snd r) <> shape x.
Proof.
  exists (mk_arr [3%nat] [1; 2; 3] true). eexists. split; [reflexivity | ]. simpl. discriminate.
Qed.

Lemma new_x_preserves_caller d nx r : new_x d nx = Some r -> snd r = nx.
Proof.
  unfold new_x. destruct (shape_eqb _ _); [intros H; inversion H; reflexivity | ].
  destruct (Nat.eqb _ _); intros H; inversion H; reflexivity.
Qed.

Lemma new_x_defined d nx : size nx = d -> new_x d nx <> None.
Proof.
  intros H. unfold new_x. destruct (shape_eqb _ _); [discriminate | ].
  rewrite H, Nat.eqb_refl. discriminate.
Qed.

Lemma new_x_pinned_refuted :
  exists d nx r, size nx = d /\ new_x_pinned d nx = Some r /\ shape (snd r) <> shape nx.
Proof.
  exists 2%nat, (mk_arr [2%nat] [1; 2] true). eexists. repeat split. simpl. discriminate.
Qed.
