(* The part of C18 that needs the value of the Gaussian integral:
     0 < Phi z  and  0 < z Phi z + phi z  for EVERY z,
   hence both EI branches are defined everywhere and agree.

   Proof of the Gaussian bound without improper integrals (finite form of the
   classical  F + G  argument):  with  E x = int_0^x exp(-t^2) dt  and
   G x = int_0^1 exp(-x^2 (1+t^2)) / (1+t^2) dt  one has  (E^2 + G)' = 0,
   G 0 = atan 1 = PI/4  and  0 <= G x <= exp(-x^2), so for every x
        PI/4 - exp(-x^2) <= (E x)^2 <= PI/4.                                 *)
From Coq Require Import Reals Lra Psatz.
From Coquelicot Require Import Coquelicot.
From IT Require Import RealModel.Acquisition Proofs.AcquisitionProofs.
Open Scope R_scope.

Definition gE (x : R) : R := RInt (fun t => exp (- (t * t))) 0 x.
Definition gG (x : R) : R := RInt (fun t => exp (- (x * x) * (1 + t * t)) / (1 + t * t)) 0 1.

Lemma exp_le_mono a b : a <= b -> exp a <= exp b.
Proof.
  intros [H | ->]; [left; now apply exp_increasing | right; reflexivity].
Qed.

Lemma gauss_continuous t : continuous (fun t => exp (- (t * t))) t.
Proof.
  apply (ex_derive_continuous (K:=R_AbsRing) (V:=R_NormedModule)). auto_derive. exact I.
Qed.

Lemma ex_RInt_gauss a b : ex_RInt (fun t => exp (- (t * t))) a b.
Proof.
  apply (ex_RInt_continuous (V:=R_CompleteNormedModule)). intros t _. apply gauss_continuous.
Qed.

Lemma gE_derive x : is_derive gE x (exp (- (x * x))).
Proof.
  unfold gE.
  apply (is_derive_RInt (fun t => exp (- (t * t))) (fun b => RInt (fun t => exp (- (t * t))) 0 b) 0).
  - apply filter_forall. intros b. apply (RInt_correct (V:=R_CompleteNormedModule)), ex_RInt_gauss.
  - apply gauss_continuous.
Qed.

Lemma gE_0 : gE 0 = 0.
Proof. unfold gE. now rewrite RInt_point. Qed.

Lemma gE_nonneg x : 0 <= x -> 0 <= gE x.
Proof.
  intros Hx. unfold gE. apply RInt_ge_0; [exact Hx | apply ex_RInt_gauss | ].
  intros t _. left. apply exp_pos.
Qed.

Lemma one_plus_sq_pos t : 0 < 1 + t * t.
Proof. nra. Qed.

Lemma gG_integrand_continuous x t :
  continuous (fun t => exp (- (x * x) * (1 + t * t)) / (1 + t * t)) t.
Proof.
  apply (ex_derive_continuous (K:=R_AbsRing) (V:=R_NormedModule)). auto_derive.
  apply Rgt_not_eq, one_plus_sq_pos.
Qed.

Lemma ex_RInt_gG x a b :
  ex_RInt (fun t => exp (- (x * x) * (1 + t * t)) / (1 + t * t)) a b.
Proof.
  apply (ex_RInt_continuous (V:=R_CompleteNormedModule)). intros t _.
  apply gG_integrand_continuous.
Qed.

(* the derivative of G: differentiation under the integral sign, then the
   substitution u = x t *)
Lemma gG_derive x : is_derive gG x (- (2 * exp (- (x * x)) * gE x)).
Proof.
  unfold gG. auto_derive.
  - split; [ | split; [ | exact I]].
    + apply filter_forall. intros x0.
      apply (ex_RInt_ext (fun t => exp (- (x0 * x0) * (1 + t * t)) / (1 + t * t))).
      * intros t _. reflexivity.
      * apply ex_RInt_gG.
    + intros t _.
      apply (continuity_2d_pt_ext
               (fun u v => - (2 * u) * exp (- (u * u) * (1 + v * v)))).
      * intros u v. pose proof (one_plus_sq_pos v). field. lra.
      * apply continuity_2d_pt_mult.
        -- apply continuity_2d_pt_opp. apply continuity_2d_pt_mult.
           ++ apply continuity_2d_pt_const.
           ++ apply continuity_2d_pt_id1.
        -- apply (continuity_1d_2d_pt_comp exp (fun u v => - (u * u) * (1 + v * v))).
           ++ apply derivable_continuous_pt, derivable_pt_exp.
           ++ apply continuity_2d_pt_mult.
              ** apply continuity_2d_pt_opp. apply continuity_2d_pt_mult; apply continuity_2d_pt_id1.
              ** apply continuity_2d_pt_plus; [apply continuity_2d_pt_const | ].
                 apply continuity_2d_pt_mult; apply continuity_2d_pt_id2.
  - pose (f := fun t : R => exp (- (t * t))).
    rewrite (RInt_ext _ (fun t => scal (- (2 * exp (- (x * x)))) (scal x (f (x * t + 0))))).
    2:{ intros t _. unfold scal; simpl. unfold mult; simpl. unfold f.
        replace (- ((x * t + 0) * (x * t + 0))) with (- (x * x) * (t * t)) by ring.
        replace (- (x * x) * (1 + t * t)) with (- (x * x) + - (x * x) * (t * t)) by ring.
        rewrite !exp_plus. pose proof (one_plus_sq_pos t). field. lra. }
    assert (Hc : forall a b, ex_RInt f a b) by (intros a b; apply ex_RInt_gauss).
    rewrite (RInt_scal (V:=R_CompleteNormedModule) (fun t => scal x (f (x * t + 0)))).
    2:{ apply (ex_RInt_comp_lin (V:=R_NormedModule) f x 0 0 1). apply Hc. }
    assert (HR : RInt (fun t => scal x (f (x * t + 0))) 0 1 = RInt f (x * 0 + 0) (x * 1 + 0)).
    { apply (RInt_comp_lin (V:=R_CompleteNormedModule) f x 0 0 1). apply Hc. }
    unfold scal in *; simpl in *. unfold mult in *; simpl in *. rewrite HR.
    unfold gE, f.
    replace (x * 0 + 0) with 0 by ring. replace (x * 1 + 0) with x by ring. ring.
Qed.

Lemma gG_0 : gG 0 = PI / 4.
Proof.
  unfold gG.
  rewrite (RInt_ext _ (fun t => / (1 + t²))).
  2:{ intros t _. unfold Rsqr. replace (- (0 * 0) * (1 + t * t)) with 0 by ring.
      rewrite exp_0. unfold Rdiv. apply Rmult_1_l. }
  assert (H : is_RInt (fun t => / (1 + t²)) 0 1 (minus (atan 1) (atan 0))).
  { apply (is_RInt_derive (V:=R_CompleteNormedModule) atan (fun t => / (1 + t²))).
    - intros t _. apply is_derive_atan.
    - intros t _. apply (ex_derive_continuous (K:=R_AbsRing) (V:=R_NormedModule)).
      unfold Rsqr. auto_derive. pose proof (one_plus_sq_pos t). lra. }
  rewrite (is_RInt_unique _ _ _ _ H).
  unfold minus, plus, opp; simpl. rewrite atan_1, atan_0. ring.
Qed.

Lemma gG_bounds x : 0 <= gG x <= exp (- (x * x)).
Proof.
  unfold gG. split.
  - apply RInt_ge_0; [lra | apply ex_RInt_gG | ].
    intros t _. apply Rlt_le, Rdiv_lt_0_compat; [apply exp_pos | apply one_plus_sq_pos].
  - replace (exp (- (x * x))) with (RInt (fun _ : R => exp (- (x * x))) 0 1).
    2:{ rewrite RInt_const. unfold scal; simpl. unfold mult; simpl. ring. }
    apply RInt_le; [lra | apply ex_RInt_gG | apply ex_RInt_const | ].
    intros t _.
    assert (H1 : exp (- (x * x) * (1 + t * t)) <= exp (- (x * x))) by (apply exp_le_mono; nra).
    pose proof (exp_pos (- (x * x) * (1 + t * t))) as H2.
    pose proof (one_plus_sq_pos t) as H3.
    apply Rle_trans with (exp (- (x * x) * (1 + t * t))); [ | exact H1].
    apply (Rmult_le_reg_r (1 + t * t)); [exact H3 | ].
    unfold Rdiv. rewrite Rmult_assoc, Rinv_l by lra. nra.
Qed.

(* E^2 + G is constant *)
Lemma gauss_FG x : gE x * gE x + gG x = PI / 4.
Proof.
  pose (h := fun x => gE x * gE x + gG x).
  assert (Hd : forall y, is_derive h y 0).
  { intros y. unfold h.
    evar (d : R). assert (Hd : is_derive (fun x0 => gE x0 * gE x0 + gG x0) y d).
    { apply (is_derive_plus (fun x0 => gE x0 * gE x0) gG).
      - apply (is_derive_mult gE gE); [apply gE_derive | apply gE_derive | ].
        intros a b. apply Rmult_comm.
      - apply gG_derive. }
    unfold d in Hd. replace 0 with
      (plus (plus (mult (exp (- (y * y))) (gE y)) (mult (gE y) (exp (- (y * y)))))
            (- (2 * exp (- (y * y)) * gE y))); [exact Hd | ].
    unfold plus, mult; simpl. ring. }
  assert (Hh : h x = h 0).
  { destruct (MVT_gen h 0 x (fun _ => 0)) as [c [_ Heq]].
    - intros y _. apply Hd.
    - intros y _. apply continuity_pt_filterlim.
      apply (ex_derive_continuous (K:=R_AbsRing) (V:=R_NormedModule)). eexists. apply Hd.
    - lra. }
  unfold h in Hh. rewrite Hh, gE_0, gG_0. ring.
Qed.

Lemma gE_sq_upper x : gE x * gE x <= PI / 4.
Proof. pose proof (gauss_FG x). pose proof (gG_bounds x). lra. Qed.

Lemma gE_sq_lower x : PI / 4 - exp (- (x * x)) <= gE x * gE x.
Proof. pose proof (gauss_FG x). pose proof (gG_bounds x). lra. Qed.

(* ------------------------------------------------------------------ *)
(* consequences for Phi                                                 *)
Lemma RInt_phi_gE z : RInt phi 0 z = gE (z * ir2) / sqrt PI.
Proof.
  pose proof (erf_scaled z) as H. unfold erf in H. fold (gE (z * ir2)) in H.
  pose proof sqrt_PI_pos. apply (Rmult_eq_reg_l 2); [ | lra]. rewrite <- H. field. lra.
Qed.

Lemma sqrt_PI_sq : sqrt PI * sqrt PI = PI.
Proof. apply sqrt_sqrt. pose proof PI_RGT_0. lra. Qed.

(* for z <= 0 :  0 <= Phi z <= (2/PI) exp(-z^2/2) *)
Lemma Phi_tail_bounds z : z <= 0 -> 0 <= Phi z /\ Phi z <= 2 / PI * exp (- (z * z) / 2).
Proof.
  intros Hz.
  assert (HP : Phi z = 1 / 2 - gE (- z * ir2) / sqrt PI).
  { unfold Phi. rewrite <- (Ropp_involutive z) at 1. rewrite RInt_phi_opp, RInt_phi_gE. ring. }
  set (x := - z * ir2) in *.
  assert (Hir2 : 0 < ir2) by (unfold ir2; apply Rdiv_lt_0_compat; [lra | apply sqrt_2_pos]).
  assert (Hx : 0 <= x) by (unfold x; nra).
  pose proof (gE_nonneg x Hx) as He0.
  pose proof (gE_sq_upper x) as Hup.
  pose proof (gE_sq_lower x) as Hlo.
  pose proof sqrt_PI_pos as Hs. pose proof sqrt_PI_sq as Hss. pose proof PI_RGT_0 as Hpi.
  set (e := gE x) in *. set (s := sqrt PI) in *.
  assert (Hxx : x * x = z * z / 2).
  { unfold x. replace (- z * ir2 * (- z * ir2)) with (z * z * (ir2 * ir2)) by ring.
    rewrite ir2_sq. field. }
  rewrite Hxx in Hlo.
  replace (- (z * z / 2)) with (- (z * z) / 2) in Hlo by field.
  set (g := exp (- (z * z) / 2)) in *.
  assert (Hg : 0 < g) by apply exp_pos.
  assert (Hes : e <= s / 2) by nra.
  rewrite HP. split.
  - assert (Hq : e / s <= 1 / 2).
    { apply (Rmult_le_reg_r s); [exact Hs | ]. replace (e / s * s) with e by (field; lra). lra. }
    lra.
  - (* (s/2 - e)(s/2 + e) <= g  and  s/2 + e >= s/2 *)
    assert (H1 : (s / 2 - e) * (s / 2) <= g) by nra.
    apply (Rmult_le_reg_r (s * PI)); [nra | ].
    replace ((1 / 2 - e / s) * (s * PI)) with ((s / 2 - e) * PI) by (field; lra).
    replace (2 / PI * g * (s * PI)) with (2 * g * s) by (field; lra).
    (* (s/2 - e) * s * s <= 2 g s *)
    rewrite <- Hss. nra.
Qed.

Lemma Phi_nonneg z : 0 <= Phi z.
Proof.
  destruct (Rle_lt_dec z 0) as [Hz | Hz].
  - apply (Phi_tail_bounds z Hz).
  - pose proof (Phi_increasing 0 z Hz). rewrite Phi_0 in H. lra.
Qed.

Lemma Phi_pos z : 0 < Phi z.
Proof.
  apply Rle_lt_trans with (Phi (z - 1)); [apply Phi_nonneg | apply Phi_increasing; lra].
Qed.

Lemma ei_kernel_increasing a b : a < b -> ei_kernel a < ei_kernel b.
Proof.
  intros Hab. apply (incr_of_derive_pos ei_kernel Phi); auto.
  - intros x _. apply ei_kernel_derive.
  - intros x _. apply Phi_pos.
Qed.

(* lower bound of the kernel far out: K a > 4 / (PI a) for a < 0 *)
Lemma ei_kernel_lower a : a < 0 -> 4 / (PI * a) < ei_kernel a.
Proof.
  intros Ha. unfold ei_kernel.
  destruct (Phi_tail_bounds a (Rlt_le _ _ Ha)) as [_ Hup].
  pose proof (phi_pos a) as Hphi. pose proof PI_RGT_0 as Hpi.
  set (g := exp (- (a * a) / 2)) in *.
  assert (Hg : 0 < g) by apply exp_pos.
  (* exp(-y) <= 1/(1+y) < 1/y *)
  assert (Hgy : g * (a * a / 2) < 1).
  { assert (Hy : 0 < a * a / 2) by nra.
    pose proof (exp_ineq1 (a * a / 2) (Rgt_not_eq _ _ Hy)) as H1.
    assert (Hinv : g * exp (a * a / 2) = 1).
    { unfold g. rewrite <- exp_plus. replace (- (a * a) / 2 + a * a / 2) with 0 by field. apply exp_0. }
    nra. }
  (* a Phi a >= a * (2/PI) g  (a < 0) *)
  assert (H2 : a * (2 / PI * g) <= a * Phi a) by nra.
  assert (H3 : 4 / (PI * a) < a * (2 / PI * g)).
  { apply (Rmult_lt_reg_r (PI * - a)); [nra | ].
    replace (4 / (PI * a) * (PI * - a)) with (-4) by (field; lra).
    replace (a * (2 / PI * g) * (PI * - a)) with (- (4 * (g * (a * a / 2)))) by (field; lra).
    lra. }
  lra.
Qed.

Theorem ei_kernel_pos z : 0 < ei_kernel z.
Proof.
  assert (Hnn : forall y, 0 <= ei_kernel y).
  { intros y. destruct (Rle_lt_dec 0 (ei_kernel y)) as [H | H]; [exact H | exfalso].
    pose proof PI_RGT_0 as Hpi.
    set (k := ei_kernel y) in *.
    pose (a := Rmin (y - 1) (4 / (PI * k))).
    assert (Hq : 4 / (PI * k) < 0).
    { apply Ropp_lt_cancel. rewrite Ropp_0.
      replace (- (4 / (PI * k))) with (4 / (PI * - k)) by (field; lra).
      apply Rdiv_lt_0_compat; nra. }
    assert (Ha1 : a <= y - 1) by apply Rmin_l.
    assert (Ha2 : a <= 4 / (PI * k)) by apply Rmin_r.
    assert (Ha : a < 0) by lra.
    pose proof (ei_kernel_lower a Ha) as Hl.
    assert (Hinc : ei_kernel a < k) by (apply ei_kernel_increasing; lra).
    (* 4/(PI a) >= k  because  a k >= 4/PI *)
    assert (Hak : 4 / PI <= a * k).
    { replace (4 / PI) with (4 / (PI * k) * k) by (field; lra). nra. }
    assert (k <= 4 / (PI * a)); [ | lra].
    apply (Rmult_le_reg_r (- a)); [lra | ].
    replace (4 / (PI * a) * - a) with (- (4 / PI)) by (field; lra). nra. }
  apply Rle_lt_trans with (ei_kernel (z - 1)); [apply Hnn | apply ei_kernel_increasing; lra].
Qed.

(* ------------------------------------------------------------------ *)
(* the statements C18.v exports                                         *)
Theorem helpers_spec z :
  normal_pdf z = phi z /\ normal_cdf z = Phi z /\
  cdf_pdf_ratio z * phi z = Phi z /\ exp (ln_pdf z) = phi z.
Proof.
  repeat split; [apply normal_pdf_phi | apply normal_cdf_Phi | apply cdf_pdf_ratio_phi | apply exp_ln_pdf].
Qed.

Theorem ei_branches_agree mu sig ymax : 0 < sig ->
  ei_tail mu sig ymax = ei_ordinary mu sig ymax /\
  ei_call mu sig ymax = ei_spec mu sig ymax /\
  ei_opt_func mu sig ymax = - ln (ei_spec mu sig ymax).
Proof.
  intros Hs. pose proof (ei_kernel_pos (zscore mu sig ymax)) as Hk. repeat split.
  - rewrite ei_ordinary_spec. now apply ei_tail_spec.
  - now apply ei_call_spec.
  - now apply ei_opt_func_spec.
Qed.

Theorem ei_antiderivative z :
  is_derive ei_kernel z (Phi z) /\ is_derive Phi z (phi z) /\
  0 < phi z /\ 0 < Phi z /\ 0 < ei_kernel z.
Proof.
  split; [apply ei_kernel_derive | ]. split; [apply Phi_derive | ].
  split; [apply phi_pos | ]. split; [apply Phi_pos | apply ei_kernel_pos].
Qed.

Theorem ei_call_pos mu sig ymax : 0 < sig -> 0 < ei_call mu sig ymax.
Proof.
  intros Hs. rewrite ei_call_spec; [ | exact Hs | apply ei_kernel_pos].
  apply ei_spec_pos; [exact Hs | apply ei_kernel_pos].
Qed.

Theorem ln_ei_gradient (mu s2 : R -> R) (x dmu ds2 ymax : R) :
  is_derive mu x dmu -> is_derive s2 x ds2 -> 0 < s2 x ->
  is_derive (fun t => ei_opt_func (mu t) (sqrt (s2 t)) ymax) x
            (ei_opt_grad (mu x) (sqrt (s2 x)) ymax dmu ds2).
Proof.
  intros Hmu Hs2 Hpos.
  assert (Hsig : 0 < sqrt (s2 x)) by (apply sqrt_lt_R0, Hpos).
  rewrite ei_opt_grad_spec; [ | exact Hsig | apply ei_kernel_pos].
  apply (is_derive_ext_loc (fun t => - ln (ei_spec (mu t) (sqrt (s2 t)) ymax))).
  - generalize (s2_locally_pos s2 x ds2 Hs2 Hpos). apply filter_imp. intros t Ht.
    symmetry. apply ei_opt_func_spec; [apply sqrt_lt_R0, Ht | apply ei_kernel_pos].
  - apply (is_derive_opp (fun t => ln (ei_spec (mu t) (sqrt (s2 t)) ymax))).
    apply ln_ei_spec_gradient; auto. apply ei_kernel_pos.
Qed.

Theorem ucb_gradient (mu s2 : R -> R) (x dmu ds2 kappa : R) :
  is_derive mu x dmu -> is_derive s2 x ds2 -> 0 < s2 x ->
  is_derive (fun t => ucb_opt_func kappa (mu t) (sqrt (s2 t))) x
            (ucb_opt_grad kappa (sqrt (s2 x)) dmu ds2) /\
  (forall m s, ucb_opt_func kappa m s = - ucb_call kappa m s).
Proof.
  intros Hmu Hs2 Hpos. split.
  - now apply ucb_gradient_lemma.
  - intros m s. unfold ucb_opt_func, ucb_call. ring.
Qed.

Theorem maxvar_gradient (s2 : R -> R) (x ds2 : R) :
  is_derive s2 x ds2 -> 0 < s2 x ->
  is_derive (fun t => mv_opt_func (sqrt (s2 t))) x (mv_opt_grad ds2) /\
  mv_call (sqrt (s2 x)) = s2 x /\ mv_opt_func (sqrt (s2 x)) = - s2 x.
Proof.
  intros Hs2 Hpos. split; [now apply maxvar_gradient_lemma | ].
  assert (H : mv_call (sqrt (s2 x)) = s2 x) by now apply mv_call_is_variance.
  split; [exact H | ]. unfold mv_opt_func. unfold mv_call in H. now rewrite H.
Qed.
