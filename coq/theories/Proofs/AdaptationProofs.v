(* Properties of the tuning model: the clamp keeps every width positive and within
   [lo, hi] times the previous one; the adjustment moves the width in the direction that
   brings the acceptance rate towards the target; the check interval never shrinks; the
   rational band test is the real 2-sigma test of the code. *)
From Coq Require Import Reals QArith Qreals Qround ZArith Lia Lra Psatz.
From IT Require Import Model.Adaptation RealModel.AdaptFormula.

Local Open Scope R_scope.

Lemma adj_range target mu rate lo hi : lo <= hi -> lo <= adj target mu rate lo hi <= hi.
Proof.
  intros H. unfold adj. split; [apply Rmax_r|].
  apply Rmax_lub; [apply Rmin_r|exact H].
Qed.

Lemma width_stays_positive target mu rate lo hi w :
  0 < lo -> lo <= hi -> 0 < w -> 0 < w * adj target mu rate lo hi.
Proof.
  intros Hlo Hle Hw. destruct (adj_range target mu rate lo hi Hle) as [H1 _].
  apply Rmult_lt_0_compat; lra.
Qed.

Lemma ratio_pos target mu : 0 < target < 1 -> 0 < mu < 1 -> 0 < ln target / ln mu.
Proof.
  intros [Ht0 Ht1] [Hm0 Hm1].
  assert (ln target < 0) by (rewrite <- ln_1; apply ln_increasing; lra).
  assert (ln mu < 0) by (rewrite <- ln_1; apply ln_increasing; lra).
  replace (ln target / ln mu) with ((- ln target) / (- ln mu)) by (field; lra).
  apply Rdiv_lt_0_compat; lra.
Qed.

(* acceptance rate below the target -> factor < 1 (narrower proposals / smaller steps);
   above the target -> factor > 1 *)
Lemma adj_raw_direction target mu rate :
  0 < target < 1 -> 0 < mu < 1 -> 0 < rate ->
  (mu < target -> adj_raw target mu rate < 1) /\
  (target < mu -> 1 < adj_raw target mu rate) /\
  (mu = target -> adj_raw target mu rate = 1).
Proof.
  intros Ht Hm Hr. pose proof (ratio_pos target mu Ht Hm) as Hpos.
  destruct Ht as [Ht0 Ht1]. destruct Hm as [Hm0 Hm1].
  assert (Hlt : ln target < 0) by (rewrite <- ln_1; apply ln_increasing; lra).
  assert (Hlm : ln mu < 0) by (rewrite <- ln_1; apply ln_increasing; lra).
  unfold adj_raw, Rpower. repeat split.
  - intros Hlt'. assert (ln mu < ln target) by (apply ln_increasing; lra).
    assert (Hq : ln target / ln mu < 1).
    { apply (Rmult_lt_reg_r (- ln mu)); [lra|]. replace (ln target / ln mu * - ln mu) with (- ln target) by (field; lra). lra. }
    assert (ln (ln target / ln mu) < 0) by (rewrite <- ln_1; apply ln_increasing; lra).
    rewrite <- exp_0. apply exp_increasing. nra.
  - intros Hgt. assert (ln target < ln mu) by (apply ln_increasing; lra).
    assert (Hq : 1 < ln target / ln mu).
    { apply (Rmult_lt_reg_r (- ln mu)); [lra|]. replace (ln target / ln mu * - ln mu) with (- ln target) by (field; lra). lra. }
    assert (0 < ln (ln target / ln mu)) by (rewrite <- ln_1; apply ln_increasing; lra).
    rewrite <- exp_0. apply exp_increasing. nra.
  - intros ->. replace (ln target / ln target) with 1 by (field; lra).
    rewrite ln_1, Rmult_0_r. apply exp_0.
Qed.

(* the check interval: multiples of ten never shrink and stay multiples of ten *)
Lemma grow_chk_spec (g : Q) (c : Z) : (1 <= g)%Q -> (0 <= c)%Z -> (10 | c)%Z ->
  (c <= grow_chk g c)%Z /\ (10 | grow_chk g c)%Z.
Proof.
  intros Hg Hc [k ->]. unfold grow_chk. split; [|exists (Qfloor (g * inject_Z (k * 10) / 10)); reflexivity].
  assert (Hk : (0 <= k)%Z) by lia.
  assert (H : (k <= Qfloor (g * inject_Z (k * 10) / 10))%Z).
  {     replace k with (Qfloor (inject_Z k)) at 1 by apply Qfloor_Z.
    apply Qfloor_resp_le.
    rewrite inject_Z_mult. unfold Qdiv.
    setoid_replace (g * (inject_Z k * inject_Z 10) * / 10)%Q with (g * inject_Z k)%Q by (simpl; field).
    assert (0 <= inject_Z k)%Q by (change 0%Q with (inject_Z 0); rewrite <- Zle_Qle; exact Hk).
    setoid_replace (inject_Z k) with (1 * inject_Z k)%Q at 1 by ring.
    apply Qmult_le_compat_r; assumption. }
  lia.
Qed.

(* the rational band test is the code's test  mu - 2 std < target < mu + 2 std *)
Lemma band_real (avg var target n : R) : 0 < n -> 0 <= var ->
  let mu := avg / n in let std := sqrt var / n in
  (mu - 2 * std < target < mu + 2 * std) <-> ((target * n - avg) * (target * n - avg) < 4 * var).
Proof.
  intros Hn Hv mu std. unfold mu, std.
  assert (Hs : 0 <= sqrt var) by apply sqrt_pos.
  assert (Hss : sqrt var * sqrt var = var) by (apply sqrt_sqrt; exact Hv).
  set (d := target * n - avg).
  assert (E1 : avg / n - 2 * (sqrt var / n) < target <-> - d < 2 * sqrt var).
  { unfold d. split; intros H.
    - apply (Rmult_lt_compat_r n) in H; [|exact Hn]. field_simplify in H; lra.
    - apply (Rmult_lt_reg_r n); [exact Hn|]. field_simplify; lra. }
  assert (E2 : target < avg / n + 2 * (sqrt var / n) <-> d < 2 * sqrt var).
  { unfold d. split; intros H.
    - apply (Rmult_lt_compat_r n) in H; [|exact Hn]. field_simplify in H; lra.
    - apply (Rmult_lt_reg_r n); [exact Hn|]. field_simplify; lra. }
  split.
  - intros [H1 H2]. apply E1 in H1. apply E2 in H2. nra.
  - intros H. split; [apply E1|apply E2]; nra.
Qed.

(* the executable test of the model, read over the reals *)
Lemma in_band_real (t : tuner) : (0 < t_num t)%nat -> (0 <= t_var t)%Q ->
  let n := INR (t_num t) in
  let mu := Q2R (t_avg t) / n in let std := sqrt (Q2R (t_var t)) / n in
  in_band t = true <-> (mu - 2 * std < Q2R (t_target t) < mu + 2 * std).
Proof.
  intros Hn Hv n mu std. unfold mu, std.
  assert (Hn' : 0 < n) by (unfold n; apply lt_0_INR; exact Hn).
  assert (Hv' : 0 <= Q2R (t_var t)) by (replace 0 with (Q2R 0) by (unfold Q2R; simpl; lra); apply Qle_Rle; exact Hv).
  rewrite (band_real (Q2R (t_avg t)) (Q2R (t_var t)) (Q2R (t_target t)) n Hn' Hv').
  unfold in_band. rewrite Bool.negb_true_iff.
  set (d := (t_target t * inject_Z (Z.of_nat (t_num t)) - t_avg t)%Q).
  assert (Hd : Q2R d = Q2R (t_target t) * n - Q2R (t_avg t)).
  { unfold d, Qminus. rewrite Q2R_plus, Q2R_opp, Q2R_mult. unfold n.
    rewrite INR_IZR_INZ. unfold Q2R at 2. simpl. lra. }
  split.
  - intros H. rewrite <- Hd, <- Q2R_mult.
    replace 4 with (Q2R 4) by (unfold Q2R; simpl; lra). rewrite <- Q2R_mult.
    apply Qlt_Rlt. apply Qnot_le_lt. intros Hc. apply Qle_bool_iff in Hc. congruence.
  - intros H. rewrite <- Hd, <- Q2R_mult in H.
    replace 4 with (Q2R 4) in H by (unfold Q2R; simpl; lra). rewrite <- Q2R_mult in H.
    apply Rlt_Qlt in H. destruct (Qle_bool (4 * t_var t) (d * d)) eqn:E; [|reflexivity].
    apply Qle_bool_iff in E. exfalso. apply (Qlt_not_le _ _ H). exact E.
Qed.

(* counters: an adjustment resets them, an accumulation or a growth adds one *)
Lemma submit_counts (t : tuner) (p factor : Q) :
  match outcome_of t p with
  | Adjust => t_num (submit t p factor) = 0%nat /\ (t_avg (submit t p factor) == 0)%Q /\
              (t_width (submit t p factor) == t_width t * factor)%Q /\ t_chk (submit t p factor) = t_chk t
  | Grow => t_num (submit t p factor) = S (t_num t) /\ (t_width (submit t p factor) == t_width t)%Q /\
            t_chk (submit t p factor) = grow_chk (t_growth t) (t_chk t)
  | Accumulate => t_num (submit t p factor) = S (t_num t) /\ (t_width (submit t p factor) == t_width t)%Q /\
                  t_chk (submit t p factor) = t_chk t
  end.
Proof.
  unfold submit. destruct (outcome_of t p); simpl; repeat split; reflexivity.
Qed.
