(* The change-point gradient of the pinned tree (covariance.py:587-592, model
   cp_wgrad_pinned) is the derivative for two kernels but NOT for three:
   defect D13.  The numeric inequality of the witness is closed by coq-interval. *)
From Coq Require Import Reals List Arith Lia Lra.
From Coquelicot Require Import Coquelicot.
From Interval Require Import Tactic.
From IT Require Import Model.Slices RealModel.Kernels Proofs.SlicesProofs Proofs.KernelsProofs.
Import ListNotations.
Open Scope R_scope.

(* kernel index / gradient entry as a component of the sum: "in component order" *)
Lemma sum_grad_nth : forall ks dk off xs th m p i j, (m < length ks)%nat -> (p < np (nth m ks dk))%nat ->
  sum_grad ks (slices_from off (map np ks)) xs th (total (firstn m (map np ks)) + p) i j
  = kgrad (nth m ks dk) xs (apply_slice (nth m (slices_from off (map np ks)) (0, 0)%nat) th) p i j.
Proof.
  induction ks as [|k kr IH]; intros dk off xs th m p i j Hm Hp; simpl in Hm; [lia|].
  destruct m as [|m]; cbn [map slices_from sum_grad nth firstn].
  - cbn [total fold_right Nat.add]. simpl in Hp.
    destruct (Nat.ltb_spec p (np k)); [reflexivity|lia].
  - rewrite total_cons.
    destruct (Nat.ltb_spec (np k + total (firstn m (map np kr)) + p) (np k)); [lia|].
    replace (np k + total (firstn m (map np kr)) + p - np k)%nat
      with (total (firstn m (map np kr)) + p)%nat by lia.
    apply IH; [lia|exact Hp].
Qed.

(* with two kernels the pinned formula coincides with the repaired one *)
Lemma cp_grad_pinned_two : forall ax k1 k2 xs th p i j,
  cp_grad_pinned ax [k1; k2] xs th p i j = cp_grad ax [k1; k2] xs th p i j.
Proof.
  intros. unfold cp_grad_pinned, cp_grad, cp_grad_with. cbv zeta.
  destruct (Nat.ltb p (nps [k1; k2])); [reflexivity|].
  generalize (Nat.div (p - nps [k1; k2]) 2) (Nat.modulo (p - nps [k1; k2]) 2). intros m q.
  unfold cov_slc, cp_params, cp_slc, cp_all_slices, cp_counts. simpl.
  destruct m; simpl; [ring|reflexivity].
Qed.

Lemma changepoint_grad_pinned_two_kernels : forall ax k1 k2,
  grad_ok k1 -> grad_ok k2 -> grad_ok (kcp_pinned ax [k1; k2]).
Proof.
  intros ax k1 k2 H1 H2 xs th p i j Hlen Hp Hok.
  cbn [kgrad kbuild kcp_pinned]. rewrite cp_grad_pinned_two.
  apply (cp_grad_ok ax [k1; k2] (Forall_cons _ H1 (Forall_cons _ H2 (Forall_nil _))) xs th p i j Hlen Hp Hok).
Qed.

(* witness: three squared-exponential kernels in one dimension, two data points 0 and 1,
   all log-amplitudes / log-scales 0, change-points (location, width) = (0, 1) and (1, 1);
   gradient w.r.t. the location of change-point 0, entry (0, 0) *)
Definition w_xs : list pt := [[0]; [1]].
Definition w_th : list R := [0; 0; 0; 0; 0; 0; 0; 1; 1; 1].

Lemma witness_values_differ :
  kgrad (kcp_pinned 0 [se 1; se 1; se 1]) w_xs w_th 6 0 0
  - kgrad (kcp 0 [se 1; se 1; se 1]) w_xs w_th 6 0 0 < - (1 / 10).
Proof.
  cbv -[Rplus Rminus Rmult Ropp Rdiv Rinv exp ln pow IZR Rabs Rle Rlt].
  interval with (i_prec 60).
Qed.

Theorem changepoint3_grad_refuted :
  exists xs th p i j, let K := kcp_pinned 0 [se 1; se 1; se 1] in
    length th = np K /\ (p < np K)%nat /\ kok K th /\
    ~ is_derive (fun t => kbuild K xs (upd th p t) i j) (par th p) (kgrad K xs th p i j).
Proof.
  exists w_xs, w_th, 6%nat, 0%nat, 0%nat. cbv zeta.
  assert (Hok : kok (kcp 0 [se 1; se 1; se 1]) w_th).
  { cbn [kok kcp]. unfold cp_ok. split.
    - cbv [all_ok cov_slc cp_all_slices cp_counts slice_builder slices_from map app repeat length
             Nat.sub firstn np se se_np Nat.add kok apply_slice fst snd]. tauto.
    - cbv -[Rplus Rminus Rmult Ropp Rdiv Rinv exp ln pow IZR Rabs Rle Rlt not].
      repeat constructor; cbn [snd]; lra. }
  split; [reflexivity|]. split; [cbv; lia|]. split; [exact Hok|].
  intros Hp.
  assert (Hg : List.Forall grad_ok [se 1; se 1; se 1]) by (repeat (apply Forall_cons; [apply se_grad_ok|]); apply Forall_nil).
  pose proof (cp_grad_ok 0 [se 1; se 1; se 1] Hg w_xs w_th 6%nat 0%nat 0%nat eq_refl ltac:(cbv; lia) Hok) as Hr.
  cbn [kbuild kcp kcp_pinned] in Hp, Hr.
  pose proof (is_derive_unique _ _ _ Hp) as E1.
  pose proof (is_derive_unique _ _ _ Hr) as E2.
  pose proof witness_values_differ as Hd.
  rewrite <- E1, <- E2 in Hd. lra.
Qed.
