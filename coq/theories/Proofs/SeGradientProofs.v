(* Proofs/SeGradientProofs.v -- the derivative terms of RealModel/SeGradient.v ARE
   derivatives (Coquelicot is_derive), for every dimension d, every number of
   training points and every query point (property C16). *)
From Coq Require Import Reals List Arith Lia Lra.
From Coquelicot Require Import Coquelicot.
From IT Require Import Model.Slices RealModel.Kernels RealModel.Means RealModel.SeGradient.
From IT Require Import Proofs.SlicesProofs Proofs.KernelsProofs.
Import ListNotations.
Open Scope R_scope.

(* ---- points: coordinates of an updated point -------------------------------- *)
Lemma coord_upd_same : forall (q : pt) i t, (i < length q)%nat -> coord (upd q i t) i = t.
Proof. exact par_upd_same. Qed.
Lemma coord_upd_other : forall (q : pt) i k t, i <> k -> coord (upd q i t) k = coord q k.
Proof. exact par_upd_other. Qed.
Lemma upd_coord_self : forall (q : pt) i, upd q i (coord q i) = q.
Proof. exact upd_self. Qed.

(* ---- finite sums ---------------------------------------------------------------- *)
Lemma Rsum_scal : forall l c f, Rsum l (fun k => c * f k) = c * Rsum l f.
Proof. induction l as [|a l IH]; intros; simpl; [ring|]. rewrite IH. ring. Qed.

Lemma Rsum_plus : forall l f g, Rsum l (fun k => f k + g k) = Rsum l f + Rsum l g.
Proof. induction l as [|a l IH]; intros; simpl; [ring|]. rewrite IH. ring. Qed.

Lemma Rsum_swap : forall l1 l2 (f : nat -> nat -> R),
  Rsum l1 (fun a => Rsum l2 (fun b => f a b)) = Rsum l2 (fun b => Rsum l1 (fun a => f a b)).
Proof.
  induction l1 as [|x l1 IH]; intros l2 f; simpl.
  - symmetry. apply Rsum_zero. reflexivity.
  - rewrite IH. symmetry. apply Rsum_plus.
Qed.

(* ---- the squared-exponential kernel as a function of one coordinate of u ---------- *)
Lemma se_expo_derive_u : forall d th (u v : pt) i, (i < d)%nat -> (i < length u)%nat ->
  is_derive (fun t => se_expo d th (upd u i t) v) (coord u i)
            (- ((coord u i - coord v i) / (exp (par th (S i))) ^ 2)).
Proof.
  intros d th u v i Hd Hu. unfold se_expo.
  eapply is_derive_eq.
  - apply (is_derive_Rsum (seq 0 d)
             (fun k t => se_dist (upd u i t) v k / (exp (par th (S k))) ^ 2)
             (fun k => if Nat.eqb k i
                       then - ((coord u i - coord v i) / (exp (par th (S i))) ^ 2) else 0)).
    intros k _. destruct (Nat.eqb_spec k i) as [->|Hne].
    + apply (is_derive_ext (fun t => - (1 / 2) * (t - coord v i) ^ 2 / (exp (par th (S i))) ^ 2)).
      { intros t. unfold se_dist. now rewrite coord_upd_same. }
      pose proof (exp_pos (par th (S i))) as Hex.
      auto_derive; [exact I|]. field. lra.
    + apply (is_derive_ext (fun t => se_dist u v k / (exp (par th (S k))) ^ 2)).
      { intros t. unfold se_dist. rewrite coord_upd_other by congruence. reflexivity. }
      apply is_derive_constR.
  - rewrite (Rsum_single _ _ i).
    + now rewrite Nat.eqb_refl.
    + apply seq_NoDup.
    + apply in_seq. lia.
    + intros k _ Hne. destruct (Nat.eqb_spec k i); [contradiction|reflexivity].
Qed.

(* d k(u, v) / d u_i = - (u_i - v_i) / l_i^2 * k(u, v) *)
Lemma se_val_derive_u : forall d th (u v : pt) i, (i < d)%nat -> (i < length u)%nat ->
  is_derive (fun t => se_val d th (upd u i t) v) (coord u i) (se_d1 d th u v i).
Proof.
  intros d th u v i Hd Hu.
  pose proof (se_expo_derive_u d th u v i Hd Hu) as HE.
  set (E := fun t => se_expo d th (upd u i t) v) in *.
  set (x := coord u i) in *.
  unfold se_val.
  eapply is_derive_eq.
  - apply is_derive_mul_const_l.
    apply (is_derive_comp exp E x _ _ (is_derive_exp (E x)) HE).
  - assert (HEx : E x = se_expo d th u v).
    { unfold E, x. now rewrite upd_coord_self. }
    rewrite HEx. unfold se_d1, se_val, scal; simpl; unfold mult; simpl. unfold x, Rdiv. ring.
Qed.

Lemma se_val_sym : forall d th u v, se_val d th u v = se_val d th v u.
Proof. intros. unfold se_val. now rewrite se_expo_sym. Qed.

(* d k(u, v) / d v_j = + (u_j - v_j) / l_j^2 * k(u, v) *)
Lemma se_val_derive_v : forall d th (u v : pt) j, (j < d)%nat -> (j < length v)%nat ->
  is_derive (fun t => se_val d th u (upd v j t)) (coord v j)
            ((coord u j - coord v j) / (exp (par th (S j))) ^ 2 * se_val d th u v).
Proof.
  intros d th u v j Hd Hv.
  apply (is_derive_ext (fun t => se_val d th (upd v j t) u)).
  { intros t. apply se_val_sym. }
  eapply is_derive_eq; [apply (se_val_derive_u d th v u j Hd Hv)|].
  unfold se_d1. rewrite (se_val_sym d th v u). unfold Rdiv. ring.
Qed.

(* the code's A_i:  d k(q, x) / d q_i = A_i * k(q, x)  with A_i = (x_i - q_i) / l_i^2 *)
Lemma se_cross_derivative : forall d th (q x : pt) i, (i < d)%nat -> (i < length q)%nat ->
  is_derive (fun t => se_val d th (upd q i t) x) (coord q i) (se_A th x q i * se_val d th q x).
Proof.
  intros d th q x i Hd Hq.
  eapply is_derive_eq; [apply (se_val_derive_u d th q x i Hd Hq)|].
  unfold se_d1, se_A, Rdiv. ring.
Qed.

(* second cross derivative:  d/dv_j [ d k(u,v)/du_i ] *)
Lemma se_second_cross_derivative : forall d th (u v : pt) i j,
  (i < d)%nat -> (j < d)%nat -> (j < length v)%nat ->
  is_derive (fun t => se_d1 d th u (upd v j t) i) (coord v j) (se_d2 d th u v i j).
Proof.
  intros d th u v i j Hi Hj Hv.
  pose proof (se_val_derive_v d th u v j Hj Hv) as HK.
  set (l2 := (exp (par th (S i))) ^ 2).
  assert (Hl2 : l2 <> 0).
  { unfold l2. pose proof (exp_pos (par th (S i))). apply Rgt_not_eq. nra. }
  unfold se_d1. fold l2.
  (* the factor - (u_i - v'_i) / l_i^2 as a function of v_j *)
  assert (HF : is_derive (fun t => - ((coord u i - coord (upd v j t) i) / l2)) (coord v j)
                         (delta i j / l2)).
  { unfold delta. destruct (Nat.eqb_spec i j) as [->|Hne].
    - apply (is_derive_ext (fun t => - ((coord u j - t) / l2))).
      { intros t. now rewrite coord_upd_same. }
      auto_derive; [exact I|]. field. exact Hl2.
    - apply (is_derive_ext (fun t => - ((coord u i - coord v i) / l2))).
      { intros t. rewrite coord_upd_other by congruence. reflexivity. }
      eapply is_derive_eq; [apply is_derive_constR|]. unfold Rdiv. ring. }
  eapply is_derive_eq.
  - apply (is_derive_mult _ _ (coord v j) _ _ HF HK). intros; apply Rmult_comm.
  - rewrite upd_coord_self. unfold se_d2, plus, mult, l2, Rdiv; simpl. ring.
Qed.

Lemma se_expo_diag : forall d th u, se_expo d th u u = 0.
Proof.
  intros. unfold se_expo. apply Rsum_zero. intros k _. rewrite se_dist_diag. unfold Rdiv. ring.
Qed.

Lemma se_val_diag : forall d th u, se_val d th u u = (exp (par th 0)) ^ 2.
Proof. intros. unfold se_val. rewrite se_expo_diag, exp_0. ring. Qed.

(* prior covariance of the gradient at a point: d^2 k / du_i dv_j at v = u is
   delta_ij a^2 / l_i^2  -- the code's R on the diagonal, zero off it *)
Lemma se_prior_gradient_cov : forall d th (u : pt) i j,
  se_d2 d th u u i j = delta i j * se_R th i.
Proof.
  intros. unfold se_d2, se_R. rewrite se_val_diag.
  pose proof (exp_pos (par th (S i))) as Hi.
  pose proof (exp_pos (par th (S j))) as Hj.
  field. split; lra.
Qed.

(* ---- spatial gradients of the mean functions --------------------------------------- *)
Lemma dmean_const_derive : forall xs th (q : pt) i,
  is_derive (fun t => const_call xs th (upd q i t)) (coord q i) (dmean_const_R i).
Proof. intros. unfold const_call, dmean_const_R. apply is_derive_constR. Qed.

(* sum_k (q_k - c_k) w_k  as a function of q_i *)
Lemma lin_form_derive : forall d (c w : nat -> R) (q : pt) i, (i < d)%nat -> (i < length q)%nat ->
  is_derive (fun t => Rsum (seq 0 d) (fun k => (coord (upd q i t) k - c k) * w k)) (coord q i) (w i).
Proof.
  intros d c w q i Hd Hq.
  eapply is_derive_eq.
  - apply (is_derive_Rsum (seq 0 d) (fun k t => (coord (upd q i t) k - c k) * w k)
             (fun k => if Nat.eqb k i then w i else 0)).
    intros k _. destruct (Nat.eqb_spec k i) as [->|Hne].
    + apply (is_derive_ext (fun t => (t - c i) * w i)).
      { intros t. now rewrite coord_upd_same. }
      auto_derive; [exact I|]. ring.
    + apply (is_derive_ext (fun t => (coord q k - c k) * w k)).
      { intros t. rewrite coord_upd_other by congruence. reflexivity. }
      apply is_derive_constR.
  - rewrite (Rsum_single _ _ i).
    + now rewrite Nat.eqb_refl.
    + apply seq_NoDup.
    + apply in_seq. lia.
    + intros k _ Hne. destruct (Nat.eqb_spec k i); [contradiction|reflexivity].
Qed.

Lemma sq_form_derive : forall d (c w : nat -> R) (q : pt) i, (i < d)%nat -> (i < length q)%nat ->
  is_derive (fun t => Rsum (seq 0 d) (fun k => (coord (upd q i t) k - c k) ^ 2 * w k)) (coord q i)
            (2 * (coord q i - c i) * w i).
Proof.
  intros d c w q i Hd Hq.
  eapply is_derive_eq.
  - apply (is_derive_Rsum (seq 0 d) (fun k t => (coord (upd q i t) k - c k) ^ 2 * w k)
             (fun k => if Nat.eqb k i then 2 * (coord q i - c i) * w i else 0)).
    intros k _. destruct (Nat.eqb_spec k i) as [->|Hne].
    + apply (is_derive_ext (fun t => (t - c i) ^ 2 * w i)).
      { intros t. now rewrite coord_upd_same. }
      auto_derive; [exact I|]. ring.
    + apply (is_derive_ext (fun t => (coord q k - c k) ^ 2 * w k)).
      { intros t. rewrite coord_upd_other by congruence. reflexivity. }
      apply is_derive_constR.
  - rewrite (Rsum_single _ _ i).
    + now rewrite Nat.eqb_refl.
    + apply seq_NoDup.
    + apply in_seq. lia.
    + intros k _ Hne. destruct (Nat.eqb_spec k i); [contradiction|reflexivity].
Qed.

Lemma dmean_lin_derive : forall d xs th (q : pt) i, (i < d)%nat -> (i < length q)%nat ->
  is_derive (fun t => lin_call d xs th (upd q i t)) (coord q i) (dmean_lin_R th i).
Proof.
  intros d xs th q i Hd Hq. unfold lin_call, dmean_lin_R.
  eapply is_derive_eq.
  - apply is_derive_add_const_l.
    apply (lin_form_derive d (col_mean xs) (fun k => par th (S k)) q i Hd Hq).
  - ring.
Qed.

Lemma dmean_quad_derive : forall d xs th (q : pt) i, (i < d)%nat -> (i < length q)%nat ->
  is_derive (fun t => quad_call d xs th (upd q i t)) (coord q i) (dmean_quad_R d xs th q i).
Proof.
  intros d xs th q i Hd Hq. unfold quad_call, dmean_quad_R.
  apply is_derive_addR.
  - apply is_derive_add_const_l.
    apply (lin_form_derive d (col_mean xs) (fun k => par (apply_slice (quad_lin_slc d) th) k) q i Hd Hq).
  - apply (sq_form_derive d (col_mean xs) (fun k => par (apply_slice (quad_quad_slc d) th) k) q i Hd Hq).
Qed.

(* ---- predictive mean: generic kernel and mean function ------------------------------- *)
Lemma pmean_derive : forall (k : pt -> pt -> R) (m : pt -> R) xs alpha (q : pt) i (dk : nat -> R) dm,
  (forall j, (j < length xs)%nat ->
     is_derive (fun t => k (upd q i t) (point xs j)) (coord q i) (dk j)) ->
  is_derive (fun t => m (upd q i t)) (coord q i) dm ->
  is_derive (fun t => pmean k m xs alpha (upd q i t)) (coord q i)
            (Rsum (seq 0 (length xs)) (fun j => dk j * alpha j) + dm).
Proof.
  intros k m xs alpha q i dk dm Hk Hm. unfold pmean.
  apply is_derive_addR; [|exact Hm].
  apply (is_derive_Rsum (seq 0 (length xs)) (fun j t => k (upd q i t) (point xs j) * alpha j)
           (fun j => dk j * alpha j)).
  intros j Hj. apply in_seq in Hj. apply is_derive_mul_const_r. apply Hk. lia.
Qed.

(* ---- predictive variance: generic kernel, W symmetric --------------------------------- *)
Lemma pvar_derive : forall (k : pt -> pt -> R) xs (W : nat -> nat -> R) (q : pt) i (dk : nat -> R) dkqq,
  (forall j l, W j l = W l j) ->
  (forall j, (j < length xs)%nat ->
     is_derive (fun t => k (upd q i t) (point xs j)) (coord q i) (dk j)) ->
  is_derive (fun t => k (upd q i t) (upd q i t)) (coord q i) dkqq ->
  is_derive (fun t => pvar k xs W (upd q i t)) (coord q i)
            (dkqq - 2 * Rsum (seq 0 (length xs)) (fun j =>
                          dk j * Rsum (seq 0 (length xs)) (fun l => W j l * k q (point xs l)))).
Proof.
  intros k xs W q i dk dkqq HW Hk Hqq. unfold pvar.
  set (n := length xs) in *.
  set (kq := fun l => k q (point xs l)).
  (* inner sums *)
  assert (Hin : forall j, is_derive (fun t => Rsum (seq 0 n) (fun l => W j l * k (upd q i t) (point xs l)))
                            (coord q i) (Rsum (seq 0 n) (fun l => W j l * dk l))).
  { intros j. apply (is_derive_Rsum (seq 0 n) (fun l t => W j l * k (upd q i t) (point xs l))
                        (fun l => W j l * dk l)).
    intros l Hl. apply in_seq in Hl. apply is_derive_mul_const_l. apply Hk. unfold n in *. lia. }
  eapply is_derive_eq.
  - apply (is_derive_minus (V := R_NormedModule)); [exact Hqq|].
    apply (is_derive_Rsum (seq 0 n)
             (fun j t => k (upd q i t) (point xs j)
                         * Rsum (seq 0 n) (fun l => W j l * k (upd q i t) (point xs l)))
             (fun j => dk j * Rsum (seq 0 n) (fun l => W j l * kq l)
                       + kq j * Rsum (seq 0 n) (fun l => W j l * dk l))).
    intros j Hj. apply in_seq in Hj.
    eapply is_derive_eq.
    + apply (is_derive_mult _ _ (coord q i) _ _ (Hk j ltac:(unfold n in *; lia)) (Hin j)).
      intros; apply Rmult_comm.
    + rewrite upd_coord_self. unfold plus, mult, kq; simpl. reflexivity.
  - unfold minus, plus, opp; simpl.
    rewrite Rsum_plus.
    (* sum_j k_j sum_l W_jl dk_l = sum_l dk_l sum_j W_lj k_j *)
    assert (Hsw : Rsum (seq 0 n) (fun j => kq j * Rsum (seq 0 n) (fun l => W j l * dk l))
                  = Rsum (seq 0 n) (fun j => dk j * Rsum (seq 0 n) (fun l => W j l * kq l))).
    { transitivity (Rsum (seq 0 n) (fun j => Rsum (seq 0 n) (fun l => kq j * (W j l * dk l)))).
      { apply Rsum_ext. intros j _. symmetry. apply Rsum_scal. }
      rewrite Rsum_swap. apply Rsum_ext. intros l _.
      rewrite <- Rsum_scal. apply Rsum_ext. intros j _. rewrite (HW l j). ring. }
    rewrite Hsw. unfold kq; cbv beta. ring.
Qed.

(* ---- the code's outputs are these derivatives (squared-exponential kernel) --------------- *)
(* entry i of gradient(q)[0] / spatial_derivatives(q)[0] with A = se_A, K = se_val *)
Lemma se_grad_mean_is_derivative : forall d th xs alpha (m : pt -> R) (q : pt) i dm,
  (i < d)%nat -> (i < length q)%nat ->
  is_derive (fun t => m (upd q i t)) (coord q i) dm ->
  is_derive (fun t => pmean (se_val d th) m xs alpha (upd q i t)) (coord q i)
            (grad_mean_R (length xs) (fun i j => se_A th (point xs j) q i)
                         (fun j => se_val d th q (point xs j)) alpha (fun _ => dm) i).
Proof.
  intros d th xs alpha m q i dm Hd Hq Hm. unfold grad_mean_R.
  apply (pmean_derive (se_val d th) m xs alpha q i
           (fun j => se_A th (point xs j) q i * se_val d th q (point xs j)) dm); [|exact Hm].
  intros j _. apply se_cross_derivative; assumption.
Qed.

Lemma se_kqq_const : forall d th (q : pt) i,
  is_derive (fun t => se_val d th (upd q i t) (upd q i t)) (coord q i) 0.
Proof.
  intros. apply (is_derive_ext (fun _ => (exp (par th 0)) ^ 2)).
  { intros t. now rewrite se_val_diag. }
  apply is_derive_constR.
Qed.

Lemma se_dvar_is_derivative : forall d th xs (W : nat -> nat -> R) (q : pt) i,
  (i < d)%nat -> (i < length q)%nat -> (forall j l, W j l = W l j) ->
  is_derive (fun t => pvar (se_val d th) xs W (upd q i t)) (coord q i)
            (dvar_R (length xs) (fun i j => se_A th (point xs j) q i)
                    (fun j => se_val d th q (point xs j)) W i).
Proof.
  intros d th xs W q i Hd Hq HW. unfold dvar_R.
  eapply is_derive_eq.
  - apply (pvar_derive (se_val d th) xs W q i
             (fun j => se_A th (point xs j) q i * se_val d th q (point xs j)) 0 HW).
    + intros j _. apply se_cross_derivative; assumption.
    + apply se_kqq_const.
  - ring.
Qed.
