(* The bounded finite-difference gradient is exact on coordinate-wise quadratics up to the
   explicit first-order term, whichever way the step is turned; its step never vanishes and
   has the magnitude of the unbounded one. *)
From Coq Require Import QArith Qabs List Bool Lia Lqa.
From IT Require Import Model.Leapfrog Model.FiniteDiffBounded Proofs.LeapfrogProofs.
Import ListNotations.
Open Scope Q_scope.

Section FDB.
  Variable logp : vec -> Q.
  Variables h fl : Q.
  Variables lo hi : vec.
  Variable g : nat -> vec -> Q.
  Variable a : nat -> Q.
  Hypothesis quad_lines : forall t i s, (i < length t)%nat ->
    logp (upd i (fun x => x + s) t) == logp t + s * g i t - (1 # 2) * a i * s * s.
  Hypothesis floor_pos : 0 < fl.

  Lemma fd_step_b_nonzero t i : ~ fd_step_b h fl lo hi t i == 0.
  Proof.
    unfold fd_step_b. pose proof (fd_step_nonzero h fl (nth i t 0) floor_pos) as Hnz.
    destruct (inside_box lo hi _); [exact Hnz|]. intro E. apply Hnz. lra.
  Qed.

  Lemma fd_step_b_abs t i :
    Qabs (fd_step_b h fl lo hi t i) == Qabs (fd_step h fl (nth i t 0)).
  Proof.
    unfold fd_step_b. destruct (inside_box lo hi _); [reflexivity|apply Qabs_opp].
  Qed.

  Lemma finite_diff_b_exact_on_quadratics t i : (i < length t)%nat ->
    nth i (finite_diff_b logp h fl lo hi t) 0 ==
    g i t - (1 # 2) * a i * fd_step_b h fl lo hi t i.
  Proof.
    intros Hi. unfold finite_diff_b. rewrite nth_map_seq by exact Hi.
    cbv zeta. rewrite (quad_lines t i _ Hi).
    pose proof (fd_step_b_nonzero t i) as Hnz. field. exact Hnz.
  Qed.

  Lemma finite_diff_b_error_bound t i : (i < length t)%nat ->
    Qabs (nth i (finite_diff_b logp h fl lo hi t) 0 - g i t) <=
    (1 # 2) * Qabs (a i) * (if Qlt_le_dec (Qabs (nth i t 0 * h)) fl then fl else Qabs (nth i t 0 * h)).
  Proof.
    intros Hi. rewrite (finite_diff_b_exact_on_quadratics t i Hi).
    setoid_replace (g i t - (1 # 2) * a i * fd_step_b h fl lo hi t i - g i t)
      with ((- (1 # 2)) * a i * fd_step_b h fl lo hi t i) by ring.
    rewrite !Qabs_Qmult, fd_step_b_abs, (fd_step_abs h fl _ floor_pos).
    setoid_replace (Qabs (- (1 # 2))) with (1 # 2) by reflexivity.
    apply Qle_refl.
  Qed.
End FDB.
