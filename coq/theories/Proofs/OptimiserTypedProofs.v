(* Lemmas about Model/OptimiserTyped.v: numpy's promotion keeps every value of either
   operand (in the region the model describes), hence add_evaluation stores the new point
   exactly as given whatever the element types of the data and of the point; the typed model
   erases to Model.Optimiser.add_all; converting the new point to the element type of the
   data first (seeded variant) loses it. *)
From Coq Require Import List QArith ZArith Bool Lia.
From IT Require Import Model.Optimiser Model.OptimiserTyped Proofs.OptimiserProofs.
Import ListNotations.

Lemma odd_part_le m : (Zpos (odd_part m) <= Zpos m)%Z.
Proof. induction m as [m IH | m IH | ]; simpl; lia. Qed.

Lemma promote_comm a b : promote a b = promote b a.
Proof. destruct a, b; reflexivity. Qed.

Lemma promote_idem a : promote a a = a.
Proof. destruct a; reflexivity. Qed.

(* an integer below 2^p in magnitude is a p-bit float *)
Lemma int_float k p n d : int_ok k n d = true -> (Z.abs n < 2 ^ p)%Z -> float_ok p n d = true.
Proof.
  unfold int_ok, float_ok. intros H Hb.
  apply andb_true_iff in H. destruct H as [H _]. apply andb_true_iff in H. destruct H as [Hd _].
  apply Pos.eqb_eq in Hd. subst d. simpl.
  destruct n as [ | m | m]; simpl; auto; apply Z.ltb_lt; pose proof (odd_part_le m); simpl in Hb; lia.
Qed.

Lemma int_widen k1 k2 n d : (1 <= k1 <= k2)%Z -> int_ok k1 n d = true -> int_ok k2 n d = true.
Proof.
  unfold int_ok. intros Hk H.
  apply andb_true_iff in H. destruct H as [H H3]. apply andb_true_iff in H. destruct H as [H1 H2].
  apply Z.leb_le in H2. apply Z.leb_le in H3.
  assert (2 ^ (k1 - 1) <= 2 ^ (k2 - 1))%Z by (apply Z.pow_le_mono_r; lia).
  rewrite H1. simpl. apply andb_true_iff. split; apply Z.leb_le; lia.
Qed.

Lemma sig_widen p1 p2 n : (0 <= p1 <= p2)%Z -> sig_ok p1 n = true -> sig_ok p2 n = true.
Proof.
  intros Hp. assert (2 ^ p1 <= 2 ^ p2)%Z by (apply Z.pow_le_mono_r; lia).
  destruct n; simpl; auto; intros H0; apply Z.ltb_lt in H0; apply Z.ltb_lt; lia.
Qed.

Lemma float_widen p1 p2 n d : (0 <= p1 <= p2)%Z -> float_ok p1 n d = true -> float_ok p2 n d = true.
Proof.
  unfold float_ok. intros Hp H. apply andb_true_iff in H. destruct H as [H1 H2].
  rewrite H1. simpl. eapply sig_widen; eauto.
Qed.

Lemma int_bound k n d : int_ok k n d = true -> (1 <= k)%Z -> (Z.abs n <= 2 ^ (k - 1))%Z.
Proof.
  unfold int_ok. intros H Hk.
  apply andb_true_iff in H. destruct H as [H H3]. apply andb_true_iff in H. destruct H as [_ H2].
  apply Z.leb_le in H2. apply Z.leb_le in H3. lia.
Qed.

Lemma mag_int_bound k n d : mag_ok n d = true -> int_ok k n d = true -> (Z.abs n < 2 ^ 53)%Z.
Proof.
  unfold mag_ok, int_ok, dbl_max. intros Hm H.
  apply andb_true_iff in H. destruct H as [H _]. apply andb_true_iff in H. destruct H as [Hd _].
  apply Pos.eqb_eq in Hd. subst d. apply Z.leb_le in Hm.
  change (2 ^ 53)%Z with 9007199254740992%Z. lia.
Qed.

(* ---- promotion keeps the values of the LEFT operand ... ---- *)
Lemma red_ok_promote_l a b n d : red_ok a n d = true -> red_ok (promote a b) n d = true.
Proof.
  unfold red_ok. intros H. apply andb_true_iff in H. destruct H as [Hm H]. rewrite Hm. simpl.
  destruct a, b; simpl promote; auto;
    try (eapply int_widen; [ | exact H]; lia);
    try (eapply float_widen; [ | exact H]; lia);
    try (eapply int_float; [exact H | ]);
    try (eapply mag_int_bound; eassumption);
    try (apply int_bound in H; [ | lia];
         match goal with |- (_ < 2 ^ ?p)%Z =>
           let c := eval vm_compute in (2 ^ p)%Z in change (2 ^ p)%Z with c end;
         match type of H with (_ <= 2 ^ ?q)%Z =>
           let c := eval vm_compute in (2 ^ q)%Z in change (2 ^ q)%Z with c in H end; lia).
Qed.

(* ---- ... and of the RIGHT one ---- *)
Lemma red_ok_promote_r a b n d : red_ok b n d = true -> red_ok (promote a b) n d = true.
Proof. rewrite promote_comm. apply red_ok_promote_l. Qed.

Lemma val_ok_promote_l a b q : val_ok a q = true -> val_ok (promote a b) q = true.
Proof. unfold val_ok. apply red_ok_promote_l. Qed.

Lemma val_ok_promote_r a b q : val_ok b q = true -> val_ok (promote a b) q = true.
Proof. unfold val_ok. apply red_ok_promote_r. Qed.

Lemma vec_ok_promote_l a b v : vec_ok a v = true -> vec_ok (promote a b) v = true.
Proof.
  unfold vec_ok. rewrite !forallb_forall. intros H q Hq. apply val_ok_promote_l; auto.
Qed.

Lemma vec_ok_promote_r a b v : vec_ok b v = true -> vec_ok (promote a b) v = true.
Proof.
  unfold vec_ok. rewrite !forallb_forall. intros H q Hq. apply val_ok_promote_r; auto.
Qed.

Lemma rows_ok_promote_l a b rows : rows_ok a rows = true -> rows_ok (promote a b) rows = true.
Proof.
  unfold rows_ok. rewrite !forallb_forall. intros H v Hv. apply vec_ok_promote_l; auto.
Qed.

Lemma vec_ok_snoc dt v q : vec_ok dt (v ++ [q]) = vec_ok dt v && val_ok dt q.
Proof. unfold vec_ok. rewrite forallb_app. simpl. rewrite andb_true_r. reflexivity. Qed.

Lemma rows_ok_snoc dt rows v : rows_ok dt (rows ++ [v]) = rows_ok dt rows && vec_ok dt v.
Proof. unfold rows_ok. rewrite forallb_app. simpl. rewrite andb_true_r. reflexivity. Qed.

(* ---- one addition: defined, exact, typed with the promoted types ---- *)
Definition yerr_after (e : option (list Q)) (ne : option (dtype * Q)) : option (list Q) :=
  match e, ne with Some l, Some (_, v) => Some (l ++ [v]) | _, _ => None end.

Lemma typed_add_total t n :
  typed_ok t = true -> new_ok n = true ->
  (st_yerr (ts_st t) <> None -> n_err n <> None) ->
  exists t', typed_add t n = Some t' /\ typed_ok t' = true /\
    st_x (ts_st t') = st_x (ts_st t) ++ [n_x n] /\
    st_y (ts_st t') = st_y (ts_st t) ++ [n_y n] /\
    st_yerr (ts_st t') = yerr_after (st_yerr (ts_st t)) (n_err n) /\
    st_ymax (ts_st t') = list_max (st_y (ts_st t')) /\
    ts_dx t' = promote (ts_dx t) (n_dx n) /\ ts_dy t' = promote (ts_dy t) (n_dy n).
Proof.
  destruct t as [dx dy de [x y e ym]]. destruct n as [ndx nx ndy ny ne].
  unfold typed_ok, new_ok, typed_add, add_evaluation. simpl.
  intros Hok Hn He.
  apply andb_true_iff in Hok. destruct Hok as [Hok Hoe]. apply andb_true_iff in Hok. destruct Hok as [Hox Hoy].
  apply andb_true_iff in Hn. destruct Hn as [Hn Hne]. apply andb_true_iff in Hn. destruct Hn as [Hnx Hny].
  assert (Hx' : rows_ok (promote dx ndx) (x ++ [nx]) = true).
  { rewrite rows_ok_snoc. apply andb_true_iff. split.
    - apply rows_ok_promote_l; auto.
    - apply vec_ok_promote_r; auto. }
  assert (Hy' : vec_ok (promote dy ndy) (y ++ [ny]) = true).
  { rewrite vec_ok_snoc. apply andb_true_iff. split.
    - apply vec_ok_promote_l; auto.
    - apply val_ok_promote_r; auto. }
  destruct e as [e | ]; destruct ne as [[nde nev] | ]; simpl.
  - assert (He' : vec_ok (promote de nde) (e ++ [nev]) = true).
    { rewrite vec_ok_snoc. apply andb_true_iff. split.
      - apply vec_ok_promote_l; auto.
      - apply val_ok_promote_r; auto. }
    unfold typed_ok; simpl. rewrite Hx', Hy', He'. simpl.
    eexists. split; [reflexivity | ]. simpl. unfold typed_ok; simpl. rewrite Hx', Hy', He'.
    repeat split; reflexivity.
  - exfalso. apply He; [discriminate | reflexivity].
  - unfold typed_ok; simpl. rewrite Hx', Hy'. simpl.
    eexists. split; [reflexivity | ]. simpl. unfold typed_ok; simpl. rewrite Hx', Hy'.
    repeat split; reflexivity.
  - unfold typed_ok; simpl. rewrite Hx', Hy'. simpl.
    eexists. split; [reflexivity | ]. simpl. unfold typed_ok; simpl. rewrite Hx', Hy'.
    repeat split; reflexivity.
Qed.

(* ---- the typed model erases to the untyped one ---- *)
Lemma typed_add_erases t n t' :
  typed_add t n = Some t' -> add_evaluation (ts_st t) (n_x n) (n_y n) (option_map snd (n_err n)) = Some (ts_st t').
Proof.
  unfold typed_add. destruct (add_evaluation _ _ _ _) as [st' | ]; [ | discriminate].
  match goal with |- (if ?c then _ else _) = _ -> _ => destruct c end; [ | discriminate].
  intros H. inversion H. reflexivity.
Qed.

Lemma typed_add_all_erases news : forall t t',
  typed_add_all t news = Some t' -> add_all (ts_st t) (map erase news) = Some (ts_st t').
Proof.
  induction news as [ | n rest IH]; simpl; intros t t' H.
  - inversion H. reflexivity.
  - destruct (typed_add t n) as [t1 | ] eqn:E; [ | discriminate].
    apply typed_add_erases in E. unfold erase at 1. rewrite E. apply IH. exact H.
Qed.

(* ---- any sequence of additions ---- *)
Definition errs_consistent (t : tstate) (news : list tnew) : Prop :=
  st_yerr (ts_st t) <> None -> Forall (fun n => n_err n <> None) news.

Fixpoint promote_all (d : dtype) (ds : list dtype) : dtype :=
  match ds with [] => d | d' :: rest => promote_all (promote d d') rest end.

Lemma typed_add_all_total news : forall t,
  typed_ok t = true -> forallb new_ok news = true -> errs_consistent t news ->
  exists t', typed_add_all t news = Some t' /\ typed_ok t' = true /\
    st_x (ts_st t') = st_x (ts_st t) ++ map n_x news /\
    st_y (ts_st t') = st_y (ts_st t) ++ map n_y news /\
    ts_dx t' = promote_all (ts_dx t) (map n_dx news) /\
    ts_dy t' = promote_all (ts_dy t) (map n_dy news) /\
    (news <> [] -> st_ymax (ts_st t') = list_max (st_y (ts_st t'))).
Proof.
  induction news as [ | n rest IH]; intros t Hok Hn Hc.
  - exists t. simpl. rewrite !app_nil_r. repeat split; auto. intros H; exfalso; apply H; reflexivity.
  - simpl in Hn. apply andb_true_iff in Hn. destruct Hn as [Hn Hrest].
    assert (He : st_yerr (ts_st t) <> None -> n_err n <> None).
    { intros H. specialize (Hc H). inversion Hc; auto. }
    destruct (typed_add_total t n Hok Hn He) as [t1 [E [Hok1 [Hx [Hy [Hye [Hm [Hdx Hdy]]]]]]]].
    assert (Hc1 : errs_consistent t1 rest).
    { intros H1. rewrite Hye in H1. unfold yerr_after in H1.
      destruct (st_yerr (ts_st t)) as [e | ] eqn:Ee; [ | exfalso; apply H1; reflexivity].
      assert (Hs : st_yerr (ts_st t) <> None) by (rewrite Ee; discriminate). specialize (Hc Hs). inversion Hc; auto. }
    destruct (IH t1 Hok1 Hrest Hc1) as [t' [E' [Hok' [Hx' [Hy' [Hdx' [Hdy' Hm']]]]]]].
    exists t'. simpl. rewrite E. split; [exact E' | ]. split; [exact Hok' | ].
    split; [rewrite Hx', Hx, <- app_assoc; reflexivity | ].
    split; [rewrite Hy', Hy, <- app_assoc; reflexivity | ].
    split; [rewrite Hdx', Hdx; reflexivity | ].
    split; [rewrite Hdy', Hdy; reflexivity | ].
    intros _. destruct rest as [ | n2 rest2].
    + simpl in E'. inversion E'. subst t'. exact Hm.
    + apply Hm'. discriminate.
Qed.

(* ---- the seeded variant loses the point ---- *)
Lemma cast_to_data_dtype_refuted :
  exists t n t1 t2,
    typed_ok t = true /\ new_ok n = true /\
    typed_add t n = Some t1 /\ typed_add_cast t n = Some t2 /\
    last (st_x (ts_st t1)) [] = n_x n /\ ts_dx t1 = F64 /\
    last (st_x (ts_st t2)) [] = [1] /\ ts_dx t2 = I64 /\
    ~ (hd 0 (last (st_x (ts_st t2)) []) == hd 0 (n_x n)).
Proof.
  exists (typed_init I64 [[-8]; [-6]; [8]] (F64, [1 # 2; 3 # 4; 1 # 4]) None).
  exists (mk_tnew F64 [27 # 16] F64 (5 # 8) None).
  eexists. eexists.
  split; [vm_compute; reflexivity | ]. split; [vm_compute; reflexivity | ].
  split; [vm_compute; reflexivity | ]. split; [vm_compute; reflexivity | ].
  simpl. repeat split; try reflexivity.
  intros H. vm_compute in H. discriminate H.
Qed.
