(* Proofs/InversionValueProofs.v -- lemmas about RealModel/InversionValue.v (property C17):
   the number the code computes from its Cholesky factor is the closed-form evidence for data
   sets of ANY size; the one-logarithm variant is the same real number but goes through a
   product that leaves the binary64 range as soon as  rows * |ln(typical diagonal)|  exceeds
   1074 ln 2 (~ 744), while the sum of logarithms grows only linearly with the rows. *)
From Coq Require Import Reals List Lra Lia.
From IT Require Import RealModel.SelectionValue Proofs.SelectionValueProofs RealModel.InversionValue.
Import ListNotations.
Open Scope R_scope.

(* the sum of logarithms of a concatenation: the run proves its interval goals chunk by chunk *)
Lemma sum_ln_app : forall a b, sum_ln (a ++ b) = sum_ln a + sum_ln b.
Proof. induction a as [|x a IH]; intros b; simpl; [lra | rewrite IH; lra]. Qed.

Lemma Rabs_le_bounds : forall x y, Rabs x <= y -> - y <= x <= y.
Proof. intros x y. unfold Rabs. destruct (Rcase_abs x); lra. Qed.

Lemma all_in_pos : forall a b l, 0 < a -> all_in a b l -> Forall (fun x => 0 < x) l.
Proof.
  intros a b l Ha H. unfold all_in in H. rewrite Forall_forall in *. intros x Hx.
  specialize (H x Hx). lra.
Qed.

(* the value the code returns IS the closed form (any number of rows) *)
Lemma lin_lml_value_is_closed : forall quad diagL detJ,
  Forall (fun x => 0 < x) diagL -> detJ = (prod_list diagL) ^ 2 ->
  lin_lml_value quad diagL = lin_lml_closed quad detJ.
Proof. exact ml_value_closed. Qed.

(* over the reals the one-logarithm variant is the same number *)
Lemma lin_lml_value_prod_real : forall quad l,
  Forall (fun x => 0 < x) l -> lin_lml_value_prod quad l = lin_lml_value quad l.
Proof.
  intros quad l H. unfold lin_lml_value_prod, lin_lml_value. now rewrite (sum_ln_prod l H).
Qed.

Lemma ln_le_compat : forall x y, 0 < x -> x <= y -> ln x <= ln y.
Proof.
  intros x y Hx [Hlt | ->]; [left; apply ln_increasing; assumption | right; reflexivity].
Qed.

Lemma ln_le_reflect : forall x y, 0 < x -> 0 < y -> ln x <= ln y -> x <= y.
Proof.
  intros x y Hx Hy H. destruct (Rle_or_lt x y) as [|Hlt]; [assumption|].
  apply (ln_increasing _ _ Hy) in Hlt. lra.
Qed.

(* a^n <= prod <= b^n *)
Lemma prod_list_bounds : forall a b l, 0 < a -> all_in a b l ->
  a ^ length l <= prod_list l <= b ^ length l.
Proof.
  intros a b l Ha. induction l as [|x l IH]; intros H; simpl; [lra|].
  inversion H as [|? ? Hx Hl]; subst. specialize (IH Hl). destruct IH as [IH1 IH2].
  assert (0 <= a ^ length l) by (apply pow_le; lra).
  split; apply Rmult_le_compat; lra.
Qed.

(* n ln a <= sum of logs <= n ln b : linear in the number of rows *)
Lemma sum_ln_bounds : forall a b l, 0 < a -> all_in a b l ->
  INR (length l) * ln a <= sum_ln l <= INR (length l) * ln b.
Proof.
  intros a b l Ha. induction l as [|x l IH]; intros H.
  - simpl. lra.
  - inversion H as [|? ? Hx Hl]; subst. specialize (IH Hl).
    change (length (x :: l)) with (S (length l)). rewrite S_INR. simpl sum_ln.
    assert (ln a <= ln x) by (apply ln_le_compat; lra).
    assert (ln x <= ln b) by (apply ln_le_compat; lra).
    lra.
Qed.

Lemma INR_1074 : INR 1074 = 1074.
Proof. rewrite INR_IZR_INZ. reflexivity. Qed.
Lemma INR_1024 : INR 1024 = 1024.
Proof. rewrite INR_IZR_INZ. reflexivity. Qed.

Lemma dbl_tiny_pos : 0 < dbl_tiny.
Proof. unfold dbl_tiny. apply Rinv_0_lt_compat, pow_lt. lra. Qed.

Lemma ln_dbl_tiny : ln dbl_tiny = - (1074 * ln 2).
Proof.
  unfold dbl_tiny. rewrite ln_Rinv by (apply pow_lt; lra).
  rewrite ln_pow by lra. now rewrite INR_1074.
Qed.

Lemma ln_dbl_huge : ln dbl_huge = 1024 * ln 2.
Proof. unfold dbl_huge. rewrite ln_pow by lra. now rewrite INR_1024. Qed.

(* entries <= q < 1 and rows * ln(1/q) > 1074 ln 2: the product is a positive real below the
   smallest positive double *)
Lemma prod_underflows : forall a q l, 0 < a -> q < 1 -> all_in a q l ->
  INR (length l) * ln (/ q) > 1074 * ln 2 ->
  0 < prod_list l < dbl_tiny.
Proof.
  intros a q l Ha Hq H Hn.
  pose proof (prod_list_pos l (all_in_pos a q l Ha H)) as Hp.
  split; [assumption|].
  destruct (prod_list_bounds a q l Ha H) as [_ Hup].
  assert (Hq0 : 0 < q).
  { destruct l as [|x l].
    - simpl in Hn. pose proof ln_lt_2. lra.
    - inversion H; subst. lra. }
  apply Rle_lt_trans with (1 := Hup).
  apply ln_lt_inv; [apply pow_lt; assumption | exact dbl_tiny_pos |].
  rewrite ln_pow by assumption. rewrite ln_dbl_tiny.
  rewrite ln_Rinv in Hn by assumption. lra.
Qed.

(* entries >= q > 1 and rows * ln q >= 1024 ln 2: the product is at least 2^1024 *)
Lemma prod_overflows : forall q b l, 1 < q -> all_in q b l ->
  INR (length l) * ln q >= 1024 * ln 2 ->
  dbl_huge <= prod_list l.
Proof.
  intros q b l Hq H Hn.
  destruct (prod_list_bounds q b l ltac:(lra) H) as [Hlo _].
  apply Rle_trans with (2 := Hlo).
  apply ln_le_reflect; [unfold dbl_huge; apply pow_lt; lra | apply pow_lt; lra |].
  rewrite ln_dbl_huge, ln_pow by lra. lra.
Qed.

Lemma not_range_small : forall x, 0 < x < dbl_tiny -> ~ dbl_range x.
Proof.
  intros x [H0 H1] [Hz | [Hlo _]]; [lra|]. rewrite Rabs_pos_eq in Hlo by lra. lra.
Qed.

Lemma not_range_big : forall x, dbl_huge <= x -> ~ dbl_range x.
Proof.
  intros x H [Hz | [_ Hhi]].
  - subst. assert (0 < dbl_huge) by (unfold dbl_huge; apply pow_lt; lra). lra.
  - assert (0 < dbl_huge) by (unfold dbl_huge; apply pow_lt; lra).
    rewrite Rabs_pos_eq in Hhi by lra. lra.
Qed.

(* non-vacuity: 400 data rows, every diagonal entry of the factor equal to 1/50 *)
Lemma repeat_all_in : forall a b x n, a <= x <= b -> all_in a b (repeat x n).
Proof.
  intros a b x n Hx. unfold all_in. rewrite Forall_forall. intros y Hy.
  apply repeat_spec in Hy. now subst.
Qed.
