(* Lemmas about the integration limits, the mirror image of the unimodal family, the
   cumulative function as the code assembles it, and typed query points (property C19). *)
From Coq Require Import Reals List ZArith Lra Psatz Lia.
From IT Require Import RealModel.Unimodal RealModel.UnimodalCdf.
Import ListNotations.
Open Scope R_scope.

(* ------------------------------------------------------------------ limits *)
Lemma lwr_limit_reflect th : lwr_limit (reflect_theta th) = - upr_limit th.
Proof. unfold lwr_limit, upr_limit, reflect_theta. simpl. rewrite Ropp_involutive. ring. Qed.

Lemma upr_limit_reflect th : upr_limit (reflect_theta th) = - lwr_limit th.
Proof. unfold lwr_limit, upr_limit, reflect_theta. simpl. ring. Qed.

Lemma lwr_limit_affine a b th : lwr_limit (affine_theta a b th) = a * lwr_limit th + b.
Proof. unfold lwr_limit, affine_theta. simpl. ring. Qed.

Lemma upr_limit_affine a b th : upr_limit (affine_theta a b th) = a * upr_limit th + b.
Proof. unfold upr_limit, affine_theta. simpl. ring. Qed.

(* in units of the width of the tail on its own side (s0 exp(-f) on the left,
   s0 exp(f) on the right) each limit lies 4 + exp(-/+ f) > 4 widths from the mode *)
Lemma lwr_limit_depth th :
  t_x0 th - lwr_limit th = (t_s0 th * exp (- t_f th)) * (4 + exp (t_f th)).
Proof.
  unfold lwr_limit.
  replace (t_x0 th - (t_x0 th - t_s0 th * (4 * exp (- t_f th) + 1)))
    with (t_s0 th * (4 * exp (- t_f th) + exp (- t_f th) * exp (t_f th))).
  - ring.
  - rewrite <- exp_plus. replace (- t_f th + t_f th) with 0 by ring. rewrite exp_0. ring.
Qed.

Lemma upr_limit_depth th :
  upr_limit th - t_x0 th = (t_s0 th * exp (t_f th)) * (4 + exp (- t_f th)).
Proof.
  unfold upr_limit.
  replace (t_x0 th + t_s0 th * (4 * exp (t_f th) + 1) - t_x0 th)
    with (t_s0 th * (4 * exp (t_f th) + exp (t_f th) * exp (- t_f th))).
  - ring.
  - rewrite <- exp_plus. replace (t_f th + - t_f th) with 0 by ring. rewrite exp_0. ring.
Qed.

Theorem limits_four_widths th : 0 < t_s0 th ->
  4 * (t_s0 th * exp (- t_f th)) < t_x0 th - lwr_limit th /\
  4 * (t_s0 th * exp (t_f th)) < upr_limit th - t_x0 th.
Proof.
  intros Hs. rewrite lwr_limit_depth, upr_limit_depth.
  assert (A := exp_pos (t_f th)). assert (B := exp_pos (- t_f th)).
  assert (C : 0 < t_s0 th * exp (- t_f th)) by (apply Rmult_lt_0_compat; assumption).
  assert (D : 0 < t_s0 th * exp (t_f th)) by (apply Rmult_lt_0_compat; assumption).
  split; nra.
Qed.

(* the lower limit with the sign of f dropped lies LESS than one left-hand tail width
   below the mode for a member of the family with f = - ln 4 *)
Theorem samesign_limit_refuted :
  exists th, 0 < t_s0 th /\
    t_x0 th - lwr_limit_samesign th < 1 * (t_s0 th * exp (- t_f th)).
Proof.
  exists (Build_theta 0 1 0 (- ln 4) 1 2). unfold lwr_limit_samesign. simpl.
  split; [lra|].
  rewrite Ropp_involutive. rewrite exp_Ropp. rewrite exp_ln by lra. lra.
Qed.

(* ------------------------------------------------------------------ mirror image *)
Lemma cosh_nonzero x : cosh x <> 0.
Proof.
  unfold cosh. assert (A := exp_pos x). assert (B := exp_pos (- x)). lra.
Qed.

Lemma tanh_opp x : tanh (- x) = - tanh x.
Proof.
  unfold tanh, sinh, cosh. rewrite Ropp_involutive.
  assert (A := exp_pos x). assert (B := exp_pos (- x)).
  field. repeat split; lra.
Qed.

Lemma abs_pow_opp z q : abs_pow (- z) q = abs_pow z q.
Proof.
  unfold abs_pow. destruct (Req_EM_T (- z) 0) as [E1|E1]; destruct (Req_EM_T z 0) as [E2|E2].
  - reflexivity.
  - exfalso. apply E2. lra.
  - exfalso. apply E1. lra.
  - rewrite Rabs_Ropp. reflexivity.
Qed.

Lemma zscore_reflect x th : zscore (- x) (reflect_theta th) = - zscore x th.
Proof. unfold zscore, reflect_theta. simpl. unfold Rdiv. ring. Qed.

Lemma log_pdf_of_z_reflect z0 th : log_pdf_of_z (- z0) (reflect_theta th) = log_pdf_of_z z0 th.
Proof.
  unfold log_pdf_of_z, reflect_theta. simpl.
  replace (- z0 / t_k th) with (- (z0 / t_k th)) by (unfold Rdiv; ring).
  rewrite tanh_opp.
  replace (- - t_f th * - tanh (z0 / t_k th)) with (- t_f th * tanh (z0 / t_k th)) by ring.
  replace (- z0 * exp (- t_f th * tanh (z0 / t_k th)))
    with (- (z0 * exp (- t_f th * tanh (z0 / t_k th)))) by ring.
  rewrite abs_pow_opp. reflexivity.
Qed.

Theorem log_pdf_reflect x th : log_pdf_model (- x) (reflect_theta th) = log_pdf_model x th.
Proof. unfold log_pdf_model. rewrite zscore_reflect. apply log_pdf_of_z_reflect. Qed.

(* symmetry of the Gauss-Chebyshev nodes and weights *)
Lemma INR_gc_n : INR gc_n = 128.
Proof. unfold gc_n. rewrite INR_IZR_INZ. reflexivity. Qed.

Lemma gc_t_sym k : (1 <= k <= 128)%nat -> gc_t (129 - k) = - gc_t k.
Proof.
  intros Hk. unfold gc_t. rewrite INR_gc_n.
  rewrite minus_INR by lia.
  replace (INR 129) with 129 by (rewrite INR_IZR_INZ; reflexivity).
  replace (1 / 2 * PI * ((2 * (129 - INR k) - 1) / 128))
    with (- (1 / 2 * PI * ((2 * INR k - 1) / 128)) + PI) by field.
  rewrite neg_cos. rewrite cos_neg. reflexivity.
Qed.

Lemma gc_u_sym k : (1 <= k <= 128)%nat -> gc_u (129 - k) = - gc_u k.
Proof.
  intros Hk. unfold gc_u. rewrite gc_t_sym by assumption.
  replace (- gc_t k * - gc_t k) with (gc_t k * gc_t k) by ring.
  unfold Rdiv. ring.
Qed.

Lemma gc_w_sym k : (1 <= k <= 128)%nat -> gc_w (129 - k) = gc_w k.
Proof.
  intros Hk. unfold gc_w. rewrite gc_t_sym by assumption.
  replace (- gc_t k * - gc_t k) with (gc_t k * gc_t k) by ring. reflexivity.
Qed.

Definition rsum (l : list R) : R := fold_right Rplus 0 l.

Lemma rsum_app l l' : rsum (l ++ l') = rsum l + rsum l'.
Proof. induction l as [|a l IH]; simpl; [ring|]. unfold rsum in *. simpl. rewrite IH. ring. Qed.

Lemma rsum_rev l : rsum (rev l) = rsum l.
Proof.
  induction l as [|a l IH]; [reflexivity|]. simpl rev. rewrite rsum_app, IH.
  unfold rsum. simpl. ring.
Qed.

Lemma seq_mirror n : map (fun k => (n + 1 - k)%nat) (seq 1 n) = rev (seq 1 n).
Proof.
  induction n as [|n IH]; [reflexivity|].
  rewrite seq_S at 2. rewrite rev_app_distr. simpl rev. simpl app.
  change (seq 1 (S n)) with (1%nat :: seq 2 n). simpl map.
  f_equal; [lia|].
  rewrite <- seq_shift. rewrite map_map. rewrite <- IH.
  apply map_ext. intros k. lia.
Qed.

Lemma rsum_seq_mirror (g : nat -> R) n :
  rsum (map (fun k => g (n + 1 - k)%nat) (seq 1 n)) = rsum (map g (seq 1 n)).
Proof.
  rewrite <- (map_map (fun k => (n + 1 - k)%nat) g). rewrite seq_mirror.
  rewrite map_rev. apply rsum_rev.
Qed.

Lemma shape_reflect th : shape (reflect_theta th) = reflect_theta (shape th).
Proof. unfold shape, reflect_theta. simpl. rewrite Ropp_0. reflexivity. Qed.

Theorem norm_reflect th : norm_model (reflect_theta th) = norm_model th.
Proof.
  unfold norm_model. rewrite shape_reflect.
  replace (t_s0 (reflect_theta th)) with (t_s0 th) by reflexivity.
  f_equal.
  change (rsum (map (fun k => gc_w k * pdf_model (gc_u k) (reflect_theta (shape th))) (seq 1 gc_n)) =
          rsum (map (fun k => gc_w k * pdf_model (gc_u k) (shape th)) (seq 1 gc_n))).
  rewrite <- (rsum_seq_mirror (fun k => gc_w k * pdf_model (gc_u k) (shape th)) gc_n).
  f_equal. apply map_ext_in. intros k Hk. apply in_seq in Hk. unfold gc_n in *.
  replace (128 + 1 - k)%nat with (129 - k)%nat by lia.
  rewrite gc_w_sym, gc_u_sym by lia.
  unfold pdf_model. rewrite <- (log_pdf_reflect (- gc_u k) (shape th)). rewrite Ropp_involutive. reflexivity.
Qed.

(* the family is closed under the mirror image of the data: the density of -x with
   (-x0, s0, ln v, -f, k, q) is the original density at x *)
Theorem family_reflect x th : evaluate_model (- x) (reflect_theta th) = evaluate_model x th.
Proof. unfold evaluate_model, pdf_model. rewrite log_pdf_reflect, norm_reflect. reflexivity. Qed.

Lemma reflect_involutive th : reflect_theta (reflect_theta th) = th.
Proof. destruct th. unfold reflect_theta. simpl. rewrite !Ropp_involutive. reflexivity. Qed.

(* ------------------------------------------------------------------ the cumulative function *)
Lemma running_increments F acc prev vs :
  running acc (increments F prev vs) = map (fun v => acc + (F v - F prev)) vs.
Proof.
  revert acc prev. induction vs as [|v t IH]; intros acc prev; [reflexivity|].
  simpl. f_equal. rewrite IH. apply map_ext. intros v'. ring.
Qed.

(* every value returned by one call is F at the point minus ONE common amount *)
Theorem cdf_sorted_values F L vs :
  cdf_sorted F L vs = map (fun v => F v - cdf_base F L vs) vs.
Proof.
  destruct vs as [|v0 t]; [reflexivity|].
  unfold cdf_sorted, cdf_base, first_piece. simpl running. rewrite running_increments. simpl map.
  destruct (Rlt_dec L v0) as [H|H].
  - f_equal; [ring|]. apply map_ext. intros v. ring.
  - f_equal; [ring|]. apply map_ext. intros v. ring.
Qed.

(* ... which lies between 0 and the probability below the lower limit, and IS that
   probability whenever the lowest requested point lies above the limit *)
Theorem cdf_base_bounds F L vs : nondecreasing F -> nonneg F ->
  0 <= cdf_base F L vs <= F L.
Proof.
  intros Hm Hp. destruct vs as [|v0 t]; simpl.
  - split; [lra|apply Hp].
  - destruct (Rlt_dec L v0) as [H|H].
    + split; [apply Hp|lra].
    + split; [apply Hp|]. apply Hm. lra.
Qed.

Theorem cdf_base_above_limit F L v0 t : L < v0 -> cdf_base F L (v0 :: t) = F L.
Proof. intros H. simpl. destruct (Rlt_dec L v0); [reflexivity|contradiction]. Qed.

(* read as a value the cumulative function is short of F by the probability below the
   lower limit, at EVERY point (a single point included) ... *)
Theorem cdf_value_error F L v0 t v o : L < v0 ->
  In (v, o) (combine (v0 :: t) (cdf_sorted F L (v0 :: t))) -> F v - o = F L.
Proof.
  intros HL Hin. rewrite cdf_sorted_values in Hin. rewrite cdf_base_above_limit in Hin by assumption.
  remember (v0 :: t) as vs eqn:E. clear E HL v0 t.
  induction vs as [|a vs IH]; simpl in Hin; [contradiction|].
  destruct Hin as [Hin|Hin].
  - inversion Hin. subst. ring.
  - apply IH. exact Hin.
Qed.

Corollary cdf_single_point_error F L x : L < x -> cdf_sorted F L [x] = [F x - F L].
Proof.
  intros H. rewrite cdf_sorted_values. rewrite cdf_base_above_limit by assumption. reflexivity.
Qed.

(* ... so it is within eps of F at the requested points iff no more than eps lies below the limit *)
Theorem cdf_accurate_iff F L v0 t eps : L < v0 ->
  (forall v o, In (v, o) (combine (v0 :: t) (cdf_sorted F L (v0 :: t))) -> Rabs (F v - o) <= eps) <->
  Rabs (F L) <= eps.
Proof.
  intros HL. split.
  - intros H. specialize (H v0 (F v0 - F L)).
    replace (F v0 - (F v0 - F L)) with (F L) in H by ring. apply H.
    rewrite cdf_sorted_values. rewrite cdf_base_above_limit by assumption. simpl. left. reflexivity.
  - intros H v o Hin. rewrite (cdf_value_error F L v0 t v o HL Hin). exact H.
Qed.

(* ... while DIFFERENCES between two values of one call are exact whatever the limit:
   this is why interval(), which reads both ends in one call, cannot see a wrong limit *)
Theorem cdf_differences_exact F L vs v1 o1 v2 o2 :
  In (v1, o1) (combine vs (cdf_sorted F L vs)) -> In (v2, o2) (combine vs (cdf_sorted F L vs)) ->
  o2 - o1 = F v2 - F v1.
Proof.
  rewrite cdf_sorted_values. generalize (cdf_base F L vs). intros B H1 H2.
  assert (G : forall v o, In (v, o) (combine vs (map (fun v => F v - B) vs)) -> o = F v - B).
  { clear. induction vs as [|a vs IH]; intros v o Hin; simpl in Hin; [contradiction|].
    destruct Hin as [Hin|Hin]; [inversion Hin; reflexivity|apply IH; exact Hin]. }
  rewrite (G _ _ H1), (G _ _ H2). ring.
Qed.

(* far below the limit nothing, a single point at or below it gives 0 *)
Theorem cdf_below_limit F L x : x <= L -> cdf_sorted F L [x] = [0].
Proof.
  intros H. unfold cdf_sorted, first_piece. simpl.
  destruct (Rlt_dec L x) as [A|A]; [lra|]. f_equal. ring.
Qed.

(* ------------------------------------------------------------------ typed query points *)
Lemma store_float q v : store BufFloat q v = v.
Proof. destruct q; reflexivity. Qed.

(* with the float64 output buffer the answer depends on the VALUE of the points only *)
Theorem typed_eval_float G qs : typed_eval BufFloat G qs = map G (map qval qs).
Proof.
  unfold typed_eval. rewrite map_map. apply map_ext. intros q. apply store_float.
Qed.

Theorem typed_eval_dtype_irrelevant G qs qs' :
  map qval qs = map qval qs' -> typed_eval BufFloat G qs = typed_eval BufFloat G qs'.
Proof. intros H. rewrite !typed_eval_float. rewrite H. reflexivity. Qed.

Lemma Int_part_unit v : 0 <= v < 1 -> Int_part v = 0%Z.
Proof.
  intros [H0 H1]. unfold Int_part.
  rewrite <- (up_tech v 0); [reflexivity|simpl; lra|simpl; lra].
Qed.

(* an output buffer that inherits an integer type stores 0 for every probability in [0, 1) *)
Theorem like_buffer_truncates G k : 0 <= G (IZR k) < 1 ->
  typed_eval BufLike G [QInt k] = [0].
Proof.
  intros H. unfold typed_eval. simpl. unfold trunc0.
  destruct (Rle_dec 0 (G (IZR k))) as [A|A]; [|lra].
  rewrite Int_part_unit by assumption. reflexivity.
Qed.

Theorem like_buffer_refuted :
  exists (G : R -> R) (k : Z), 0 < G (IZR k) < 1 /\
    typed_eval BufLike G [QInt k] <> typed_eval BufFloat G [QInt k].
Proof.
  exists (fun _ => 1 / 2), 0%Z. split; [lra|].
  rewrite like_buffer_truncates by lra. rewrite typed_eval_float. simpl.
  intros E. inversion E. lra.
Qed.
