(* Proofs/GpInputsProofs.v -- the input normalisation of GpRegressor (Model/GpInputs.v):
   it only re-arranges the caller's numbers (shape lemmas, row-major order, naturality in the
   entry type), hence the five inputs of the GP model -- and every output of the regressor --
   depend on the REAL VALUES of the caller's coordinates only, not on how they are held
   (python int / float, numpy integer or float dtype of any width, list / tuple / array).
   The variant that casts the query points to the dtype of the training data is refuted, and
   so is the wrap-around squared distance of the pinned kernels on integer data (D42). *)
From Coq Require Import Reals List Arith ZArith QArith Qreals Bool Lia Lra.
From IT Require Import Model.Slices Model.GpInputs RealModel.Kernels RealModel.Means
  Proofs.GpTranslationProofs.
Import ListNotations.

(* ------------------------------------------------------------------ *)
(* rectangular lists of rows                                           *)

Lemma forallb_len_spec : forall {A} (c : nat) (rest : list (list A)),
  forallb (fun s => Nat.eqb (length s) c) rest = true <-> Forall (fun s => length s = c) rest.
Proof.
  intros A c rest. rewrite forallb_forall, Forall_forall. split; intros H s Hs.
  - apply Nat.eqb_eq. now apply H.
  - apply Nat.eqb_eq. now apply H.
Qed.

Lemma ncols_spec : forall {A} (rows : list (list A)) c,
  ncols rows = Some c -> rows <> [] /\ Forall (fun r => length r = c) rows.
Proof.
  intros A [|r rest] c H; simpl in H; [discriminate|].
  destruct (forallb _ rest) eqn:E; [|discriminate]. injection H as <-.
  split; [discriminate|]. constructor; [reflexivity|]. now apply forallb_len_spec.
Qed.

Lemma ncols_complete : forall {A} (rows : list (list A)) c,
  rows <> [] -> Forall (fun r => length r = c) rows -> ncols rows = Some c.
Proof.
  intros A [|r rest] c Hne H; [contradiction|]. simpl.
  inversion H as [|? ? Hr Hrest]; subst.
  assert (E : forallb (fun s => Nat.eqb (length s) (length r)) rest = true)
    by now apply forallb_len_spec.
  now rewrite E.
Qed.

Lemma ncols_map : forall {A B} (f : A -> B) (rows : list (list A)),
  ncols (map (map f) rows) = ncols rows.
Proof.
  intros A B f [|r rest]; simpl; [reflexivity|]. rewrite map_length.
  replace (forallb (fun s => Nat.eqb (length s) (length r)) (map (map f) rest))
    with (forallb (fun s => Nat.eqb (length s) (length r)) rest); [reflexivity|].
  induction rest as [|s rest IH]; simpl; [reflexivity|]. now rewrite map_length, IH.
Qed.

Lemma column_shape : forall {A} (l : list A), Forall (fun r => length r = 1%nat) (column l).
Proof. intros A l. unfold column. apply Forall_forall. intros r Hr. apply in_map_iff in Hr as [v [<- _]]. reflexivity. Qed.

Lemma column_flat : forall {A} (l : list A), concat (column l) = l.
Proof. intros A l. unfold column. induction l as [|a l IH]; simpl; [reflexivity|]. now rewrite IH. Qed.

Lemma column_length : forall {A} (l : list A), length (column l) = length l.
Proof. intros A l. apply map_length. Qed.

Lemma column_map : forall {A B} (f : A -> B) (l : list A), column (map f l) = map (map f) (column l).
Proof. intros A B f l. unfold column. rewrite !map_map. reflexivity. Qed.

(* ------------------------------------------------------------------ *)
(* process_points                                                      *)

(* every returned row is one point of dimension d *)
Lemma process_points_shape : forall {A} d (a : arg A) P,
  process_points d a = Some P -> Forall (fun r => length r = d) P.
Proof.
  intros A d a P H. destruct a as [v|l|rows|bl]; cbn [norm_x process_points] in H.
  - destruct (Nat.eqb d 1) eqn:E; [|discriminate]. injection H as <-.
    apply Nat.eqb_eq in E. subst d. repeat constructor.
  - destruct (Nat.eqb d 1) eqn:E.
    + injection H as <-. apply Nat.eqb_eq in E. subst d. apply column_shape.
    + destruct (Nat.eqb (length l) d) eqn:E2; [|discriminate]. injection H as <-.
      apply Nat.eqb_eq in E2. repeat constructor. exact E2.
  - destruct (ncols rows) as [c|] eqn:Ec; [|discriminate].
    destruct (Nat.eqb c d) eqn:E; [|discriminate]. injection H as <-.
    apply Nat.eqb_eq in E. subst c. now apply ncols_spec.
  - discriminate.
Qed.

(* nothing is dropped, duplicated, reordered or converted: the rows, read in order, are the
   caller's entries in row-major order *)
Lemma process_points_flat : forall {A} d (a : arg A) P,
  process_points d a = Some P -> concat P = flat a.
Proof.
  intros A d a P H. destruct a as [v|l|rows|bl]; cbn [norm_x process_points] in H.
  - destruct (Nat.eqb d 1); [|discriminate]. now injection H as <-.
  - destruct (Nat.eqb d 1).
    + injection H as <-. apply column_flat.
    + destruct (Nat.eqb (length l) d); [|discriminate]. injection H as <-. simpl. apply app_nil_r.
  - destruct (ncols rows) as [c|]; [|discriminate].
    destruct (Nat.eqb c d); [|discriminate]. now injection H as <-.
  - discriminate.
Qed.

(* naturality: the normalisation commutes with ANY entry-wise conversion f *)
Lemma process_points_amap : forall {A B} (f : A -> B) d (a : arg A),
  process_points d (amap f a) = option_map (map (map f)) (process_points d a).
Proof.
  intros A B f d a. destruct a as [v|l|rows|bl]; cbn [norm_x process_points amap].
  - destruct (Nat.eqb d 1); reflexivity.
  - rewrite map_length. destruct (Nat.eqb d 1); simpl; [now rewrite column_map|].
    destruct (Nat.eqb (length l) d); reflexivity.
  - rewrite ncols_map. destruct (ncols rows) as [c|]; [|reflexivity].
    destruct (Nat.eqb c d); reflexivity.
  - reflexivity.
Qed.

(* the documented forms are accepted *)
Lemma process_points_2d : forall {A} d (rows : list (list A)),
  rows <> [] -> Forall (fun r => length r = d) rows -> process_points d (A2 rows) = Some rows.
Proof. intros A d rows Hne H. simpl. rewrite (ncols_complete rows d Hne H), Nat.eqb_refl. reflexivity. Qed.

Lemma process_points_1d : forall {A} (l : list A), process_points 1 (A1 l) = Some (column l).
Proof. reflexivity. Qed.

Lemma process_points_scalar : forall {A} (v : A), process_points 1 (A0 v) = Some [[v]].
Proof. reflexivity. Qed.

Lemma process_points_single : forall {A} d (l : list A),
  d <> 1%nat -> length l = d -> process_points d (A1 l) = Some [l].
Proof.
  intros A d l Hd Hl. simpl. destruct (Nat.eqb d 1) eqn:E; [now apply Nat.eqb_eq in E|].
  now rewrite Hl, Nat.eqb_refl.
Qed.

(* one-dimensional data: the flat form and the column form of the same points are equivalent *)
Lemma process_points_1d_forms : forall {A} (l : list A), l <> [] ->
  process_points 1 (A2 (column l)) = process_points 1 (A1 l).
Proof.
  intros A l Hne. rewrite process_points_1d. apply process_points_2d; [|apply column_shape].
  destruct l; [contradiction|discriminate].
Qed.

(* ------------------------------------------------------------------ *)
(* the constructor                                                     *)

Lemma norm_x_shape : forall {A} (a : arg A) n d X,
  norm_x a n = Some (d, X) -> length X = n /\ Forall (fun r => length r = d) X.
Proof.
  intros A a n d X H. destruct a as [v|l|rows|bl]; cbn [norm_x process_points] in H.
  - destruct (Nat.eqb 1 n) eqn:E; [|discriminate]. injection H as <- <-.
    apply Nat.eqb_eq in E. split; [exact E|repeat constructor].
  - destruct (Nat.eqb (length l) n) eqn:E; [|discriminate]. injection H as <- <-.
    apply Nat.eqb_eq in E. split; [now rewrite column_length|apply column_shape].
  - destruct (ncols rows) as [c|] eqn:Ec; [|discriminate].
    destruct (Nat.eqb (length rows) n) eqn:E; [|discriminate]. injection H as <- <-.
    apply Nat.eqb_eq in E. split; [exact E|now apply ncols_spec].
  - discriminate.
Qed.

Lemma norm_x_flat : forall {A} (a : arg A) n d X, norm_x a n = Some (d, X) -> concat X = flat a.
Proof.
  intros A a n d X H. destruct a as [v|l|rows|bl]; cbn [norm_x process_points] in H.
  - destruct (Nat.eqb 1 n); [|discriminate]. now injection H as <- <-.
  - destruct (Nat.eqb (length l) n); [|discriminate]. injection H as <- <-. apply column_flat.
  - destruct (ncols rows) as [c|]; [|discriminate].
    destruct (Nat.eqb (length rows) n); [|discriminate]. now injection H as <- <-.
  - discriminate.
Qed.

Lemma norm_x_amap : forall {A B} (f : A -> B) (a : arg A) n,
  norm_x (amap f a) n = option_map (fun dX => (fst dX, map (map f) (snd dX))) (norm_x a n).
Proof.
  intros A B f a n. destruct a as [v|l|rows|bl]; cbn [norm_x process_points amap].
  - destruct (Nat.eqb 1 n); reflexivity.
  - rewrite map_length. destruct (Nat.eqb (length l) n); simpl; [now rewrite column_map|reflexivity].
  - rewrite ncols_map, map_length. destruct (ncols rows) as [c|]; [|reflexivity].
    destruct (Nat.eqb (length rows) n); reflexivity.
  - reflexivity.
Qed.

Lemma norm_x_2d : forall {A} d (rows : list (list A)),
  rows <> [] -> Forall (fun r => length r = d) rows -> norm_x (A2 rows) (length rows) = Some (d, rows).
Proof. intros A d rows Hne H. simpl. rewrite (ncols_complete rows d Hne H), Nat.eqb_refl. reflexivity. Qed.

Lemma norm_x_1d : forall {A} (l : list A), norm_x (A1 l) (length l) = Some (1%nat, column l).
Proof. intros A l. simpl. now rewrite Nat.eqb_refl. Qed.

(* ------------------------------------------------------------------ *)
(* coordinates as real numbers                                         *)

Definition coords {A} (val : A -> R) (rows : list (list A)) : list pt := map (map val) rows.

(* The caller's data are held in two ways (entry types A, B for x and C, D for the points,
   e.g. numpy int32 and python float against numpy float64) with the same shape and the same
   real values.  Then the second is accepted iff the first is, with the same number of
   dimensions, and the coordinate rows handed to the kernels are the same real numbers. *)
Lemma inputs_values_only : forall {A B C D} (va : A -> R) (vb : B -> R) (vc : C -> R) (vd : D -> R)
  (ax : arg A) (bx : arg B) (cq : arg C) (dq : arg D) n d X P,
  amap va ax = amap vb bx -> amap vc cq = amap vd dq ->
  norm_x ax n = Some (d, X) -> process_points d cq = Some P ->
  exists X' P', norm_x bx n = Some (d, X') /\ process_points d dq = Some P'
                /\ coords vb X' = coords va X /\ coords vd P' = coords vc P.
Proof.
  intros A B C D va vb vc vd ax bx cq dq n d X P Hx Hq HX HP.
  pose proof (norm_x_amap va ax n) as E1. rewrite HX in E1. simpl in E1.
  rewrite Hx, norm_x_amap in E1.
  destruct (norm_x bx n) as [[d' X']|]; simpl in E1; [|discriminate].
  injection E1 as Ed EX. subst d'.
  pose proof (process_points_amap vc d cq) as E2. rewrite HP in E2. simpl in E2.
  rewrite Hq, process_points_amap in E2.
  destruct (process_points d dq) as [P'|]; simpl in E2; [|discriminate].
  injection E2 as EP.
  exists X', P'. unfold coords. repeat split; assumption.
Qed.

(* ... hence the five inputs of the GP model agree entry by entry, for every kernel, mean
   function and hyper-parameter vector *)
Lemma gp_inputs_values_only : forall {A B C D} (va : A -> R) (vb : B -> R) (vc : C -> R) (vd : D -> R)
  (ax : arg A) (bx : arg B) (cq : arg C) (dq : arg D) n d X P K M th mth,
  amap va ax = amap vb bx -> amap vc cq = amap vd dq ->
  norm_x ax n = Some (d, X) -> process_points d cq = Some P ->
  exists X' P', norm_x bx n = Some (d, X') /\ process_points d dq = Some P'
    /\ gp_inputs_agree K K M (coords va X) (coords vb X') (coords vc P) (coords vd P') th th mth.
Proof.
  intros A B C D va vb vc vd ax bx cq dq n d X P K M th mth Hx Hq HX HP.
  destruct (inputs_values_only va vb vc vd ax bx cq dq n d X P Hx Hq HX HP)
    as [X' [P' [H1 [H2 [H3 H4]]]]].
  exists X', P'. split; [exact H1|]. split; [exact H2|].
  rewrite H3, H4. repeat split; intros; reflexivity.
Qed.

(* the coordinates the kernels see are the caller's values in row-major order *)
Lemma process_points_values : forall {A} (val : A -> R) d (a : arg A) P,
  process_points d a = Some P ->
  concat (coords val P) = map val (flat a) /\ Forall (fun r => length r = d) (coords val P).
Proof.
  intros A val d a P H. split.
  - unfold coords. rewrite <- (process_points_flat d a P H). now rewrite concat_map.
  - pose proof (process_points_shape d a P H) as Hs. unfold coords.
    apply Forall_forall. intros r Hr. apply in_map_iff in Hr as [r0 [<- Hr0]].
    rewrite map_length. revert r0 Hr0. now apply Forall_forall.
Qed.

(* ------------------------------------------------------------------ *)
(* casting the query to the dtype of the training data changes the posterior          *)

Open Scope R_scope.

Lemma cast_points_refuted :
  exists (x q : arg Q) (n d : nat) (X P P' : list (list Q)),
    norm_x x n = Some (d, X) /\ process_points d q = Some P
    /\ cast_points trunc_q d q = Some P'
    /\ gp_Kqx (se 1) (coords Q2R X) (coords Q2R P') [0; 0] 0 2
       <> gp_Kqx (se 1) (coords Q2R X) (coords Q2R P) [0; 0] 0 2.
Proof.
  exists (A1 [0%Q; 1%Q; 2%Q]), (A0 (11 # 4)%Q), 3%nat, 1%nat,
         [[0%Q]; [1%Q]; [2%Q]], [[(11 # 4)%Q]], [[inject_Z 2]].
  repeat split.
  unfold gp_Kqx, coords, point. cbn [kval se nth map]. unfold se_val, se_expo, se_dist, coord, par.
  cbn [Rsum seq nth]. unfold Q2R. cbn [Qnum Qden inject_Z].
  apply Rgt_not_eq. apply Rlt_gt.
  apply Rmult_lt_compat_l; [apply pow_lt; apply exp_pos|].
  apply exp_increasing. rewrite exp_0. lra.
Qed.

(* ------------------------------------------------------------------ *)
(* D42: squared differences in the integer dtype of the data                          *)

Lemma sq_diff_exact : forall a b, IZR (sq_diff a b) = (IZR a - IZR b) ^ 2.
Proof. intros a b. unfold sq_diff. rewrite mult_IZR, minus_IZR. ring. Qed.

(* in range of the dtype *)
Definition fits (bits : positive) (signed : bool) (z : Z) : Prop := wrap bits signed z = z.

Lemma sq_diff_pinned_refuted :
  exists bits signed a b, fits bits signed a /\ fits bits signed b
    /\ IZR (sq_diff_pinned bits signed a b) <> (IZR a - IZR b) ^ 2.
Proof.
  exists 32%positive, true, 0%Z, 100000%Z. split; [reflexivity|]. split; [reflexivity|].
  rewrite <- sq_diff_exact. intros H. apply eq_IZR in H. vm_compute in H. discriminate.
Qed.

(* int64 nano-second time stamps ten seconds apart; unsigned bytes 16 apart *)
Lemma sq_diff_pinned_refuted_int64 :
  fits 64 true 10000000000 /\ sq_diff_pinned 64 true 0 10000000000 <> sq_diff 0 10000000000.
Proof. split; [reflexivity|]. vm_compute. discriminate. Qed.

Lemma sq_diff_pinned_refuted_uint8 :
  fits 8 false 16 /\ sq_diff_pinned 8 false 0 16 <> sq_diff 0 16.
Proof. split; [reflexivity|]. vm_compute. discriminate. Qed.

(* why the small examples of the test-suite never showed it: while the true square fits,
   the wrapped arithmetic is exact (signed dtypes) *)
Lemma wrap_id : forall bits z,
  (- 2 ^ (Zpos bits - 1) <= z < 2 ^ (Zpos bits - 1))%Z -> wrap bits true z = z.
Proof.
  intros bits z H. unfold wrap.
  assert (Hm : (2 ^ Zpos bits = 2 * 2 ^ (Zpos bits - 1))%Z).
  { replace (Zpos bits) with (Z.succ (Zpos bits - 1)) at 1 by lia. apply Z.pow_succ_r. lia. }
  assert (Hp : (0 < 2 ^ (Zpos bits - 1))%Z) by (apply Z.pow_pos_nonneg; lia).
  set (h := (2 ^ (Zpos bits - 1))%Z) in *. rewrite Hm.
  replace (2 * h / 2)%Z with h by (rewrite Z.mul_comm, Z.div_mul; lia).
  destruct (Z_lt_le_dec z 0) as [Hneg|Hpos].
  - assert (E : (z mod (2 * h) = z + 2 * h)%Z).
    { symmetry. apply (Zmod_unique z (2 * h) (-1)); lia. }
    rewrite E. destruct (Z.ltb_spec (z + 2 * h) h); lia.
  - rewrite Z.mod_small by lia. destruct (Z.ltb_spec z h); lia.
Qed.

Lemma sq_diff_pinned_small : forall bits a b,
  ((a - b) * (a - b) < 2 ^ (Zpos bits - 1))%Z -> sq_diff_pinned bits true a b = sq_diff a b.
Proof.
  intros bits a b H. unfold sq_diff_pinned, sq_diff.
  assert (Hp : (0 < 2 ^ (Zpos bits - 1))%Z) by (apply Z.pow_pos_nonneg; lia).
  set (t := (a - b)%Z) in *. set (h := (2 ^ (Zpos bits - 1))%Z) in *.
  assert (H1 : (t <= t * t)%Z) by nia. assert (H2 : (- t <= t * t)%Z) by nia.
  assert (H3 : (0 <= t * t)%Z) by nia.
  assert (Hd : (- h <= t < h)%Z) by lia.
  rewrite (wrap_id bits t Hd). apply wrap_id. fold h. lia.
Qed.
