(* Lemmas about the growth of the stored history under completed and interrupted
   calls (Model/ReadoutsSteps.v), property C14. *)
From Coq Require Import List ZArith Bool Arith Lia.
From IT Require Import Model.Readouts Proofs.ReadoutsProofs Model.ReadoutsSteps.
Import ListNotations.

(* ------------------------------------------------------------------ programs *)
Definition no_eval (c : list op) : Prop := Forall (fun o => is_eval o = false) c.

Lemma exec_all_app a b st : exec_all (a ++ b) st = exec_all b (exec_all a st).
Proof. apply fold_left_app. Qed.

Lemma run_no_eval c : forall k st, no_eval c -> run k c st = exec_all c st.
Proof.
  induction c as [|o t IH]; intros k st H; [reflexivity|].
  inversion H as [|? ? Ho Ht]; subst.
  destruct o; simpl in Ho; try discriminate; unfold exec_all; simpl; apply IH; exact Ht.
Qed.

Lemma trace_no_eval lay c : forall k st, no_eval c -> trace lay k c st = [].
Proof.
  induction c as [|o t IH]; intros k st H; [reflexivity|].
  inversion H as [|? ? Ho Ht]; subst.
  destruct o; simpl in Ho; try discriminate; simpl; apply IH; exact Ht.
Qed.

(* the k-th evaluation raises, k within the evaluations: nothing is executed after it *)
Lemma run_evals_crash ne : forall k c st, 1 <= k <= ne -> run k (repeat Eval ne ++ c) st = st.
Proof.
  induction ne as [|ne IH]; intros k c st Hk; [lia|].
  simpl. destruct k as [|[|k']]; [lia|reflexivity|]. apply IH. lia.
Qed.

Lemma run_evals_pass ne : forall k c st, k = 0 \/ ne < k ->
  run k (repeat Eval ne ++ c) st = run (k - ne) c st.
Proof.
  induction ne as [|ne IH]; intros k c st Hk.
  - simpl. rewrite Nat.sub_0_r. reflexivity.
  - simpl repeat. simpl app. destruct k as [|[|k']].
    + simpl. rewrite IH by (left; reflexivity). reflexivity.
    + lia.
    + simpl run. rewrite IH by (right; lia). reflexivity.
Qed.

Lemma trace_evals lay ne : forall k c st, no_eval c ->
  trace lay k (repeat Eval ne ++ c) st
  = repeat (shape_of lay st) (if k =? 0 then ne else Nat.min k ne).
Proof.
  induction ne as [|ne IH]; intros k c st Hc.
  - simpl. rewrite trace_no_eval by exact Hc. destruct k; reflexivity.
  - simpl repeat at 1. simpl app. destruct k as [|[|k']].
    + simpl. rewrite IH by exact Hc. reflexivity.
    + reflexivity.
    + simpl trace. rewrite IH by exact Hc. reflexivity.
Qed.

Lemma push_cols_no_eval r : forall i, no_eval (push_cols i r).
Proof.
  induction r as [|v t IH]; intros i; simpl; constructor; [reflexivity|apply IH].
Qed.

Lemma commit_no_eval lay rows ps : no_eval (commit lay rows ps).
Proof.
  unfold no_eval. destruct lay; simpl.
  - generalize (combine rows ps). intros l. induction l as [|rp t IH]; simpl; [constructor|].
    apply Forall_app. split; [|exact IH]. unfold commit_one.
    apply Forall_app. split; [apply push_cols_no_eval|]. constructor; [reflexivity|constructor].
  - apply Forall_app. split; apply Forall_forall; intros o Ho; apply in_map_iff in Ho;
      destruct Ho as [x [Hx _]]; subst; reflexivity.
Qed.

(* ------------------------------------------------------------------ one call *)
(* every crash point inside a call leaves the store exactly as it was *)
Lemma interrupted_step_no_effect lay s st :
  1 <= s_crash s <= s_evals s -> run_step lay st s = st.
Proof. intros H. unfold run_step, step_prog. apply run_evals_crash. exact H. Qed.

Lemma completed_step_commits lay s st :
  completed s = true -> run_step lay st s = exec_all (commit lay (s_rows s) (s_probs s)) st.
Proof.
  intros H. unfold completed in H. apply orb_true_iff in H.
  unfold run_step, step_prog. rewrite run_evals_pass.
  - apply run_no_eval. apply commit_no_eval.
  - destruct H as [H|H]; [left; apply Nat.eqb_eq; exact H|right; apply Nat.ltb_lt; exact H].
Qed.

Lemma not_completed_crash s : completed s = false -> 1 <= s_crash s <= s_evals s.
Proof.
  unfold completed. intros H. apply orb_false_iff in H. destruct H as [H1 H2].
  apply Nat.eqb_neq in H1. apply Nat.ltb_ge in H2. lia.
Qed.

(* every evaluation of a call, whether the call completes or is interrupted, sees the
   store as it was before the call *)
Lemma step_trace lay s st :
  trace lay (s_crash s) (step_prog lay s) st
  = repeat (shape_of lay st)
           (if s_crash s =? 0 then s_evals s else Nat.min (s_crash s) (s_evals s)).
Proof. unfold step_prog. apply trace_evals. apply commit_no_eval. Qed.

(* ------------------------------------------------------------------ the writes *)
Lemma exec_push_rows rows : forall d p, exec_all (map PushRow rows) (d, p) = (d ++ rows, p).
Proof.
  induction rows as [|r t IH]; intros d p; simpl.
  - rewrite app_nil_r. reflexivity.
  - unfold exec_all in *. simpl. rewrite IH. rewrite <- app_assoc. reflexivity.
Qed.

Lemma exec_push_probs ps : forall d p, exec_all (map PushProb ps) (d, p) = (d, p ++ ps).
Proof.
  induction ps as [|q t IH]; intros d p; simpl.
  - rewrite app_nil_r. reflexivity.
  - unfold exec_all in *. simpl. rewrite IH. rewrite <- app_assoc. reflexivity.
Qed.

(* column-major: one value appended to every parameter list *)
Definition snoc_cols (data : list (list Z)) (r : list Z) : list (list Z) :=
  map (fun cv => fst cv ++ [snd cv]) (combine data r).

Lemma push_col_app pre c t v :
  push_col (length pre) v (pre ++ c :: t) = pre ++ (c ++ [v]) :: t.
Proof. induction pre as [|x pre IH]; simpl; [reflexivity|]. rewrite IH. reflexivity. Qed.

Lemma exec_push_cols r : forall pre data probs, length data = length r ->
  exec_all (push_cols (length pre) r) (pre ++ data, probs) = (pre ++ snoc_cols data r, probs).
Proof.
  induction r as [|v t IH]; intros pre data probs Hlen.
  - destruct data; [|discriminate]. reflexivity.
  - destruct data as [|c data']; [discriminate|]. simpl in Hlen.
    unfold exec_all. simpl. rewrite push_col_app.
    replace (pre ++ (c ++ [v]) :: data') with ((pre ++ [c ++ [v]]) ++ data')
      by (rewrite <- app_assoc; reflexivity).
    replace (S (length pre)) with (length (pre ++ [c ++ [v]]))
      by (rewrite app_length; simpl; lia).
    fold (exec_all (push_cols (length (pre ++ [c ++ [v]])) t) ((pre ++ [c ++ [v]]) ++ data', probs)).
    rewrite IH by lia. unfold snoc_cols. simpl. rewrite <- app_assoc. reflexivity.
Qed.

Lemma exec_commit_one data probs r p : length data = length r ->
  exec_all (commit_one (r, p)) (data, probs) = (snoc_cols data r, probs ++ [p]).
Proof.
  intros Hlen. unfold commit_one. rewrite exec_all_app. simpl fst. simpl snd.
  pose proof (exec_push_cols r [] data probs Hlen) as H. simpl in H. rewrite H. reflexivity.
Qed.

Lemma snoc_cols_length data r : length data = length r -> length (snoc_cols data r) = length data.
Proof. intros H. unfold snoc_cols. rewrite map_length, combine_length. lia. Qed.

Lemma snoc_cols_lengths n : forall data r, length data = length r ->
  Forall (fun c => length c = n) data -> Forall (fun c => length c = S n) (snoc_cols data r).
Proof.
  induction data as [|c t IH]; intros r Hlen Hall; destruct r as [|v r']; try discriminate.
  - constructor.
  - inversion Hall; subst. unfold snoc_cols. simpl. constructor.
    + rewrite app_length. simpl. lia.
    + apply IH; [simpl in Hlen; lia|assumption].
Qed.

Lemma snoc_cols_row_old n k : forall data r, length data = length r -> k < n ->
  Forall (fun c => length c = n) data ->
  map (fun c => nth k c 0%Z) (snoc_cols data r) = map (fun c => nth k c 0%Z) data.
Proof.
  induction data as [|c t IH]; intros r Hlen Hk Hall; destruct r as [|v r']; try discriminate.
  - reflexivity.
  - inversion Hall; subst. unfold snoc_cols. simpl. f_equal.
    + apply app_nth1. lia.
    + apply IH; [simpl in Hlen; lia|exact Hk|assumption].
Qed.

Lemma snoc_cols_row_new n : forall data r, length data = length r ->
  Forall (fun c => length c = n) data ->
  map (fun c => nth n c 0%Z) (snoc_cols data r) = r.
Proof.
  induction data as [|c t IH]; intros r Hlen Hall; destruct r as [|v r']; try discriminate.
  - reflexivity.
  - inversion Hall as [|? ? Hc Ht]; subst. unfold snoc_cols. simpl. f_equal.
    + rewrite app_nth2 by lia. rewrite Nat.sub_diag. reflexivity.
    + apply IH; [simpl in Hlen; lia|assumption].
Qed.

Lemma transpose_snoc n data r : length data = length r ->
  Forall (fun c => length c = n) data ->
  transpose (S n) (snoc_cols data r) = transpose n data ++ [r].
Proof.
  intros Hlen Hall. unfold transpose. rewrite seq_S, map_app. simpl. f_equal.
  - apply map_ext_in. intros k Hk. apply in_seq in Hk.
    apply (snoc_cols_row_old n k); [exact Hlen|lia|exact Hall].
  - f_equal. apply (snoc_cols_row_new n); assumption.
Qed.

(* ------------------------------------------------------------------ the writes of one call *)
Lemma exec_commit lay npar : forall rows ps data probs n,
  wf lay data probs n -> (lay = ColMajor -> length data = npar) ->
  length rows = length ps -> Forall (fun r => length r = npar) rows ->
  let st' := exec_all (commit lay rows ps) (data, probs) in
  wf lay (fst st') (snd st') (n + length rows) /\
  (lay = ColMajor -> length (fst st') = npar) /\
  all_rows lay (fst st') (n + length rows) = all_rows lay data n ++ rows /\
  snd st' = probs ++ ps.
Proof.
  destruct lay.
  - (* ColMajor: one row at a time *)
    induction rows as [|r rows IH]; intros ps data probs n Hwf Hnp Hlen Hrows;
      destruct ps as [|p ps]; try discriminate.
    + simpl. rewrite Nat.add_0_r, !app_nil_r. repeat split; try apply Hwf. exact Hnp.
    + inversion Hrows as [|? ? Hr Hrest]; subst.
      destruct Hwf as [Hp [Hne Hall]]. specialize (Hnp eq_refl).
      assert (Hdl : length data = length r) by lia.
      cbv zeta. simpl commit. rewrite exec_all_app. rewrite exec_commit_one by exact Hdl.
      assert (Hwf' : wf ColMajor (snoc_cols data r) (probs ++ [p]) (S n)).
      { split; [rewrite app_length; simpl; lia|]. split.
        - intros E. apply (f_equal (@length _)) in E. rewrite snoc_cols_length in E by exact Hdl.
          destruct data; [congruence|discriminate].
        - apply snoc_cols_lengths; assumption. }
      assert (Hnp' : ColMajor = ColMajor -> length (snoc_cols data r) = length r).
      { intros _. rewrite snoc_cols_length by exact Hdl. exact Hdl. }
      simpl in Hlen.
      destruct (IH ps (snoc_cols data r) (probs ++ [p]) (S n) Hwf' Hnp' ltac:(lia) Hrest)
        as [H1 [H2 [H3 H4]]].
      simpl commit in H1, H2, H3, H4.
      replace (n + length (r :: rows)) with (S n + length rows) by (simpl; lia).
      repeat split.
      * apply H1.
      * apply H1.
      * apply H1.
      * exact H2.
      * rewrite H3. simpl all_rows. rewrite (transpose_snoc n) by assumption.
        rewrite <- app_assoc. reflexivity.
      * rewrite H4. rewrite <- app_assoc. reflexivity.
  - (* RowMajor: the block of rows, then the block of log-probabilities *)
    intros rows ps data probs n [Hp Hd] _ Hlen _. cbv zeta. simpl commit.
    rewrite exec_all_app, exec_push_rows, exec_push_probs. simpl.
    repeat split.
    + rewrite app_length. lia.
    + rewrite app_length. lia.
    + discriminate.
Qed.

(* ------------------------------------------------------------------ histories *)
Lemma completed_rows_cons s t :
  completed_rows (s :: t) = if completed s then s_rows s ++ completed_rows t else completed_rows t.
Proof. unfold completed_rows. simpl. destruct (completed s); reflexivity. Qed.

Lemma completed_probs_cons s t :
  completed_probs (s :: t) = if completed s then s_probs s ++ completed_probs t else completed_probs t.
Proof. unfold completed_probs. simpl. destruct (completed s); reflexivity. Qed.

(* after any history of completed and interrupted calls the store is a well-formed chain
   that consists of the chain before it followed by the rows of the completed calls *)
Lemma history_store lay npar steps : forall data probs n,
  wf lay data probs n -> (lay = ColMajor -> length data = npar) ->
  Forall (step_ok npar) steps ->
  let st' := run_history lay steps (data, probs) in
  let N := n + length (completed_rows steps) in
  wf lay (fst st') (snd st') N /\
  all_rows lay (fst st') N = all_rows lay data n ++ completed_rows steps /\
  snd st' = probs ++ completed_probs steps.
Proof.
  induction steps as [|s t IH]; intros data probs n Hwf Hnp Hok.
  - cbv zeta. simpl. rewrite Nat.add_0_r, !app_nil_r. repeat split; apply Hwf.
  - inversion Hok as [|? ? [Hlen Hrows] Hokt]; subst. cbv zeta.
    unfold run_history. simpl fold_left. fold (run_history lay t (run_step lay (data, probs) s)).
    rewrite completed_rows_cons, completed_probs_cons.
    destruct (completed s) eqn:Hc.
    + rewrite completed_step_commits by exact Hc.
      destruct (exec_commit lay npar (s_rows s) (s_probs s) data probs n Hwf Hnp Hlen Hrows)
        as [H1 [H2 [H3 H4]]].
      remember (exec_all (commit lay (s_rows s) (s_probs s)) (data, probs)) as st1.
      destruct st1 as [d1 p1]. simpl in H1, H2, H3, H4.
      destruct (IH d1 p1 (n + length (s_rows s)) H1 H2 Hokt) as [G1 [G2 G3]].
      rewrite app_length.
      replace (n + (length (s_rows s) + length (completed_rows t)))
        with (n + length (s_rows s) + length (completed_rows t)) by lia.
      repeat split.
      * apply G1.
      * apply G1.
      * rewrite G2, H3, <- app_assoc. reflexivity.
      * rewrite G3, H4, <- app_assoc. reflexivity.
    + rewrite interrupted_step_no_effect by (apply not_completed_crash; exact Hc).
      apply IH; assumption.
Qed.

Lemma chain_row_all_rows lay data probs n j : wf lay data probs n -> j < n ->
  chain_row lay data j = nth j (all_rows lay data n) [].
Proof.
  intros Hwf Hj. destruct lay; simpl; [|reflexivity].
  unfold transpose.
  rewrite (nth_map_default (fun k => map (fun c => nth k c 0%Z) data) (seq 0 n) j 0 [])
    by (rewrite seq_length; exact Hj).
  rewrite seq_nth by exact Hj. reflexivity.
Qed.

(* the read-outs after any history of completed and interrupted calls *)
Lemma readouts_after_interruptions lay npar steps data probs n i burn thin :
  1 <= thin -> wf lay data probs n -> (lay = ColMajor -> length data = npar /\ i < npar) ->
  Forall (step_ok npar) steps ->
  let st' := run_history lay steps (data, probs) in
  let rows := all_rows lay data n ++ completed_rows steps in
  let ps := probs ++ completed_probs steps in
  let L := slice_len (length ps) burn thin in
  length rows = length ps /\
  length (get_sample lay (fst st') burn thin) = L /\
  length (get_parameter lay (fst st') i burn thin) = L /\
  length (get_probabilities (snd st') burn thin) = L /\
  forall k, k < L ->
    burn + k * thin < length ps /\
    nth k (get_sample lay (fst st') burn thin) [] = nth (burn + k * thin) rows [] /\
    nth k (get_parameter lay (fst st') i burn thin) 0%Z
      = nth i (nth (burn + k * thin) rows []) 0%Z /\
    nth k (get_probabilities (snd st') burn thin) 0%Z = nth (burn + k * thin) ps 0%Z.
Proof.
  intros Hthin Hwf Hnp Hok. cbv zeta.
  assert (Hnp1 : lay = ColMajor -> length data = npar) by (intros E; apply Hnp; exact E).
  destruct (history_store lay npar steps data probs n Hwf Hnp1 Hok) as [H1 [H2 H3]].
  cbv zeta in H1, H2, H3.
  set (st' := run_history lay steps (data, probs)) in *.
  set (N := n + length (completed_rows steps)) in *.
  assert (HN : length (probs ++ completed_probs steps) = N).
  { rewrite <- H3. apply H1. }
  assert (Hi : lay = ColMajor -> i < length (fst st')).
  { intros E. subst lay. destruct H1 as [_ [_ Hall]].
    destruct (history_store ColMajor npar steps data probs n Hwf Hnp1 Hok) as [_ [G2 _]].
    cbv zeta in G2. fold st' in G2. fold N in G2.
    (* the number of parameter lists never changes *)
    assert (Hlen : length (fst st') = length data).
    { clear -Hok Hwf Hnp1. unfold st'. clear st'.
      revert data probs n Hwf Hnp1. induction steps as [|s t IH]; intros data probs n Hwf Hnp1.
      - reflexivity.
      - inversion Hok as [|? ? [Hlen Hrows] Hokt]; subst.
        unfold run_history. simpl fold_left. fold (run_history ColMajor t (run_step ColMajor (data, probs) s)).
        destruct (completed s) eqn:Hc.
        + rewrite completed_step_commits by exact Hc.
          destruct (exec_commit ColMajor (length data) (s_rows s) (s_probs s) data probs n Hwf
                      (fun _ => eq_refl)) as [K1 [K2 _]].
          * exact Hlen.
          * rewrite (Hnp1 eq_refl). exact Hrows.
          * remember (exec_all (commit ColMajor (s_rows s) (s_probs s)) (data, probs)) as st1.
            destruct st1 as [d1 p1]. simpl in K1, K2.
            rewrite (IH Hokt d1 p1 _ K1); [apply K2; reflexivity|].
            intros _. rewrite (K2 eq_refl). apply Hnp1. reflexivity.
        + rewrite interrupted_step_no_effect by (apply not_completed_crash; exact Hc).
          apply (IH Hokt data probs n Hwf Hnp1). }
    rewrite Hlen. destruct (Hnp eq_refl) as [E1 E2]. lia. }
  destruct (readouts_aligned lay (fst st') (snd st') N i burn thin Hthin H1 Hi)
    as [A1 [A2 [A3 A4]]].
  rewrite HN. split.
  - rewrite <- H2. destruct lay; simpl.
    + unfold transpose. rewrite map_length, seq_length. reflexivity.
    + apply H1.
  - repeat split; try assumption.
    + destruct (A4 k H) as [B1 _]. exact B1.
    + destruct (A4 k H) as [B1 [B2 _]]. rewrite B2.
      rewrite (chain_row_all_rows lay (fst st') (snd st') N) by assumption.
      rewrite H2. reflexivity.
    + destruct (A4 k H) as [B1 [B2 [B3 _]]]. rewrite B3, B2.
      rewrite (chain_row_all_rows lay (fst st') (snd st') N) by assumption.
      rewrite H2. reflexivity.
    + destruct (A4 k H) as [B1 [B2 [B3 B4]]]. rewrite B4, H3. reflexivity.
Qed.

(* ------------------------------------------------------------------ the ordering is necessary *)
(* a Gibbs step that stores each parameter's value inside the update loop (not the pinned
   code): interrupted while the second parameter is updated, it leaves one value more for
   the first parameter than for the second and the log-probabilities *)
Lemma nonatomic_step_refuted :
  exists es r p k data probs,
    wf ColMajor data probs 1 /\
    let st' := run k (gibbs_interleaved_prog es r p) (data, probs) in
    length (get_parameter ColMajor (fst st') 0 0 1) = 2 /\
    length (get_parameter ColMajor (fst st') 1 0 1) = 1 /\
    length (get_probabilities (snd st') 0 1) = 1 /\
    (forall m, ~ wf ColMajor (fst st') (snd st') m) /\
    (* while the uninterrupted step is the same as the pinned one *)
    run 0 (gibbs_interleaved_prog es r p) (data, probs)
    = run_step ColMajor (data, probs) (mkStep 2 [r] [p] 0).
Proof.
  exists [1; 1], [5; 6]%Z, 7%Z, 2, [[1]; [2]]%Z, [0]%Z.
  split; [|cbv zeta; repeat split].
  - split; [reflexivity|]. split; [discriminate|]. repeat constructor.
  - intros m [Hp [_ Hall]]. vm_compute in Hp, Hall.
    inversion Hall as [|? ? Ha Hb]; subst. inversion Hb as [|? ? Hc _]; subst. discriminate.
Qed.
