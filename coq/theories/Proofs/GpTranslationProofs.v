(* Proofs/GpTranslationProofs.v -- the inputs of the GP-regression model (property C02)
   as functions of the COORDINATES, and their invariance under a common translation
   of training and query points.

   Matrix/GpModel.v takes the kernel / mean-function values as inputs
       K_xx = cov.build_covariance(theta)      K_qx = cov(q, x, theta)
       K_qq = cov(q, q, theta)                 mu = mean.build_mean(theta)    mu_q = mean(q, theta)
   Here they are tied to the data through the real-valued models of covariance.py /
   mean.py (RealModel/Kernels.v, RealModel/Means.v):  gp_Kxx, gp_Kqx, gp_Kqq, gp_mu, gp_muq.
   The documented kernels depend on the coordinates only through coordinate DIFFERENCES
   (SquaredExponential, RationalQuadratic; noise kernels not at all), the change-point
   kernel through x - location, the mean functions through x - mean(x).  Hence all five
   inputs -- and with them every output of the regressor, which Matrix/GpModel.v computes
   from these five and y, y_err / y_cov alone -- are unchanged when one vector c is added
   to every training point and every query point (and c[axis] to the change-point
   locations).  The correspondence run of C02 evaluates gp_Kxx / gp_Kqx / gp_Kqq with
   coq-interval on data carrying offsets up to 2^30 against what the real kernel objects
   return, and uses the invariance as the oracle that looks for a failing input. *)
From Coq Require Import Reals List Arith ZArith Lia Lra.
From IT Require Import Model.Slices RealModel.Kernels RealModel.Means Proofs.KernelsProofs.
Import ListNotations.
Open Scope R_scope.

(* ------------------------------------------------------------------ *)
(* translations                                                        *)

(* u' = u + c, coordinate by coordinate *)
Definition translated (c u u' : pt) : Prop := forall k, coord u' k = coord u k + coord c k.

(* xs' = the same number of points, each translated by c *)
Definition all_translated (c : pt) (xs xs' : list pt) : Prop :=
  length xs' = length xs /\ forall i, (i < length xs)%nat -> translated c (point xs i) (point xs' i).

(* the concrete translation of a point of the same dimension as c *)
Definition shift (c u : pt) : pt := map (fun p => fst p + snd p) (combine u c).

Lemma shift_translated : forall c u, length c = length u -> translated c u (shift c u).
Proof.
  intros c u; revert c. induction u as [|a r IH]; intros [|b c'] H k; simpl in H; try discriminate.
  - unfold coord; destruct k; simpl; lra.
  - unfold shift, coord. destruct k; simpl; [lra|].
    apply (IH c'). now injection H.
Qed.

Lemma map_shift_translated : forall c xs, (forall u, In u xs -> length u = length c) ->
  all_translated c xs (map (shift c) xs).
Proof.
  intros c xs H. split; [apply map_length|].
  intros i Hi. unfold point.
  rewrite (nth_indep (map (shift c) xs) [] (shift c [])) by now rewrite map_length.
  rewrite map_nth. apply shift_translated. symmetry. apply H. now apply nth_In.
Qed.

(* ------------------------------------------------------------------ *)
(* stationary kernels: __call__ and build_covariance see coordinate differences only *)

Definition stationary (K : kernel) : Prop :=
  (forall c th u v u' v', translated c u u' -> translated c v v' ->
     kval K th u' v' = kval K th u v)
  /\ (forall c th xs xs' i j,
        translated c (point xs i) (point xs' i) -> translated c (point xs j) (point xs' j) ->
        kbuild K xs' th i j = kbuild K xs th i j).

Lemma se_dist_transl : forall c u v u' v' k, translated c u u' -> translated c v v' ->
  se_dist u' v' k = se_dist u v k.
Proof. intros c u v u' v' k Hu Hv. unfold se_dist. rewrite (Hu k), (Hv k). ring. Qed.

Lemma rq_dist_transl : forall c u v u' v' k, translated c u u' -> translated c v v' ->
  rq_dist u' v' k = rq_dist u v k.
Proof. intros c u v u' v' k Hu Hv. unfold rq_dist. rewrite (Hu k), (Hv k). ring. Qed.

Lemma se_expo_transl : forall d th c u v u' v', translated c u u' -> translated c v v' ->
  se_expo d th u' v' = se_expo d th u v.
Proof.
  intros d th c u v u' v' Hu Hv. unfold se_expo. apply Rsum_ext. intros k _.
  now rewrite (se_dist_transl c u v u' v' k Hu Hv).
Qed.

Lemma rq_Z_transl : forall d th c u v u' v', translated c u u' -> translated c v v' ->
  rq_Z d th u' v' = rq_Z d th u v.
Proof.
  intros d th c u v u' v' Hu Hv. unfold rq_Z. apply Rsum_ext. intros k _.
  now rewrite (rq_dist_transl c u v u' v' k Hu Hv).
Qed.

Lemma se_stationary : forall d, stationary (se d).
Proof.
  intros d. split.
  - intros c th u v u' v' Hu Hv. cbn [kval se]. unfold se_val.
    now rewrite (se_expo_transl d th c u v u' v' Hu Hv).
  - intros c th xs xs' i j Hi Hj. cbn [kbuild se]. unfold se_build.
    now rewrite (se_expo_transl d th c _ _ _ _ Hi Hj).
Qed.

Lemma rq_stationary : forall d, stationary (rq d).
Proof.
  intros d. split.
  - intros c th u v u' v' Hu Hv. cbn [kval rq]. unfold rq_val, rq_C, rq_F.
    now rewrite (rq_Z_transl d th c u v u' v' Hu Hv).
  - intros c th xs xs' i j Hi Hj. cbn [kbuild rq]. unfold rq_build, rq_C, rq_F.
    now rewrite (rq_Z_transl d th c _ _ _ _ Hi Hj).
Qed.

Lemma wn_stationary : stationary wn.
Proof. split; intros; reflexivity. Qed.

Lemma hn_stationary : forall n, stationary (hn n).
Proof. intros n. split; intros; reflexivity. Qed.

(* `each` reads theta only through the slices *)
Lemma each_congr : forall {A} ks sls (f g : kernel -> list R -> A) th th',
  Forall (fun s => apply_slice s th' = apply_slice s th) sls ->
  (forall k t, In k ks -> f k t = g k t) ->
  each ks sls f th' = each ks sls g th.
Proof.
  intros A. induction ks as [|k kr IH]; intros [|s sr] f g th th' Hs H; simpl; auto.
  inversion Hs as [|? ? Hs1 Hsr]; subst.
  rewrite Hs1, H by now left. f_equal. apply IH; [exact Hsr|].
  intros k' t Hk. apply H. now right.
Qed.

Lemma sum_stationary : forall ks, Forall stationary ks -> stationary (ksum ks).
Proof.
  intros ks H. rewrite Forall_forall in H. split.
  - intros c th u v u' v' Hu Hv. cbn [kval ksum]. f_equal. apply each_ext.
    intros k t Hk. exact (proj1 (H k Hk) c t u v u' v' Hu Hv).
  - intros c th xs xs' i j Hi Hj. cbn [kbuild ksum]. f_equal. apply each_ext.
    intros k t Hk. exact (proj2 (H k Hk) c t xs xs' i j Hi Hj).
Qed.

(* ------------------------------------------------------------------ *)
(* change-point kernels: the locations move with the data                *)

Definition move_loc (s : R) (cw : R * R) : R * R := (fst cw + s, snd cw).

(* th' = th with s added to every change-point location: kernel slices untouched,
   (location, width) pairs moved *)
Definition cp_theta_translated (ks : list kernel) (s : R) (th th' : list R) : Prop :=
  Forall (fun sl => apply_slice sl th' = apply_slice sl th) (cov_slc ks)
  /\ cp_params ks th' = map (move_loc s) (cp_params ks th).

Lemma logistic_transl : forall c w x s, logistic (c + s) w (x + s) = logistic c w x.
Proof. intros. unfold logistic. replace (x + s - (c + s)) with (x - c) by ring. reflexivity. Qed.

Lemma cp_a_transl : forall cw xu xv s, cp_a (move_loc s cw) (xu + s) (xv + s) = cp_a cw xu xv.
Proof. intros [c w] xu xv s. unfold cp_a, move_loc. simpl. now rewrite !logistic_transl. Qed.

Lemma cp_b_transl : forall cw xu xv s, cp_b (move_loc s cw) (xu + s) (xv + s) = cp_b cw xu xv.
Proof. intros [c w] xu xv s. unfold cp_b, move_loc. simpl. now rewrite !logistic_transl. Qed.

Lemma coeffs_from_transl : forall cps last xu xv s,
  coeffs_from last (map (move_loc s) cps) (xu + s) (xv + s) = coeffs_from last cps xu xv.
Proof.
  induction cps as [|cw r IH]; intros last xu xv s; simpl; [reflexivity|].
  now rewrite cp_a_transl, cp_b_transl, IH.
Qed.

Lemma cp_val_transl : forall axis ks c th th' u v u' v',
  Forall stationary ks -> cp_theta_translated ks (coord c axis) th th' ->
  translated c u u' -> translated c v v' ->
  cp_val axis ks th' u' v' = cp_val axis ks th u v.
Proof.
  intros axis ks c th th' u v u' v' H [Hs Hp] Hu Hv. rewrite Forall_forall in H.
  unfold cp_val, coeffs. rewrite Hp, (Hu axis), (Hv axis), coeffs_from_transl. f_equal.
  apply each_congr; [exact Hs|].
  intros k t Hk. exact (proj1 (H k Hk) c t u v u' v' Hu Hv).
Qed.

Lemma cp_build_transl : forall axis ks c th th' xs xs' i j,
  Forall stationary ks -> cp_theta_translated ks (coord c axis) th th' ->
  translated c (point xs i) (point xs' i) -> translated c (point xs j) (point xs' j) ->
  cp_build axis ks xs' th' i j = cp_build axis ks xs th i j.
Proof.
  intros axis ks c th th' xs xs' i j H [Hs Hp] Hi Hj. rewrite Forall_forall in H.
  unfold cp_build, coeffs. rewrite Hp, (Hi axis), (Hj axis), coeffs_from_transl. f_equal.
  apply each_congr; [exact Hs|].
  intros k t Hk. exact (proj2 (H k Hk) c t xs xs' i j Hi Hj).
Qed.

(* the relation is inhabited: two-kernel change-point SE | RQ in one dimension,
   theta = [ln a1, ln l1, ln a2, ln k2, ln l2, location, width] *)
Lemma cp_theta_translated_example : forall a1 l1 a2 k2 l2 loc w s,
  cp_theta_translated [se 1; rq 1] s [a1; l1; a2; k2; l2; loc; w] [a1; l1; a2; k2; l2; loc + s; w].
Proof.
  intros. split.
  - repeat constructor.
  - reflexivity.
Qed.

(* ------------------------------------------------------------------ *)
(* mean functions: centred on the mean of the training points            *)

Lemma Rsum_plus_const : forall l (f g : nat -> R) s, (forall k, In k l -> g k = f k + s) ->
  Rsum l g = Rsum l f + INR (length l) * s.
Proof.
  induction l as [|x l IH]; intros f g s H.
  - simpl. ring.
  - change (Rsum (x :: l) g) with (g x + Rsum l g).
    change (Rsum (x :: l) f) with (f x + Rsum l f).
    change (length (x :: l)) with (S (length l)). rewrite S_INR.
    rewrite (H x) by now left. rewrite (IH f g s); [ring|].
    intros k Hk. apply H. now right.
Qed.

Lemma col_mean_transl : forall c xs xs' k, xs <> [] -> all_translated c xs xs' ->
  col_mean xs' k = col_mean xs k + coord c k.
Proof.
  intros c xs xs' k Hne [Hl Ht]. unfold col_mean. rewrite Hl.
  rewrite (Rsum_plus_const _ (fun i => coord (point xs i) k) _ (coord c k)).
  - rewrite seq_length, <- INR_IZR_INZ.
    assert (Hn : INR (length xs) <> 0).
    { apply not_0_INR. destruct xs; [contradiction|discriminate]. }
    field. exact Hn.
  - intros i Hi. apply in_seq in Hi. apply (Ht i). lia.
Qed.

Definition mean_stationary (M : meanfn) : Prop :=
  forall c xs xs' th, xs <> [] -> all_translated c xs xs' ->
    (forall q q', translated c q q' -> mcall M xs' th q' = mcall M xs th q)
    /\ (forall i, (i < length xs)%nat -> mbuild M xs' th i = mbuild M xs th i).

Lemma mdx_transl : forall c xs xs' i k, xs <> [] -> all_translated c xs xs' -> (i < length xs)%nat ->
  mdx xs' i k = mdx xs i k.
Proof.
  intros c xs xs' i k Hne Ht Hi. unfold mdx. rewrite (col_mean_transl c xs xs' k Hne Ht).
  rewrite (proj2 Ht i Hi k). ring.
Qed.

Lemma const_mean_stationary : mean_stationary const_mean.
Proof. intros c xs xs' th _ _. split; intros; reflexivity. Qed.

Lemma lin_mean_stationary : forall d, mean_stationary (lin_mean d).
Proof.
  intros d c xs xs' th Hne Ht. split.
  - intros q q' Hq. cbn [mcall lin_mean]. unfold lin_call. f_equal. apply Rsum_ext. intros k _.
    rewrite (col_mean_transl c xs xs' k Hne Ht), (Hq k). ring.
  - intros i Hi. cbn [mbuild lin_mean]. unfold lin_build. f_equal. apply Rsum_ext. intros k _.
    now rewrite (mdx_transl c xs xs' i k Hne Ht Hi).
Qed.

Lemma quad_mean_stationary : forall d, mean_stationary (quad_mean d).
Proof.
  intros d c xs xs' th Hne Ht. split.
  - intros q q' Hq. cbn [mcall quad_mean]. unfold quad_call. f_equal; [f_equal|]; apply Rsum_ext; intros k _;
      rewrite (col_mean_transl c xs xs' k Hne Ht), (Hq k); f_equal; ring.
  - intros i Hi. cbn [mbuild quad_mean]. unfold quad_build. f_equal; [f_equal|]; apply Rsum_ext; intros k _;
      now rewrite (mdx_transl c xs xs' i k Hne Ht Hi).
Qed.

(* ------------------------------------------------------------------ *)
(* the five inputs of Matrix/GpModel.v as functions of the data          *)

Definition gp_Kxx (K : kernel) (xs : list pt) (th : list R) (i j : nat) : R := kbuild K xs th i j.
Definition gp_Kqx (K : kernel) (xs qs : list pt) (th : list R) (a j : nat) : R :=
  kval K th (point qs a) (point xs j).
Definition gp_Kqq (K : kernel) (qs : list pt) (th : list R) (a b : nat) : R :=
  kval K th (point qs a) (point qs b).
Definition gp_mu (M : meanfn) (xs : list pt) (mth : list R) (i : nat) : R := mbuild M xs mth i.
Definition gp_muq (M : meanfn) (xs qs : list pt) (mth : list R) (a : nat) : R :=
  mcall M xs mth (point qs a).

(* all five agree, entry by entry, on the translated and the original data *)
Definition gp_inputs_agree (K K' : kernel) (M : meanfn) (xs xs' qs qs' : list pt)
  (th th' mth : list R) : Prop :=
  (forall i j, (i < length xs)%nat -> (j < length xs)%nat -> gp_Kxx K' xs' th' i j = gp_Kxx K xs th i j)
  /\ (forall a j, (a < length qs)%nat -> (j < length xs)%nat ->
        gp_Kqx K' xs' qs' th' a j = gp_Kqx K xs qs th a j)
  /\ (forall a b, (a < length qs)%nat -> (b < length qs)%nat ->
        gp_Kqq K' qs' th' a b = gp_Kqq K qs th a b)
  /\ (forall i, (i < length xs)%nat -> gp_mu M xs' mth i = gp_mu M xs mth i)
  /\ (forall a, (a < length qs)%nat -> gp_muq M xs' qs' mth a = gp_muq M xs qs mth a).

Lemma gp_inputs_transl_stationary : forall K M c xs xs' qs qs' th mth,
  stationary K -> mean_stationary M -> xs <> [] ->
  all_translated c xs xs' -> all_translated c qs qs' ->
  gp_inputs_agree K K M xs xs' qs qs' th th mth.
Proof.
  intros K M c xs xs' qs qs' th mth [Hv Hb] HM Hne Hx Hq.
  destruct (HM c xs xs' mth Hne Hx) as [Hmc Hmb].
  destruct Hx as [Hlx Hx]. destruct Hq as [Hlq Hq].
  repeat split.
  - intros i j Hi Hj. apply (Hb c); [now apply Hx|now apply Hx].
  - intros a j Ha Hj. apply (Hv c); [now apply Hq|now apply Hx].
  - intros a b Ha Hb'. apply (Hv c); [now apply Hq|now apply Hq].
  - intros i Hi. now apply Hmb.
  - intros a Ha. apply Hmc. now apply Hq.
Qed.

Lemma gp_inputs_transl_changepoint : forall axis ks M c xs xs' qs qs' th th' mth,
  Forall stationary ks -> mean_stationary M -> xs <> [] ->
  cp_theta_translated ks (coord c axis) th th' ->
  all_translated c xs xs' -> all_translated c qs qs' ->
  gp_inputs_agree (kcp axis ks) (kcp axis ks) M xs xs' qs qs' th th' mth.
Proof.
  intros axis ks M c xs xs' qs qs' th th' mth Hk HM Hne Hth Hx Hq.
  destruct (HM c xs xs' mth Hne Hx) as [Hmc Hmb].
  destruct Hx as [Hlx Hx]. destruct Hq as [Hlq Hq].
  repeat split.
  - intros i j Hi Hj. unfold gp_Kxx. cbn [kbuild kcp].
    apply (cp_build_transl axis ks c); auto.
  - intros a j Ha Hj. unfold gp_Kqx. cbn [kval kcp].
    apply (cp_val_transl axis ks c); auto.
  - intros a b Ha Hb. unfold gp_Kqq. cbn [kval kcp].
    apply (cp_val_transl axis ks c); auto.
  - intros i Hi. now apply Hmb.
  - intros a Ha. apply Hmc. now apply Hq.
Qed.

(* a sum that contains change-point kernels: each component with its own theta relation *)
Definition comp_translated (c : pt) (K : kernel) (th th' : list R) : Prop :=
  (forall u v u' v', translated c u u' -> translated c v v' -> kval K th' u' v' = kval K th u v)
  /\ (forall xs xs' i j,
        translated c (point xs i) (point xs' i) -> translated c (point xs j) (point xs' j) ->
        kbuild K xs' th' i j = kbuild K xs th i j).

Lemma stationary_comp_translated : forall K c th, stationary K -> comp_translated c K th th.
Proof. intros K c th [Hv Hb]. split; intros; [now apply (Hv c)|now apply (Hb c)]. Qed.

Lemma cp_comp_translated : forall axis ks c th th',
  Forall stationary ks -> cp_theta_translated ks (coord c axis) th th' ->
  comp_translated c (kcp axis ks) th th'.
Proof.
  intros axis ks c th th' Hk Hth. split.
  - intros u v u' v' Hu Hv. cbn [kval kcp]. now apply (cp_val_transl axis ks c).
  - intros xs xs' i j Hi Hj. cbn [kbuild kcp]. now apply (cp_build_transl axis ks c).
Qed.

Fixpoint each_translated (c : pt) (ks : list kernel) (sls : list slice) (th th' : list R) : Prop :=
  match ks, sls with
  | k :: kr, s :: sr => comp_translated c k (apply_slice s th) (apply_slice s th')
                        /\ each_translated c kr sr th th'
  | _, _ => True
  end.

Lemma each_translated_eq : forall {A} c ks sls (f f' : kernel -> list R -> A) th th',
  each_translated c ks sls th th' ->
  (forall k t t', comp_translated c k t t' -> f' k t' = f k t) ->
  each ks sls f' th' = each ks sls f th.
Proof.
  intros A c. induction ks as [|k kr IH]; intros [|s sr] f f' th th' H Hf; simpl; auto.
  destruct H as [H1 Hr]. rewrite (Hf k _ _ H1). f_equal. now apply IH.
Qed.

Lemma sum_comp_translated : forall ks c th th',
  each_translated c ks (sum_slices ks) th th' -> comp_translated c (ksum ks) th th'.
Proof.
  intros ks c th th' H. split.
  - intros u v u' v' Hu Hv. cbn [kval ksum]. f_equal.
    apply (each_translated_eq c); [exact H|]. intros k t t' [Hk _]. now apply Hk.
  - intros xs xs' i j Hi Hj. cbn [kbuild ksum]. f_equal.
    apply (each_translated_eq c); [exact H|]. intros k t t' [_ Hk]. now apply Hk.
Qed.

Lemma gp_inputs_transl_comp : forall K M c xs xs' qs qs' th th' mth,
  comp_translated c K th th' -> mean_stationary M -> xs <> [] ->
  all_translated c xs xs' -> all_translated c qs qs' ->
  gp_inputs_agree K K M xs xs' qs qs' th th' mth.
Proof.
  intros K M c xs xs' qs qs' th th' mth [Hv Hb] HM Hne Hx Hq.
  destruct (HM c xs xs' mth Hne Hx) as [Hmc Hmb].
  destruct Hx as [Hlx Hx]. destruct Hq as [Hlq Hq].
  repeat split.
  - intros i j Hi Hj. apply Hb; now apply Hx.
  - intros a j Ha Hj. apply Hv; [now apply Hq|now apply Hx].
  - intros a b Ha Hb'. apply Hv; now apply Hq.
  - intros i Hi. now apply Hmb.
  - intros a Ha. apply Hmc. now apply Hq.
Qed.
