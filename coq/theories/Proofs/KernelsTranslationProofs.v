(* Proofs/KernelsTranslationProofs.v -- the kernel OBJECTS of covariance.py on data whose
   coordinates carry a common offset (property C10).

   Proofs/GpTranslationProofs.v shows that __call__ and build_covariance of the documented
   kernels see the coordinates only through differences (and through x - location for the
   change-point kernel).  Property C10 speaks about more entry points of the same objects:
   the gradient matrices returned by covariance_and_gradients and the documented diagonal
   terms (jitter, noise variances).  `ktranslated c K th th'` says that ALL of them agree,
   entry by entry, between the data moved by the vector c (hyper-parameters th', change-point
   locations moved by c[axis]) and the original data (hyper-parameters th):

       __call__(u + c, v + c)        = __call__(u, v)
       build_covariance on x + c     = build_covariance on x
       every gradient matrix on x + c = the same gradient matrix on x
       diagonal terms on x + c       = diagonal terms on x

   It holds for the four base kernels with th' = th, is inherited by sums (each component on
   its slice) and by change-points of any number of kernels along any axis, with any nesting.
   Consequences used by the correspondence run of C10 as its oracle on offset data:
   the Gram matrix K(x + c, x + c) has the same entries, hence the same quadratic form
   (positive semi-definiteness) as K(x, x); and build_covariance on the offset data equals the
   pairwise evaluation at the ORIGIN plus the diagonal terms at the origin. *)
From Coq Require Import Reals List Arith Lia Lra.
From IT Require Import Model.Slices RealModel.Kernels Proofs.SlicesProofs Proofs.KernelsProofs
  Proofs.GpTranslationProofs Proofs.PsdProofs.
Import ListNotations.
Open Scope R_scope.

(* ------------------------------------------------------------------ *)
(* the relation                                                         *)

Definition grad_translated (c : pt) (K : kernel) (th th' : list R) : Prop :=
  forall xs xs' p i j,
    translated c (point xs i) (point xs' i) -> translated c (point xs j) (point xs' j) ->
    kgrad K xs' th' p i j = kgrad K xs th p i j.

Definition diag_translated (c : pt) (K : kernel) (th th' : list R) : Prop :=
  forall xs xs' i, translated c (point xs i) (point xs' i) -> kdiag K xs' th' i = kdiag K xs th i.

Definition ktranslated (c : pt) (K : kernel) (th th' : list R) : Prop :=
  comp_translated c K th th' /\ grad_translated c K th th' /\ diag_translated c K th th'.

(* kernels for which the hyper-parameters do not move at all *)
Definition kstationary (K : kernel) : Prop := forall c th, ktranslated c K th th.

(* ------------------------------------------------------------------ *)
(* base kernels                                                         *)

Lemma se_kstationary : forall d, kstationary (se d).
Proof.
  intros d c th. split; [apply stationary_comp_translated, se_stationary|]. split.
  - intros xs xs' p i j Hi Hj. cbn [kgrad se]. unfold se_grad.
    pose proof (proj2 (se_stationary d) c th xs xs' i j Hi Hj) as Hb. cbn [kbuild se] in Hb.
    destruct p as [|k]; rewrite Hb; [reflexivity|].
    now rewrite (se_dist_transl c _ _ _ _ k Hi Hj).
  - intros xs xs' i _. reflexivity.
Qed.

Lemma rq_kstationary : forall d, kstationary (rq d).
Proof.
  intros d c th. split; [apply stationary_comp_translated, rq_stationary|]. split.
  - intros xs xs' p i j Hi Hj. cbn [kgrad rq]. unfold rq_grad. cbv zeta.
    pose proof (proj2 (rq_stationary d) c th xs xs' i j Hi Hj) as Hb. cbn [kbuild rq] in Hb.
    unfold rq_F. rewrite Hb, (rq_Z_transl d th c _ _ _ _ Hi Hj).
    destruct p as [|[|k]]; try reflexivity.
    now rewrite (rq_dist_transl c _ _ _ _ k Hi Hj).
  - intros xs xs' i _. reflexivity.
Qed.

Lemma wn_kstationary : kstationary wn.
Proof.
  intros c th. split; [apply stationary_comp_translated, wn_stationary|].
  split; [intros xs xs' p i j _ _|intros xs xs' i _]; reflexivity.
Qed.

Lemma hn_kstationary : forall n, kstationary (hn n).
Proof.
  intros n c th. split; [apply stationary_comp_translated, hn_stationary|].
  split; [intros xs xs' p i j _ _|intros xs xs' i _]; reflexivity.
Qed.

(* ------------------------------------------------------------------ *)
(* components on their slices                                           *)

Fixpoint each_ktranslated (c : pt) (ks : list kernel) (sls : list slice) (th th' : list R) : Prop :=
  match ks, sls with
  | k :: kr, s :: sr => ktranslated c k (apply_slice s th) (apply_slice s th')
                        /\ each_ktranslated c kr sr th th'
  | _, _ => True
  end.

Lemma each_ktranslated_comp : forall c ks sls th th',
  each_ktranslated c ks sls th th' -> each_translated c ks sls th th'.
Proof.
  intros c. induction ks as [|k kr IH]; intros [|s sr] th th' H; simpl; auto.
  destruct H as [[H1 _] Hr]. split; [exact H1|now apply IH].
Qed.

Lemma each_ktranslated_eq : forall {A} c ks sls (f f' : kernel -> list R -> A) th th',
  each_ktranslated c ks sls th th' ->
  (forall k t t', ktranslated c k t t' -> f' k t' = f k t) ->
  each ks sls f' th' = each ks sls f th.
Proof.
  intros A c. induction ks as [|k kr IH]; intros [|s sr] f f' th th' H Hf; simpl; auto.
  destruct H as [H1 Hr]. rewrite (Hf k _ _ H1). f_equal. now apply IH.
Qed.

(* stationary components: any theta, the same on both sides *)
Lemma each_ktranslated_stationary : forall c ks sls th,
  Forall kstationary ks -> each_ktranslated c ks sls th th.
Proof.
  intros c. induction ks as [|k kr IH]; intros [|s sr] th H; simpl; auto.
  inversion H as [|? ? Hk Hr]; subst. split; [apply Hk|now apply IH].
Qed.

(* ------------------------------------------------------------------ *)
(* sums                                                                 *)

Lemma sum_grad_translated : forall c ks sls th th' xs xs' p i j,
  each_ktranslated c ks sls th th' ->
  translated c (point xs i) (point xs' i) -> translated c (point xs j) (point xs' j) ->
  sum_grad ks sls xs' th' p i j = sum_grad ks sls xs th p i j.
Proof.
  intros c. induction ks as [|k kr IH]; intros [|s sr] th th' xs xs' p i j H Hi Hj; simpl; auto.
  destruct H as [[_ [Hg _]] Hr].
  destruct (Nat.ltb (p) (np k)); [now apply Hg|now apply IH].
Qed.

Lemma sum_ktranslated : forall ks c th th',
  each_ktranslated c ks (sum_slices ks) th th' -> ktranslated c (ksum ks) th th'.
Proof.
  intros ks c th th' H. split; [|split].
  - apply sum_comp_translated. now apply each_ktranslated_comp.
  - intros xs xs' p i j Hi Hj. cbn [kgrad ksum]. now apply (sum_grad_translated c).
  - intros xs xs' i Hi. cbn [kdiag ksum]. f_equal.
    apply (each_ktranslated_eq c); [exact H|]. intros k t t' [_ [_ Hd]]. now apply Hd.
Qed.

Lemma sum_kstationary : forall ks, Forall kstationary ks -> kstationary (ksum ks).
Proof. intros ks H c th. apply sum_ktranslated. now apply each_ktranslated_stationary. Qed.

(* ------------------------------------------------------------------ *)
(* change-points                                                        *)

Lemma dlogistic_transl : forall q c w x s, dlogistic q (c + s) w (x + s) = dlogistic q c w x.
Proof.
  intros q c w x s. unfold dlogistic. cbv zeta. rewrite logistic_transl.
  replace (x + s - (c + s)) with (x - c) by ring. reflexivity.
Qed.

Lemma cp_da_transl : forall q cw xi xj s, cp_da q (move_loc s cw) (xi + s) (xj + s) = cp_da q cw xi xj.
Proof.
  intros q [c w] xi xj s. unfold cp_da, move_loc. cbn [fst snd]. cbv zeta.
  now rewrite !dlogistic_transl, !logistic_transl.
Qed.

Lemma cp_db_transl : forall q cw xi xj s, cp_db q (move_loc s cw) (xi + s) (xj + s) = cp_db q cw xi xj.
Proof.
  intros q [c w] xi xj s. unfold cp_db, move_loc. cbn [fst snd]. cbv zeta.
  now rewrite !dlogistic_transl, !logistic_transl.
Qed.

Lemma cp_wgrad_transl : forall cps last Kv m q xi xj s,
  cp_wgrad last Kv (map (move_loc s) cps) m q (xi + s) (xj + s) = cp_wgrad last Kv cps m q xi xj.
Proof.
  induction cps as [|cw cr IH]; intros last Kv m q xi xj s.
  - destruct Kv as [|K0 [|K1 Kr]]; reflexivity.
  - destruct Kv as [|K0 [|K1 Kr]]; try reflexivity.
    cbn [map]. destruct m as [|m'].
    + rewrite !cp_wgrad_0. rewrite cp_da_transl, cp_db_transl.
      destruct cr as [|cw' cr']; cbn [map]; [reflexivity|]. now rewrite cp_a_transl.
    + rewrite !cp_wgrad_S. rewrite cp_b_transl. apply IH.
Qed.

Lemma cp_kgrad_translated : forall c ks sls cf th th' xs xs' p i j,
  each_ktranslated c ks sls th th' ->
  translated c (point xs i) (point xs' i) -> translated c (point xs j) (point xs' j) ->
  cp_kgrad ks sls cf xs' th' p i j = cp_kgrad ks sls cf xs th p i j.
Proof.
  intros c. induction ks as [|k kr IH]; intros [|s sr] [|cf0 cfr] th th' xs xs' p i j H Hi Hj; simpl; auto.
  destruct H as [[_ [Hg _]] Hr].
  destruct (Nat.ltb p (np k)); [now rewrite (Hg xs xs' p i j Hi Hj)|now apply IH].
Qed.

(* the hyper-parameter vector of a change-point on the moved data: kernel slices related
   component by component, every (location, width) pair with the location moved *)
Definition cp_theta_ktranslated (c : pt) (axis : nat) (ks : list kernel) (th th' : list R) : Prop :=
  each_ktranslated c ks (cov_slc ks) th th'
  /\ cp_params ks th' = map (move_loc (coord c axis)) (cp_params ks th).

Lemma cp_ktranslated : forall axis ks c th th',
  cp_theta_ktranslated c axis ks th th' -> ktranslated c (kcp axis ks) th th'.
Proof.
  intros axis ks c th th' [He Hp]. split; [split|split].
  - intros u v u' v' Hu Hv. cbn [kval kcp]. unfold cp_val, coeffs.
    rewrite Hp, (Hu axis), (Hv axis), coeffs_from_transl. f_equal.
    apply (each_ktranslated_eq c); [exact He|]. intros k t t' [[Hk _] _]. now apply Hk.
  - intros xs xs' i j Hi Hj. cbn [kbuild kcp]. unfold cp_build, coeffs.
    rewrite Hp, (Hi axis), (Hj axis), coeffs_from_transl. f_equal.
    apply (each_ktranslated_eq c); [exact He|]. intros k t t' [[_ Hk] _]. now apply Hk.
  - intros xs xs' p i j Hi Hj. cbn [kgrad kcp]. unfold cp_grad, cp_grad_with. cbv zeta.
    rewrite Hp, (Hi axis), (Hj axis).
    destruct (Nat.ltb p (nps ks)).
    + unfold coeffs. rewrite coeffs_from_transl. now apply (cp_kgrad_translated c).
    + rewrite cp_wgrad_transl. f_equal.
      apply (each_ktranslated_eq c); [exact He|]. intros k t t' [[_ Hk] _]. now apply Hk.
  - intros xs xs' i Hi. cbn [kdiag kcp]. unfold cp_diag, coeffs.
    rewrite Hp, (Hi axis), coeffs_from_transl. f_equal.
    apply (each_ktranslated_eq c); [exact He|]. intros k t t' [_ [_ Hd]]. now apply Hd.
Qed.

(* the common case: stationary kernels inside the change-point *)
Lemma cp_ktranslated_stationary : forall axis ks c th th',
  Forall kstationary ks -> cp_theta_translated ks (coord c axis) th th' ->
  ktranslated c (kcp axis ks) th th'.
Proof.
  intros axis ks c th th' Hk [Hs Hp]. apply cp_ktranslated. split; [|exact Hp].
  clear Hp. revert Hs. generalize (cov_slc ks) as sls. clear -Hk.
  induction ks as [|k kr IH]; intros [|s sr] Hs; simpl; auto.
  inversion Hk as [|? ? Hk1 Hkr]; subst. inversion Hs as [|? ? Hs1 Hsr]; subst.
  split; [rewrite Hs1; apply Hk1|now apply IH].
Qed.

(* ------------------------------------------------------------------ *)
(* what the run observes on offset data                                 *)

(* every entry of every matrix the object returns *)
Lemma offset_entries : forall K c th th' xs xs' i j,
  ktranslated c K th th' -> all_translated c xs xs' -> (i < length xs)%nat -> (j < length xs)%nat ->
  kval K th' (point xs' i) (point xs' j) = kval K th (point xs i) (point xs j)
  /\ kbuild K xs' th' i j = kbuild K xs th i j
  /\ (forall p, kgrad K xs' th' p i j = kgrad K xs th p i j)
  /\ kdiag K xs' th' i = kdiag K xs th i.
Proof.
  intros K c th th' xs xs' i j [[Hv Hb] [Hg Hd]] [_ Hx] Hi Hj.
  pose proof (Hx i Hi) as Ti. pose proof (Hx j Hj) as Tj.
  repeat split; [now apply Hv|now apply Hb|intros p; now apply Hg|now apply Hd].
Qed.

(* cross-covariances between two point sets moved together *)
Lemma offset_cross_entries : forall K c th th' us us' vs vs' a b,
  ktranslated c K th th' -> all_translated c us us' -> all_translated c vs vs' ->
  (a < length us)%nat -> (b < length vs)%nat ->
  kval K th' (point us' a) (point vs' b) = kval K th (point us a) (point vs b).
Proof.
  intros K c th th' us us' vs vs' a b [[Hv _] _] [_ Hu] [_ Hw] Ha Hb.
  apply Hv; [now apply Hu|now apply Hw].
Qed.

(* builder on the offset data = pairwise evaluation at the origin + diagonal terms at the origin *)
Lemma offset_builder_eq_pairwise : forall K c th th' xs xs' i j,
  bep K -> ktranslated c K th th' -> all_translated c xs xs' ->
  (i < length xs)%nat -> (j < length xs)%nat ->
  kbuild K xs' th' i j = kval K th' (point xs' i) (point xs' j) + kdiag K xs' th' i * delta i j
  /\ kbuild K xs' th' i j = kval K th (point xs i) (point xs j) + kdiag K xs th i * delta i j.
Proof.
  intros K c th th' xs xs' i j Hbep Ht Hx Hi Hj.
  destruct (offset_entries K c th th' xs xs' i j Ht Hx Hi Hj) as [Hv [Hb [_ Hd]]].
  split; [apply Hbep|]. rewrite Hb. apply Hbep.
Qed.

(* the Gram matrix of the generic evaluation on the offset points has the quadratic form of
   the Gram matrix at the origin: the one is positive semi-definite iff the other is *)
Lemma offset_gram_qf : forall K c th th' xs xs' (l : list (R * nat)),
  ktranslated c K th th' -> all_translated c xs xs' ->
  (forall a, In a l -> (snd a < length xs)%nat) ->
  qf (fun i j : nat => kval K th' (point xs' i) (point xs' j)) l
  = qf (fun i j : nat => kval K th (point xs i) (point xs j)) l
  /\ qf (fun i j : nat => kbuild K xs' th' i j) l = qf (fun i j : nat => kbuild K xs th i j) l.
Proof.
  intros K c th th' xs xs' l Ht Hx Hl. split; apply qf_ext_in; intros a b Ha Hb;
    destruct (offset_entries K c th th' xs xs' (snd a) (snd b) Ht Hx (Hl a Ha) (Hl b Hb)) as [Hv [Hb' _]];
    assumption.
Qed.

(* a positive semi-definite kernel gives positive semi-definite Gram matrices at ANY points,
   however far from the origin; with bep and non-negative diagonal terms also the builder *)
Lemma gram_psd_anywhere : forall K th (xs : list pt),
  kpsd K -> psd (fun i j : nat => kval K th (point xs i) (point xs j)).
Proof. intros K th xs H. apply (psd_pull (kval K th) (point xs)). apply H. Qed.

(* ------------------------------------------------------------------ *)
(* non-vacuity: a nested kernel on moved data                             *)

(* sum of an SE kernel, a two-kernel change-point (RQ | SE + white noise) along axis 0 and
   heteroscedastic noise, d = 1, n = 2:
   theta = [a, l,  a1, k1, l1,  a2, l2, s,  loc, w,  h0, h1] *)
Lemma ktranslated_example : forall a l a1 k1 l1 a2 l2 s loc w h0 h1 off,
  ktranslated [off] (ksum [se 1; kcp 0 [rq 1; ksum [se 1; wn]]; hn 2])
    [a; l; a1; k1; l1; a2; l2; s; loc; w; h0; h1]
    [a; l; a1; k1; l1; a2; l2; s; loc + off; w; h0; h1].
Proof.
  intros. apply sum_ktranslated. cbn.
  split; [apply se_kstationary|]. split; [|split; [apply hn_kstationary|exact I]].
  apply cp_ktranslated_stationary.
  - apply Forall_cons; [apply rq_kstationary|]. apply Forall_cons; [|apply Forall_nil].
    apply sum_kstationary.
    apply Forall_cons; [apply se_kstationary|]. apply Forall_cons; [apply wn_kstationary|apply Forall_nil].
  - split; [repeat (apply Forall_cons || apply Forall_nil); reflexivity|reflexivity].
Qed.
