(* Lemmas about the likelihood formulas (property C05). *)
From Coq Require Import Reals List Lra Lia.
From Coquelicot Require Import Coquelicot.
From IT Require Import RealModel.Likelihoods.
Import ListNotations.
Open Scope R_scope.

(* ------------------------------------------------------------------ *)
(* sums                                                               *)
(* ------------------------------------------------------------------ *)
Lemma sumR_cons x l : sumR (x :: l) = x + sumR l.
Proof. reflexivity. Qed.

Lemma sumR_app l1 l2 : sumR (l1 ++ l2) = sumR l1 + sumR l2.
Proof. induction l1 as [|x l1 IH]; simpl; [lra|]. rewrite IH. lra. Qed.

Lemma map3_length {A B C D} (g : A -> B -> C -> D) xs ys zs :
  length xs = length ys -> length ys = length zs -> length (map3 g xs ys zs) = length xs.
Proof.
  revert ys zs. induction xs as [|x xs IH]; intros [|y ys] [|z zs] H1 H2; simpl in *; try lia.
  rewrite IH; lia.
Qed.

(* ------------------------------------------------------------------ *)
(* separable log-likelihoods                                           *)
(*   value = sum_i p(y_i, s_i, f_i)                                    *)
(* ------------------------------------------------------------------ *)
Lemma gauss_loglike_sep ys ss fs :
  length ys = length ss -> length ss = length fs ->
  gauss_loglike ys ss fs =
  sumR (map3 (fun y s f => - (1 / 2) * (gauss_z y s f) ^ 2 - ln s - (1 / 2) * ln (2 * PI)) ys ss fs).
Proof.
  unfold gauss_loglike, gauss_normalisation.
  revert ss fs. induction ys as [|y ys IH]; intros [|s ss] [|f fs] H1 H2; simpl in H1, H2; try lia.
  - simpl. lra.
  - specialize (IH ss fs ltac:(lia) ltac:(lia)).
    change (length (s :: ss)) with (S (length ss)). rewrite S_INR.
    cbn [map3 map]. rewrite !sumR_cons, <- IH. ring.
Qed.

Lemma cauchy_loglike_sep ys gs fs :
  length ys = length gs -> length gs = length fs ->
  cauchy_loglike ys gs fs =
  sumR (map3 (fun y g f => - ln (1 + (cauchy_z y g f) ^ 2) - ln (PI * g)) ys gs fs).
Proof.
  unfold cauchy_loglike, cauchy_normalisation.
  revert gs fs. induction ys as [|y ys IH]; intros [|g gs] [|f fs] H1 H2; simpl in H1, H2; try lia.
  - simpl. lra.
  - specialize (IH gs fs ltac:(lia) ltac:(lia)).
    cbn [map3 map]. rewrite !sumR_cons, <- IH. ring.
Qed.

Lemma logistic_loglike_sep ys ss fs :
  length ys = length ss -> length ss = length fs ->
  logistic_loglike ys ss fs =
  sumR (map3 (fun y s f => logistic_z y s f - 2 * logaddexp 0 (logistic_z y s f)
                           - ln (logistic_scale s)) ys ss fs).
Proof.
  unfold logistic_loglike, logistic_normalisation.
  revert ss fs. induction ys as [|y ys IH]; intros [|s ss] [|f fs] H1 H2; simpl in H1, H2; try lia.
  - simpl. lra.
  - specialize (IH ss fs ltac:(lia) ltac:(lia)).
    cbn [map3 map]. rewrite !sumR_cons, <- IH. ring.
Qed.

Lemma sumR_map3_ext (p q : R -> R -> R -> R) (P : R -> Prop) ys ss fs :
  (forall y s f, P s -> p y s f = q y s f) -> List.Forall P ss ->
  sumR (map3 p ys ss fs) = sumR (map3 q ys ss fs).
Proof.
  intros Hpq. revert ss fs. induction ys as [|y ys IH]; intros [|s ss] [|f fs] HP; simpl; try reflexivity.
  inversion HP as [|? ? Hs Hss]; subst. rewrite (Hpq _ _ _ Hs), (IH ss fs Hss). reflexivity.
Qed.

(* ------------------------------------------------------------------ *)
(* value = sum of log named pdf                                        *)
(* ------------------------------------------------------------------ *)
Lemma sqrt_2PI_pos : 0 < sqrt (2 * PI).
Proof. apply sqrt_lt_R0. pose proof PI_RGT_0. lra. Qed.

Lemma ln_sqrt_half x : 0 < x -> ln (sqrt x) = ln x / 2.
Proof.
  intros Hx. assert (Hs : 0 < sqrt x) by (apply sqrt_lt_R0; exact Hx).
  rewrite <- (sqrt_sqrt x) at 2 by lra. rewrite ln_mult by assumption. lra.
Qed.

Lemma gauss_point y s f : 0 < s ->
  - (1 / 2) * (gauss_z y s f) ^ 2 - ln s - (1 / 2) * ln (2 * PI) = ln (gauss_pdf f s y).
Proof.
  intros Hs. unfold gauss_pdf, gauss_z.
  pose proof sqrt_2PI_pos as Hq. pose proof PI_RGT_0 as Hpi.
  assert (Hd : 0 < s * sqrt (2 * PI)) by (apply Rmult_lt_0_compat; assumption).
  rewrite (ln_mult (1 / (s * sqrt (2 * PI)))); [|apply Rdiv_lt_0_compat; lra|apply exp_pos].
  rewrite ln_exp.
  replace (1 / (s * sqrt (2 * PI))) with (/ (s * sqrt (2 * PI))) by (field; lra).
  rewrite (ln_Rinv (s * sqrt (2 * PI))) by exact Hd.
  rewrite (ln_mult s (sqrt (2 * PI))) by assumption.
  rewrite ln_sqrt_half by lra.
  field. lra.
Qed.

Lemma gauss_is_sum_logpdf ys ss fs :
  length ys = length ss -> length ss = length fs -> List.Forall (fun s => 0 < s) ss ->
  gauss_loglike ys ss fs = sum_logpdf gauss_pdf ys ss fs.
Proof.
  intros H1 H2 HP. rewrite gauss_loglike_sep by assumption. unfold sum_logpdf.
  apply sumR_map3_ext with (P := fun s => 0 < s); [|exact HP].
  intros y s f Hs. apply gauss_point. exact Hs.
Qed.

Lemma cauchy_point y g f : 0 < g ->
  - ln (1 + (cauchy_z y g f) ^ 2) - ln (PI * g) = ln (cauchy_pdf f g y).
Proof.
  intros Hg. unfold cauchy_pdf, cauchy_z. pose proof PI_RGT_0 as Hpi.
  assert (Hz : 0 < 1 + ((y - f) / g) ^ 2) by (pose proof (pow2_ge_0 ((y - f) / g)); lra).
  replace ((y - f) * (1 / g)) with ((y - f) / g) by (field; lra).
  set (w := (y - f) / g) in *.
  assert (Hd : 0 < PI * g * (1 + w ^ 2)) by (apply Rmult_lt_0_compat; [apply Rmult_lt_0_compat; lra|exact Hz]).
  replace (1 / (PI * g * (1 + w ^ 2))) with (/ (PI * g * (1 + w ^ 2))) by (field; lra).
  rewrite (ln_Rinv _ Hd).
  rewrite (ln_mult (PI * g) (1 + w ^ 2)); [lra|apply Rmult_lt_0_compat; lra|exact Hz].
Qed.

Lemma cauchy_is_sum_logpdf ys gs fs :
  length ys = length gs -> length gs = length fs -> List.Forall (fun g => 0 < g) gs ->
  cauchy_loglike ys gs fs = sum_logpdf cauchy_pdf ys gs fs.
Proof.
  intros H1 H2 HP. rewrite cauchy_loglike_sep by assumption. unfold sum_logpdf.
  apply sumR_map3_ext with (P := fun s => 0 < s); [|exact HP].
  intros y s f Hs. apply cauchy_point. exact Hs.
Qed.

Lemma logistic_scale_pos s : 0 < s -> 0 < logistic_scale s.
Proof.
  intros Hs. unfold logistic_scale. apply Rmult_lt_0_compat; [exact Hs|].
  apply Rdiv_lt_0_compat; [apply sqrt_lt_R0; lra|apply PI_RGT_0].
Qed.

(* the logaddexp form of the code equals the textbook form *)
Lemma logaddexp_form z : z - 2 * logaddexp 0 z = - z - 2 * ln (1 + exp (- z)).
Proof.
  unfold logaddexp. rewrite exp_0.
  replace (1 + exp z) with (exp z * (1 + exp (- z))).
  2:{ rewrite Rmult_plus_distr_l, <- exp_plus. replace (z + - z) with 0 by lra. rewrite exp_0. lra. }
  rewrite ln_mult; [|apply exp_pos|pose proof (exp_pos (- z)); lra].
  rewrite ln_exp. lra.
Qed.

Lemma logistic_point y s f : 0 < s ->
  logistic_z y s f - 2 * logaddexp 0 (logistic_z y s f) - ln (logistic_scale s)
  = ln (logistic_pdf f (logistic_scale s) y).
Proof.
  intros Hs. pose proof (logistic_scale_pos s Hs) as Hc.
  rewrite logaddexp_form. unfold logistic_pdf, logistic_z.
  replace ((y - f) * (1 / logistic_scale s)) with ((y - f) / logistic_scale s) by (field; lra).
  set (z := (y - f) / logistic_scale s).
  assert (He : 0 < 1 + exp (- z)) by (pose proof (exp_pos (- z)); lra).
  unfold Rdiv. rewrite ln_mult; [|apply exp_pos|].
  2:{ apply Rinv_0_lt_compat. apply Rmult_lt_0_compat; [exact Hc|]. apply pow_lt. exact He. }
  rewrite ln_exp, ln_Rinv.
  2:{ apply Rmult_lt_0_compat; [exact Hc|]. apply pow_lt. exact He. }
  rewrite ln_mult; [|exact Hc|apply pow_lt; exact He].
  replace ((1 + exp (- z)) ^ 2) with ((1 + exp (- z)) * (1 + exp (- z))) by ring.
  rewrite ln_mult by assumption. lra.
Qed.

Lemma logistic_is_sum_logpdf ys ss fs :
  length ys = length ss -> length ss = length fs -> List.Forall (fun s => 0 < s) ss ->
  logistic_loglike ys ss fs = sum_logpdf (fun mu s y => logistic_pdf mu (logistic_scale s) y) ys ss fs.
Proof.
  intros H1 H2 HP. rewrite logistic_loglike_sep by assumption. unfold sum_logpdf.
  apply sumR_map3_ext with (P := fun s => 0 < s); [|exact HP].
  intros y s f Hs. apply logistic_point. exact Hs.
Qed.

(* ------------------------------------------------------------------ *)
(* gradients                                                           *)
(* ------------------------------------------------------------------ *)

(* chain rule through the forward model, for any separable log-likelihood:
   F = the predictions as functions of the parameter that is varied (all other
   parameters fixed), J = the Jacobian, column j = that parameter. *)
Lemma sep_gradient_is_derivative (p dp : R -> R -> R -> R) (P : R -> Prop) :
  (forall y s f, P s -> is_derive (fun x => p y s x) f (dp y s f)) ->
  forall ys ss (F : list (R -> R)) (J : list (list R)) (j : nat) (t : R),
  length ys = length ss -> length ss = length F -> length F = length J ->
  List.Forall P ss ->
  (forall i, (i < length F)%nat ->
     is_derive (nth i F (fun _ => 0)) t (nth j (nth i J []) 0)) ->
  is_derive (fun u => sumR (map3 p ys ss (map (fun f => f u) F))) t
            (vecmat (map3 dp ys ss (map (fun f => f t) F)) J j).
Proof.
  intros Hp ys. induction ys as [|y ys IH]; intros [|s ss] [|f F] [|row J] j t H1 H2 H3 HP HF;
    simpl in H1, H2, H3; try lia.
  - unfold vecmat. simpl. apply (is_derive_const (K := R_AbsRing) (V := R_NormedModule)).
  - inversion HP as [|? ? Hs Hss]; subst.
    unfold vecmat. cbn [map map3 map2 sumR fold_right].
    apply (is_derive_plus (K := R_AbsRing) (V := R_NormedModule)
             (fun u => p y s (f u)) (fun u => sumR (map3 p ys ss (map (fun g => g u) F)))).
    + pose proof (HF 0%nat ltac:(simpl; lia)) as Hf0. simpl in Hf0.
      replace (dp y s (f t) * nth j row 0) with (nth j row 0 * dp y s (f t)) by ring.
      apply (is_derive_comp (fun x => p y s x) f t); [apply Hp; exact Hs|exact Hf0].
    + apply IH; try lia; try assumption.
      intros i Hi. apply (HF (S i)). simpl. lia.
Qed.

Lemma is_derive_ext_eq (f g : R -> R) x l :
  (forall u, f u = g u) -> is_derive f x l -> is_derive g x l.
Proof. intros H. apply is_derive_ext. exact H. Qed.

Lemma map_length_F (F : list (R -> R)) u : length (map (fun f => f u) F) = length F.
Proof. apply map_length. Qed.

(* per-point derivatives with respect to the prediction f *)
Lemma gauss_point_derive y s f : 0 < s ->
  is_derive (fun x => - (1 / 2) * (gauss_z y s x) ^ 2 - ln s - (1 / 2) * ln (2 * PI)) f
            ((y - f) * (1 / s) ^ 2).
Proof.
  intros Hs. unfold gauss_z. auto_derive; [exact I|]. field. lra.
Qed.

Lemma cauchy_point_derive y g f : 0 < g ->
  is_derive (fun x => - ln (1 + (cauchy_z y g x) ^ 2) - ln (PI * g)) f
            (2 * (1 / g) * cauchy_z y g f / (1 + (cauchy_z y g f) ^ 2)).
Proof.
  intros Hg. unfold cauchy_z.
  assert (Hz : forall w : R, 0 < 1 + w ^ 2) by (intros w; pose proof (pow2_ge_0 w); lra).
  auto_derive.
  - specialize (Hz ((y + - f) * (1 / g))). simpl in Hz. lra.
  - replace (y + - f) with (y - f) by ring.
    generalize (Hz ((y - f) * (1 / g))). generalize ((y - f) * (1 / g)). intros w Hw.
    simpl in Hw. field. split; simpl; lra.
Qed.

Lemma logistic_point_derive y s f : 0 < s ->
  is_derive (fun x => logistic_z y s x - 2 * logaddexp 0 (logistic_z y s x) - ln (logistic_scale s)) f
            ((2 / (1 + exp (- logistic_z y s f)) - 1) * (1 / logistic_scale s)).
Proof.
  intros Hs. pose proof (logistic_scale_pos s Hs) as Hc.
  unfold logistic_z, logaddexp. generalize dependent (logistic_scale s). intros c Hc.
  auto_derive.
  - pose proof (exp_pos 0). pose proof (exp_pos ((y + - f) * (1 / c))). lra.
  - replace (y + - f) with (y - f) by ring. rewrite exp_0. rewrite exp_Ropp.
    pose proof (exp_pos ((y - f) * (1 / c))) as He.
    generalize dependent (exp ((y - f) * (1 / c))). intros e He.
    field. repeat split; lra.
Qed.

Lemma gauss_gradient_is_derivative ys ss (F : list (R -> R)) J j t :
  length ys = length ss -> length ss = length F -> length F = length J ->
  List.Forall (fun s => 0 < s) ss ->
  (forall i, (i < length F)%nat -> is_derive (nth i F (fun _ => 0)) t (nth j (nth i J []) 0)) ->
  is_derive (fun u => gauss_loglike ys ss (map (fun f => f u) F)) t
            (gauss_gradient ys ss (map (fun f => f t) F) J j).
Proof.
  intros H1 H2 H3 HP HF.
  apply is_derive_ext_eq with
    (f := fun u => sumR (map3 (fun y s f => - (1 / 2) * (gauss_z y s f) ^ 2 - ln s - (1 / 2) * ln (2 * PI))
                           ys ss (map (fun f => f u) F))).
  { intros u. symmetry. apply gauss_loglike_sep; [exact H1|rewrite map_length; exact H2]. }
  unfold gauss_gradient, gauss_dLdF.
  apply sep_gradient_is_derivative with (P := fun s => 0 < s); try assumption.
  intros y s f Hs. apply gauss_point_derive. exact Hs.
Qed.

Lemma cauchy_gradient_is_derivative ys gs (F : list (R -> R)) J j t :
  length ys = length gs -> length gs = length F -> length F = length J ->
  List.Forall (fun g => 0 < g) gs ->
  (forall i, (i < length F)%nat -> is_derive (nth i F (fun _ => 0)) t (nth j (nth i J []) 0)) ->
  is_derive (fun u => cauchy_loglike ys gs (map (fun f => f u) F)) t
            (cauchy_gradient ys gs (map (fun f => f t) F) J j).
Proof.
  intros H1 H2 H3 HP HF.
  apply is_derive_ext_eq with
    (f := fun u => sumR (map3 (fun y g f => - ln (1 + (cauchy_z y g f) ^ 2) - ln (PI * g))
                           ys gs (map (fun f => f u) F))).
  { intros u. symmetry. apply cauchy_loglike_sep; [exact H1|rewrite map_length; exact H2]. }
  unfold cauchy_gradient, cauchy_dLdF.
  apply sep_gradient_is_derivative with (P := fun s => 0 < s); try assumption.
  intros y s f Hs. apply cauchy_point_derive. exact Hs.
Qed.

Lemma logistic_gradient_is_derivative ys ss (F : list (R -> R)) J j t :
  length ys = length ss -> length ss = length F -> length F = length J ->
  List.Forall (fun s => 0 < s) ss ->
  (forall i, (i < length F)%nat -> is_derive (nth i F (fun _ => 0)) t (nth j (nth i J []) 0)) ->
  is_derive (fun u => logistic_loglike ys ss (map (fun f => f u) F)) t
            (logistic_gradient ys ss (map (fun f => f t) F) J j).
Proof.
  intros H1 H2 H3 HP HF.
  apply is_derive_ext_eq with
    (f := fun u => sumR (map3 (fun y s f => logistic_z y s f - 2 * logaddexp 0 (logistic_z y s f)
                                            - ln (logistic_scale s))
                           ys ss (map (fun f => f u) F))).
  { intros u. symmetry. apply logistic_loglike_sep; [exact H1|rewrite map_length; exact H2]. }
  unfold logistic_gradient, logistic_dLdF.
  apply sep_gradient_is_derivative with (P := fun s => 0 < s); try assumption.
  intros y s f Hs. apply logistic_point_derive. exact Hs.
Qed.

(* cost / cost_gradient *)
Lemma cost_gradient_is_derivative (L : R -> R) (g : nat -> R) j t :
  is_derive L t (g j) -> is_derive (fun u => cost (L u)) t (cost_gradient g j).
Proof.
  intros H. unfold cost, cost_gradient.
  apply (is_derive_opp (K := R_AbsRing) (V := R_NormedModule) L t (g j)). exact H.
Qed.

(* ------------------------------------------------------------------ *)
(* normalisation of the Cauchy and logistic densities                  *)
(* ------------------------------------------------------------------ *)

(* the total integral of a normalised pdf is 1 (as a double limit) *)
Lemma normalised_pdf_total pdf : normalised_pdf pdf ->
  filterlim (fun ab : R * R => RInt pdf (fst ab) (snd ab))
            (filter_prod (Rbar_locally' m_infty) (Rbar_locally' p_infty)) (locally 1).
Proof.
  intros [_ [cdf [HI [Hm Hp]]]].
  apply (filterlim_ext (fun ab : R * R => cdf (snd ab) - cdf (fst ab))).
  { intros [a b]. simpl. symmetry. apply is_RInt_unique. apply HI. }
  apply filterlim_locally. intros eps.
  apply is_lim_spec in Hm. apply is_lim_spec in Hp.
  assert (He : 0 < eps / 2) by (destruct eps as [e He]; simpl; lra).
  specialize (Hm (mkposreal _ He)). specialize (Hp (mkposreal _ He)).
  apply (Filter_prod _ _ _ (fun a => Rabs (cdf a - 0) < eps / 2) (fun b => Rabs (cdf b - 1) < eps / 2));
    [exact Hm|exact Hp|].
  intros a b Ha Hb. simpl.
  change (Rabs (cdf b - cdf a - 1) < eps).
  replace (cdf b - cdf a - 1) with ((cdf b - 1) - (cdf a - 0)) by ring.
  eapply Rle_lt_trans; [apply Rabs_triang|]. rewrite Rabs_Ropp. lra.
Qed.

Lemma atan_lim_p_eps (e : R) : 0 < e -> exists M, forall w, M < w -> PI / 2 - e < atan w.
Proof.
  intros He. pose proof PI_RGT_0 as Hpi.
  set (e' := Rmin e (PI / 4)).
  assert (He' : 0 < e' <= e) by (unfold e'; split; [apply Rmin_glb_lt; lra|apply Rmin_l]).
  assert (He4 : e' <= PI / 4) by (unfold e'; apply Rmin_r).
  exists (tan (PI / 2 - e')). intros w Hw.
  assert (Hu : - (PI / 2) < PI / 2 - e' < PI / 2) by lra.
  apply Rle_lt_trans with (atan (tan (PI / 2 - e'))).
  - rewrite (atan_tan _ Hu). lra.
  - apply atan_increasing. exact Hw.
Qed.

Lemma cauchy_cdf_derive x0 g x : 0 < g ->
  is_derive (cauchy_cdf x0 g) x (cauchy_pdf x0 g x).
Proof.
  intros Hg. unfold cauchy_cdf, cauchy_pdf. pose proof PI_RGT_0 as Hpi.
  auto_derive; [exact I|].
  replace (x + - x0) with (x - x0) by ring.
  assert (Hz : 0 < 1 + ((x - x0) / g) ^ 2) by (pose proof (pow2_ge_0 ((x - x0) / g)); lra).
  unfold Rdiv in *. set (w := (x - x0) * / g) in *. clearbody w. simpl in Hz.
  field. repeat split; simpl; lra.
Qed.

Lemma cauchy_pdf_pos x0 g x : 0 < g -> 0 < cauchy_pdf x0 g x.
Proof.
  intros Hg. unfold cauchy_pdf. pose proof PI_RGT_0 as Hpi.
  assert (Hz : 0 < 1 + ((x - x0) / g) ^ 2) by (pose proof (pow2_ge_0 ((x - x0) / g)); lra).
  apply Rdiv_lt_0_compat; [lra|]. apply Rmult_lt_0_compat; [apply Rmult_lt_0_compat; lra|exact Hz].
Qed.

Lemma cauchy_pdf_continuous x0 g x : 0 < g -> continuous (cauchy_pdf x0 g) x.
Proof.
  intros Hg. apply (ex_derive_continuous (K := R_AbsRing) (V := R_NormedModule)).
  unfold cauchy_pdf. pose proof PI_RGT_0 as Hpi. auto_derive.
  replace (x + - x0) with (x - x0) by ring.
  assert (Hz : 0 < 1 + ((x - x0) / g) ^ 2) by (pose proof (pow2_ge_0 ((x - x0) / g)); lra).
  apply Rgt_not_eq. unfold Rdiv in Hz. simpl in Hz.
  apply Rmult_lt_0_compat; [apply Rmult_lt_0_compat; lra|]. lra.
Qed.

Lemma cauchy_cdf_lim_p x0 g : 0 < g -> is_lim (cauchy_cdf x0 g) p_infty 1.
Proof.
  intros Hg. apply is_lim_spec. intros eps. pose proof PI_RGT_0 as Hpi.
  assert (He : 0 < PI * eps) by (destruct eps as [e He]; simpl; apply Rmult_lt_0_compat; lra).
  destruct (atan_lim_p_eps _ He) as [M HM].
  exists (x0 + g * M). intros x Hx. unfold cauchy_cdf.
  assert (Hw : M < (x - x0) / g).
  { apply Rmult_lt_reg_r with g; [exact Hg|]. unfold Rdiv. rewrite Rmult_assoc, Rinv_l by lra. lra. }
  specialize (HM _ Hw). pose proof (atan_bound ((x - x0) / g)) as [_ Hb].
  replace (/ PI * atan ((x - x0) / g) + 1 / 2 - 1) with (- ((PI / 2 - atan ((x - x0) / g)) / PI)) by (field; lra).
  rewrite Rabs_Ropp, Rabs_pos_eq.
  - apply Rmult_lt_reg_r with PI; [exact Hpi|]. unfold Rdiv. rewrite Rmult_assoc, Rinv_l by lra. lra.
  - apply Rmult_le_pos; [lra|]. left. apply Rinv_0_lt_compat. exact Hpi.
Qed.

Lemma cauchy_cdf_lim_m x0 g : 0 < g -> is_lim (cauchy_cdf x0 g) m_infty 0.
Proof.
  intros Hg. apply is_lim_spec. intros eps. pose proof PI_RGT_0 as Hpi.
  assert (He : 0 < PI * eps) by (destruct eps as [e He]; simpl; apply Rmult_lt_0_compat; lra).
  destruct (atan_lim_p_eps _ He) as [M HM].
  exists (x0 - g * M). intros x Hx. unfold cauchy_cdf.
  assert (Hw : M < - ((x - x0) / g)).
  { apply Rmult_lt_reg_r with g; [exact Hg|].
    replace (- ((x - x0) / g) * g) with (x0 - x) by (field; lra). lra. }
  specialize (HM _ Hw). rewrite atan_opp in HM.
  pose proof (atan_bound ((x - x0) / g)) as [Hb _].
  replace (/ PI * atan ((x - x0) / g) + 1 / 2 - 0) with ((PI / 2 + atan ((x - x0) / g)) / PI) by (field; lra).
  rewrite Rabs_pos_eq.
  - apply Rmult_lt_reg_r with PI; [exact Hpi|]. unfold Rdiv. rewrite Rmult_assoc, Rinv_l by lra. lra.
  - apply Rmult_le_pos; [lra|]. left. apply Rinv_0_lt_compat. exact Hpi.
Qed.

Lemma cauchy_pdf_normalised x0 g : 0 < g -> normalised_pdf (cauchy_pdf x0 g).
Proof.
  intros Hg. split.
  - intros x. left. apply cauchy_pdf_pos. exact Hg.
  - exists (cauchy_cdf x0 g). split; [|split].
    + intros a b. apply (is_RInt_derive (cauchy_cdf x0 g) (cauchy_pdf x0 g)).
      * intros x _. apply cauchy_cdf_derive. exact Hg.
      * intros x _. apply cauchy_pdf_continuous. exact Hg.
    + apply cauchy_cdf_lim_m. exact Hg.
    + apply cauchy_cdf_lim_p. exact Hg.
Qed.

(* logistic *)
Lemma logistic_cdf_derive mu s x : 0 < s ->
  is_derive (logistic_cdf mu s) x (logistic_pdf mu s x).
Proof.
  intros Hs. unfold logistic_cdf, logistic_pdf.
  pose proof (exp_pos (- ((x - mu) / s))) as He.
  auto_derive.
  - replace (x + - mu) with (x - mu) by ring. unfold Rdiv in He. lra.
  - replace (x + - mu) with (x - mu) by ring. unfold Rdiv in *.
    set (e := exp (- ((x - mu) * / s))) in *. clearbody e. field. split; simpl; lra.
Qed.

Lemma logistic_pdf_pos mu s x : 0 < s -> 0 < logistic_pdf mu s x.
Proof.
  intros Hs. unfold logistic_pdf. pose proof (exp_pos (- ((x - mu) / s))) as He.
  apply Rdiv_lt_0_compat; [exact He|]. apply Rmult_lt_0_compat; [exact Hs|]. apply pow_lt. lra.
Qed.

Lemma logistic_pdf_continuous mu s x : 0 < s -> continuous (logistic_pdf mu s) x.
Proof.
  intros Hs. apply (ex_derive_continuous (K := R_AbsRing) (V := R_NormedModule)).
  unfold logistic_pdf. pose proof (exp_pos (- ((x - mu) / s))) as He. auto_derive.
  replace (x + - mu) with (x - mu) by ring. unfold Rdiv in *.
  set (e := exp (- ((x - mu) * / s))) in *. clearbody e.
  repeat split; try lra.
  apply Rgt_not_eq. apply Rmult_lt_0_compat; [exact Hs|]. nra.
Qed.

Lemma logistic_cdf_lim_p mu s : 0 < s -> is_lim (logistic_cdf mu s) p_infty 1.
Proof.
  intros Hs. apply is_lim_spec. intros [eps Heps]. simpl.
  exists (mu - s * ln eps). intros x Hx. unfold logistic_cdf.
  set (w := (x - mu) / s).
  assert (Hw : - w < ln eps).
  { unfold w. apply Rmult_lt_reg_r with s; [exact Hs|].
    replace (- ((x - mu) / s) * s) with (mu - x) by (field; lra). lra. }
  assert (He : exp (- w) < eps) by (rewrite <- (exp_ln eps Heps); apply exp_increasing; exact Hw).
  pose proof (exp_pos (- w)) as Hp. generalize dependent (exp (- w)). intros e He Hp.
  replace (/ (1 + e) - 1) with (- (e / (1 + e))) by (field; lra).
  rewrite Rabs_Ropp, Rabs_pos_eq.
  - apply Rle_lt_trans with e; [|exact He].
    apply Rmult_le_reg_r with (1 + e); [lra|]. unfold Rdiv. rewrite Rmult_assoc, Rinv_l by lra. nra.
  - apply Rmult_le_pos; [lra|]. left. apply Rinv_0_lt_compat. lra.
Qed.

Lemma logistic_cdf_lim_m mu s : 0 < s -> is_lim (logistic_cdf mu s) m_infty 0.
Proof.
  intros Hs. apply is_lim_spec. intros [eps Heps]. simpl.
  exists (mu + s * ln eps). intros x Hx. unfold logistic_cdf.
  set (w := (x - mu) / s).
  assert (Hw : w < ln eps).
  { unfold w. apply Rmult_lt_reg_r with s; [exact Hs|].
    replace ((x - mu) / s * s) with (x - mu) by (field; lra). lra. }
  assert (He : exp w < eps) by (rewrite <- (exp_ln eps Heps); apply exp_increasing; exact Hw).
  rewrite exp_Ropp.
  pose proof (exp_pos w) as Hp. generalize dependent (exp w). intros e He Hp.
  rewrite Rminus_0_r.
  assert (Hd : 0 < 1 + / e) by (pose proof (Rinv_0_lt_compat e Hp); lra).
  rewrite Rabs_pos_eq by (left; apply Rinv_0_lt_compat; exact Hd).
  apply Rle_lt_trans with e; [|exact He].
  replace (/ (1 + / e)) with (e / (e + 1)) by (field; lra).
  apply Rmult_le_reg_r with (e + 1); [lra|]. unfold Rdiv. rewrite Rmult_assoc, Rinv_l by lra. nra.
Qed.

Lemma logistic_pdf_normalised mu s : 0 < s -> normalised_pdf (logistic_pdf mu s).
Proof.
  intros Hs. split.
  - intros x. left. apply logistic_pdf_pos. exact Hs.
  - exists (logistic_cdf mu s). split; [|split].
    + intros a b. apply (is_RInt_derive (logistic_cdf mu s) (logistic_pdf mu s)).
      * intros x _. apply logistic_cdf_derive. exact Hs.
      * intros x _. apply logistic_pdf_continuous. exact Hs.
    + apply logistic_cdf_lim_m. exact Hs.
    + apply logistic_cdf_lim_p. exact Hs.
Qed.
