(* C04 over the life of a bounded sampler object (Model/BoundsLife.v): whatever
   the history of steps and save -> load round trips, the limits given at
   construction are the limits every step is taken with, every posterior
   evaluation and every stored point lies inside them, and the object goes on
   reporting them.  The same history with a load() that re-builds only the
   attribute is refuted by a witness. *)
From Coq Require Import QArith Qround Qabs ZArith List Bool Lia.
From IT Require Import Common.ExpBounds Model.Reflect Model.Samplers Model.BoundsLife
  Proofs.ReflectProofs Proofs.SamplersProofs Proofs.InsideProofs.
Import ListNotations.
Open Scope Q_scope.

(* ---------- the limits: save -> load is the identity on constructed limits ---------- *)
Lemma file_bounds_save b : file_bounds (save_lim (construct b)) = b.
Proof. destruct b as [[lo hi]|]; reflexivity. Qed.

Lemma lim_roundtrip b : load_lim (save_lim (construct b)) = construct b.
Proof. unfold load_lim. rewrite file_bounds_save. reflexivity. Qed.

Lemma lim_after_construct b k : lim_after load_lim (construct b) k = construct b.
Proof. induction k as [|k IH]; simpl; [reflexivity|]. rewrite lim_roundtrip. exact IH. Qed.

(* the attribute survives either load(); the hook only the real one *)
Lemma lim_after_unhooked_attr b k :
  l_attr (lim_after load_lim_unhooked (construct b) k) = b.
Proof.
  assert (H : forall l, l_attr (lim_after load_lim_unhooked l k) = l_attr l).
  { induction k as [|k IH]; intros l; simpl; [reflexivity|]. rewrite IH.
    unfold load_lim_unhooked, save_lim. simpl. destruct (l_attr l) as [[lo hi]|]; reflexivity. }
  rewrite H. reflexivity.
Qed.

Lemma lim_after_unhooked_hook b k :
  l_hook (lim_after load_lim_unhooked (construct b) (S k)) = None.
Proof.
  assert (H : forall l, l_hook l = None -> l_hook (lim_after load_lim_unhooked l k) = None).
  { induction k as [|k IH]; intros l Hl; simpl; [exact Hl|]. apply IH. reflexivity. }
  simpl. apply H. reflexivity.
Qed.

Lemma life_code_const b k chk : life_code b k chk = chk b.
Proof. unfold life_code. rewrite lim_after_construct. reflexivity. Qed.

(* ---------- the generic history theorem ---------- *)
Section LifeInside.
  Variable St : Type.
  Variable setb : option box -> St -> St.
  Variable step : St -> list Q -> res (St * list Q * list event).
  Variable good : option box -> St -> Prop.        (* the stored points are inside *)
  Hypothesis step_ok : forall b s tape s' t' ev,
    box_wf b -> good b s -> step (setb b s) tape = Ok (s', t', ev) ->
    events_ok (box_ok b) ev /\ good b s'.

  Theorem life_inside : forall b ops s0 o evs,
    box_wf b -> good b s0 ->
    life St setb step load_lim (mkObj (construct b) s0) ops = Ok (o, evs) ->
    events_ok (box_ok b) evs /\ good b (o_st o) /\ o_lim o = construct b.
  Proof.
    intros b ops. induction ops as [|op ops IH]; intros s0 o evs Hwf Hg H.
    - simpl in H. inversion H; subst. simpl. split; [constructor|split; [exact Hg|reflexivity]].
    - destruct op as [tape|].
      + cbn [life] in H. unfold obj_step in H. cbn [o_lim o_st] in H.
        change (l_hook (construct b)) with b in H.
        destruct (step (setb b s0) tape) as [[[s1 t1] ev1]| | |] eqn:Es; try discriminate H.
        destruct (step_ok b s0 tape s1 t1 ev1 Hwf Hg Es) as [Hev1 Hg1].
        destruct (life St setb step load_lim (mkObj (construct b) s1) ops) as [[o2 ev2]| | |] eqn:El;
          try discriminate H.
        inversion H; subst; clear H.
        destruct (IH s1 o ev2 Hwf Hg1 El) as [Hev2 [Hg2 Hl2]].
        split; [|split; assumption].
        unfold events_ok in *. apply Forall_app. split; assumption.
      + cbn [life] in H. unfold obj_save_load in H. cbn [o_lim o_st] in H.
        rewrite lim_roundtrip in H. exact (IH s0 o evs Hwf Hg H).
  Qed.
End LifeInside.

(* ---------- box membership of the empty / head point ---------- *)
Lemma box_ok_nil b : box_ok b [].
Proof. destruct b as [[los his]|]; simpl; [|exact I]. destruct los; [exact I|]. destruct (vsub his (q :: los)); exact I. Qed.

Lemma Forall_hd b (l : list (list Q)) : Forall (box_ok b) l -> box_ok b (hd [] l).
Proof. intros H. destruct l as [|x l]; simpl; [apply box_ok_nil|]. inversion H; assumption. Qed.

(* ---------- PCA ---------- *)
Definition pca_good (b : option box) (s : pstate) : Prop := Forall (box_ok b) (ps_samples s).

Lemma pca_step_samples logp beta s tape s' t' ev :
  pca_step logp beta s tape = Ok (s', t', ev) ->
  exists x', ps_samples s' = x' :: ps_samples s.
Proof.
  intros H. unfold pca_step in H.
  destruct (ps_samples s) as [|x samples] eqn:E1; [discriminate H|].
  destruct (ps_probs s) as [|p_old probs]; [discriminate H|].
  destruct (ps_dirs s) as [|d0 ds]; [discriminate H|].
  match type of H with context [pca_dirs ?a ?b ?c ?d ?e ?f ?g ?h ?i] =>
    destruct (pca_dirs a b c d e f g h i) as [[[[x1 p1] tape1] ev1]| | |] end; try discriminate H.
  inversion H; subst; clear H. simpl. exists x1. reflexivity.
Qed.

Lemma pca_step_ok logp beta : forall b s tape s' t' ev,
  box_wf b -> pca_good b s -> pca_step logp beta (ps_setb b s) tape = Ok (s', t', ev) ->
  events_ok (box_ok b) ev /\ pca_good b s'.
Proof.
  intros b s tape s' t' ev Hwf Hg H.
  destruct (pca_step_inside logp beta (ps_setb b s) tape s' t' ev Hwf (Forall_hd b _ Hg) H) as [Hev Hx].
  split; [exact Hev|].
  destruct (pca_step_samples _ _ _ _ _ _ _ H) as [x' Hs]. unfold pca_good. rewrite Hs in *.
  simpl in Hx. constructor; [exact Hx|exact Hg].
Qed.

Theorem pca_life_inside logp beta b ops s0 o evs :
  box_wf b -> Forall (box_ok b) (ps_samples s0) ->
  pca_life logp beta load_lim (mkObj (construct b) s0) ops = Ok (o, evs) ->
  events_ok (box_ok b) evs /\ Forall (box_ok b) (ps_samples (o_st o)) /\ o_lim o = construct b.
Proof. exact (life_inside pstate ps_setb (pca_step logp beta) pca_good (pca_step_ok logp beta) b ops s0 o evs). Qed.

(* ---------- Hamiltonian ---------- *)
Definition hmc_good (b : option box) (s : hstate) : Prop := Forall (box_ok b) (hs_theta s).

Lemma hmc_step_theta logp beta grad ma s tape s' t' ev :
  hmc_step logp beta grad ma s tape = Ok (s', t', ev) ->
  exists x', hs_theta s' = x' :: hs_theta s.
Proof.
  intros H. unfold hmc_step in H.
  destruct (hs_theta s) as [|t0 thetas] eqn:E1; [discriminate H|].
  destruct (hs_probs s) as [|p_old probs]; [discriminate H|].
  match type of H with context [hmc_attempts ?a ?b ?c ?d ?e ?f ?g ?h ?i ?j ?k] =>
    destruct (hmc_attempts a b c d e f g h i j k) as [[[[[t1 p1] k1] tape1] ev1]| | |] end;
    try discriminate H.
  inversion H; subst; clear H. simpl. exists t1. reflexivity.
Qed.

Lemma hmc_step_ok logp beta grad ma : forall b s tape s' t' ev,
  box_wf b -> hmc_good b s -> hmc_step logp beta grad ma (hs_setb b s) tape = Ok (s', t', ev) ->
  events_ok (box_ok b) ev /\ hmc_good b s'.
Proof.
  intros b s tape s' t' ev Hwf Hg H.
  destruct (hmc_step_inside logp beta grad ma (hs_setb b s) tape s' t' ev Hwf H) as [Hev Hx].
  split; [exact Hev|].
  destruct (hmc_step_theta _ _ _ _ _ _ _ _ _ H) as [x' Hs]. unfold hmc_good. rewrite Hs in *.
  simpl in Hx. constructor; [exact Hx|exact Hg].
Qed.

Theorem hmc_life_inside logp beta grad ma b ops s0 o evs :
  box_wf b -> Forall (box_ok b) (hs_theta s0) ->
  hmc_life logp beta grad ma load_lim (mkObj (construct b) s0) ops = Ok (o, evs) ->
  events_ok (box_ok b) evs /\ Forall (box_ok b) (hs_theta (o_st o)) /\ o_lim o = construct b.
Proof.
  exact (life_inside hstate hs_setb (hmc_step logp beta grad ma) hmc_good
                     (hmc_step_ok logp beta grad ma) b ops s0 o evs).
Qed.

(* ---------- ensemble: the walkers stay inside as well ---------- *)
Lemma Forall_list_set {A} (P : A -> Prop) i v (l : list A) :
  Forall P l -> P v -> Forall P (list_set i v l).
Proof.
  intros Hl Hv. unfold list_set. apply Forall_app. split.
  - rewrite Forall_forall in *. intros x Hx. apply Hl.
    rewrite <- (firstn_skipn i l). apply in_or_app. left. exact Hx.
  - destruct (skipn i l) as [|y t] eqn:E; [constructor|].
    constructor; [exact Hv|].
    rewrite Forall_forall in *. intros x Hx. apply Hl.
    rewrite <- (firstn_skipn i l). apply in_or_app. right. rewrite E. right. exact Hx.
Qed.

Definition ens_good (b : option box) (s : estate) : Prop := Forall (box_ok b) (es_pos s).

Section EnsLife.
  Variable logp : list Q -> Q.

  Lemma ens_walker_pos pinned : forall fuel s i tape ev s' tape' ev',
    box_wf (es_bounds s) -> Forall (box_ok (es_bounds s)) (es_pos s) ->
    ens_walker logp pinned fuel s i tape ev = Ok (s', tape', ev') ->
    Forall (box_ok (es_bounds s)) (es_pos s').
  Proof.
    induction fuel as [|fuel IH]; intros s i tape ev s' tape' ev' Hwf Hp H.
    - cbn [ens_walker] in H. inversion H; subst. cbn [es_pos]. exact Hp.
    - cbn [ens_walker] in H.
      destruct tape as [|k [|u1 tape2]]; try discriminate H.
      destruct tape2 as [|u2 tape3]; [discriminate H|].
      match type of H with context [process (es_bounds s) ?raw] =>
        pose proof (process_inside (es_bounds s) raw Hwf) as Hin;
        set (Y := vred (process (es_bounds s) raw)) in * end.
      match type of H with context [decide_accept_any ?a ?b] =>
        destruct (decide_accept_any a b) as [[|]|] end.
      + inversion H; subst. cbn [es_pos]. apply Forall_list_set; assumption.
      + eapply IH; [exact Hwf|exact Hp|exact H].
      + discriminate H.
  Qed.

  Lemma ens_walkers_pos pinned : forall todo i s tape ev s' tape' ev',
    box_wf (es_bounds s) -> events_ok (box_ok (es_bounds s)) ev ->
    Forall (box_ok (es_bounds s)) (es_pos s) ->
    ens_walkers logp pinned todo i s tape ev = Ok (s', tape', ev') ->
    Forall (box_ok (es_bounds s)) (es_pos s') /\ es_bounds s' = es_bounds s.
  Proof.
    induction todo as [|todo IH]; intros i s tape ev s' tape' ev' Hwf Hev Hp H.
    - cbn [ens_walkers] in H. inversion H; subst. split; [exact Hp|reflexivity].
    - cbn [ens_walkers] in H.
      destruct (ens_walker logp pinned (es_max_attempts s) s i tape ev) as [[[s1 t1] ev1]| | |] eqn:E;
        try discriminate H.
      destruct (ens_walker_inside logp pinned _ _ _ _ _ _ _ _ Hwf Hev E) as [Hev1 Hb].
      pose proof (ens_walker_pos pinned _ _ _ _ _ _ _ _ Hwf Hp E) as Hp1.
      rewrite <- Hb in Hwf, Hev1, Hp1.
      destruct (IH _ _ _ _ _ _ _ Hwf Hev1 Hp1 H) as [Hp2 Hb2].
      rewrite Hb in Hp2, Hb2. split; assumption.
  Qed.

  Lemma ens_step_ok pinned : forall b s tape s' t' ev,
    box_wf b -> ens_good b s -> ens_iteration logp pinned (es_setb b s) tape = Ok (s', t', ev) ->
    events_ok (box_ok b) ev /\ ens_good b s'.
  Proof.
    intros b s tape s' t' ev Hwf Hg H. split.
    - exact (ens_iteration_inside logp pinned (es_setb b s) tape s' t' ev Hwf H).
    - unfold ens_iteration in H.
      match type of H with context [ens_walkers _ _ ?n ?i ?s0 ?t ?e] =>
        destruct (ens_walkers logp pinned n i s0 t e) as [[[s1 t1] ev1]| | |] eqn:E end;
        try discriminate H.
      inversion H; subst.
      apply ens_walkers_pos in E; [destruct E as [E _]; exact E|exact Hwf|constructor|exact Hg].
  Qed.

  Theorem ens_life_inside pinned b ops s0 o evs :
    box_wf b -> Forall (box_ok b) (es_pos s0) ->
    ens_life logp pinned load_lim (mkObj (construct b) s0) ops = Ok (o, evs) ->
    events_ok (box_ok b) evs /\ Forall (box_ok b) (es_pos (o_st o)) /\ o_lim o = construct b.
  Proof.
    exact (life_inside estate es_setb (ens_iteration logp pinned) ens_good (ens_step_ok pinned)
                       b ops s0 o evs).
  Qed.
End EnsLife.

(* ---------- boolean membership is sound ---------- *)
Lemma inside_vec_b_sound : forall los his xs,
  inside_vec los (vsub his los) xs -> inside_vec_b los his xs = true.
Proof.
  induction los as [|lo los IH]; intros his xs H; [reflexivity|].
  destruct his as [|hi his]; [reflexivity|]. destruct xs as [|x xs]; [reflexivity|].
  simpl in H. destruct H as [[H1 H2] H3]. cbn [inside_vec_b].
  apply andb_true_intro. split.
  - apply inside_b_spec. split; [exact H1|]. setoid_replace hi with (lo + (hi - lo)) by ring. exact H2.
  - apply IH. exact H3.
Qed.

Lemma events_in_b_sound b ev : events_ok (box_ok b) ev -> events_in_b b ev = true.
Proof.
  intros H. unfold events_in_b. apply forallb_forall. intros e He.
  unfold events_ok in H. rewrite Forall_forall in H. specialize (H e He).
  destruct b as [[los his]|]; simpl in *; [|reflexivity]. apply inside_vec_b_sound. exact H.
Qed.

(* ---------- a load() that re-builds only the attribute is refuted ----------
   PcaChain over [0,1]^2, start (1/2,1/2), proposal widths 4, flat log-density:
   construct -> save -> load -> one step.  The reloaded object still reports
   its limits, the step evaluates the log-density at (9/2, 1/2). *)
Definition wit_box : option box := Some ([0; 0], [1; 1]).
Definition wit_state : pstate :=
  mkPS [[1; 0]; [0; 1]] [4; 4] None [[1 # 2; 1 # 2]] [0].
Definition wit_ops : list lop := [LSaveLoad; LStep [1; 1 # 2; 1; 1 # 2]].
Definition wit_logp (x : list Q) : Q := 0.

Lemma unhooked_witness :
  exists o evs,
    pca_life wit_logp 1 load_lim_unhooked (mkObj (construct wit_box) wit_state) wit_ops = Ok (o, evs) /\
    l_attr (o_lim o) = wit_box /\ events_in_b wit_box evs = false.
Proof. vm_compute. eexists. eexists. split; [reflexivity|]. split; reflexivity. Qed.

Theorem unhooked_load_refuted :
  exists logp beta b s0 ops o evs,
    box_wf b /\ Forall (box_ok b) (ps_samples s0) /\
    pca_life logp beta load_lim_unhooked (mkObj (construct b) s0) ops = Ok (o, evs) /\
    l_attr (o_lim o) = b /\ ~ events_ok (box_ok b) evs.
Proof.
  destruct unhooked_witness as [o [evs [H1 [H2 H3]]]].
  exists wit_logp, 1, wit_box, wit_state, wit_ops, o, evs.
  split; [|split; [|split; [exact H1|split; [exact H2|]]]].
  - simpl. repeat constructor.
  - simpl. constructor; [|constructor]. simpl. unfold inside. repeat split; discriminate.
  - intros Hc. apply events_in_b_sound in Hc. rewrite H3 in Hc. discriminate Hc.
Qed.

(* the same history with the real load() stays inside (non-vacuity of life_inside) *)
Lemma hooked_witness :
  exists o evs,
    pca_life wit_logp 1 load_lim (mkObj (construct wit_box) wit_state) wit_ops = Ok (o, evs) /\
    length evs = 2%nat /\ events_in_b wit_box evs = true.
Proof. vm_compute. eexists. eexists. split; [reflexivity|]. split; reflexivity. Qed.
