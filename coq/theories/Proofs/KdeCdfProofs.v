(* The cumulative function of GaussianKDE (inference/pdf/kde.py, GaussianKDE.cdf,
   lines 127-132; density: GaussianKDE.__call__, lines 110-112)  -- property C12.

   Models: RealModel/Kde.v (kde_pdf, kde_cdf, csum, Phi, cdf_exact_at, cdf_code_at);
   nothing is redefined here.  Three groups of results:

   1. the exact cdf  C(x) = (1/N) sum_i Phi((x - y_i)/h)  is non-decreasing
      (strictly increasing for a non-empty sample), has values in [0,1], tends
      to 0 / 1 at -oo / +oo, has the exact pdf as its derivative at every point
      and hence  is_RInt pdf a b (C b - C a);
   2. the code's value (region offset + sum over the slice) is within
      (N_excluded / N) * Phi(-7/2) of the exact cdf -- the generic theorem
      cdf_truncation_bound of KdeProofs.v instantiated with G = Phi and the
      sharp eps = Phi(-7/2); 2.32e-4 < Phi(-7/2) < 2.33e-4 is proved too;
   3. consequences for the code's cdf: monotone across regions up to the two
      truncation errors, within Phi(-7/2) of 0 (of 1) when the whole sample is at
      least 3.5 h to the right (left) of the evaluation point.

   Kde.v has its own phi / Phi; the facts proved about Acquisition.Phi in
   AcquisitionProofs.v / GaussianProofs.v / GaussianNormalisation.v are moved
   over with kde_Phi_eq / kde_phi_eq.  Unqualified phi, Phi are those of Kde.v. *)
From Coq Require Import Reals List QArith Qreals ZArith Lia Lra Psatz Sorting.Permutation.
From Coquelicot Require Import Coquelicot.
From Interval Require Import Tactic.
From IT Require Import Model.KdeRegions Proofs.KdeRegionsProofs RealModel.Kde Proofs.KdeProofs.
From IT Require RealModel.Acquisition Proofs.AcquisitionProofs Proofs.GaussianProofs
                Proofs.GaussianNormalisation.
Import ListNotations.
Open Scope R_scope.

Module GN := IT.Proofs.GaussianNormalisation.

(* ------------------------------------------------------------------ *)
(* 0. the kernel cdf Phi of Kde.v                                       *)

Lemma kPhi_range t : 0 < Phi t < 1.
Proof. rewrite GN.kde_Phi_eq. apply GN.Phi_bounds. Qed.

Lemma kPhi_opp t : Phi (- t) = 1 - Phi t.
Proof. rewrite !GN.kde_Phi_eq. apply AcquisitionProofs.Phi_opp. Qed.

Lemma kPhi_derive z : is_derive Phi z (phi z).
Proof.
  rewrite GN.kde_phi_eq.
  apply (is_derive_ext Acquisition.Phi).
  - intros t. symmetry. apply GN.kde_Phi_eq.
  - apply AcquisitionProofs.Phi_derive.
Qed.

Lemma kPhi_lim_m : is_lim Phi m_infty 0.
Proof.
  apply (is_lim_ext Acquisition.Phi); [intros t; symmetry; apply GN.kde_Phi_eq | ].
  exact GN.Phi_lim_m.
Qed.

Lemma kPhi_lim_p : is_lim Phi p_infty 1.
Proof.
  apply (is_lim_ext Acquisition.Phi); [intros t; symmetry; apply GN.kde_Phi_eq | ].
  exact GN.Phi_lim_p.
Qed.

(* the sharp tail constant of the 3.5 h cut-off *)
Definition eps35 : R := Phi (- (7 / 2)).

Lemma eps35_pos : 0 < eps35.
Proof. apply kPhi_range. Qed.

Lemma eps35_lt_1 : eps35 < 1.
Proof. apply kPhi_range. Qed.

Lemma kPhi_tail_lo t : t <= - (7 / 2) -> Phi t <= eps35.
Proof. intros Ht. apply Phi_monotone, Ht. Qed.

Lemma kPhi_tail_hi t : 7 / 2 <= t -> 1 - eps35 <= Phi t.
Proof.
  intros Ht. unfold eps35. rewrite kPhi_opp.
  replace (1 - (1 - Phi (7 / 2))) with (Phi (7 / 2)) by ring.
  apply Phi_monotone, Ht.
Qed.

Lemma kPhi_range_le t : 0 <= Phi t <= 1.
Proof. pose proof (kPhi_range t). lra. Qed.

(* the three hypotheses of C12_cdf_truncation_bound_partial, for G = Phi and the
   sharp eps = Phi(-7/2) *)
Theorem kPhi_tail_property_sharp :
  (forall t, 0 <= Phi t <= 1) /\
  (forall t, 7 / 2 <= t -> 1 - eps35 <= Phi t) /\
  (forall t, t <= - (7 / 2) -> Phi t <= eps35).
Proof. exact (conj kPhi_range_le (conj kPhi_tail_hi kPhi_tail_lo)). Qed.

(* numerical value: Phi(-3.5) = 2.3263e-4 *)
Lemma eps35_value : 232 / 1000000 < eps35 < 233 / 1000000.
Proof.
  unfold eps35.
  replace (Phi (- (7 / 2))) with (1 / 2 - RInt phi 0 (7 / 2)).
  2:{ rewrite kPhi_opp. unfold Phi. lra. }
  unfold phi.
  rint_intros. split; interval with (i_prec 90).
Qed.

(* ------------------------------------------------------------------ *)
(* 1. the exact cdf                                                     *)

Lemma csum_strict h y ys x x' : 0 < h -> x < x' -> csum h (y :: ys) x < csum h (y :: ys) x'.
Proof.
  intros Hh Hx. simpl.
  assert (H1 : Phi ((x - y) / h) < Phi ((x' - y) / h)).
  { apply Phi_strict. unfold Rdiv. apply Rmult_lt_compat_r; [apply Rinv_0_lt_compat, Hh | lra]. }
  assert (H2 := csum_monotone h ys x x' Hh (Rlt_le _ _ Hx)). lra.
Qed.

Lemma csum_range h ys x : 0 <= csum h ys x <= INR (length ys).
Proof.
  induction ys as [ | y ys IH].
  - simpl. lra.
  - change (length (y :: ys)) with (S (length ys)). rewrite S_INR. simpl csum.
    pose proof (kPhi_range ((x - y) / h)). lra.
Qed.

Lemma csum_perm h l l' x : Permutation l l' -> csum h l x = csum h l' x.
Proof.
  intros HP. induction HP as [ | a l l' _ IH | a b l | l l' l'' _ IH1 _ IH2]; simpl.
  - reflexivity.
  - rewrite IH. reflexivity.
  - ring.
  - rewrite IH1. exact IH2.
Qed.

Lemma length_pos_IZR {A} (ys : list A) : ys <> [] -> 0 < IZR (Z.of_nat (length ys)).
Proof.
  intros Hne. rewrite <- INR_IZR_INZ. apply lt_0_INR.
  destruct ys; [congruence | simpl; lia].
Qed.

Lemma length_pos_Z {A} (ys : list A) : ys <> [] -> (0 < Z.of_nat (length ys))%Z.
Proof. intros Hne. destruct ys; [congruence | simpl length; lia]. Qed.

(* non-decreasing (any positive normalising count) *)
Theorem exact_cdf_monotone h ys x x' : ys <> [] -> 0 < h -> x <= x' ->
  kde_cdf (Z.of_nat (length ys)) 0 h ys x <= kde_cdf (Z.of_nat (length ys)) 0 h ys x'.
Proof.
  intros Hne Hh Hx. apply cdf_monotone_within; [apply length_pos_Z, Hne | exact Hh | exact Hx].
Qed.

Theorem exact_cdf_strict h ys x x' : ys <> [] -> 0 < h -> x < x' ->
  kde_cdf (Z.of_nat (length ys)) 0 h ys x < kde_cdf (Z.of_nat (length ys)) 0 h ys x'.
Proof.
  intros Hne Hh Hx. pose proof (length_pos_IZR ys Hne) as HN. unfold kde_cdf.
  destruct ys as [ | y ys]; [congruence | ].
  pose proof (csum_strict h y ys x x' Hh Hx) as H.
  assert (csum h (y :: ys) x / IZR (Z.of_nat (length (y :: ys)))
          < csum h (y :: ys) x' / IZR (Z.of_nat (length (y :: ys)))).
  { unfold Rdiv. apply Rmult_lt_compat_r; [apply Rinv_0_lt_compat, HN | exact H]. }
  lra.
Qed.

Theorem exact_cdf_range h ys x : ys <> [] ->
  0 <= kde_cdf (Z.of_nat (length ys)) 0 h ys x <= 1.
Proof.
  intros Hne. pose proof (length_pos_IZR ys Hne) as HN. unfold kde_cdf.
  pose proof (csum_range h ys x) as [H0 H1]. rewrite INR_IZR_INZ in H1.
  set (N := IZR (Z.of_nat (length ys))) in *.
  assert (Hi : 0 < / N) by (apply Rinv_0_lt_compat, HN).
  assert (E : N / N = 1) by (field; lra).
  assert (0 <= csum h ys x / N) by (unfold Rdiv; apply Rmult_le_pos; lra).
  assert (csum h ys x / N <= N / N) by (unfold Rdiv; apply Rmult_le_compat_r; lra).
  lra.
Qed.

Theorem exact_cdf_limits h ys : ys <> [] -> 0 < h ->
  is_lim (kde_cdf (Z.of_nat (length ys)) 0 h ys) m_infty 0 /\
  is_lim (kde_cdf (Z.of_nat (length ys)) 0 h ys) p_infty 1.
Proof.
  intros Hne Hh. split; [apply GN.kde_cdf_lim_m, Hh | apply GN.kde_cdf_lim_p; assumption].
Qed.

Theorem exact_cdf_derivative h ys x : ys <> [] -> 0 < h ->
  is_derive (kde_cdf (Z.of_nat (length ys)) 0 h ys) x (kde_pdf (Z.of_nat (length ys)) h ys x).
Proof.
  intros Hne Hh. apply GN.kde_cdf_derive; [ | exact Hh].
  pose proof (length_pos_IZR ys Hne). lra.
Qed.

Theorem exact_cdf_integral h ys a b : ys <> [] -> 0 < h ->
  is_RInt (kde_pdf (Z.of_nat (length ys)) h ys) a b
          (kde_cdf (Z.of_nat (length ys)) 0 h ys b - kde_cdf (Z.of_nat (length ys)) 0 h ys a).
Proof.
  intros Hne Hh. apply GN.kde_pdf_is_RInt; [ | exact Hh].
  pose proof (length_pos_IZR ys Hne). lra.
Qed.

(* the "exact" read-out on rational inputs is this function at Q2R x *)
Lemma Q2R_pos h : (0 < h)%Q -> 0 < Q2R h.
Proof. intros Hh. apply Qlt_Rlt in Hh. rewrite RMicromega.Q2R_0 in Hh. exact Hh. Qed.

Lemma map_nonempty {A B} (f : A -> B) l : l <> [] -> map f l <> [].
Proof. destruct l; [congruence | discriminate]. Qed.

Lemma cdf_exact_at_eq (sample : list Q) (h x : Q) :
  cdf_exact_at sample h x =
  kde_cdf (Z.of_nat (length (map Q2R sample))) 0 (Q2R h) (map Q2R sample) (Q2R x).
Proof. unfold cdf_exact_at. now rewrite map_length. Qed.

Lemma pdf_exact_at_eq (sample : list Q) (h x : Q) :
  pdf_exact_at sample h x =
  kde_pdf (Z.of_nat (length (map Q2R sample))) (Q2R h) (map Q2R sample) (Q2R x).
Proof. unfold pdf_exact_at. now rewrite map_length. Qed.

Theorem cdf_exact_at_monotone (sample : list Q) (h x x' : Q) :
  sample <> [] -> (0 < h)%Q -> (x <= x')%Q ->
  cdf_exact_at sample h x <= cdf_exact_at sample h x'.
Proof.
  intros Hne Hh Hx. rewrite !cdf_exact_at_eq.
  apply exact_cdf_monotone; [apply map_nonempty, Hne | apply Q2R_pos, Hh | apply Qle_Rle, Hx].
Qed.

Theorem cdf_exact_at_range (sample : list Q) (h x : Q) : sample <> [] ->
  0 <= cdf_exact_at sample h x <= 1.
Proof.
  intros Hne. rewrite cdf_exact_at_eq. apply exact_cdf_range, map_nonempty, Hne.
Qed.

(* the difference of two exact read-outs is the integral of the exact density *)
Theorem cdf_exact_at_integral (sample : list Q) (h a b : Q) :
  sample <> [] -> (0 < h)%Q ->
  is_RInt (kde_pdf (Z.of_nat (length sample)) (Q2R h) (map Q2R sample)) (Q2R a) (Q2R b)
          (cdf_exact_at sample h b - cdf_exact_at sample h a).
Proof.
  intros Hne Hh. rewrite !cdf_exact_at_eq.
  pose proof (exact_cdf_integral (Q2R h) (map Q2R sample) (Q2R a) (Q2R b)
                (map_nonempty Q2R sample Hne) (Q2R_pos h Hh)) as H.
  rewrite map_length in H. rewrite map_length. exact H.
Qed.

(* ------------------------------------------------------------------ *)
(* 2. truncation: code against exact                                    *)

Lemma gsum_Phi h ys x : gsum Phi h ys x = csum h ys x.
Proof. reflexivity. Qed.

(* list level: L = samples dropped on the left (counted as 1 each through the
   offset |L|/N), M = the slice, Rr = samples dropped on the right (counted 0) *)
Theorem cdf_truncation_lists h x L M Rr : 0 < h ->
  (forall y, In y L -> y + 7 / 2 * h <= x) ->
  (forall y, In y Rr -> x + 7 / 2 * h <= y) ->
  let N := INR (length (L ++ M ++ Rr)) in
  0 < N ->
  - (INR (length L) / N * eps35)
    <= kde_cdf (Z.of_nat (length (L ++ M ++ Rr))) 0 h (L ++ M ++ Rr) x
       - kde_cdf (Z.of_nat (length (L ++ M ++ Rr))) (INR (length L) / N) h M x
    <= INR (length Rr) / N * eps35.
Proof.
  intros Hh HL HR N HN.
  pose proof (cdf_truncation_generic Phi eps35 kPhi_range_le kPhi_tail_hi kPhi_tail_lo
                h x L M Rr N Hh HN HL HR) as H.
  change (gsum Phi) with csum in H. unfold kde_cdf. rewrite <- INR_IZR_INZ. fold N.
  replace (- (INR (length L) / N * eps35)) with (- (INR (length L) * eps35) / N)
    by (field; lra).
  replace (INR (length Rr) / N * eps35) with (INR (length Rr) * eps35 / N) by (field; lra).
  lra.
Qed.

Lemma cdf_exact_at_sorted (sample : list Q) (h x : Q) :
  let s := QSort.sort sample in
  cdf_exact_at sample h x = csum (Q2R h) (map Q2R s) (Q2R x) / INR (length s).
Proof.
  intros s. unfold cdf_exact_at, kde_cdf. rewrite <- INR_IZR_INZ.
  unfold s. rewrite sort_length.
  rewrite (csum_perm (Q2R h) (map Q2R sample) (map Q2R (QSort.sort sample))).
  - ring.
  - apply Permutation_map, sort_perm.
Qed.

Lemma cdf_code_at_unfold (n : nat) (sample : list Q) (h x : Q) :
  let s := QSort.sort sample in
  let r := region_of n s x in
  cdf_code_at n sample h x =
  Q2R (cdf_offset n s h r) + csum (Q2R h) (map Q2R (region_slice n s h r)) (Q2R x) / INR (length s).
Proof. intros s r. unfold cdf_code_at, kde_cdf. cbv zeta. rewrite <- INR_IZR_INZ. reflexivity. Qed.

(* the bound of the truncation theorem, as a function of the evaluation point *)
Definition cdf_trunc_err (n : nat) (sample : list Q) (h x : Q) : R :=
  let s := QSort.sort sample in
  let sl := region_slice n s h (region_of n s x) in
  INR (length s - length sl) / INR (length s) * eps35.

Theorem cdf_code_truncation_bound (sample : list Q) (h x : Q) (n : nat) :
  sample <> [] -> (0 < h)%Q -> (srange (QSort.sort sample) <= pow2 n * h)%Q ->
  let s := QSort.sort sample in
  let sl := region_slice n s h (region_of n s x) in
  Rabs (cdf_exact_at sample h x - cdf_code_at n sample h x)
    <= INR (length s - length sl) / INR (length s) * eps35.
Proof.
  intros Hne Hh Hcov s sl.
  pose proof (cdf_truncation_bound Phi eps35 n s h x kPhi_range_le kPhi_tail_hi kPhi_tail_lo
                (sort_sorted sample) (sort_nonempty sample Hne) Hh Hcov) as H.
  cbv zeta in H. change (gsum Phi) with csum in H.
  rewrite cdf_exact_at_sorted, cdf_code_at_unfold. cbv zeta. exact H.
Qed.

Lemma cdf_trunc_err_range (n : nat) (sample : list Q) (h x : Q) : sample <> [] ->
  0 <= cdf_trunc_err n sample h x <= eps35.
Proof.
  intros Hne. unfold cdf_trunc_err. cbv zeta.
  set (s := QSort.sort sample). set (sl := region_slice n s h (region_of n s x)).
  assert (HN : 0 < INR (length s)).
  { apply lt_0_INR. pose proof (sort_nonempty sample Hne) as H. fold s in H.
    destruct s; [congruence | simpl; lia]. }
  pose proof eps35_pos as He.
  assert (H0 : 0 <= INR (length s - length sl)) by apply pos_INR.
  assert (H1 : INR (length s - length sl) <= INR (length s)) by (apply le_INR; lia).
  assert (Hi : 0 < / INR (length s)) by (apply Rinv_0_lt_compat, HN).
  assert (Hq0 : 0 <= INR (length s - length sl) / INR (length s))
    by (unfold Rdiv; apply Rmult_le_pos; lra).
  assert (Hq1 : INR (length s - length sl) / INR (length s) <= 1).
  { replace 1 with (INR (length s) / INR (length s)) by (field; lra).
    unfold Rdiv. apply Rmult_le_compat_r; lra. }
  split; [apply Rmult_le_pos; lra | nra].
Qed.

(* ------------------------------------------------------------------ *)
(* 3. consequences for the code's cdf                                   *)

Theorem cdf_code_monotone_across (sample : list Q) (h x x' : Q) (n : nat) :
  sample <> [] -> (0 < h)%Q -> (srange (QSort.sort sample) <= pow2 n * h)%Q ->
  (x <= x')%Q ->
  cdf_code_at n sample h x
    <= cdf_code_at n sample h x' + cdf_trunc_err n sample h x + cdf_trunc_err n sample h x'.
Proof.
  intros Hne Hh Hcov Hx.
  pose proof (cdf_code_truncation_bound sample h x n Hne Hh Hcov) as H1.
  pose proof (cdf_code_truncation_bound sample h x' n Hne Hh Hcov) as H2.
  cbv zeta in H1, H2. fold (cdf_trunc_err n sample h x) in H1.
  fold (cdf_trunc_err n sample h x') in H2.
  pose proof (cdf_exact_at_monotone sample h x x' Hne Hh Hx) as Hm.
  apply Rabs_le_between in H1. apply Rabs_le_between in H2. lra.
Qed.

Corollary cdf_code_monotone_across_uniform (sample : list Q) (h x x' : Q) (n : nat) :
  sample <> [] -> (0 < h)%Q -> (srange (QSort.sort sample) <= pow2 n * h)%Q ->
  (x <= x')%Q ->
  cdf_code_at n sample h x <= cdf_code_at n sample h x' + 2 * eps35.
Proof.
  intros Hne Hh Hcov Hx.
  pose proof (cdf_code_monotone_across sample h x x' n Hne Hh Hcov Hx) as H.
  pose proof (cdf_trunc_err_range n sample h x Hne).
  pose proof (cdf_trunc_err_range n sample h x' Hne). lra.
Qed.

(* the code's value is within the truncation error of a number in [0,1] *)
Corollary cdf_code_range (sample : list Q) (h x : Q) (n : nat) :
  sample <> [] -> (0 < h)%Q -> (srange (QSort.sort sample) <= pow2 n * h)%Q ->
  - cdf_trunc_err n sample h x <= cdf_code_at n sample h x <= 1 + cdf_trunc_err n sample h x.
Proof.
  intros Hne Hh Hcov.
  pose proof (cdf_code_truncation_bound sample h x n Hne Hh Hcov) as H1.
  cbv zeta in H1. fold (cdf_trunc_err n sample h x) in H1.
  pose proof (cdf_exact_at_range sample h x Hne).
  apply Rabs_le_between in H1. lra.
Qed.

Lemma cdf_offset_R (n : nat) (s : list Q) (h : Q) (r : nat) : s <> [] ->
  Q2R (cdf_offset n s h r) = INR (lwr n s h r) / INR (length s).
Proof.
  intros Hne. unfold cdf_offset.
  assert (HN : 0 < INR (length s)).
  { apply lt_0_INR. destruct s; [congruence | simpl; lia]. }
  rewrite Q2R_div.
  - rewrite !Q2R_qnat. reflexivity.
  - intros E. apply Qeq_eqR in E. rewrite Q2R_qnat, RMicromega.Q2R_0 in E. lra.
Qed.

Section FarOutside.
  Variables (sample : list Q) (h x : Q) (n : nat).
  Hypothesis Hne : sample <> [].
  Hypothesis Hh : (0 < h)%Q.
  Hypothesis Hcov : (srange (QSort.sort sample) <= pow2 n * h)%Q.

  Let s := QSort.sort sample.
  Let r := region_of n s x.
  Let sl := region_slice n s h r.
  Let L := firstn (lwr n s h r) s.
  Let Rr := skipn (upr n s h r) s.

  Lemma far_decomp : s = L ++ sl ++ Rr.
  Proof. apply sample_decomp. exact Hh. Qed.

  Lemma far_len : (length s = length L + (length sl + length Rr))%nat.
  Proof. pose proof (f_equal (@length Q) far_decomp) as H. rewrite !app_length in H. exact H. Qed.

  Lemma far_lenL : length L = lwr n s h r.
  Proof. unfold L. apply firstn_length_le. unfold lwr. apply count_lt_le_length. Qed.

  Lemma far_in_sample q : In q s -> In q sample.
  Proof. intros Hq. apply (Permutation_in q (Permutation_sym (sort_perm sample))). exact Hq. Qed.

  Lemma far_N_pos : 0 < INR (length s).
  Proof.
    apply lt_0_INR. pose proof (sort_nonempty sample Hne) as H. fold s in H.
    destruct s; [congruence | simpl; lia].
  Qed.

  (* every sample at least 3.5 h to the right of x: offset 0, and every term of
     the slice is at most Phi(-7/2) *)
  Theorem cdf_code_far_left :
    (forall y, In y sample -> (x + (7 # 2) * h <= y)%Q) ->
    0 <= cdf_code_at n sample h x <= INR (length sl) / INR (length s) * eps35 /\
    INR (length sl) / INR (length s) * eps35 <= eps35.
  Proof.
    intros Hfar. pose proof far_N_pos as HN. pose proof (Q2R_pos h Hh) as HhR.
    pose proof eps35_pos as He.
    assert (HL0 : L = []).
    { destruct L as [ | q L'] eqn:EL; [reflexivity | exfalso].
      assert (Hq : In q L) by (rewrite EL; left; reflexivity).
      pose proof (excluded_left_below n s h x (sort_sorted sample) Hh Hcov q Hq) as H1.
      assert (Hqs : In q s).
      { rewrite far_decomp. apply in_or_app. left. exact Hq. }
      pose proof (Hfar q (far_in_sample q Hqs)) as H2.
      apply Qle_Rle in H1. apply Qle_Rle in H2.
      rewrite Q2R_plus, Q2R_mult, Q2R_72 in H1, H2. nra. }
    assert (Hoff : Q2R (cdf_offset n s h r) = 0).
    { rewrite cdf_offset_R by (apply sort_nonempty, Hne).
      rewrite <- far_lenL, HL0. simpl. unfold Rdiv. ring. }
    assert (Hsl : forall y, In y (map Q2R sl) -> Q2R x + 7 / 2 * Q2R h <= y).
    { intros y Hy. apply in_map_iff in Hy. destruct Hy as [q [E Hq]]. subst y.
      assert (Hqs : In q s).
      { rewrite far_decomp. apply in_or_app. right. apply in_or_app. left. exact Hq. }
      pose proof (Hfar q (far_in_sample q Hqs)) as H2. apply Qle_Rle in H2.
      rewrite Q2R_plus, Q2R_mult, Q2R_72 in H2. exact H2. }
    pose proof (gsum_right Phi eps35 kPhi_range_le kPhi_tail_lo (Q2R h) (Q2R x) (map Q2R sl)
                  HhR Hsl) as [Hg0 Hg1].
    change (gsum Phi) with csum in *. rewrite map_length in *.
    rewrite cdf_code_at_unfold. cbv zeta. fold s. fold r. fold sl. rewrite Hoff.
    assert (Hi : 0 < / INR (length s)) by (apply Rinv_0_lt_compat, HN).
    assert (Hlen : INR (length sl) <= INR (length s)).
    { apply le_INR. pose proof far_len. lia. }
    pose proof (pos_INR (length sl)) as Hsl0.
    split; [split | ].
    - assert (0 <= csum (Q2R h) (map Q2R sl) (Q2R x) / INR (length s))
        by (unfold Rdiv; apply Rmult_le_pos; lra). lra.
    - replace (INR (length sl) / INR (length s) * eps35)
        with (INR (length sl) * eps35 / INR (length s)) by (field; lra).
      assert (csum (Q2R h) (map Q2R sl) (Q2R x) / INR (length s)
              <= INR (length sl) * eps35 / INR (length s))
        by (unfold Rdiv; apply Rmult_le_compat_r; lra). lra.
    - assert (Hq : INR (length sl) / INR (length s) <= 1).
      { replace 1 with (INR (length s) / INR (length s)) by (field; lra).
        unfold Rdiv. apply Rmult_le_compat_r; lra. }
      nra.
  Qed.

  (* every sample at least 3.5 h to the left of x: nothing is dropped on the
     right, the dropped samples count 1 each, every slice term >= 1 - Phi(-7/2) *)
  Theorem cdf_code_far_right :
    (forall y, In y sample -> (y + (7 # 2) * h <= x)%Q) ->
    1 - INR (length sl) / INR (length s) * eps35 <= cdf_code_at n sample h x <= 1 /\
    1 - eps35 <= 1 - INR (length sl) / INR (length s) * eps35.
  Proof.
    intros Hfar. pose proof far_N_pos as HN. pose proof (Q2R_pos h Hh) as HhR.
    pose proof eps35_pos as He.
    assert (HR0 : Rr = []).
    { destruct Rr as [ | q R'] eqn:ER; [reflexivity | exfalso].
      assert (Hq : In q Rr) by (rewrite ER; left; reflexivity).
      pose proof (excluded_right_above n s h x (sort_sorted sample) Hh Hcov q Hq) as H1.
      assert (Hqs : In q s).
      { rewrite far_decomp. apply in_or_app. right. apply in_or_app. right. exact Hq. }
      pose proof (Hfar q (far_in_sample q Hqs)) as H2.
      apply Qle_Rle in H1. apply Qle_Rle in H2.
      rewrite Q2R_plus, Q2R_mult, Q2R_72 in H1, H2. nra. }
    assert (Hlen : (length s = length L + length sl)%nat).
    { pose proof far_len as H. rewrite HR0 in H. simpl in H. lia. }
    assert (Hoff : Q2R (cdf_offset n s h r) = INR (length L) / INR (length s)).
    { rewrite cdf_offset_R by (apply sort_nonempty, Hne). rewrite far_lenL. reflexivity. }
    assert (Hsl : forall y, In y (map Q2R sl) -> y + 7 / 2 * Q2R h <= Q2R x).
    { intros y Hy. apply in_map_iff in Hy. destruct Hy as [q [E Hq]]. subst y.
      assert (Hqs : In q s).
      { rewrite far_decomp. apply in_or_app. right. apply in_or_app. left. exact Hq. }
      pose proof (Hfar q (far_in_sample q Hqs)) as H2. apply Qle_Rle in H2.
      rewrite Q2R_plus, Q2R_mult, Q2R_72 in H2. exact H2. }
    pose proof (gsum_left Phi eps35 kPhi_range_le kPhi_tail_hi (Q2R h) (Q2R x) (map Q2R sl)
                  HhR Hsl) as [Hg0 Hg1].
    change (gsum Phi) with csum in *. rewrite map_length in *.
    rewrite cdf_code_at_unfold. cbv zeta. fold s. fold r. fold sl. rewrite Hoff.
    assert (HlenR : INR (length s) = INR (length L) + INR (length sl))
      by (rewrite Hlen, plus_INR; reflexivity).
    assert (Hi : 0 < / INR (length s)) by (apply Rinv_0_lt_compat, HN).
    pose proof (pos_INR (length sl)) as Hsl0. pose proof (pos_INR (length L)) as HL0.
    set (c := csum (Q2R h) (map Q2R sl) (Q2R x)) in *.
    set (N := INR (length s)) in *. set (a := INR (length L)) in *. set (m := INR (length sl)) in *.
    assert (E : a / N + c / N = (a + c) / N) by (field; lra).
    split; [split | ].
    - rewrite E. replace (1 - m / N * eps35) with ((N - m * eps35) / N) by (field; lra).
      unfold Rdiv. apply Rmult_le_compat_r; lra.
    - rewrite E. replace 1 with (N / N) by (field; lra).
      unfold Rdiv. apply Rmult_le_compat_r; lra.
    - assert (Hq : m / N <= 1).
      { replace 1 with (N / N) by (field; lra). unfold Rdiv. apply Rmult_le_compat_r; lra. }
      nra.
  Qed.
End FarOutside.

(* the exact cdf far outside, for comparison (no covering hypothesis needed) *)
Theorem cdf_exact_far_left (sample : list Q) (h x : Q) : sample <> [] -> (0 < h)%Q ->
  (forall y, In y sample -> (x + (7 # 2) * h <= y)%Q) ->
  0 <= cdf_exact_at sample h x <= eps35.
Proof.
  intros Hne Hh Hfar. pose proof (Q2R_pos h Hh) as HhR.
  assert (Hs : forall y, In y (map Q2R sample) -> Q2R x + 7 / 2 * Q2R h <= y).
  { intros y Hy. apply in_map_iff in Hy. destruct Hy as [q [E Hq]]. subst y.
    pose proof (Hfar q Hq) as H2. apply Qle_Rle in H2.
    rewrite Q2R_plus, Q2R_mult, Q2R_72 in H2. exact H2. }
  pose proof (gsum_right Phi eps35 kPhi_range_le kPhi_tail_lo (Q2R h) (Q2R x) (map Q2R sample)
                HhR Hs) as [Hg0 Hg1].
  change (gsum Phi) with csum in *. rewrite map_length in *.
  unfold cdf_exact_at, kde_cdf. rewrite <- INR_IZR_INZ.
  assert (HN : 0 < INR (length sample)).
  { apply lt_0_INR. destruct sample; [congruence | simpl; lia]. }
  assert (Hi : 0 < / INR (length sample)) by (apply Rinv_0_lt_compat, HN).
  set (c := csum (Q2R h) (map Q2R sample) (Q2R x)) in *. set (N := INR (length sample)) in *.
  assert (0 <= c / N) by (unfold Rdiv; apply Rmult_le_pos; lra).
  assert (c / N <= N * eps35 / N) by (unfold Rdiv; apply Rmult_le_compat_r; lra).
  replace (N * eps35 / N) with eps35 in * by (field; lra). lra.
Qed.

Theorem cdf_exact_far_right (sample : list Q) (h x : Q) : sample <> [] -> (0 < h)%Q ->
  (forall y, In y sample -> (y + (7 # 2) * h <= x)%Q) ->
  1 - eps35 <= cdf_exact_at sample h x <= 1.
Proof.
  intros Hne Hh Hfar. pose proof (Q2R_pos h Hh) as HhR.
  assert (Hs : forall y, In y (map Q2R sample) -> y + 7 / 2 * Q2R h <= Q2R x).
  { intros y Hy. apply in_map_iff in Hy. destruct Hy as [q [E Hq]]. subst y.
    pose proof (Hfar q Hq) as H2. apply Qle_Rle in H2.
    rewrite Q2R_plus, Q2R_mult, Q2R_72 in H2. exact H2. }
  pose proof (gsum_left Phi eps35 kPhi_range_le kPhi_tail_hi (Q2R h) (Q2R x) (map Q2R sample)
                HhR Hs) as [Hg0 Hg1].
  change (gsum Phi) with csum in *. rewrite map_length in *.
  unfold cdf_exact_at, kde_cdf. rewrite <- INR_IZR_INZ.
  assert (HN : 0 < INR (length sample)).
  { apply lt_0_INR. destruct sample; [congruence | simpl; lia]. }
  assert (Hi : 0 < / INR (length sample)) by (apply Rinv_0_lt_compat, HN).
  set (c := csum (Q2R h) (map Q2R sample) (Q2R x)) in *. set (N := INR (length sample)) in *.
  assert (N * (1 - eps35) / N <= c / N) by (unfold Rdiv; apply Rmult_le_compat_r; lra).
  assert (c / N <= N / N) by (unfold Rdiv; apply Rmult_le_compat_r; lra).
  replace (N * (1 - eps35) / N) with (1 - eps35) in * by (field; lra).
  replace (N / N) with 1 in * by (field; lra). lra.
Qed.
