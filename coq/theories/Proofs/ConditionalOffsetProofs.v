(* Offset invariance of the search of evaluate_conditional (Model/Conditional.v):
   adding a constant c to the log-density func (multiplying the un-normalised
   posterior by a constant) changes nothing in evaluate_search except the reported
   mode value, which is shifted by c.  The grid and the ordered list of evaluation
   points are Leibniz-equal. *)
From Coq Require Import List QArith Qabs Qminmax Bool Arith Lia Lqa.
From IT Require Import Model.Conditional Proofs.ConditionalProofs.
Import ListNotations.
Open Scope Q_scope.

(* the table of the shifted function *)
Definition shift (c : Q) (t : table) : table := map (fun e => (fst e, snd e + c)) t.

(* ---------------- comparisons ---------------- *)
Lemma Qle_bool_ext a a' b b' : a == a' -> b == b' -> Qle_bool a b = Qle_bool a' b'.
Proof.
  intros Ha Hb. apply Bool.eq_true_iff_eq. rewrite !Qle_bool_iff. split; intros H; lra.
Qed.

Lemma Qle_bool_shift2 c a a' b b' : a' == a + c -> b' == b + c -> Qle_bool a' b' = Qle_bool a b.
Proof.
  intros Ha Hb. apply Bool.eq_true_iff_eq. rewrite !Qle_bool_iff. split; intros H; lra.
Qed.

Lemma Qle_bool_shift c tgt tgt' v : tgt' == tgt + c -> Qle_bool tgt' (v + c) = Qle_bool tgt v.
Proof. intros H. apply (Qle_bool_shift2 c); [exact H | reflexivity]. Qed.

Lemma between_shift c a a' t t' b b' : a' == a + c -> t' == t + c -> b' == b + c ->
  between a' t' b' = between a t b.
Proof.
  intros Ha Ht Hb. unfold between.
  rewrite (Qle_bool_shift2 c t t' a a' Ht Ha), (Qle_bool_shift2 c b b' t t' Hb Ht). reflexivity.
Qed.

(* ---------------- argmax ---------------- *)
Lemma argmax_from_shift c : forall l best best' bi i, best' == best + c ->
  argmax_from best' bi i (map (fun v => v + c) l) = argmax_from best bi i l.
Proof.
  induction l as [ | a l IH]; intros best best' bi i H; simpl; [reflexivity | ].
  destruct (Qlt_le_dec best' (a + c)) as [H1 | H1], (Qlt_le_dec best a) as [H2 | H2]; try lra.
  - apply IH. reflexivity.
  - apply IH. exact H.
Qed.

Lemma argmax_shift c l : argmax (map (fun v => v + c) l) = argmax l.
Proof.
  destruct l as [ | a l]; simpl; [reflexivity | ]. apply argmax_from_shift. reflexivity.
Qed.

(* ---------------- tables ---------------- *)
Lemma shift_snd c t : map snd (shift c t) = map (fun v => v + c) (map snd t).
Proof. unfold shift. rewrite !map_map. reflexivity. Qed.

Lemma shift_length c t : length (shift c t) = length t.
Proof. apply map_length. Qed.

Lemma shift_nonempty c t : t <> [] -> shift c t <> [].
Proof. destruct t; [congruence | discriminate]. Qed.

Lemma ref_ind_shift c t : ref_ind (shift c t) = ref_ind t.
Proof. unfold ref_ind. rewrite shift_snd, argmax_shift, shift_length. reflexivity. Qed.

Lemma tnth_shift c t i : t <> [] ->
  tnth (shift c t) i = (fst (tnth t i), snd (tnth t i) + c).
Proof.
  intros H. unfold tnth, shift.
  set (F := fun e : Q * Q => (fst e, snd e + c)).
  change (nth i (map F t) (hd (0, 0) (map F t)) = F (nth i t (hd (0, 0) t))).
  replace (hd (0, 0) (map F t)) with (F (hd (0, 0) t)) by (destruct t; [congruence | reflexivity]).
  apply map_nth.
Qed.

Lemma tnth_shift_fst c t i : fst (tnth (shift c t) i) = fst (tnth t i).
Proof.
  destruct t as [ | e t'].
  - destruct i; reflexivity.
  - rewrite tnth_shift by discriminate. reflexivity.
Qed.

Lemma tnth_shift_snd c t i : t <> [] -> snd (tnth (shift c t) i) = snd (tnth t i) + c.
Proof. intros H. rewrite tnth_shift by exact H. reflexivity. Qed.

Lemma ref_pts_shift c t : ref_pts (shift c t) = ref_pts t.
Proof. unfold ref_pts. cbv zeta. rewrite ref_ind_shift, !tnth_shift_fst. reflexivity. Qed.

(* ---------------- mode refinement ---------------- *)
Lemma refine_step_shift func c t : t <> [] ->
  refine_step (fun x => func x + c) (shift c t) = shift c (refine_step func t).
Proof.
  intros H. unfold refine_step. cbv zeta. rewrite ref_pts_shift, ref_ind_shift.
  destruct (ref_pts t) as [x1 x2].
  rewrite (tnth_shift c t _ H).
  unfold shift. rewrite !map_app, firstn_map, skipn_map. reflexivity.
Qed.

Lemma refine_n_nonempty func n : forall t, t <> [] -> refine_n func n t <> [].
Proof.
  induction n as [ | n IH]; intros t H; simpl; [exact H | ].
  apply IH, refine_step_nonempty.
Qed.

Lemma refine_n_shift func c n : forall t, t <> [] ->
  refine_n (fun x => func x + c) n (shift c t) = shift c (refine_n func n t).
Proof.
  induction n as [ | n IH]; intros t H; simpl; [reflexivity | ].
  rewrite refine_step_shift by exact H. apply IH, refine_step_nonempty.
Qed.

Lemma refine_log_shift func c n : forall t, t <> [] ->
  refine_log (fun x => func x + c) n (shift c t) = refine_log func n t.
Proof.
  induction n as [ | n IH]; intros t H; cbn [refine_log]; [reflexivity | ].
  rewrite ref_pts_shift. destruct (ref_pts t) as [x1 x2].
  rewrite refine_step_shift by exact H.
  rewrite IH by apply refine_step_nonempty. reflexivity.
Qed.

(* ---------------- binary search ---------------- *)
Lemma bsearch_shift func c tol tgt tgt' : tgt' == tgt + c ->
  forall fuel x1 y1 y1' x2 y2 y2', y1' == y1 + c -> y2' == y2 + c ->
  bsearch (fun x => func x + c) fuel tol tgt' x1 y1' x2 y2' =
  bsearch func fuel tol tgt x1 y1 x2 y2.
Proof.
  intros Ht. induction fuel as [ | f IH]; intros x1 y1 y1' x2 y2 y2' H1 H2; [reflexivity | ].
  cbn [bsearch]. cbv beta zeta.
  set (xn := (1 # 2) * (x1 + x2)).
  assert (Etol : Qle_bool tol (Qabs (func xn + c - tgt')) = Qle_bool tol (Qabs (func xn - tgt))).
  { apply Qle_bool_ext; [reflexivity | ]. apply Qabs_wd. lra. }
  rewrite Etol.
  destruct (negb (Qle_bool tol (Qabs (func xn - tgt)))); [reflexivity | ].
  destruct f as [ | f']; [reflexivity | ].
  assert (Eb : between y1' tgt' (func xn + c) || between (func xn + c) tgt' y1' =
               between y1 tgt (func xn) || between (func xn) tgt y1).
  { f_equal; apply (between_shift c); try assumption; reflexivity. }
  rewrite Eb.
  destruct (between y1 tgt (func xn) || between (func xn) tgt y1).
  - rewrite (IH x1 y1 y1' xn (func xn) (func xn + c) H1 (Qeq_refl _)). reflexivity.
  - rewrite (IH xn (func xn) (func xn + c) x2 y2 y2' (Qeq_refl _) H2). reflexivity.
Qed.

Lemma bsearch_shift' func c tol tgt tgt' fuel x1 y1 x2 y2 : tgt' == tgt + c ->
  bsearch (fun x => func x + c) fuel tol tgt' x1 (y1 + c) x2 (y2 + c) =
  bsearch func fuel tol tgt x1 y1 x2 y2.
Proof. intros Ht. apply (bsearch_shift func c tol tgt tgt' Ht); reflexivity. Qed.

(* ---------------- threshold crossing ---------------- *)
Lemma Qmax_shift c a a' b b' : a' == a + c -> b' == b + c -> Qmax a' b' == Qmax a b + c.
Proof.
  intros Ha Hb.
  destruct (Q.max_spec a b) as [[L E] | [L E]], (Q.max_spec a' b') as [[L' E'] | [L' E']];
    rewrite E, E'; lra.
Qed.

Lemma fold_max_shift c : forall l a a', a' == a + c ->
  fold_left Qmax (map (fun v => v + c) l) a' == fold_left Qmax l a + c.
Proof.
  induction l as [ | b l IH]; intros a a' H; simpl; [exact H | ].
  apply IH. apply Qmax_shift; [exact H | reflexivity].
Qed.

Lemma list_max_shift c l : l <> [] -> list_max (map (fun v => v + c) l) == list_max l + c.
Proof.
  destruct l as [ | a l]; [congruence | ]. intros _. simpl. apply fold_max_shift. reflexivity.
Qed.

Lemma first_above_shift c tgt tgt' : tgt' == tgt + c -> forall l i,
  first_above tgt' i (map (fun v => v + c) l) = first_above tgt i l.
Proof.
  intros Ht. induction l as [ | a l IH]; intros i; simpl; [reflexivity | ].
  destruct (Qlt_le_dec tgt' (a + c)) as [H1 | H1], (Qlt_le_dec tgt a) as [H2 | H2]; try lra.
  - reflexivity.
  - apply IH.
Qed.

Lemma last_above_shift c tgt tgt' : tgt' == tgt + c -> forall l i acc,
  last_above tgt' i (map (fun v => v + c) l) acc = last_above tgt i l acc.
Proof.
  intros Ht. induction l as [ | a l IH]; intros i acc; simpl; [reflexivity | ].
  destruct (Qlt_le_dec tgt' (a + c)) as [H1 | H1], (Qlt_le_dec tgt a) as [H2 | H2]; try lra;
    apply IH.
Qed.

Lemma find_edges_shift func c tol t : t <> [] ->
  e_lwr (find_edges (fun x => func x + c) tol (shift c t)) = e_lwr (find_edges func tol t) /\
  e_upr (find_edges (fun x => func x + c) tol (shift c t)) = e_upr (find_edges func tol t) /\
  e_log (find_edges (fun x => func x + c) tol (shift c t)) = e_log (find_edges func tol t) /\
  e_mode (find_edges (fun x => func x + c) tol (shift c t)) == e_mode (find_edges func tol t) + c.
Proof.
  intros Hne. unfold find_edges. cbv zeta. cbn [e_lwr e_upr e_mode e_log].
  rewrite !shift_snd, !shift_length.
  set (p := map snd t).
  assert (Hp : p <> []) by (unfold p; destruct t; [congruence | discriminate]).
  pose proof (list_max_shift c p Hp) as Hpm.
  set (pm' := list_max (map (fun v => v + c) p)) in *.
  set (pm := list_max p) in *.
  assert (Htgt : pm' - threshold == (pm - threshold) + c) by (rewrite Hpm; ring).
  set (tgt' := pm' - threshold) in *.
  set (tgt := pm - threshold) in *.
  rewrite (first_above_shift c tgt tgt' Htgt), (last_above_shift c tgt tgt' Htgt).
  rewrite !tnth_shift_fst.
  rewrite !(fun i => tnth_shift_snd c t i Hne).
  rewrite !(fun v => Qle_bool_shift c tgt tgt' v Htgt).
  rewrite !(fun fuel x1 y1 x2 y2 => bsearch_shift' func c tol tgt tgt' fuel x1 y1 x2 y2 Htgt).
  repeat split; try reflexivity. exact Hpm.
Qed.

(* ---------------- the whole search ---------------- *)
Lemma table_shift (func : Q -> Q) c points :
  map (fun x => (x, func x + c)) points = shift c (map (fun x => (x, func x)) points).
Proof. unfold shift. rewrite map_map. reflexivity. Qed.

Lemma search_offset_invariant_lemma (func : Q -> Q) (c tol : Q) (points : list Q) (gs : nat) :
  points <> [] ->
  let r  := evaluate_search func tol points gs in
  let r' := evaluate_search (fun x => func x + c) tol points gs in
  fst (fst r') = fst (fst r)
  /\ snd r' = snd r
  /\ snd (fst r') == snd (fst r) + c.
Proof.
  intros Hne r r'. subst r r'. unfold evaluate_search. cbv beta zeta. cbn [fst snd].
  rewrite (table_shift func c points).
  set (t0 := map (fun x => (x, func x)) points).
  assert (H0 : t0 <> []) by (unfold t0; destruct points; [congruence | discriminate]).
  rewrite (refine_n_shift func c 6 t0 H0), (refine_log_shift func c 6 t0 H0).
  destruct (find_edges_shift func c tol (refine_n func 6 t0) (refine_n_nonempty func 6 t0 H0))
    as (E1 & E2 & E3 & E4).
  rewrite E1, E2, E3. repeat split; try reflexivity. exact E4.
Qed.

Print Assumptions search_offset_invariant_lemma.
