(* Lemmas about Model/ConditionalScale.v: piecewise_linear_sample does not depend on the
   absolute size of the table values or on the unit of the grid; an absolute floor under
   the cell means does. *)
From Coq Require Import List QArith Qabs Qminmax Bool Arith Lia Lqa.
From IT Require Import Model.Conditional Model.ConditionalScale Proofs.ConditionalProofs.
Import ListNotations.
Open Scope Q_scope.

(* ---------------- pointwise equality of lists ---------------- *)
Lemma Qlist_eq_refl l : Qlist_eq l l.
Proof. induction l as [ | a l IH]; constructor; [reflexivity | exact IH]. Qed.

Lemma Qlist_eq_trans a b c : Qlist_eq a b -> Qlist_eq b c -> Qlist_eq a c.
Proof.
  intros H. revert c. induction H as [ | x y a b Hxy Hab IH]; intros c Hc.
  - exact Hc.
  - inversion Hc as [ | y' z b' c' Hyz Hbc]; subst. constructor; [now rewrite Hxy | now apply IH].
Qed.

Lemma Qlist_eq_sym a b : Qlist_eq a b -> Qlist_eq b a.
Proof. induction 1 as [ | x y a b Hxy Hab IH]; constructor; [now symmetry | exact IH]. Qed.

Lemma map_pointwise (f g : Q -> Q) l : (forall v, f v == g v) -> Qlist_eq (map f l) (map g l).
Proof. intros H. induction l as [ | a l IH]; simpl; constructor; [apply H | exact IH]. Qed.

Lemma nth_Qlist_eq a b : Qlist_eq a b -> forall k, nth k a 0 == nth k b 0.
Proof.
  induction 1 as [ | x y a b Hxy Hab IH]; intros k; destruct k; simpl; try reflexivity; [exact Hxy | apply IH].
Qed.

Lemma nth_scale s l : forall k, nth k (scale s l) 0 == s * nth k l 0.
Proof.
  unfold scale. induction l as [ | a l IH]; intros k; destruct k; cbn [map nth]; try ring. apply IH.
Qed.

Lemma Qsum_wd a b : Qlist_eq a b -> Qsum a == Qsum b.
Proof.
  unfold Qsum. induction 1 as [ | x y a b Hxy Hab IH]; cbn [fold_right]; [reflexivity | ].
  rewrite Hxy, IH. reflexivity.
Qed.

Lemma Qsum_scale_l c w : Qsum (scale c w) == c * Qsum w.
Proof.
  unfold Qsum, scale. induction w as [ | a w IH]; cbn [map fold_right]; [ring | ].
  rewrite IH. ring.
Qed.

Lemma map_div_wd a b s s' : Qlist_eq a b -> s == s' ->
  Qlist_eq (map (fun v => v / s) a) (map (fun v => v / s') b).
Proof.
  intros H Hs. induction H as [ | x y a b Hxy Hab IH]; simpl; constructor; [ | exact IH].
  now rewrite Hxy, Hs.
Qed.

Lemma normalise_wd a b : Qlist_eq a b -> Qlist_eq (normalise a) (normalise b).
Proof. intros H. unfold normalise. apply map_div_wd; [exact H | now apply Qsum_wd]. Qed.

(* c*n / (c*d) = n / d also when d = 0 (both sides are 0 in Q) *)
Lemma Qdiv_scale c n d : ~ c == 0 -> (c * n) / (c * d) == n / d.
Proof.
  intros Hc. destruct (Qeq_dec d 0) as [E | E].
  - assert (E' : c * d == 0) by (rewrite E; ring).
    unfold Qdiv. rewrite E', E. change (/ 0) with 0. ring.
  - field. split; assumption.
Qed.

Lemma normalise_scale c w : ~ c == 0 -> Qlist_eq (normalise (scale c w)) (normalise w).
Proof.
  intros Hc. unfold normalise. unfold scale at 2. rewrite map_map.
  apply map_pointwise. intros v. rewrite Qsum_scale_l. now apply Qdiv_scale.
Qed.

(* ---------------- unfolding the two-step fixpoints ---------------- *)
Lemma cell_means_cons2 a b t : cell_means (a :: b :: t) = ((1 # 2) * (b + a)) :: cell_means (b :: t).
Proof. reflexivity. Qed.
Lemma diffs_cons2 a b t : diffs (a :: b :: t) = (b - a) :: diffs (b :: t).
Proof. reflexivity. Qed.
Lemma cell_deltas_cons2 a b t :
  cell_deltas (a :: b :: t) = ((1 # 2) * (b - a) / ((1 # 2) * (b + a))) :: cell_deltas (b :: t).
Proof. reflexivity. Qed.
Lemma cell_deltas_floor_cons2 eps a b t :
  cell_deltas_floor eps (a :: b :: t) =
  ((1 # 2) * (b - a) / Qmax ((1 # 2) * (b + a)) eps) :: cell_deltas_floor eps (b :: t).
Proof. reflexivity. Qed.
Lemma scale_cons c a l : scale c (a :: l) = (c * a) :: scale c l.
Proof. reflexivity. Qed.

(* ---------------- scaling the table values / the grid ---------------- *)
Lemma cell_means_scale c p : Qlist_eq (cell_means (scale c p)) (scale c (cell_means p)).
Proof.
  induction p as [ | a p IH]; [constructor | ].
  destruct p as [ | b p]; [constructor | ].
  rewrite !scale_cons, !cell_means_cons2, scale_cons. rewrite <- scale_cons.
  constructor; [ring | exact IH].
Qed.

Lemma diffs_scale s x : Qlist_eq (diffs (scale s x)) (scale s (diffs x)).
Proof.
  induction x as [ | a x IH]; [constructor | ].
  destruct x as [ | b x]; [constructor | ].
  rewrite !scale_cons, !diffs_cons2, scale_cons. rewrite <- scale_cons.
  constructor; [ring | exact IH].
Qed.

Lemma map2_Qmult_wd a a' b b' : Qlist_eq a a' -> Qlist_eq b b' ->
  Qlist_eq (map2 Qmult a b) (map2 Qmult a' b').
Proof.
  intros Ha. revert b b'. induction Ha as [ | x y a a' Hxy Haa IH]; intros b b' Hb.
  - simpl. constructor.
  - destruct Hb as [ | u v b b' Huv Hbb]; simpl; constructor; [now rewrite Hxy, Huv | now apply IH].
Qed.

Lemma map2_scale_l c a : forall b, Qlist_eq (map2 Qmult (scale c a) b) (scale c (map2 Qmult a b)).
Proof.
  induction a as [ | x a IH]; intros b; [constructor | ].
  destruct b as [ | y b]; simpl; constructor; [ring | apply IH].
Qed.

Lemma map2_scale_r c a : forall b, Qlist_eq (map2 Qmult a (scale c b)) (scale c (map2 Qmult a b)).
Proof.
  induction a as [ | x a IH]; intros b; [constructor | ].
  destruct b as [ | y b]; simpl; constructor; [ring | apply IH].
Qed.

Lemma cell_masses_scale_values c x p :
  Qlist_eq (cell_masses x (scale c p)) (scale c (cell_masses x p)).
Proof.
  unfold cell_masses. eapply Qlist_eq_trans; [ | apply map2_scale_l].
  apply map2_Qmult_wd; [apply cell_means_scale | apply Qlist_eq_refl].
Qed.

Lemma cell_masses_scale_grid s x p :
  Qlist_eq (cell_masses (scale s x) p) (scale s (cell_masses x p)).
Proof.
  unfold cell_masses. eapply Qlist_eq_trans; [ | apply map2_scale_r].
  apply map2_Qmult_wd; [apply Qlist_eq_refl | apply diffs_scale].
Qed.

(* the cell probabilities do not depend on the size of the table values ... *)
Lemma weights_scale_values c x p : ~ c == 0 ->
  Qlist_eq (weights x (scale c p)) (weights x p).
Proof.
  intros Hc. unfold weights. eapply Qlist_eq_trans; [ | apply normalise_scale; exact Hc].
  apply normalise_wd, cell_masses_scale_values.
Qed.

(* ... nor on the unit of the grid *)
Lemma weights_scale_grid s x p : ~ s == 0 ->
  Qlist_eq (weights (scale s x) p) (weights x p).
Proof.
  intros Hs. unfold weights. eapply Qlist_eq_trans; [ | apply normalise_scale; exact Hs].
  apply normalise_wd, cell_masses_scale_grid.
Qed.

(* the relative slope of every cell does not depend on the size of the table values *)
Lemma cell_deltas_scale c p : ~ c == 0 -> Qlist_eq (cell_deltas (scale c p)) (cell_deltas p).
Proof.
  intros Hc. induction p as [ | a p IH]; [constructor | ].
  destruct p as [ | b p]; [constructor | ].
  rewrite !scale_cons, !cell_deltas_cons2. rewrite <- scale_cons.
  constructor; [ | exact IH].
  setoid_replace ((1 # 2) * (c * b - c * a)) with (c * ((1 # 2) * (b - a))) by ring.
  setoid_replace ((1 # 2) * (c * b + c * a)) with (c * ((1 # 2) * (b + a))) by ring.
  now apply Qdiv_scale.
Qed.

(* the sample drawn from cell k of the grid s*x is s times the sample from cell k of x *)
Lemma cell_point_scale_grid s x p p' k t :
  cell_point (cell_of (scale s x) p' k) t == s * cell_point (cell_of x p k) t.
Proof.
  unfold cell_point, cell_of. cbn [fst snd].
  rewrite (nth_Qlist_eq _ _ (diffs_scale s x) k), !nth_scale. ring.
Qed.

(* ---------------- the absolute floor ---------------- *)
(* invisible while every cell mean is at least eps ... *)
Lemma floor_invisible eps p : means_above eps p ->
  Qlist_eq (cell_deltas_floor eps p) (cell_deltas p).
Proof.
  induction p as [ | a p IH]; [constructor | ].
  destruct p as [ | b p]; [constructor | ].
  intros [H1 H2]. rewrite cell_deltas_floor_cons2, cell_deltas_cons2.
  constructor; [ | apply IH; exact H2].
  rewrite (Q.max_l _ _ H1). reflexivity.
Qed.

(* ... and strictly flattens every sloping cell whose mean is below eps *)
Lemma floor_shrinks eps a b : 0 <= a -> 0 <= b -> ~ a == b -> (1 # 2) * (b + a) < eps ->
  Qabs ((1 # 2) * (b - a) / Qmax ((1 # 2) * (b + a)) eps) <
  Qabs ((1 # 2) * (b - a) / ((1 # 2) * (b + a))).
Proof.
  intros Ha Hb Hab Hm.
  set (n := (1 # 2) * (b - a)). set (m := (1 # 2) * (b + a)) in *.
  assert (Hm0 : 0 < m).
  { unfold m. destruct (Qlt_le_dec 0 (b + a)) as [H | H]; [lra | ].
    exfalso. apply Hab. lra. }
  assert (He : 0 < eps) by lra.
  assert (Hn : 0 < Qabs n).
  { destruct (Qlt_le_dec 0 (Qabs n)) as [H | H]; [exact H | ].
    exfalso. pose proof (Qabs_nonneg n) as H0.
    assert (E : Qabs n == 0) by lra.
    assert (En : n == 0).
    { destruct (Qlt_le_dec n 0) as [L | L].
      - rewrite Qabs_neg in E by lra. lra.
      - rewrite Qabs_pos in E by exact L. exact E. }
    apply Hab. unfold n in En. lra. }
  rewrite (Q.max_r m eps) by lra.
  unfold Qdiv. rewrite !Qabs_Qmult, !Qabs_Qinv.
  rewrite (Qabs_pos eps) by lra. rewrite (Qabs_pos m) by lra.
  apply Qmult_lt_l; [exact Hn | ].
  apply -> Qinv_lt_contravar; assumption.
Qed.

(* witness: eps = 1e-12, the table [1, 3] multiplied by 1e-20 *)
Lemma absolute_floor_refuted_lemma :
  exists eps c x p, 0 < eps /\ 0 < c /\ pls_valid x p = true /\ pls_valid x (scale c p) = true /\
    Qlist_eqb (cell_deltas_floor eps p) (cell_deltas p) = true /\
    Qlist_eqb (cell_deltas (scale c p)) (cell_deltas p) = true /\
    Qlist_eqb (cell_deltas_floor eps (scale c p)) (cell_deltas p) = false /\
    Qlist_eqb (weights_floor eps x p) (weights x p) = true /\
    Qlist_eqb (weights_floor eps x (scale c p)) (weights x p) = false.
Proof.
  exists (1 # 1000000000000), (1 # 100000000000000000000), [0; 1; 3], [1; 3; 2].
  vm_compute. repeat split; discriminate.
Qed.

(* ---------------- evaluate_conditional: the normalised table ---------------- *)
(* multiplying the un-normalised table exp(func - mode) by a constant (an un-normalised
   posterior times 1e-20 .. 1e20) leaves the returned conditional unchanged *)
Lemma normalise_by_simpson_scale c x e : ~ c == 0 ->
  Qlist_eq (normalise_by_simpson x (map (fun v => v * c) e)) (normalise_by_simpson x e).
Proof.
  intros Hc. unfold normalise_by_simpson. rewrite map_map. apply map_pointwise. intros v.
  rewrite (simpson_scale c (length x)) by lia.
  setoid_replace (v * c) with (c * v) by ring. now apply Qdiv_scale.
Qed.

(* ---------------- the reduced evaluation of the quadrature ---------------- *)
Lemma simpson_red_unfold3 x0 x1 x2 xr y0 y1 y2 yr :
  simpson_red (x0 :: x1 :: x2 :: xr) (y0 :: y1 :: y2 :: yr) =
  Qred (Qred (simpson_basic x0 x1 x2 y0 y1 y2) +
        match xr, yr with
        | [x3], [y3] => Qred (simpson_last (x2 - x1) (x3 - x2) y1 y2 y3)
        | _, _ => simpson_red (x2 :: xr) (y2 :: yr)
        end).
Proof. reflexivity. Qed.

Lemma simpson_red_eq : forall n x y, (length x <= n)%nat -> simpson_red x y == simpson x y.
Proof.
  induction n as [ | n IH]; intros x y Hn.
  - destruct x; [ | simpl in Hn; lia]. reflexivity.
  - destruct x as [ | x0 [ | x1 [ | x2 xr]]]; destruct y as [ | y0 [ | y1 [ | y2 yr]]];
      try reflexivity.
    assert (IHt : simpson_red (x2 :: xr) (y2 :: yr) == simpson (x2 :: xr) (y2 :: yr)).
    { apply IH. simpl in Hn. simpl. lia. }
    rewrite simpson_red_unfold3, simpson_unfold3, !Qred_correct.
    destruct xr as [ | x3 [ | x4 xr]]; destruct yr as [ | y3 [ | y4 yr]];
      rewrite ?Qred_correct, ?IHt; reflexivity.
Qed.

Lemma check_unit_case_red_eq c : check_unit_case_red c = check_unit_case c.
Proof.
  destruct c as [[rtol x] pc]. unfold check_unit_case_red, check_unit_case, Qclose.
  pose proof (simpson_red_eq (length x) x pc (le_n _)) as E.
  assert (E' : Qabs (simpson_red x pc - 1) == Qabs (simpson x pc - 1)) by now rewrite E.
  destruct (Qle_bool (Qabs (simpson_red x pc - 1)) rtol) eqn:A;
    destruct (Qle_bool (Qabs (simpson x pc - 1)) rtol) eqn:B; try reflexivity.
  - apply Qle_bool_iff in A. rewrite E' in A. apply Qle_bool_iff in A. congruence.
  - apply Qle_bool_iff in B. rewrite <- E' in B. apply Qle_bool_iff in B. congruence.
Qed.
