(* Proofs/DerivativesProofs.v -- lemmas about Matrix/Derivatives.v at the MathComp
   instance (property C16).  Any realFieldType, any sizes n (training points),
   d (spatial dimensions). *)
From Coq Require Import QArith.
From mathcomp Require Import all_ssreflect all_algebra.
From IT Require Import Matrix.MxOps Matrix.McOps Matrix.GpModel Matrix.Derivatives Proofs.GpProofs.

Set Implicit Arguments.
Unset Strict Implicit.
Unset Printing Implicit Defensive.

Import Order.TTheory GRing.Theory Num.Theory.
Local Open Scope ring_scope.

Lemma Q2F_m2 (R : numFieldType) : Q2F R (-2 # 1)%Q = - 2%:R.
Proof. by rewrite /Q2F /int_of_Z /= Pos2Nat.inj_1 divr1. Qed.

Lemma Q2F_2 (R : numFieldType) : Q2F R (2 # 1)%Q = 2%:R.
Proof. by rewrite /Q2F /int_of_Z /= Pos2Nat.inj_1 divr1. Qed.

Lemma Q2F_inv_nat (R : numFieldType) n : (0 < n)%N -> Q2F R (1 # Pos.of_nat n)%Q = n%:R^-1.
Proof.
move=> n0; rewrite /Q2F /int_of_Z /= Pos2Nat.inj_1 mul1r Nat2Pos.id //.
by apply/eqP; rewrite -lt0n.
Qed.

Section Deriv.
Variable R : realFieldType.
Notation O := (McOps R).

(* ---- the model's functions in MathComp notation ----------------------------- *)
Lemma bcast_rowsE n d (row : 'rV[R]_n) i j : (@bcast_rows O n d row) i j = row 0 j.
Proof. by rewrite /bcast_rows /= mxE big_ord1 mxE Q2F_1 mul1r. Qed.

Lemma dk_matrixE d n (A : 'M[R]_(d, n)) (K : 'rV[R]_n) i j :
  (@dk_matrix O d n A K) i j = A i j * K 0 j.
Proof. by rewrite /dk_matrix /= mxE bcast_rowsE. Qed.

(* A @ (K_qx * alpha).T  =  (A * K_qx) @ alpha *)
Lemma grad_mean_kernelE d n (A : 'M[R]_(d, n)) (K : 'rV[R]_n) (alpha : 'cV[R]_n) :
  @grad_mean_kernel O d n A K alpha = @dk_matrix O d n A K *m alpha.
Proof.
apply/matrixP=> i j; rewrite /grad_mean_kernel /= !mxE.
by apply: eq_bigr => k _; rewrite dk_matrixE !mxE ord1 mulrA.
Qed.

(* entry i of the gradient mean, as the sum the analytic theorem speaks of *)
Lemma grad_mean_entry d n (A : 'M[R]_(d, n)) (K : 'rV[R]_n) (alpha : 'cV[R]_n) (dmu : 'cV[R]_d) i :
  (@grad_mean O d n A K alpha dmu) i 0
  = \sum_j (A i j * K 0 j) * alpha j 0 + dmu i 0.
Proof.
rewrite /grad_mean grad_mean_kernelE /= !mxE; congr (_ + _).
by apply: eq_bigr => k _; rewrite dk_matrixE.
Qed.

Lemma grad_covE d n (L : 'M[R]_n) (A : 'M[R]_(d, n)) (K : 'rV[R]_n) (Rv : 'cV[R]_d) :
  @grad_cov O d n L A K Rv
  = diag_mx Rv^T - (invmx L *m (@dk_matrix O d n A K)^T)^T *m (invmx L *m (@dk_matrix O d n A K)^T).
Proof. by []. Qed.

Lemma grad_cov_pinnedE d n (L : 'M[R]_n) (A : 'M[R]_(d, n)) (K : 'rV[R]_n) (Rv : 'cV[R]_d) :
  @grad_cov_pinned O d n L A K Rv
  = @bcast_rows O d d Rv^T
    - (invmx L *m (@dk_matrix O d n A K)^T)^T *m (invmx L *m (@dk_matrix O d n A K)^T).
Proof. by []. Qed.

Lemma dvarE d n (L : 'M[R]_n) (A : 'M[R]_(d, n)) (K : 'rV[R]_n) :
  @dvar O d n L A K = (- 2%:R *: @dk_matrix O d n A K) *m (invmx L^T *m (invmx L *m K^T)).
Proof. by rewrite /dvar /dvar_s /dvar_Q_s /= Q2F_m2. Qed.

(* ---- closed forms -------------------------------------------------------------- *)
Section Closed.
Variables (n d : nat).
Variables (K S L : 'M[R]_n) (y mu : 'cV[R]_n).
Variables (A : 'M[R]_(d, n)) (K_qx : 'rV[R]_n) (Rv dmu : 'cV[R]_d).
Hypothesis HL : L *m L^T = K + S.
Hypothesis uL : L \in unitmx.
Let G := @dk_matrix O d n A K_qx.

(* gradient mean = G (K_xx + S)^-1 (y - m(x)) + dm/dq *)
Lemma grad_mean_closed_form :
  @grad_mean O d n A K_qx (@gp_alpha O n L y mu) dmu
  = G *m invmx (K + S) *m (y - mu) + dmu.
Proof. by rewrite /grad_mean grad_mean_kernelE (alpha_closed _ _ HL uL) /= mulmxA. Qed.

Lemma grad_mean_closed_model :
  @grad_mean O d n A K_qx (@gp_alpha O n L y mu) dmu
  = @grad_mean_closed O d n (@data_cov O n K S) A K_qx y mu dmu.
Proof. by rewrite grad_mean_closed_form /grad_mean_closed /grad_mean_closed_s /= mulmxA. Qed.

(* gradient covariance = diag(R) - G (K_xx + S)^-1 G^T *)
Lemma grad_cov_closed_form :
  @grad_cov O d n L A K_qx Rv = diag_mx Rv^T - G *m invmx (K + S) *m G^T.
Proof.
rewrite grad_covE (inv_of_factor HL uL); congr (_ - _).
by rewrite trmx_mul trmxK trmx_inv !mulmxA.
Qed.

Lemma grad_cov_closed_model :
  @grad_cov O d n L A K_qx Rv = @grad_cov_closed O d n (@data_cov O n K S) A K_qx Rv.
Proof. by rewrite grad_cov_closed_form /grad_cov_closed /grad_cov_closed_s /= mulmxA. Qed.

(* derivative of the variance = -2 G (K_xx + S)^-1 K_xq *)
Lemma dvar_closed_form :
  @dvar O d n L A K_qx = - 2%:R *: (G *m invmx (K + S) *m K_qx^T).
Proof. by rewrite dvarE (inv_of_factor HL uL) -scalemxAl !mulmxA. Qed.

Lemma dvar_closed_model :
  @dvar O d n L A K_qx = @dvar_closed O d n (@data_cov O n K S) A K_qx.
Proof. by rewrite dvar_closed_form /dvar_closed /dvar_closed_s /= Q2F_m2 !mulmxA. Qed.

(* entry i, as the double sum of the analytic theorem:
   -2 sum_j (A_ij k_j) sum_l W_jl k_l   with W = (K_xx + S)^-1 *)
Lemma dvar_entry i :
  (@dvar O d n L A K_qx) i 0
  = - 2%:R * \sum_j (A i j * K_qx 0 j) * \sum_l (invmx (K + S)) j l * K_qx 0 l.
Proof.
rewrite dvar_closed_form -mulmxA !mxE; congr (_ * _).
apply: eq_bigr => j _; rewrite dk_matrixE !mxE; congr (_ * _).
by apply: eq_bigr => l _; rewrite !mxE.
Qed.

End Closed.

(* ---- symmetry, positive semi-definiteness ------------------------------------------ *)
Section Psd.
Variables (n d : nat).
Variables (K S L : 'M[R]_n).
Variables (A : 'M[R]_(d, n)) (K_qx : 'rV[R]_n) (Rv : 'cV[R]_d).
Let G := @dk_matrix O d n A K_qx.

Lemma grad_cov_sym : (@grad_cov O d n L A K_qx Rv)^T = @grad_cov O d n L A K_qx Rv.
Proof. by rewrite grad_covE linearB /= tr_diag_mx trmx_mul trmxK. Qed.

(* the explained part is PSD: the posterior gradient covariance is below the prior one *)
Lemma prior_minus_grad_cov_psd : psd (diag_mx Rv^T - @grad_cov O d n L A K_qx Rv).
Proof.
rewrite grad_covE opprB addrC subrK => x; rewrite /qform.
move: (invmx L *m _) => Q.
have -> : x^T *m (Q^T *m Q) *m x = (Q *m x)^T *m (Q *m x) by rewrite trmx_mul !mulmxA.
exact: sqnorm_ge0.
Qed.

Hypothesis HL : L *m L^T = K + S.
Hypothesis uL : L \in unitmx.
(* the joint prior covariance of (noisy data, gradient at q) is PSD:
   cov(y, y) = K + S, cov(grad f(q), y) = G, cov(grad f(q), grad f(q)) = diag(R) *)
Hypothesis Hjoint : psd (block_mx (K + S) G^T G (diag_mx Rv^T)).

Lemma grad_cov_psd : psd (@grad_cov O d n L A K_qx Rv).
Proof.
rewrite (grad_cov_closed_form _ _ _ HL uL).
have sA := sym_of_factor HL.
have uA := unit_of_factor HL uL.
have := @schur_psd R n d (K + S) G^T (diag_mx Rv^T) sA uA.
by rewrite trmxK; apply.
Qed.

Lemma grad_var_bounds i :
  0 <= (@grad_cov O d n L A K_qx Rv) i i <= Rv i 0.
Proof.
apply/andP; split; first exact: (psd_diag_ge0 i grad_cov_psd).
have := psd_diag_ge0 i prior_minus_grad_cov_psd.
by rewrite !mxE eqxx mulr1n subr_ge0.
Qed.

End Psd.

(* ---- the pinned gradient covariance (D15) --------------------------------------------- *)
Lemma subE m p (X Y : 'M[R]_(m, p)) i j : (X - Y) i j = X i j - Y i j.
Proof. by rewrite !mxE. Qed.

(* pinned = repaired on the diagonal and for d = 1; off the diagonal it adds R_j *)
Lemma grad_cov_pinned_entry d n (L : 'M[R]_n) (A : 'M[R]_(d, n)) (K_qx : 'rV[R]_n) (Rv : 'cV[R]_d) i j :
  (@grad_cov_pinned O d n L A K_qx Rv) i j
  = (@grad_cov O d n L A K_qx Rv) i j + (if i == j then 0 else Rv j 0).
Proof.
rewrite grad_cov_pinnedE grad_covE !subE bcast_rowsE.
rewrite [(diag_mx _) i j]mxE !mxE.
by case: eqP => [->|_]; rewrite ?mulr1n ?mulr0n ?addr0 ?add0r // addrC.
Qed.

Lemma grad_cov_pinned_asym d n (L : 'M[R]_n) (A : 'M[R]_(d, n)) (K_qx : 'rV[R]_n) (Rv : 'cV[R]_d) i j :
  i != j ->
  (@grad_cov_pinned O d n L A K_qx Rv) i j - (@grad_cov_pinned O d n L A K_qx Rv) j i
  = Rv j 0 - Rv i 0.
Proof.
move=> ij; rewrite !grad_cov_pinned_entry (negPf ij) eq_sym (negPf ij).
have -> : (@grad_cov O d n L A K_qx Rv) j i = (@grad_cov O d n L A K_qx Rv) i j.
  by rewrite -[in LHS](grad_cov_sym L A K_qx Rv) mxE.
by rewrite opprD addrACA subrr add0r.
Qed.

(* ---- mean.py: spatial_gradient, entry by entry ------------------------------------------- *)
Lemma dmean_constE d i : (@dmean_const O d) i 0 = 0.
Proof. by rewrite /dmean_const /= mxE Q2F_0. Qed.

Lemma dmean_linearE d (th : 'cV[R]_d) i : (@dmean_linear O d th) i 0 = th i 0.
Proof. by rewrite /dmean_linear /= !mxE Q2F_0 add0r. Qed.

Lemma x_meanE n d (X : 'M[R]_(n, d)) i : (0 < n)%N ->
  (@x_mean O n d X) i 0 = (\sum_k X k i) / n%:R.
Proof.
move=> n0; rewrite /x_mean /= !mxE Q2F_inv_nat // mulrC; congr (_ / _).
by apply: eq_bigr => k _; rewrite !mxE Q2F_1 mulr1.
Qed.

Lemma dmean_quadraticE n d (X : 'M[R]_(n, d)) (q tl tq : 'cV[R]_d) i : (0 < n)%N ->
  (@dmean_quadratic O n d X q tl tq) i 0
  = tl i 0 + 2%:R * (q i 0 - (\sum_k X k i) / n%:R) * tq i 0.
Proof.
move=> n0; rewrite /dmean_quadratic /=.
rewrite [LHS]mxE [(mc_had _ _) i 0]mxE; congr (_ + _ * _).
have -> : Q2F R (1 # Pos.of_nat n) *: (X^T *m const_mx (Q2F R 1)) = @x_mean O n d X by [].
by rewrite mxE subE x_meanE // Q2F_2.
Qed.

(* pinned (D14): the mean-function term is missing *)
Lemma grad_mean_pinned_diff d n (A : 'M[R]_(d, n)) (K : 'rV[R]_n) (alpha : 'cV[R]_n) (dmu : 'cV[R]_d) :
  @grad_mean O d n A K alpha dmu - @grad_mean_pinned O d n A K alpha dmu = dmu.
Proof. by rewrite /grad_mean /grad_mean_pinned /= addrC addKr. Qed.

End Deriv.
