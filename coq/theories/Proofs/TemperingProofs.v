(* C08 (b), (c): exchange rule, hand-over, advance arithmetic, worker shutdown. *)
From Coq Require Import List Arith ZArith QArith Bool Lia Field.
From IT Require Import Common.ExpBounds Model.Tempering.
Import ListNotations.

(* ====================================================================== *)
(* swap threshold                                                         *)
(* ====================================================================== *)
Open Scope Q_scope.

(* the exponent the code evaluates, in terms of the stored (tempered) values *)
Lemma swap_exponent_stored : forall bi bj pri prj,
  swap_exponent bi bj pri prj == (bi - bj) * (prj / bj - pri / bi).
Proof. intros. unfold swap_exponent. ring. Qed.

(* ... and in terms of the untempered log-densities L, when stored = beta * L *)
Lemma swap_exponent_untempered : forall bi bj Li Lj pri prj,
  ~ bi == 0 -> ~ bj == 0 -> pri == bi * Li -> prj == bj * Lj ->
  swap_exponent bi bj pri prj == (bi - bj) * (Lj - Li).
Proof.
  intros bi bj Li Lj pri prj Hi Hj Hpi Hpj.
  rewrite swap_exponent_stored, Hpi, Hpj. field. split; assumption.
Qed.

(* with beta = 1/T:  (1/T_i - 1/T_j)(L_j - L_i) *)
Lemma swap_exponent_temperatures : forall Ti Tj Li Lj pri prj,
  ~ Ti == 0 -> ~ Tj == 0 -> pri == (1 / Ti) * Li -> prj == (1 / Tj) * Lj ->
  swap_exponent (1 / Ti) (1 / Tj) pri prj == (1 / Ti - 1 / Tj) * (Lj - Li).
Proof.
  intros Ti Tj Li Lj pri prj Hi Hj Hpi Hpj.
  apply swap_exponent_untempered; try assumption.
  - intros H. assert (E : Ti * (1 / Ti) == 1) by (field; assumption).
    rewrite H, Qmult_0_r in E. unfold Qeq in E. simpl in E. discriminate E.
  - intros H. assert (E : Tj * (1 / Tj) == 1) by (field; assumption).
    rewrite H, Qmult_0_r in E. unfold Qeq in E. simpl in E. discriminate E.
Qed.

(* the decision is taken on exactly that exponent *)
Lemma swap_decide_exponent : forall u bi bj Li Lj pri prj,
  ~ bi == 0 -> ~ bj == 0 -> pri == bi * Li -> prj == bj * Lj ->
  exists d, d == (bi - bj) * (Lj - Li) /\ swap_decide u bi bj pri prj = decide_accept u d.
Proof.
  intros. exists (swap_exponent bi bj pri prj). split; [| reflexivity].
  apply swap_exponent_untempered; assumption.
Qed.

(* sign-flipped and inv_temp-less variants (mutations) give a different exponent *)
Lemma swap_exponent_sign_matters :
  ~ swap_exponent 1 (1#2) (-4) (-1) == - swap_exponent 1 (1#2) (-4) (-1).
Proof. vm_compute. discriminate. Qed.

(* ====================================================================== *)
(* hand-over                                                              *)
(* ====================================================================== *)
Lemma nth_error_set_nth_same : forall (A : Type) (l : list A) k x,
  (k < length l)%nat -> nth_error (set_nth k x l) k = Some x.
Proof.
  induction l as [| y t IH]; intros k x Hk; simpl in *; [lia |].
  destruct k; simpl; [reflexivity | apply IH; lia].
Qed.

Lemma nth_error_set_nth_other : forall (A : Type) (l : list A) k k' x,
  k <> k' -> nth_error (set_nth k x l) k' = nth_error l k'.
Proof.
  induction l as [| y t IH]; intros k k' x Hne; simpl; [reflexivity |].
  destruct k; destruct k'; simpl; try reflexivity; try lia.
  apply IH. lia.
Qed.

Lemma length_set_nth : forall (A : Type) (l : list A) k x, length (set_nth k x l) = length l.
Proof.
  induction l as [| y t IH]; intros k x; simpl; [reflexivity |].
  destruct k; simpl; [reflexivity | rewrite IH; reflexivity].
Qed.

Lemma nth_map_default : forall (A B : Type) (f : A -> B) l k c d,
  nth_error l k = Some c -> nth k (map f l) d = f c.
Proof.
  induction l as [| y t IH]; intros k c d H; destruct k; simpl in *; try discriminate.
  - inversion H; reflexivity.
  - apply IH; assumption.
Qed.

Section Exchange.
  Variable take_step : chain -> chain.

  (* The state after exchanging the pair (i, j), spelled out. *)
  Definition received (c other : chain) : chain :=
    match c_hist c with
    | [] => c
    | _ :: older => set_hist c ((get_last other, (last_prob other / c_beta other) * c_beta c) :: older)
    end.

  Lemma exchange_spec : forall cs i j ci cj,
    i <> j -> nth_error cs i = Some ci -> nth_error cs j = Some cj ->
    exchange take_step cs i j = set_nth j (received cj ci) (set_nth i (received ci cj) cs).
  Proof.
    intros cs i j ci cj Hne Hi Hj.
    unfold exchange, swap_pair_msgs.
    rewrite (nth_map_default _ _ c_beta cs i ci 0 Hi).
    rewrite (nth_map_default _ _ c_beta cs j cj 0 Hj).
    rewrite (nth_map_default _ _ (fun c => (get_last c, last_prob c)) cs i ci ([], 0) Hi).
    rewrite (nth_map_default _ _ (fun c => (get_last c, last_prob c)) cs j cj ([], 0) Hj).
    simpl. unfold deliver at 2. simpl. rewrite Hi. simpl.
    unfold deliver. simpl.
    rewrite nth_error_set_nth_other by assumption. rewrite Hj. simpl.
    reflexivity.
  Qed.

  (* chain i now holds x_j with beta_i * (p_j / beta_j); chain j the converse;
     older samples, temperatures and every other chain are untouched *)
  Theorem exchange_state : forall cs i j ci cj xi pi oi xj pj oj,
    i <> j -> nth_error cs i = Some ci -> nth_error cs j = Some cj ->
    c_hist ci = (xi, pi) :: oi -> c_hist cj = (xj, pj) :: oj ->
    let cs' := exchange take_step cs i j in
    (exists ci', nth_error cs' i = Some ci' /\
        c_hist ci' = (xj, (pj / c_beta cj) * c_beta ci) :: oi /\ c_beta ci' = c_beta ci) /\
    (exists cj', nth_error cs' j = Some cj' /\
        c_hist cj' = (xi, (pi / c_beta ci) * c_beta cj) :: oj /\ c_beta cj' = c_beta cj) /\
    (forall k, k <> i -> k <> j -> nth_error cs' k = nth_error cs k) /\
    length cs' = length cs.
  Proof.
    intros cs i j ci cj xi pi oi xj pj oj Hne Hi Hj Hhi Hhj cs'.
    unfold cs'. rewrite (exchange_spec cs i j ci cj Hne Hi Hj).
    assert (Hli : (i < length cs)%nat) by (apply nth_error_Some; congruence).
    assert (Hlj : (j < length cs)%nat) by (apply nth_error_Some; congruence).
    split; [| split; [| split]].
    - exists (received ci cj). split.
      + rewrite nth_error_set_nth_other by (intros E; apply Hne; symmetry; exact E).
        apply nth_error_set_nth_same. assumption.
      + unfold received, get_last, last_prob. rewrite Hhi, Hhj. simpl. split; reflexivity.
    - exists (received cj ci). split.
      + apply nth_error_set_nth_same. rewrite length_set_nth. assumption.
      + unfold received, get_last, last_prob. rewrite Hhi, Hhj. simpl. split; reflexivity.
    - intros k Hki Hkj.
      rewrite nth_error_set_nth_other by (intros E; apply Hkj; symmetry; exact E).
      rewrite nth_error_set_nth_other by (intros E; apply Hki; symmetry; exact E).
      reflexivity.
    - rewrite !length_set_nth. reflexivity.
  Qed.

  (* C03's invariant (stored probability = beta * logp(stored point)) survives *)
  Theorem exchange_aligned : forall logp cs i j ci cj,
    i <> j -> nth_error cs i = Some ci -> nth_error cs j = Some cj ->
    ~ c_beta ci == 0 -> ~ c_beta cj == 0 ->
    c_hist ci <> [] -> c_hist cj <> [] ->
    aligned logp ci -> aligned logp cj ->
    forall k c, nth_error cs k = Some c -> aligned logp c ->
    forall c', nth_error (exchange take_step cs i j) k = Some c' -> aligned logp c'.
  Proof.
    intros logp cs i j ci cj Hne Hi Hj Hbi Hbj Hni Hnj Hai Haj k c Hk Hak c' Hk'.
    destruct (c_hist ci) as [| [xi pi] oi] eqn:Hhi; [congruence |].
    destruct (c_hist cj) as [| [xj pj] oj] eqn:Hhj; [congruence |].
    destruct (exchange_state cs i j ci cj xi pi oi xj pj oj Hne Hi Hj Hhi Hhj)
      as [[ci' [Hi' [Hhi' Hbi']]] [[cj' [Hj' [Hhj' Hbj']]] [Hother _]]].
    unfold aligned in Hai, Haj. rewrite Hhi in Hai. rewrite Hhj in Haj.
    inversion Hai as [| ? ? Hpi Hoi]; subst. inversion Haj as [| ? ? Hpj Hoj]; subst.
    simpl in Hpi, Hpj.
    destruct (Nat.eq_dec k i) as [-> | Hki].
    - rewrite Hi' in Hk'. inversion Hk'; subst c'.
      unfold aligned. rewrite Hhi', Hbi'. constructor; [| assumption].
      simpl. rewrite Hpj. field. assumption.
    - destruct (Nat.eq_dec k j) as [-> | Hkj].
      + rewrite Hj' in Hk'. inversion Hk'; subst c'.
        unfold aligned. rewrite Hhj', Hbj'. constructor; [| assumption].
        simpl. rewrite Hpi. field. assumption.
      + rewrite (Hother k Hki Hkj) in Hk'. rewrite Hk in Hk'. inversion Hk'; subst. assumption.
  Qed.

End Exchange.

(* mutation witness: storing the un-retempered value breaks the invariant *)

Definition update_position_unretempered (x : point) (p : Q) (c : chain) : chain :=
  match c_hist c with
  | [] => c
  | _ :: older => set_hist c ((x, p) :: older)
  end.

Lemma unretempered_breaks_alignment :
  let logp := fun x : point => - (hd 0 x) * (hd 0 x) in
  let c := mkChain (1 # 2) [([2], -2)] [] [] false in
  aligned logp c /\ ~ aligned logp (update_position_unretempered [3] (logp [3]) c).
Proof.
  cbv zeta. split.
  - unfold aligned. simpl. constructor; [vm_compute; reflexivity | constructor].
  - unfold aligned. simpl. intros H. inversion H as [| ? ? Hp _]; subst.
    vm_compute in Hp. discriminate Hp.
Qed.

(* ====================================================================== *)
(* advance                                                                *)
(* ====================================================================== *)
Open Scope nat_scope.

Lemma cycles_of_add : forall s a b, cycles_of s (a + b) = cycles_of s a ++ cycles_of s b.
Proof.
  intros s a b. unfold cycles_of. induction a as [| a IH]; simpl; [reflexivity |].
  rewrite IH. reflexivity.
Qed.

Lemma concat_repeat_cycles : forall s c k, concat (repeat (cycles_of s c) k) = cycles_of s (k * c).
Proof.
  intros s c k. induction k as [| k IH]; simpl; [reflexivity |].
  rewrite IH, cycles_of_add. reflexivity.
Qed.

(* advance(n, s) is: n/s times (s steps, swap), then the n mod s left-over steps *)
Theorem advance_plan_shape : forall n s, 0 < s ->
  advance_plan n s =
  cycles_of s (n / s) ++ (if n mod s =? 0 then [] else [TakeSteps (n mod s)]).
Proof.
  intros n s Hs. unfold advance_plan.
  set (tc := n / s).
  assert (Htail : (if negb (n mod s =? 0) then [TakeSteps (n mod s)] else []) =
                  (if n mod s =? 0 then [] else [TakeSteps (n mod s)])).
  { destruct (n mod s =? 0); reflexivity. }
  rewrite Htail. rewrite app_assoc. f_equal.
  rewrite concat_repeat_cycles.
  destruct (Nat.ltb_spec 50 tc) as [Hlt | Hge].
  - rewrite Nat.mod_same by lia. simpl negb. cbv iota.
    rewrite app_nil_r. f_equal. lia.
  - assert (Hdm : tc = 50 * (tc / 50) + tc mod 50) by (apply Nat.div_mod; lia).
    destruct (tc mod 50 =? 0) eqn:Hz; simpl negb; cbv iota.
    + apply Nat.eqb_eq in Hz. rewrite app_nil_r. f_equal. lia.
    + rewrite <- cycles_of_add. f_equal. lia.
Qed.

Lemma total_steps_app : forall a b, total_steps (a ++ b) = total_steps a + total_steps b.
Proof.
  intros a b. unfold total_steps. induction a as [| o a IH]; simpl; [reflexivity |].
  rewrite IH. lia.
Qed.

Lemma swap_rounds_app : forall a b, swap_rounds (a ++ b) = swap_rounds a + swap_rounds b.
Proof.
  intros a b. unfold swap_rounds. rewrite filter_app, app_length. reflexivity.
Qed.

Lemma cycles_of_counts : forall s c,
  total_steps (cycles_of s c) = s * c /\ swap_rounds (cycles_of s c) = c.
Proof.
  intros s c. induction c as [| c [IH1 IH2]].
  - unfold cycles_of, total_steps, swap_rounds. simpl. split; lia.
  - replace (S c) with (1 + c) by lia. rewrite cycles_of_add.
    rewrite total_steps_app, swap_rounds_app, IH1, IH2.
    unfold cycles_of, total_steps, swap_rounds. simpl. split; lia.
Qed.

(* every chain is sent exactly n steps; n // swap_interval swap rounds happen *)
Theorem advance_total : forall n s, 0 < s ->
  total_steps (advance_plan n s) = n /\ swap_rounds (advance_plan n s) = n / s.
Proof.
  intros n s Hs. rewrite (advance_plan_shape n s Hs).
  rewrite total_steps_app, swap_rounds_app.
  destruct (cycles_of_counts s (n / s)) as [H1 H2]. rewrite H1, H2.
  pose proof (Nat.div_mod n s ltac:(lia)) as Hdm.
  destruct (n mod s =? 0) eqn:Hz.
  - apply Nat.eqb_eq in Hz. unfold total_steps, swap_rounds. simpl. split; lia.
  - unfold total_steps, swap_rounds. simpl. split; lia.
Qed.

(* no block of steps is longer than swap_interval: a swap follows every s steps *)
Theorem advance_blocks : forall n s o, 0 < s -> In o (advance_plan n s) -> steps_of o <= s.
Proof.
  intros n s o Hs Hin. rewrite (advance_plan_shape n s Hs) in Hin.
  apply in_app_iff in Hin. destruct Hin as [Hin | Hin].
  - unfold cycles_of in Hin. apply in_concat in Hin. destruct Hin as [l [Hl Ho]].
    apply repeat_spec in Hl. subst l. simpl in Ho.
    destruct Ho as [Ho | [Ho | []]]; subst o; simpl; lia.
  - destruct (n mod s =? 0); [contradiction |].
    destruct Hin as [Hin | []]. subst o. simpl.
    pose proof (Nat.mod_upper_bound n s ltac:(lia)). lia.
Qed.

(* mutation witness: dropping the remainder loses steps *)
Lemma no_remainder_loses_steps :
  total_steps (cycles_of 3 (7 / 3)) <> 7.
Proof. vm_compute. discriminate. Qed.

(* ====================================================================== *)
(* shutdown of a worker                                                   *)
(* ====================================================================== *)
Section Shutdown.
  Variable take_step : chain -> chain.

  Definition with_inbox (w : wproc) (inb : list msg) : wproc :=
    mkWproc (pc w) inb (w_out w) (w_chain w) (handled w).

  (* once the event is set a worker reaches `Exited` within four transitions of
     its loop, whatever its inbox holds; it dispatches at most the one message it
     had already taken off the pipe before the event was set (program point L4),
     and what is (still) in the inbox has no influence on its chain *)
  Theorem shutdown_terminates : forall w,
    let w' := Nat.iter 4 (wstep take_step true) w in
    pc w' = Exited /\
    handled w' <= S (handled w) /\
    ((forall m, pc w <> L4 m) -> w_chain w' = w_chain w /\ handled w' = handled w) /\
    (forall inb, w_chain (Nat.iter 4 (wstep take_step true) (with_inbox w inb)) = w_chain w' /\
                 pc (Nat.iter 4 (wstep take_step true) (with_inbox w inb)) = Exited).
  Proof.
    intros [p inb out c h].
    destruct p as [| | | d | m |].
    - simpl. repeat split; try lia.
    - simpl. repeat split; try lia.
    - destruct inb as [| m0 rest]; simpl; repeat split; try lia;
        destruct inb as [| m1 rest1]; reflexivity.
    - simpl. repeat split; try lia.
    - assert (E : forall inb0, wstep take_step true (mkWproc (L4 m) inb0 out c h) =
                  mkWproc L0 inb0 (out ++ snd (handle take_step m c)) (fst (handle take_step m c)) (S h)).
      { intros inb0. unfold wstep. simpl. destruct (handle take_step m c); reflexivity. }
      unfold with_inbox. unfold Nat.iter. cbn [nat_rect pc w_in w_out w_chain handled].
      split; [rewrite E; reflexivity |].
      split; [rewrite E; simpl; lia |].
      split.
      + intros Hno. exfalso. apply (Hno m). reflexivity.
      + intros inb0. rewrite !E. simpl. split; reflexivity.
    - simpl. repeat split; try lia.
  Qed.
End Shutdown.

(* ====================================================================== *)
(* a whole swap round                                                     *)
(* ====================================================================== *)
(* The update messages of one round go to exactly the members of the accepted
   pairs, one message each (pairs being disjoint).  A worker's chain changes only
   when it handles a message (definition of `step`), so chains outside the accepted
   pairs are untouched by the round, and every chain in an accepted pair handles
   exactly one UpdatePosition, built by swap_pair_msgs from the positions fetched
   at the start of the round. *)
Lemma swap_pair_msgs_targets : forall betas data i j,
  map fst (swap_pair_msgs betas data i j) = [i; j].
Proof.
  intros betas data i j. unfold swap_pair_msgs.
  destruct (nth i data ([], 0%Q)) as [xi pri]. destruct (nth j data ([], 0%Q)) as [xj prj].
  reflexivity.
Qed.

Lemma swap_pairs_round : forall betas data pairs st ms st',
  swap_pairs betas data pairs st = (ms, st') ->
  exists acc, cs_succ st' = cs_succ st ++ acc /\ incl acc pairs /\
              map fst ms = flatten acc /\
              (NoDup (flatten pairs) -> NoDup (flatten acc)) /\
              cs_att st' = cs_att st /\ cs_snaps st' = cs_snaps st.
Proof.
  intros betas data pairs. induction pairs as [| [i j] rest IH]; intros st ms st' H; simpl in H.
  - inversion H; subst. exists []. rewrite app_nil_r.
    repeat split; try reflexivity. intros x []. intros _; constructor.
  - destruct (swap_decide _ _ _ _ _) as [[|] |] eqn:Hd.
    + destruct (swap_pairs betas data rest _) as [ms1 st3] eqn:Hr in H.
      inversion H; subst. destruct (IH _ _ _ Hr) as [acc [Hs [Hi [Hm [Hn [Ha Hsn]]]]]].
      simpl in Hs, Ha, Hsn.
      exists ((i, j) :: acc). split; [rewrite Hs, <- app_assoc; reflexivity |].
      split; [intros x [Hx | Hx]; [left; assumption | right; apply Hi; assumption] |].
      split; [rewrite map_app, swap_pair_msgs_targets, Hm; reflexivity |].
      split; [| split; assumption].
      intros Hnd. change (flatten ((i, j) :: rest)) with (i :: j :: flatten rest) in Hnd.
      change (flatten ((i, j) :: acc)) with (i :: j :: flatten acc).
      inversion Hnd as [| ? ? Hni Hnd1]; subst. inversion Hnd1 as [| ? ? Hnj Hnd2]; subst.
      assert (Hsub : forall x, In x (flatten acc) -> In x (flatten rest)).
      { intros x Hx. unfold flatten in *. apply in_flat_map in Hx. destruct Hx as [p [Hp Hx]].
        apply in_flat_map. exists p. split; [apply Hi; assumption | assumption]. }
      constructor.
      * intros [He | Hx]; [apply Hni; left; assumption | apply Hni; right; apply Hsub; assumption].
      * constructor; [intros Hx; apply Hnj; apply Hsub; assumption | apply Hn; assumption].
    + destruct (IH _ _ _ H) as [acc [Hs [Hi [Hm [Hn [Ha Hsn]]]]]]. simpl in Hs, Ha, Hsn.
      exists acc. split; [assumption |]. split; [intros x Hx; right; apply Hi; assumption |].
      split; [assumption |]. split; [| split; assumption].
      intros Hnd. apply Hn. change (flatten ((i, j) :: rest)) with (i :: j :: flatten rest) in Hnd.
      inversion Hnd as [| ? ? _ Hnd1]; subst. inversion Hnd1; subst. assumption.
    + destruct (IH _ _ _ H) as [acc [Hs [Hi [Hm [Hn [Ha Hsn]]]]]]. simpl in Hs, Ha, Hsn.
      exists acc. split; [assumption |]. split; [intros x Hx; right; apply Hi; assumption |].
      split; [assumption |]. split; [| split; assumption].
      intros Hnd. apply Hn. change (flatten ((i, j) :: rest)) with (i :: j :: flatten rest) in Hnd.
      inversion Hnd as [| ? ? _ Hnd1]; subst. inversion Hnd1; subst. assumption.
Qed.

Theorem swap_round_messages : forall betas data pairs st ms st',
  NoDup (flatten pairs) ->
  swap_pairs betas data pairs st = (ms, st') ->
  NoDup (map fst ms) /\
  exists acc, cs_succ st' = cs_succ st ++ acc /\ incl acc pairs /\ map fst ms = flatten acc.
Proof.
  intros betas data pairs st ms st' Hnd H.
  destruct (swap_pairs_round betas data pairs st ms st' H) as [acc [Hs [Hi [Hm [Hn _]]]]].
  split; [rewrite Hm; apply Hn; assumption |].
  exists acc. repeat split; assumption.
Qed.
