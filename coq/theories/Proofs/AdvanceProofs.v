(* Lemmas about the advance / pool / ensemble / run_for model (property C15). *)
From Coq Require Import List ZArith QArith Qround Qreduction Arith Bool Lia Lqa.
From IT Require Import Model.Advance.
Import ListNotations.
Close Scope Q_scope.

(* ------------------------------------------------------------------ chains *)
Section ChainFacts.
  Variable R : Type.
  Variable draw : chain R -> list Z * Z * R.

  Notation take_step := (take_step draw).
  Notation repeat_step := (repeat_step draw).
  Notation groups := (groups draw).
  Notation advance := (advance draw).

  Lemma repeat_step_add a : forall b c,
    repeat_step (a + b) c = repeat_step b (repeat_step a c).
  Proof. induction a as [|a IH]; intros b c; simpl; [reflexivity|apply IH]. Qed.

  Lemma groups_eq j g : forall c, groups j g c = repeat_step (j * g) c.
  Proof.
    induction j as [|j IH]; intros c; simpl; [reflexivity|].
    rewrite IH. symmetry. apply repeat_step_add.
  Qed.

  (* 100 groups of m // 100 steps plus m % 100 steps are exactly m steps *)
  Lemma advance_eq m c : advance m c = repeat_step m c.
  Proof.
    unfold Advance.advance. rewrite groups_eq. rewrite <- repeat_step_add.
    f_equal. rewrite (Nat.div_mod m 100) at 3 by discriminate. lia.
  Qed.

  Lemma take_step_counts c :
    chain_length (take_step c) = S (chain_length c) /\
    (exists x, samples (take_step c) = x :: samples c) /\
    (exists p, probs (take_step c) = p :: probs c).
  Proof.
    unfold Advance.take_step. destruct (draw c) as [[x p] g]. simpl.
    split; [reflexivity|]. split; eexists; reflexivity.
  Qed.

  (* k steps append exactly k samples and k log-probabilities and leave the
     older ones untouched *)
  Lemma repeat_step_appends k : forall c,
    chain_length (repeat_step k c) = chain_length c + k /\
    (exists new, length new = k /\ samples (repeat_step k c) = new ++ samples c) /\
    (exists new, length new = k /\ probs (repeat_step k c) = new ++ probs c).
  Proof.
    induction k as [|k IH]; intros c; simpl.
    - split; [lia|]. split; exists []; split; reflexivity.
    - destruct (IH (take_step c)) as [Hl [[ns [Hns Hs]] [np [Hnp Hp]]]].
      destruct (take_step_counts c) as [Hl1 [[x Hx] [p Hpp]]].
      split; [rewrite Hl, Hl1; lia|]. split.
      + exists (ns ++ [x]). split; [rewrite app_length; simpl; lia|].
        rewrite Hs, Hx, <- app_assoc. reflexivity.
      + exists (np ++ [p]). split; [rewrite app_length; simpl; lia|].
        rewrite Hp, Hpp, <- app_assoc. reflexivity.
  Qed.

  Lemma advance_adds_m m c :
    chain_length (advance m c) = chain_length c + m /\
    length (samples (advance m c)) = length (samples c) + m /\
    length (probs (advance m c)) = length (probs c) + m /\
    (exists new, length new = m /\ samples (advance m c) = new ++ samples c) /\
    (exists new, length new = m /\ probs (advance m c) = new ++ probs c).
  Proof.
    rewrite advance_eq.
    destruct (repeat_step_appends m c) as [Hl [[ns [Hns Hs]] [np [Hnp Hp]]]].
    split; [exact Hl|]. split; [rewrite Hs, app_length; lia|].
    split; [rewrite Hp, app_length; lia|].
    split; [exists ns|exists np]; split; assumption.
  Qed.

  (* any sequence of advance / take_step calls *)
  Lemma run_ops_eq ops : forall c,
    run_ops draw ops c = repeat_step (total_steps ops) c.
  Proof.
    induction ops as [|o t IH]; intros c; simpl; [reflexivity|].
    unfold run_ops in *. simpl. rewrite IH. rewrite repeat_step_add. f_equal.
    destruct o as [m|]; simpl; [apply advance_eq|reflexivity].
  Qed.

  Lemma run_ops_adds ops c :
    chain_length (run_ops draw ops c) = chain_length c + total_steps ops /\
    length (samples (run_ops draw ops c)) = length (samples c) + total_steps ops /\
    length (probs (run_ops draw ops c)) = length (probs c) + total_steps ops.
  Proof.
    rewrite run_ops_eq.
    destruct (repeat_step_appends (total_steps ops) c) as [Hl [[ns [Hns Hs]] [np [Hnp Hp]]]].
    split; [exact Hl|]. split; [rewrite Hs, app_length; lia|rewrite Hp, app_length; lia].
  Qed.

  (* reported length = number of stored samples = number of stored log-probabilities *)
  Definition consistent (c : chain R) : Prop :=
    chain_length c = length (samples c) /\ chain_length c = length (probs c).

  Lemma lengths_agree ops c : consistent c -> consistent (run_ops draw ops c).
  Proof.
    intros [H1 H2]. destruct (run_ops_adds ops c) as [Hl [Hs Hp]].
    split; lia.
  Qed.

  (* ---- pools *)
  Lemma serial_gen n post : forall pre,
    fold_left (fun cs i => update i (advance n) cs) (seq (length pre) (length post)) (pre ++ post)
    = pre ++ map (advance n) post.
  Proof.
    induction post as [|x t IH]; intros pre; simpl; [reflexivity|].
    assert (Hupd : update (length pre) (advance n) (pre ++ x :: t) = (pre ++ [advance n x]) ++ t).
    { clear. induction pre as [|y u IHu]; simpl; [reflexivity|]. rewrite IHu. reflexivity. }
    rewrite Hupd.
    replace (S (length pre)) with (length (pre ++ [advance n x]))
      by (rewrite app_length; simpl; lia).
    rewrite IH. rewrite <- app_assoc. reflexivity.
  Qed.

  Lemma pool_eq_serial n chains :
    pool_advance draw n chains = serial_advance draw n chains.
  Proof.
    unfold pool_advance, serial_advance. symmetry. apply (serial_gen n chains []).
  Qed.

  Lemma pool_nth n chains k d : k < length chains ->
    nth k (pool_advance draw n chains) (advance n d) = repeat_step n (nth k chains d).
  Proof.
    intros Hk. unfold pool_advance. rewrite map_nth. apply advance_eq.
  Qed.
End ChainFacts.
Arguments consistent {R} c.

(* ------------------------------------------------------------------ ensemble *)
Section EnsFacts.
  Variable move : ens -> nat -> list Z * Z.

  Definition ens_wf (nw : nat) (e : ens) : Prop :=
    length (walkers e) = nw /\ length (wprobs e) = nw.

  (* chain_length = rows of sample = size of sample_probs *)
  Definition ens_consistent (e : ens) : Prop :=
    echain_length e = stored e /\ echain_length e = stored_probs e.

  Lemma set_nth_length {A} i (x : A) l : length (set_nth i x l) = length l.
  Proof.
    revert i. induction l as [|y t IH]; intros i; simpl; [reflexivity|].
    destruct i; simpl; [reflexivity|]. rewrite IH. reflexivity.
  Qed.

  Lemma advance_walker_keeps nw e i : ens_wf nw e ->
    ens_wf nw (advance_walker move e i) /\
    esample (advance_walker move e i) = esample e /\
    esample_probs (advance_walker move e i) = esample_probs e /\
    echain_length (advance_walker move e i) = echain_length e /\
    n_iterations (advance_walker move e i) = n_iterations e.
  Proof.
    intros [H1 H2]. unfold advance_walker, ens_wf. destruct (move e i) as [x p]. simpl.
    split; [split; rewrite set_nth_length; assumption|]. repeat split.
  Qed.

  Lemma fold_walkers_keeps nw idx : forall e, ens_wf nw e ->
    let e' := fold_left (advance_walker move) idx e in
    ens_wf nw e' /\ esample e' = esample e /\ esample_probs e' = esample_probs e /\
    echain_length e' = echain_length e /\ n_iterations e' = n_iterations e.
  Proof.
    induction idx as [|i t IH]; intros e Hwf; simpl.
    - repeat split; apply Hwf.
    - destruct (advance_walker_keeps nw e i Hwf) as [Hwf' [Hs [Hp [Hl Hn]]]].
      destruct (IH _ Hwf') as [Hwf'' [Hs' [Hp' [Hl' Hn']]]].
      split; [exact Hwf''|]. repeat split; congruence.
  Qed.

  Lemma advance_all_keeps nw e : ens_wf nw e ->
    ens_wf nw (advance_all move e) /\
    esample (advance_all move e) = esample e /\
    esample_probs (advance_all move e) = esample_probs e /\
    echain_length (advance_all move e) = echain_length e /\
    n_iterations (advance_all move e) = S (n_iterations e).
  Proof.
    intros Hwf. unfold advance_all.
    destruct (fold_walkers_keeps nw (seq 0 (length (walkers e))) e Hwf) as [Hwf' [Hs [Hp [Hl Hn]]]].
    simpl. split; [exact Hwf'|]. repeat split; congruence.
  Qed.

  Lemma ens_loop_spec nw k : forall e sa pa, ens_wf nw e ->
    let '(e', sa', pa') := ens_loop move k e sa pa in
    ens_wf nw e' /\ n_iterations e' = n_iterations e + k /\
    length (concat sa') = length (concat sa) + k * nw /\
    length (concat pa') = length (concat pa) + k * nw /\
    length sa' = length sa + k.
  Proof.
    induction k as [|k IH]; intros e sa pa Hwf; simpl.
    - repeat split; try apply Hwf; lia.
    - destruct (advance_all_keeps nw e Hwf) as [Hwf' [_ [_ [_ Hn]]]].
      specialize (IH (advance_all move e) (sa ++ [walkers (advance_all move e)])
                     (pa ++ [wprobs (advance_all move e)]) Hwf').
      destruct (ens_loop move k (advance_all move e) _ _) as [[e' sa'] pa'].
      destruct IH as [Hw [Hit [Hs [Hp Hlen]]]].
      rewrite !concat_app, !app_length in Hs, Hp. simpl in Hs, Hp.
      rewrite app_nil_r in Hs, Hp. rewrite app_length in Hlen. simpl in Hlen.
      destruct Hwf' as [Hw1 Hw2]. unfold advance_all in Hw1, Hw2. simpl in Hw1, Hw2.
      rewrite Hw1 in Hs. rewrite Hw2 in Hp.
      split; [exact Hw|]. repeat split; lia.
  Qed.

  Lemma ens_loop_keeps nw k : forall e sa pa e' sa' pa', ens_wf nw e ->
    ens_loop move k e sa pa = (e', sa', pa') ->
    esample e' = esample e /\ esample_probs e' = esample_probs e /\
    echain_length e' = echain_length e.
  Proof.
    induction k as [|k IH]; intros e sa pa e' sa' pa' Hwf Hloop; simpl in Hloop.
    - inversion Hloop; subst. repeat split.
    - destruct (advance_all_keeps nw e Hwf) as [Hwf' [H1 [H2 [H3 _]]]].
      destruct (IH _ _ _ _ _ _ Hwf' Hloop) as [K1 [K2 K3]]. repeat split; congruence.
  Qed.

  Definition both_or_neither (e : ens) : Prop :=
    (esample e = None /\ esample_probs e = None) \/
    (exists s p, esample e = Some s /\ esample_probs e = Some p).

  (* the repaired advance never raises and stores exactly iterations * n_walkers
     new rows and log-probabilities, also for 0 iterations on a fresh sampler *)
  Lemma ens_advance_spec nw m e : ens_wf nw e -> both_or_neither e -> ens_consistent e ->
    exists e', ens_advance move true m e = Some e' /\
      ens_wf nw e' /\ both_or_neither e' /\ ens_consistent e' /\
      stored e' = stored e + m * nw /\
      stored_probs e' = stored_probs e + m * nw /\
      echain_length e' = echain_length e + m * nw /\
      n_iterations e' = n_iterations e + m.
  Proof.
    intros Hwf Hbn [Hc1 Hc2]. unfold ens_advance.
    pose proof (ens_loop_spec nw m e (opt_list (esample e)) (opt_list (esample_probs e)) Hwf) as Hl.
    destruct (ens_loop move m e _ _) as [[e' sa'] pa'] eqn:Hloop.
    destruct Hl as [Hw [Hit [Hs [Hp Hlen]]]].
    pose proof (ens_loop_keeps nw m e _ _ _ _ _ Hwf Hloop) as Hkeep.
    destruct Hkeep as [Hk1 [Hk2 Hk3]].
    assert (Hst : length (concat (opt_list (esample e))) = stored e).
    { unfold stored. destruct (esample e); simpl; [rewrite app_nil_r|]; reflexivity. }
    assert (Hsp : length (concat (opt_list (esample_probs e))) = stored_probs e).
    { unfold stored_probs. destruct (esample_probs e); simpl; [rewrite app_nil_r|]; reflexivity. }
    rewrite Hst in Hs. rewrite Hsp in Hp.
    destruct sa' as [|s0 sa''].
    - (* nothing to concatenate: fresh sampler and zero iterations *)
      simpl in Hlen.
      assert (Hm : m = 0) by lia. subst m.
      simpl in Hloop. injection Hloop as He Hsa Hpa. subst e'.
      exists e. split; [reflexivity|]. split; [exact Hwf|]. split; [exact Hbn|].
      split; [split; assumption|]. repeat split; lia.
    - eexists. split; [reflexivity|]. unfold ens_wf, ens_consistent, stored, stored_probs. simpl.
      split; [exact Hw|]. split.
      { right. eexists. eexists. split; reflexivity. }
      simpl in Hs. rewrite Hs, Hp.
      split; [split; lia|]. repeat split; lia.
  Qed.

  (* any sequence of advance calls *)
  Lemma ens_run_spec nw its : forall e, ens_wf nw e -> both_or_neither e -> ens_consistent e ->
    exists e', ens_run move true its e = Some e' /\ ens_consistent e' /\
      stored e' = stored e + fold_right Nat.add 0 its * nw /\
      stored_probs e' = stored_probs e + fold_right Nat.add 0 its * nw /\
      n_iterations e' = n_iterations e + fold_right Nat.add 0 its.
  Proof.
    induction its as [|m t IH]; intros e Hwf Hbn Hc; simpl.
    - exists e. repeat split; try apply Hc; lia.
    - destruct (ens_advance_spec nw m e Hwf Hbn Hc) as [e1 [-> [Hwf1 [Hbn1 [Hc1 [Hs1 [Hp1 [_ Hn1]]]]]]]].
      destruct (IH e1 Hwf1 Hbn1 Hc1) as [e2 [Hr [Hc2 [Hs2 [Hp2 Hn2]]]]].
      exists e2. split; [exact Hr|]. split; [exact Hc2|]. repeat split; lia.
  Qed.
End EnsFacts.

(* pinned: advance(0) on a sampler that has never been advanced raises *)
Lemma ens_advance0_refuted :
  ens_advance ens_move false 0 (ens_fresh 4) = None /\
  exists e', ens_advance ens_move true 0 (ens_fresh 4) = Some e' /\ stored e' = 0 /\ echain_length e' = 0.
Proof. split; [reflexivity|]. eexists. split; [reflexivity|]. split; reflexivity. Qed.

(* ------------------------------------------------------------------ run_for *)
Open Scope Q_scope.

Lemma Qn_S n : Qn (S n) == Qn n + 1.
Proof.
  unfold Qn. rewrite Nat2Z.inj_succ. unfold Z.succ. rewrite inject_Z_plus. reflexivity.
Qed.

Lemma Qn_nonneg n : 0 <= Qn n.
Proof. unfold Qn. change 0 with (inject_Z 0). rewrite <- Zle_Qle. lia. Qed.

Section RunFor.
  Variables (w : nat) (cost : nat -> Q) (cmin b start stop : Q).
  Hypothesis Hcmin : 0 < cmin.
  Hypothesis Hcost : forall i, cmin <= cost i.
  Hypothesis Hb : 0 <= b.

  Notation next := (rf_next true w cost b start).
  Notation iter := (fun j st => rf_iter j true w cost b start st).

  Lemma batch_cost_nonneg k : forall from, 0 <= batch_cost cost from k.
  Proof.
    induction k as [|k IH]; intros from; simpl; [lra|].
    pose proof (IH (S from)). pose proof (Hcost from). lra.
  Qed.

  Lemma batch_cost_acc_eq k : forall from acc,
    batch_cost_acc cost from k acc == acc + batch_cost cost from k.
  Proof.
    induction k as [|k IH]; intros from acc; cbn [batch_cost_acc batch_cost]; [lra|].
    rewrite IH. rewrite Qred_correct. lra.
  Qed.

  Lemma batch_cost_pos k from : (1 <= k)%nat -> cmin <= batch_cost cost from k.
  Proof.
    intros Hk. destruct k as [|k]; [lia|]. simpl.
    pose proof (batch_cost_nonneg k (S from)). pose proof (Hcost from). lra.
  Qed.

  (* one pass of the loop body: at least one whole step, at least cmin seconds,
     and the next batch is again at least one step *)
  Lemma next_progress st : (1 <= rf_interval st)%nat ->
    (rf_steps st + 1 <= rf_steps (next st))%nat /\
    rf_steps (next st) = (rf_steps st + rf_interval st)%nat /\
    (1 <= rf_interval (next st))%nat /\
    rf_now st + cmin <= rf_now (next st).
  Proof.
    intros Hiv. unfold rf_next. cbn [rf_steps rf_now rf_interval].
    split; [lia|]. split; [reflexivity|]. split.
    - destruct (Qle_bool _ 0); [exact Hiv|lia].
    - rewrite Qred_correct. rewrite batch_cost_acc_eq.
      pose proof (batch_cost_pos (rf_interval st) (rf_steps st) Hiv). lra.
  Qed.

  Lemma map_iter_shift st k :
    st :: map (fun j => iter j (next st)) (seq 0 k) = map (fun j => iter j st) (seq 0 (S k)).
  Proof.
    simpl. f_equal. rewrite <- seq_shift, map_map. reflexivity.
  Qed.

  (* with fuel N such that N * cmin covers the remaining time the loop returns;
     it runs k passes, each from a check that found the deadline not reached,
     each taking at least one step, and stops at the first check at or after
     the deadline *)
  Lemma rf_run_spec N : forall st, (1 <= rf_interval st)%nat ->
    stop - rf_now st <= Qn N * cmin ->
    exists k, (k <= N)%nat /\
      rf_run N true w cost b start stop st = Some (map (fun j => iter j st) (seq 0 (S k))) /\
      (forall j, (j < k)%nat ->
         rf_now (iter j st) < stop /\
         (rf_steps (iter j st) + 1 <= rf_steps (iter (S j) st))%nat /\
         rf_now (iter j st) + cmin <= rf_now (iter (S j) st)) /\
      stop <= rf_now (iter k st).
  Proof.
    induction N as [|N IH]; intros st Hiv Hrem.
    - exists 0%nat. change (Qn 0) with 0 in Hrem.
      assert (Hdone : stop <= rf_now st) by lra.
      simpl. apply Qle_bool_iff in Hdone. rewrite Hdone.
      split; [lia|]. split; [reflexivity|]. split; [intros j Hj; lia|].
      apply Qle_bool_iff. exact Hdone.
    - simpl rf_run. destruct (Qle_bool stop (rf_now st)) eqn:Hd.
      + exists 0%nat. split; [lia|]. split; [reflexivity|].
        split; [intros j Hj; lia|]. apply Qle_bool_iff. exact Hd.
      + destruct (next_progress st Hiv) as [Hs [_ [Hiv' Hnow]]].
        assert (Hrem' : stop - rf_now (next st) <= Qn N * cmin).
        { rewrite Qn_S in Hrem. lra. }
        destruct (IH (next st) Hiv' Hrem') as [k [HkN [Hrun [Hall Hlast]]]].
        exists (S k). split; [lia|]. split.
        * rewrite Hrun. cbn [option_map]. f_equal. apply (map_iter_shift st (S k)).
        * split.
          -- intros j Hj. destruct j as [|j].
             ++ simpl. split; [|split; assumption].
                apply Qnot_le_lt. intros Hle. apply Qle_bool_iff in Hle. congruence.
             ++ apply (Hall j). lia.
          -- exact Hlast.
  Qed.

  (* a sufficient amount of fuel always exists *)
  Lemma fuel_exists (rem : Q) : exists N, rem <= Qn N * cmin.
  Proof.
    exists (Z.to_nat (Qceiling (rem / cmin))).
    unfold Qn. destruct (Z_le_gt_dec 0 (Qceiling (rem / cmin))) as [Hpos|Hneg].
    - rewrite Z2Nat.id by exact Hpos.
      pose proof (Qle_ceiling (rem / cmin)) as Hc.
      apply Qle_trans with ((rem / cmin) * cmin).
      + field_simplify (rem / cmin * cmin); [lra|lra].
      + apply Qmult_le_compat_r; [exact Hc|lra].
    - assert (Hz : Z.to_nat (Qceiling (rem / cmin)) = 0%nat) by lia.
      rewrite Hz. change (inject_Z (Z.of_nat 0)) with 0.
      pose proof (Qle_ceiling (rem / cmin)) as Hc.
      assert (Hneg' : inject_Z (Qceiling (rem / cmin)) <= 0).
      { change 0 with (inject_Z 0). rewrite <- Zle_Qle. lia. }
      assert (Hq : rem / cmin <= 0) by lra.
      assert (Hr : rem == (rem / cmin) * cmin) by (field; lra).
      rewrite Hr. apply Qmult_le_compat_r; lra.
  Qed.

  Lemma run_for_progress st : (1 <= rf_interval st)%nat ->
    exists N k,
      rf_run N true w cost b start stop st = Some (map (fun j => iter j st) (seq 0 (S k))) /\
      (forall j, (j < k)%nat ->
         rf_now (iter j st) < stop /\
         (rf_steps (iter j st) + 1 <= rf_steps (iter (S j) st))%nat /\
         rf_now (iter j st) + cmin <= rf_now (iter (S j) st)) /\
      stop <= rf_now (iter k st).
  Proof.
    intros Hiv. destruct (fuel_exists (stop - rf_now st)) as [N HN].
    destruct (rf_run_spec N st Hiv HN) as [k [_ H]]. exists N, k. exact H.
  Qed.

  (* more fuel never changes the answer *)
  Lemma rf_run_fuel_mono N : forall st tr M, (N <= M)%nat ->
    rf_run N true w cost b start stop st = Some tr ->
    rf_run M true w cost b start stop st = Some tr.
  Proof.
    induction N as [|N IH]; intros st tr M HM Hrun.
    - simpl in Hrun. destruct (Qle_bool stop (rf_now st)) eqn:Hd; [|discriminate].
      destruct M; simpl; rewrite Hd; exact Hrun.
    - destruct M as [|M]; [lia|]. simpl in *.
      destruct (Qle_bool stop (rf_now st)); [exact Hrun|].
      destruct (rf_run N true w cost b start stop (next st)) as [tr'|] eqn:Hr; [|discriminate].
      rewrite (IH _ tr' M); [exact Hrun|lia|exact Hr].
  Qed.
End RunFor.

Lemma rf_run_S f r w cost b start stop st :
  rf_run (S f) r w cost b start stop st =
  if Qle_bool stop (rf_now st) then Some [st]
  else option_map (cons st) (rf_run f r w cost b start stop (rf_next r w cost b start st)).
Proof. reflexivity. Qed.

(* ---- the pinned loop: update_interval = int(steps / elapsed) reaches 0 *)
Definition two_seconds (i : nat) : Q := 2.

(* two seconds per step, a clock that only advances inside steps, one minute of
   budget: after the first 20 steps (40 s) the interval is 0, the state no longer
   changes and the loop never ends *)
Lemma run_for_stalls_refuted :
  let st1 := rf_next false 1 two_seconds 0 0 (rf_init 0) in
  rf_steps st1 = 20%nat /\ rf_now st1 == 40 /\ rf_interval st1 = 0%nat /\
  rf_next false 1 two_seconds 0 0 st1 = st1 /\
  forall fuel, rf_run fuel false 1 two_seconds 0 0 60 (rf_init 0) = None.
Proof.
  cbv zeta.
  assert (Hfix : rf_next false 1 two_seconds 0 0 (rf_next false 1 two_seconds 0 0 (rf_init 0))
                 = rf_next false 1 two_seconds 0 0 (rf_init 0)) by (vm_compute; reflexivity).
  split; [vm_compute; reflexivity|]. split; [vm_compute; reflexivity|].
  split; [vm_compute; reflexivity|]. split; [exact Hfix|].
  assert (Hloop : forall fuel,
    rf_run fuel false 1 two_seconds 0 0 60 (rf_next false 1 two_seconds 0 0 (rf_init 0)) = None).
  { induction fuel as [|f IH].
    - vm_compute. reflexivity.
    - rewrite rf_run_S.
      replace (Qle_bool 60 (rf_now (rf_next false 1 two_seconds 0 0 (rf_init 0)))) with false
        by (vm_compute; reflexivity).
      rewrite Hfix, IH. reflexivity. }
  intros [|f].
  - vm_compute. reflexivity.
  - rewrite rf_run_S. replace (Qle_bool 60 (rf_now (rf_init 0))) with false by (vm_compute; reflexivity).
    rewrite Hloop. reflexivity.
Qed.

(* the same chain when every call of time() itself takes half a second: the loop
   does end, but after the first 20 steps it only spins -- 39 further passes
   without a single step, 20 steps in a budget that has room for 30 *)
Lemma run_for_idles_refuted :
  exists tr, rf_run 100 false 1 two_seconds (1 # 2) 0 60 (rf_init 0) = Some tr /\
    length tr = 41%nat /\ rf_steps (last tr (rf_init 0)) = 20%nat /\
    rf_interval (nth 1 tr (rf_init 0)) = 0%nat.
Proof. eexists. split; [vm_compute; reflexivity|]. vm_compute. repeat split. Qed.

(* the repaired loop on the same inputs: 30 steps, finished at the deadline *)
Lemma run_for_repaired_example :
  exists tr, rf_run 100 true 1 two_seconds 0 0 60 (rf_init 0) = Some tr /\
    rf_steps (last tr (rf_init 0)) = 30%nat /\ rf_now (last tr (rf_init 0)) == 60.
Proof. eexists. split; [vm_compute; reflexivity|]. vm_compute. split; reflexivity. Qed.
