(* Lemmas about the discrete structure of GaussianKDE (property C12). *)
From Coq Require Import List ZArith QArith Qabs Bool Lia Lqa Sorting.Sorted Sorting.Permutation
  Sorting.Mergesort.
From IT Require Import Model.KdeRegions.
Import ListNotations.
Open Scope Q_scope.

Definition qsorted := StronglySorted Qle.

(* ---------- sorting ---------- *)

Lemma StronglySorted_impl {A} (R R' : A -> A -> Prop) l :
  (forall x y, R x y -> R' x y) -> StronglySorted R l -> StronglySorted R' l.
Proof.
  intros HR Hs. induction Hs as [|a l Hs IH Hfa]; constructor.
  - exact IH.
  - eapply Forall_impl; [|exact Hfa]. intros y Hy. apply HR. exact Hy.
Qed.

Lemma sort_sorted l : qsorted (QSort.sort l).
Proof.
  apply StronglySorted_impl with (R := fun x y => is_true (Qle_bool x y)).
  - intros x y H. apply Qle_bool_iff. exact H.
  - apply QSort.StronglySorted_sort.
    intros x y z Hxy Hyz. unfold is_true, QOrder.leb in *.
    apply Qle_bool_iff. apply Qle_bool_iff in Hxy. apply Qle_bool_iff in Hyz.
    eapply Qle_trans; eassumption.
Qed.

Lemma sort_perm l : Permutation l (QSort.sort l).
Proof. apply QSort.Permuted_sort. Qed.

Lemma sort_length l : length (QSort.sort l) = length l.
Proof. symmetry. apply Permutation_length. apply sort_perm. Qed.

Lemma Qlt_b_true a b : Qlt_b a b = true <-> a < b.
Proof.
  unfold Qlt_b. rewrite negb_true_iff. split.
  - intros H. apply Qnot_le_lt. intros Hle. apply Qle_bool_iff in Hle. congruence.
  - intros H. destruct (Qle_bool b a) eqn:E; [|reflexivity].
    apply Qle_bool_iff in E. exfalso. apply (Qlt_not_le _ _ H E).
Qed.

Lemma Qlt_b_false a b : Qlt_b a b = false <-> b <= a.
Proof.
  unfold Qlt_b. rewrite negb_false_iff. apply Qle_bool_iff.
Qed.

(* ---------- searchsorted = count of smaller elements ---------- *)

Lemma count_lt_cons v y l :
  count_lt v (y :: l) = if Qlt_b y v then S (count_lt v l) else count_lt v l.
Proof. unfold count_lt. simpl. destruct (Qlt_b y v); reflexivity. Qed.

Lemma count_lt_le_length v l : (count_lt v l <= length l)%nat.
Proof.
  unfold count_lt. induction l as [|y l IH]; simpl; [lia|].
  destruct (Qlt_b y v); simpl; lia.
Qed.

Lemma count_lt_all_ge v l : Forall (fun y => v <= y) l -> count_lt v l = 0%nat.
Proof.
  induction 1 as [|y l Hy Hl IH]; [reflexivity|].
  rewrite count_lt_cons. apply Qlt_b_false in Hy. rewrite Hy. exact IH.
Qed.

Lemma count_lt_mono a b l : a <= b -> (count_lt a l <= count_lt b l)%nat.
Proof.
  intros Hab. induction l as [|y l IH]; [apply Nat.le_refl|].
  rewrite !count_lt_cons.
  destruct (Qlt_b y a) eqn:Ea.
  - apply Qlt_b_true in Ea.
    assert (Eb : Qlt_b y b = true) by (apply Qlt_b_true; lra).
    rewrite Eb. lia.
  - destruct (Qlt_b y b); lia.
Qed.

Lemma count_lt_perm v l l' : Permutation l l' -> count_lt v l = count_lt v l'.
Proof.
  intros HP. unfold count_lt. apply Permutation_length.
  induction HP as [| x l l' HP IH | x y l | l l' l'' H1 IH1 H2 IH2]; simpl.
  - constructor.
  - destruct (Qlt_b x v); [constructor|]; exact IH.
  - destruct (Qlt_b x v), (Qlt_b y v); try apply Permutation_refl. apply perm_swap.
  - eapply Permutation_trans; eassumption.
Qed.

Lemma sorted_tail_ge a l : qsorted (a :: l) -> Forall (fun y => a <= y) l.
Proof. intros H. inversion H; assumption. Qed.

Lemma firstn_count_lt v l : qsorted l -> Forall (fun y => y < v) (firstn (count_lt v l) l).
Proof.
  induction 1 as [|a l Hs IH Hfa]; [constructor|].
  rewrite count_lt_cons. destruct (Qlt_b a v) eqn:E.
  - simpl. constructor; [apply Qlt_b_true; exact E|exact IH].
  - apply Qlt_b_false in E.
    rewrite count_lt_all_ge; [constructor|].
    eapply Forall_impl; [|exact Hfa]. simpl. intros y Hy. lra.
Qed.

Lemma skipn_count_lt v l : qsorted l -> Forall (fun y => v <= y) (skipn (count_lt v l) l).
Proof.
  induction 1 as [|a l Hs IH Hfa]; [constructor|].
  rewrite count_lt_cons. destruct (Qlt_b a v) eqn:E.
  - simpl. exact IH.
  - apply Qlt_b_false in E.
    assert (Hall : Forall (fun y => v <= y) l).
    { eapply Forall_impl; [|exact Hfa]. simpl. intros y Hy. lra. }
    rewrite count_lt_all_ge by exact Hall. simpl. constructor; assumption.
Qed.

Lemma Forall_firstn_nth {A} (P : A -> Prop) d : forall k l i,
  Forall P (firstn k l) -> (i < k)%nat -> (i < length l)%nat -> P (nth i l d).
Proof.
  induction k as [|k IH]; intros l i HF Hik Hil; [lia|].
  destruct l as [|a l]; [simpl in Hil; lia|].
  simpl in HF. inversion HF as [|? ? Ha Hl]; subst.
  destruct i as [|i]; simpl; [exact Ha|]. apply IH; [exact Hl|lia|simpl in Hil; lia].
Qed.

Lemma Forall_skipn_nth {A} (P : A -> Prop) d : forall k l i,
  Forall P (skipn k l) -> (k <= i)%nat -> (i < length l)%nat -> P (nth i l d).
Proof.
  induction k as [|k IH]; intros l i HF Hik Hil.
  - simpl in HF. rewrite Forall_forall in HF. apply HF. apply nth_In. exact Hil.
  - destruct l as [|a l]; [simpl in Hil; lia|].
    destruct i as [|i]; [lia|]. simpl. apply IH; [exact HF|lia|simpl in Hil; lia].
Qed.

Lemma sorted_first_le s y : qsorted s -> In y s -> s_first s <= y.
Proof.
  intros Hs Hy. destruct s as [|a l]; [destruct Hy|].
  simpl. destruct Hy as [Hy|Hy]; [subst; lra|].
  apply sorted_tail_ge in Hs. rewrite Forall_forall in Hs. apply Hs. exact Hy.
Qed.

Lemma sorted_le_last_aux s : qsorted s -> forall y, In y s -> y <= last s 0.
Proof.
  induction 1 as [|a l Hs IH Hfa]; intros y Hy; [destruct Hy|].
  destruct l as [|b l'].
  - destruct Hy as [Hy|[]]. subst. simpl. lra.
  - change (last (a :: b :: l') 0) with (last (b :: l') 0).
    destruct Hy as [Hy|Hy].
    + subst y. assert (Hb : a <= b) by (rewrite Forall_forall in Hfa; apply Hfa; left; reflexivity).
      assert (Hl : b <= last (b :: l') 0) by (apply IH; left; reflexivity). lra.
    + apply IH. exact Hy.
Qed.

Lemma sorted_le_last s y : qsorted s -> In y s -> y <= s_last s.
Proof. intros Hs Hy. apply sorted_le_last_aux; assumption. Qed.

Lemma sorted_first_le_last s : qsorted s -> s <> [] -> s_first s <= s_last s.
Proof.
  intros Hs Hne. destruct s as [|a l]; [congruence|].
  apply sorted_le_last; [exact Hs|left; reflexivity].
Qed.

(* ---------- slices ---------- *)

Lemma skipn_add {A} : forall (a b : nat) (l : list A), skipn a (skipn b l) = skipn (b + a) l.
Proof.
  intros a b. revert a. induction b as [|b IH]; intros a l; [reflexivity|].
  destruct l as [|x l]; simpl; [destruct a; reflexivity|]. apply IH.
Qed.

Lemma slice_decomp {A} (l u : nat) (a : list A) : (l <= u)%nat ->
  a = firstn l a ++ slice l u a ++ skipn u a.
Proof.
  intros Hlu. unfold slice.
  rewrite <- (firstn_skipn l a) at 1. f_equal.
  rewrite <- (firstn_skipn (u - l) (skipn l a)) at 1. f_equal.
  rewrite skipn_add. f_equal. lia.
Qed.

(* ---------- edges ---------- *)

Lemma nregions_pos n : (1 <= nregions n)%nat.
Proof. unfold nregions. induction n as [|n IH]; simpl; lia. Qed.

Lemma qnat_S k : qnat (S k) == qnat k + 1.
Proof. unfold qnat. rewrite Nat2Z.inj_succ. unfold Z.succ. rewrite inject_Z_plus. reflexivity. Qed.

Lemma qnat_nonneg k : 0 <= qnat k.
Proof. unfold qnat. change 0 with (inject_Z 0). rewrite <- Zle_Qle. lia. Qed.

Lemma qnat_pos k : (1 <= k)%nat -> 0 < qnat k.
Proof. intros H. unfold qnat. change 0 with (inject_Z 0). rewrite <- Zlt_Qlt. lia. Qed.

Lemma pow2_nregions n : pow2 n = qnat (nregions n).
Proof.
  unfold pow2, qnat, nregions. f_equal. rewrite Nat2Z.inj_pow. reflexivity.
Qed.

Lemma pow2_pos n : 0 < pow2 n.
Proof. rewrite pow2_nregions. apply qnat_pos. apply nregions_pos. Qed.

Lemma edge_S n s k : edge n s (S k) == edge n s k + rwidth n s.
Proof. unfold edge. rewrite qnat_S. ring. Qed.

Lemma edge_0 n s : edge n s 0 == s_first s.
Proof. unfold edge, qnat. simpl. ring. Qed.

Lemma edge_top n s : edge n s (nregions n) == s_last s.
Proof.
  unfold edge, rwidth, srange. rewrite <- pow2_nregions.
  assert (H := pow2_pos n). field. lra.
Qed.

Lemma rwidth_nonneg n s : s_first s <= s_last s -> 0 <= rwidth n s.
Proof.
  intros H. unfold rwidth. apply Qle_shift_div_l; [apply pow2_pos|]. unfold srange. lra.
Qed.

Lemma rwidth_le_h n s h : srange s <= pow2 n * h -> rwidth n s <= h.
Proof.
  intros H. unfold rwidth. apply Qle_shift_div_r; [apply pow2_pos|]. lra.
Qed.

Lemma mid_eq n s r : mid n s r == edge n s r + (1 # 2) * rwidth n s.
Proof. unfold mid. rewrite edge_S. ring. Qed.

Lemma edge_mono n s : 0 <= rwidth n s -> forall j k, (j <= k)%nat -> edge n s j <= edge n s k.
Proof.
  intros Hw j k Hjk. induction Hjk as [|k Hjk IH]; [lra|].
  rewrite edge_S. lra.
Qed.

Lemma map_seq_sorted (f : nat -> Q) : (forall j k, (j <= k)%nat -> f j <= f k) ->
  forall m a, qsorted (map f (seq a m)).
Proof.
  intros Hf. induction m as [|m IH]; intros a; simpl; constructor.
  - apply IH.
  - rewrite Forall_forall. intros y Hy. apply in_map_iff in Hy.
    destruct Hy as [k [Hk Hin]]. subst y. apply in_seq in Hin. apply Hf. lia.
Qed.

Lemma edges_sorted n s : 0 <= rwidth n s -> qsorted (edges n s).
Proof. intros Hw. apply map_seq_sorted. apply edge_mono. exact Hw. Qed.

Lemma edges_length n s : length (edges n s) = S (nregions n).
Proof. unfold edges. rewrite map_length, seq_length. reflexivity. Qed.

Lemma nth_edges n s k : (k <= nregions n)%nat -> nth k (edges n s) 0 = edge n s k.
Proof.
  intros Hk. unfold edges.
  rewrite nth_indep with (d' := edge n s 0%nat) by (rewrite map_length, seq_length; lia).
  rewrite map_nth. rewrite seq_nth by lia. reflexivity.
Qed.

(* ---------- region look-up ---------- *)

Lemma table_lookup n idx : (idx <= S (nregions n))%nat ->
  nth idx (regions_table n) 0%nat = Nat.min (Nat.pred idx) (nregions n - 1).
Proof.
  intros Hidx. unfold regions_table. assert (HM := nregions_pos n).
  destruct idx as [|i]; simpl; [reflexivity|].
  destruct (Nat.lt_ge_cases i (nregions n)) as [Hlt|Hge].
  - rewrite app_nth1 by (rewrite seq_length; exact Hlt).
    rewrite seq_nth by exact Hlt. lia.
  - rewrite app_nth2 by (rewrite seq_length; exact Hge).
    rewrite seq_length. replace (i - nregions n)%nat with 0%nat by lia. simpl. lia.
Qed.

Lemma region_of_eq n s x :
  region_of n s x = Nat.min (Nat.pred (count_lt x (edges n s))) (nregions n - 1).
Proof.
  unfold region_of. apply table_lookup.
  rewrite <- edges_length with (s := s). apply count_lt_le_length.
Qed.

Lemma region_of_lt n s x : (region_of n s x < nregions n)%nat.
Proof. rewrite region_of_eq. assert (H := nregions_pos n). lia. Qed.

Lemma region_of_lower n s x : 0 <= rwidth n s ->
  (0 < region_of n s x)%nat -> edge n s (region_of n s x) < x.
Proof.
  intros Hw Hr. set (r := region_of n s x) in *.
  assert (Hlt := region_of_lt n s x). fold r in Hlt.
  assert (Heq := region_of_eq n s x). fold r in Heq.
  set (idx := count_lt x (edges n s)) in *.
  assert (Hi : (r < idx)%nat) by lia.
  rewrite <- nth_edges by lia.
  apply (Forall_firstn_nth (fun y => y < x) 0 idx (edges n s) r).
  - apply firstn_count_lt. apply edges_sorted. exact Hw.
  - exact Hi.
  - rewrite edges_length. lia.
Qed.

Lemma region_of_upper n s x : 0 <= rwidth n s ->
  (region_of n s x < nregions n - 1)%nat -> x <= edge n s (S (region_of n s x)).
Proof.
  intros Hw Hr. set (r := region_of n s x) in *.
  assert (Heq := region_of_eq n s x). fold r in Heq.
  set (idx := count_lt x (edges n s)) in *.
  assert (Hi : (idx <= S r)%nat) by lia.
  rewrite <- nth_edges by lia.
  apply (Forall_skipn_nth (fun y => x <= y) 0 idx (edges n s) (S r)).
  - apply skipn_count_lt. apply edges_sorted. exact Hw.
  - exact Hi.
  - rewrite edges_length. lia.
Qed.

(* x <= s[0] is looked up in region 0, x > s[-1] in the last region *)
Lemma region_of_below n s x : 0 <= rwidth n s -> x <= s_first s -> region_of n s x = 0%nat.
Proof.
  intros Hw Hx. rewrite region_of_eq.
  rewrite count_lt_all_ge; [reflexivity|].
  rewrite Forall_forall. intros y Hy. unfold edges in Hy. apply in_map_iff in Hy.
  destruct Hy as [k [Hk _]]. subst y.
  assert (H0 := edge_mono n s Hw 0 k (Nat.le_0_l k)). rewrite edge_0 in H0. lra.
Qed.

(* ---------- slice coverage ---------- *)

Section Coverage.
  Variables (n : nat) (s : list Q) (h x : Q).
  Hypothesis Hs : qsorted s.
  Hypothesis Hh : 0 < h.
  Hypothesis Hcov : srange s <= pow2 n * h.

  Let r := region_of n s x.

  Lemma far_left y : In y s -> y < mid n s r - cutoff h -> y + (7 # 2) * h <= x.
  Proof.
    intros Hy Hlt.
    assert (Hne : s <> []) by (intros E; subst s; destruct Hy).
    assert (Hfl := sorted_first_le_last s Hs Hne).
    assert (Hw := rwidth_nonneg n s Hfl).
    assert (Hwh := rwidth_le_h n s h Hcov).
    assert (Hm := mid_eq n s r). unfold cutoff in Hlt.
    destruct (Nat.eq_0_gt_0_cases r) as [H0|Hpos].
    - exfalso. assert (Hy0 := sorted_first_le s y Hs Hy).
      rewrite H0 in Hm, Hlt. rewrite edge_0 in Hm. lra.
    - assert (He := region_of_lower n s x Hw Hpos). fold r in He. lra.
  Qed.

  Lemma far_right y : In y s -> mid n s r + cutoff h <= y -> x + (7 # 2) * h <= y.
  Proof.
    intros Hy Hge.
    assert (Hne : s <> []) by (intros E; subst s; destruct Hy).
    assert (Hfl := sorted_first_le_last s Hs Hne).
    assert (Hw := rwidth_nonneg n s Hfl).
    assert (Hwh := rwidth_le_h n s h Hcov).
    assert (Hm := mid_eq n s r). unfold cutoff in Hge.
    assert (Hrl := region_of_lt n s x). fold r in Hrl.
    destruct (Nat.lt_ge_cases r (nregions n - 1)) as [Hlt|Hlast].
    - assert (He := region_of_upper n s x Hw Hlt). fold r in He.
      rewrite edge_S in He. lra.
    - exfalso. assert (Hyl := sorted_le_last s y Hs Hy).
      assert (Htop := edge_top n s).
      replace (nregions n) with (S r) in Htop by lia.
      rewrite edge_S in Htop. lra.
  Qed.

  Lemma lwr_le_upr : (lwr n s h r <= upr n s h r)%nat.
  Proof. unfold lwr, upr, cutoff. apply count_lt_mono. lra. Qed.

  (* every sample outside slice r is at least 3.5 h away from x *)
  Lemma excluded_far_cases y :
    In y (firstn (lwr n s h r) s) \/ In y (skipn (upr n s h r) s) ->
    y + (7 # 2) * h <= x \/ x + (7 # 2) * h <= y.
  Proof.
    intros [Hy|Hy].
    - left.
      assert (Hin : In y s) by (rewrite <- (firstn_skipn (lwr n s h r) s); apply in_or_app; left; exact Hy).
      assert (Hlt : y < mid n s r - cutoff h).
      { assert (HF := firstn_count_lt (mid n s r - cutoff h) s Hs).
        rewrite Forall_forall in HF. apply HF. exact Hy. }
      exact (far_left y Hin Hlt).
    - right.
      assert (Hin : In y s) by (rewrite <- (firstn_skipn (upr n s h r) s); apply in_or_app; right; exact Hy).
      assert (Hge : mid n s r + cutoff h <= y).
      { assert (HF := skipn_count_lt (mid n s r + cutoff h) s Hs).
        rewrite Forall_forall in HF. apply HF. exact Hy. }
      exact (far_right y Hin Hge).
  Qed.

  Lemma excluded_far y :
    In y (firstn (lwr n s h r) s) \/ In y (skipn (upr n s h r) s) ->
    (7 # 2) * h <= Qabs (x - y).
  Proof.
    intros Hy. destruct (excluded_far_cases y Hy) as [H|H].
    - rewrite Qabs_pos by lra. lra.
    - rewrite Qabs_neg by lra. lra.
  Qed.

  (* samples dropped on the left are below x, those dropped on the right above *)
  Lemma excluded_left_below y : In y (firstn (lwr n s h r) s) -> y + (7 # 2) * h <= x.
  Proof.
    intros Hy.
    assert (Hin : In y s) by (rewrite <- (firstn_skipn (lwr n s h r) s); apply in_or_app; left; exact Hy).
    assert (Hlt : y < mid n s r - cutoff h).
    { assert (HF := firstn_count_lt (mid n s r - cutoff h) s Hs).
      rewrite Forall_forall in HF. apply HF. exact Hy. }
    exact (far_left y Hin Hlt).
  Qed.

  Lemma excluded_right_above y : In y (skipn (upr n s h r) s) -> x + (7 # 2) * h <= y.
  Proof.
    intros Hy.
    assert (Hin : In y s) by (rewrite <- (firstn_skipn (upr n s h r) s); apply in_or_app; right; exact Hy).
    assert (Hge : mid n s r + cutoff h <= y).
    { assert (HF := skipn_count_lt (mid n s r + cutoff h) s Hs).
      rewrite Forall_forall in HF. apply HF. exact Hy. }
    exact (far_right y Hin Hge).
  Qed.

  (* positional form: an index whose sample is within 3.5 h of x lies in slice r *)
  Lemma slice_covers_index i : (i < length s)%nat ->
    Qabs (x - nth i s 0) < (7 # 2) * h -> (lwr n s h r <= i < upr n s h r)%nat.
  Proof.
    intros Hi Hnear.
    destruct (Nat.lt_ge_cases i (lwr n s h r)) as [Hl|Hl].
    - exfalso.
      assert (Hlt : nth i s 0 < mid n s r - cutoff h).
      { apply (Forall_firstn_nth (fun y => y < mid n s r - cutoff h) 0 (lwr n s h r) s i);
          [apply firstn_count_lt; exact Hs|exact Hl|exact Hi]. }
      assert (H := far_left _ (nth_In s 0 Hi) Hlt).
      rewrite Qabs_pos in Hnear by lra. lra.
    - split; [exact Hl|].
      destruct (Nat.lt_ge_cases i (upr n s h r)) as [Hu|Hu]; [exact Hu|exfalso].
      assert (Hge : mid n s r + cutoff h <= nth i s 0).
      { apply (Forall_skipn_nth (fun y => mid n s r + cutoff h <= y) 0 (upr n s h r) s i);
          [apply skipn_count_lt; exact Hs|exact Hu|exact Hi]. }
      assert (H := far_right _ (nth_In s 0 Hi) Hge).
      rewrite Qabs_neg in Hnear by lra. lra.
  Qed.

  Lemma sample_decomp :
    s = firstn (lwr n s h r) s ++ region_slice n s h r ++ skipn (upr n s h r) s.
  Proof. apply slice_decomp. apply lwr_le_upr. Qed.
End Coverage.

(* a point beyond the data on either side is served by the end region, whose
   slice still holds every sample within 3.5 h (instances of the section with
   r = 0 / r = last; recorded for the property file) *)

(* ---------- grouping of evaluation points ---------- *)

Lemma in_positions i v vals :
  In i (positions v vals) <-> (i < length vals)%nat /\ nth i vals 0%nat = v.
Proof.
  unfold positions. rewrite filter_In, in_seq, Nat.eqb_eq. intuition lia.
Qed.

Lemma positions_NoDup v vals : NoDup (positions v vals).
Proof. apply NoDup_filter. apply seq_NoDup. Qed.

Lemma list_max_ge v vals : In v vals -> (v <= list_max vals)%nat.
Proof.
  intros H. assert (HF : Forall (fun k => (k <= list_max vals)%nat) vals)
    by (apply list_max_le; apply Nat.le_refl).
  rewrite Forall_forall in HF. apply HF. exact H.
Qed.

Lemma in_uniques v vals : In v (uniques vals) <-> In v vals.
Proof.
  unfold uniques. rewrite filter_In, in_seq, existsb_exists. split.
  - intros [_ [w [Hw E]]]. apply Nat.eqb_eq in E. subst w. exact Hw.
  - intros H. split; [assert (Hm := list_max_ge v vals H); lia|].
    exists v. split; [exact H|apply Nat.eqb_refl].
Qed.

Lemma uniques_NoDup vals : NoDup (uniques vals).
Proof. apply NoDup_filter. apply seq_NoDup. Qed.

Lemma uniques_sorted vals : StronglySorted lt (uniques vals).
Proof.
  unfold uniques. generalize (S (list_max vals)) as m. generalize 0%nat as a.
  intros a m. revert a. induction m as [|m IH]; intros a; simpl; [constructor|].
  assert (Hrest : Forall (lt a) (filter (fun v => existsb (Nat.eqb v) vals) (seq (S a) m))).
  { rewrite Forall_forall. intros y Hy. apply filter_In in Hy. destruct Hy as [Hy _].
    apply in_seq in Hy. lia. }
  destruct (existsb (Nat.eqb a) vals).
  - constructor; [apply IH|exact Hrest].
  - apply IH.
Qed.

Lemma in_groups v g vals :
  In (v, g) (unique_index_groups vals) <-> In v vals /\ g = positions v vals.
Proof.
  unfold unique_index_groups. rewrite in_map_iff. split.
  - intros [w [E Hw]]. inversion E; subst. split; [apply in_uniques; exact Hw|reflexivity].
  - intros [Hv Hg]. exists v. split; [subst g; reflexivity|apply in_uniques; exact Hv].
Qed.

(* every index lies in the group of its own value, and in no other group *)
Theorem groups_partition vals i : (i < length vals)%nat ->
  In (nth i vals 0%nat, positions (nth i vals 0%nat) vals) (unique_index_groups vals) /\
  In i (positions (nth i vals 0%nat) vals) /\
  (forall v g, In (v, g) (unique_index_groups vals) -> In i g -> v = nth i vals 0%nat).
Proof.
  intros Hi. split; [|split].
  - apply in_groups. split; [apply nth_In; exact Hi|reflexivity].
  - apply in_positions. split; [exact Hi|reflexivity].
  - intros v g Hg Hin. apply in_groups in Hg. destruct Hg as [_ Hg]. subst g.
    apply in_positions in Hin. symmetry. apply Hin.
Qed.

Lemma groups_labels_NoDup vals : NoDup (map fst (unique_index_groups vals)).
Proof.
  unfold unique_index_groups. rewrite map_map. simpl. rewrite map_id. apply uniques_NoDup.
Qed.

Lemma groups_indices_valid vals v g j :
  In (v, g) (unique_index_groups vals) -> In j g -> (j < length vals)%nat /\ nth j vals 0%nat = v.
Proof.
  intros Hg Hj. apply in_groups in Hg. destruct Hg as [_ Hg]. subst g.
  apply in_positions. exact Hj.
Qed.

(* ---------- array evaluation ---------- *)

Lemma upd_length {A} (l : list A) i v : length (upd l i v) = length l.
Proof. revert i. induction l as [|a l IH]; intros [|i]; simpl; auto. Qed.

Lemma nth_upd {A} (l : list A) i j v d :
  nth j (upd l i v) d = if (Nat.eqb j i && Nat.ltb i (length l))%bool then v else nth j l d.
Proof.
  revert i j. induction l as [|a l IH]; intros i j.
  - simpl. rewrite andb_false_r. destruct i; reflexivity.
  - destruct i as [|i], j as [|j]; simpl; try reflexivity.
    rewrite IH. reflexivity.
Qed.

Section Eval.
  Context {A : Type}.
  Variables (F : nat -> Q -> A) (xs : list Q) (rho : nat -> nat) (d : A).

  Let G i := F (rho i) (nth i xs 0).

  Lemma assign_group_spec g : forall out r,
    (forall j, In j g -> r = rho j) ->
    length (assign_group F xs out (r, g)) = length out /\
    forall i, (i < length out)%nat ->
      (In i g -> nth i (assign_group F xs out (r, g)) d = G i) /\
      (~ In i g -> nth i (assign_group F xs out (r, g)) d = nth i out d).
  Proof.
    unfold assign_group. simpl.
    induction g as [|j g IH]; intros out r Hlab; simpl.
    - split; [reflexivity|]. intros i Hi. split; [intros []|reflexivity].
    - destruct (IH (upd out j (F r (nth j xs 0))) r) as [Hlen Hnth].
      { intros k Hk. apply Hlab. right. exact Hk. }
      rewrite upd_length in Hlen. split; [exact Hlen|].
      intros i Hi. specialize (Hnth i). rewrite upd_length in Hnth. specialize (Hnth Hi).
      destruct Hnth as [Hin Hout].
      destruct (in_dec Nat.eq_dec i g) as [Hig|Hnig].
      + split; [intros _; apply Hin; exact Hig|]. intros Hn. exfalso. apply Hn. right. exact Hig.
      + split.
        * intros [E|Hig]; [|contradiction]. subst j.
          rewrite Hout by exact Hnig. rewrite nth_upd, Nat.eqb_refl.
          assert (E : Nat.ltb i (length out) = true) by (apply Nat.ltb_lt; exact Hi).
          rewrite E. simpl. unfold G. rewrite (Hlab i) by (left; reflexivity). reflexivity.
        * intros Hn. rewrite Hout by exact Hnig. rewrite nth_upd.
          destruct (Nat.eqb i j) eqn:E; [|reflexivity].
          apply Nat.eqb_eq in E. subst j. exfalso. apply Hn. left. reflexivity.
  Qed.

  Lemma eval_groups_fold groups : forall out,
    (forall r g j, In (r, g) groups -> In j g -> r = rho j) ->
    length (fold_left (assign_group F xs) groups out) = length out /\
    forall i, (i < length out)%nat ->
      (nth i out d = G i \/ exists r g, In (r, g) groups /\ In i g) ->
      nth i (fold_left (assign_group F xs) groups out) d = G i.
  Proof.
    induction groups as [|[r g] rest IH]; intros out Hlab; simpl.
    - split; [reflexivity|]. intros i Hi [H|[r [g [[] _]]]]. exact H.
    - destruct (assign_group_spec g out r) as [Hlen Hspec].
      { intros j Hj. apply (Hlab r g j); [left; reflexivity|exact Hj]. }
      destruct (IH (assign_group F xs out (r, g))) as [Hlen' Hnth'].
      { intros r' g' j Hin Hj. apply (Hlab r' g' j); [right; exact Hin|exact Hj]. }
      split; [rewrite Hlen'; exact Hlen|].
      intros i Hi Hcase. apply Hnth'; [rewrite Hlen; exact Hi|].
      destruct (Hspec i Hi) as [Hin Hout].
      destruct (in_dec Nat.eq_dec i g) as [Hig|Hnig]; [left; apply Hin; exact Hig|].
      destruct Hcase as [Hc|[r' [g' [[E|Hin'] Hi']]]].
      + left. rewrite Hout by exact Hnig. exact Hc.
      + inversion E; subst. contradiction.
      + right. exists r', g'. split; assumption.
  Qed.
End Eval.

Theorem eval_array_map {A} (zero : A) (F : nat -> Q -> A) n s xs :
  eval_array zero F n s xs = map (fun x => F (region_of n s x) x) xs.
Proof.
  unfold eval_array, eval_groups, region_groups.
  set (vals := map (region_of n s) xs).
  set (rho := fun i => nth i vals 0%nat).
  destruct (eval_groups_fold F xs rho zero (unique_index_groups vals)
              (repeat zero (length xs))) as [Hlen Hnth].
  { intros r g j Hg Hj. destruct (groups_indices_valid vals r g j Hg Hj) as [_ E].
    unfold rho. symmetry. exact E. }
  rewrite repeat_length in Hlen, Hnth.
  apply nth_ext with (d := zero) (d' := zero).
  - rewrite Hlen, map_length. reflexivity.
  - intros i Hi. rewrite Hlen in Hi. rewrite Hnth.
    + unfold rho, vals.
      rewrite nth_indep with (d' := F (region_of n s 0) 0) by (rewrite map_length; exact Hi).
      rewrite (map_nth (fun x => F (region_of n s x) x) xs 0 i).
      rewrite nth_indep with (d' := region_of n s 0) by (rewrite map_length; exact Hi).
      rewrite (map_nth (region_of n s) xs 0 i). reflexivity.
    + exact Hi.
    + right. assert (Hiv : (i < length vals)%nat) by (unfold vals; rewrite map_length; exact Hi).
      destruct (groups_partition vals i Hiv) as [Hg [Hp _]].
      eexists. eexists. split; [exact Hg|exact Hp].
Qed.

Corollary eval_array_scalar {A} (zero : A) (F : nat -> Q -> A) n s xs i :
  (i < length xs)%nat ->
  nth i (eval_array zero F n s xs) zero = hd zero (eval_array zero F n s [nth i xs 0]).
Proof.
  intros Hi. rewrite !eval_array_map. simpl.
  rewrite nth_indep with (d' := F (region_of n s 0) 0) by (rewrite map_length; exact Hi).
  rewrite (map_nth (fun x => F (region_of n s x) x) xs 0 i). reflexivity.
Qed.

Corollary eval_array_perm {A} (zero : A) (F : nat -> Q -> A) n s xs xs' :
  Permutation xs xs' ->
  Permutation (combine xs (eval_array zero F n s xs)) (combine xs' (eval_array zero F n s xs')).
Proof.
  intros HP. rewrite !eval_array_map.
  assert (E : forall l, combine l (map (fun x => F (region_of n s x) x) l)
                        = map (fun x => (x, F (region_of n s x) x)) l).
  { induction l as [|a l IH]; simpl; [reflexivity|]. rewrite IH. reflexivity. }
  rewrite !E. apply Permutation_map. exact HP.
Qed.

(* ---------- sample order is irrelevant ---------- *)

(* samples are doubles: equal values are identical.  In Q this is "every
   element is in lowest terms" (what the harness writes, and what Qred gives) *)
Definition canon (l : list Q) : Prop := Forall (fun q => Qred q = q) l.

Lemma canon_Qeq_eq a b : Qred a = a -> Qred b = b -> a == b -> a = b.
Proof. intros Ha Hb E. rewrite <- Ha, <- Hb. apply Qred_complete. exact E. Qed.

Lemma canon_map_Qred l : canon (map Qred l).
Proof.
  unfold canon. rewrite Forall_forall. intros q Hq. apply in_map_iff in Hq.
  destruct Hq as [p [E _]]. subst q. apply Qred_complete. apply Qred_correct.
Qed.

Lemma canon_perm l l' : Permutation l l' -> canon l -> canon l'.
Proof.
  unfold canon. intros HP H. rewrite Forall_forall in *. intros q Hq.
  apply H. eapply Permutation_in; [symmetry; exact HP|exact Hq].
Qed.

Lemma sorted_perm_unique l1 : forall l2,
  canon l1 -> qsorted l1 -> qsorted l2 -> Permutation l1 l2 -> l1 = l2.
Proof.
  induction l1 as [|a t IH]; intros l2 Hc H1 H2 HP.
  - apply Permutation_nil in HP. symmetry. exact HP.
  - destruct l2 as [|b u].
    + symmetry in HP. apply Permutation_nil in HP. discriminate.
    + assert (Hc2 : canon (b :: u)) by (eapply canon_perm; eassumption).
      assert (Hab : a = b).
      { assert (Hb : In b (a :: t))
          by (eapply Permutation_in; [symmetry; exact HP | left; reflexivity]).
        assert (Ha : In a (b :: u))
          by (eapply Permutation_in; [exact HP | left; reflexivity]).
        assert (L1 := sorted_first_le _ _ H1 Hb). assert (L2 := sorted_first_le _ _ H2 Ha).
        simpl in L1, L2.
        inversion Hc; subst. inversion Hc2; subst.
        apply canon_Qeq_eq; try assumption. lra. }
      subst b. f_equal.
      inversion H1; subst. inversion H2; subst. inversion Hc; subst.
      apply IH; try assumption. eapply Permutation_cons_inv. exact HP.
Qed.

(* the sorted sample, hence every table derived from it, does not depend on
   the order in which the sample was given *)
Theorem sort_perm_eq l l' : canon l -> Permutation l l' -> QSort.sort l = QSort.sort l'.
Proof.
  intros Hc HP. apply sorted_perm_unique; try apply sort_sorted.
  - eapply canon_perm; [apply sort_perm|exact Hc].
  - eapply Permutation_trans; [symmetry; apply sort_perm|].
    eapply Permutation_trans; [exact HP|apply sort_perm].
Qed.
