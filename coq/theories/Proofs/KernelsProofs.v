(* Lemmas about RealModel/Kernels.v: gradient formulas are derivatives (Coquelicot
   is_derive), symmetry, builder = pairwise + diagonal terms. *)
From Coq Require Import Reals List Arith Lia Lra Bool.
From Coquelicot Require Import Coquelicot.
From IT Require Import Model.Slices RealModel.Kernels Proofs.SlicesProofs.
Import ListNotations.
Open Scope R_scope.

(* ------------------------------------------------------------------ *)
(* lists: upd, slices                                                  *)

Lemma upd_length : forall l p t, length (upd l p t) = length l.
Proof. induction l as [|x l IH]; intros [|p] t; simpl; auto. Qed.

Lemma par_upd_same : forall l p t, (p < length l)%nat -> par (upd l p t) p = t.
Proof.
  unfold par. induction l as [|x l IH]; intros [|p] t H; simpl in *; try lia; auto.
  apply IH. lia.
Qed.

Lemma par_upd_other : forall l p k t, p <> k -> par (upd l p t) k = par l k.
Proof.
  unfold par. induction l as [|x l IH]; intros [|p] [|k] t H; simpl; auto; try lia.
Qed.

Lemma upd_self : forall l p, upd l p (par l p) = l.
Proof.
  unfold par. induction l as [|x l IH]; intros [|p]; simpl; auto. f_equal. apply IH.
Qed.

Lemma skipn_upd_ge : forall off l p t, (off <= p)%nat ->
  skipn off (upd l p t) = upd (skipn off l) (p - off) t.
Proof.
  induction off as [|off IH]; intros l p t H.
  - now rewrite Nat.sub_0_r.
  - destruct l as [|x l]; [reflexivity|]. destruct p as [|p]; [lia|]. simpl. apply IH. lia.
Qed.

Lemma skipn_upd_lt : forall off l p t, (p < off)%nat -> skipn off (upd l p t) = skipn off l.
Proof.
  induction off as [|off IH]; intros l p t H; [lia|].
  destruct l as [|x l]; [reflexivity|]. destruct p as [|p]; simpl; [reflexivity|]. apply IH. lia.
Qed.

Lemma firstn_upd_lt : forall n l p t, (p < n)%nat -> firstn n (upd l p t) = upd (firstn n l) p t.
Proof.
  induction n as [|n IH]; intros l p t H; [lia|].
  destruct l as [|x l]; [reflexivity|]. destruct p as [|p]; simpl; [reflexivity|]. f_equal. apply IH. lia.
Qed.

Lemma firstn_upd_ge : forall n l p t, (n <= p)%nat -> firstn n (upd l p t) = firstn n l.
Proof.
  induction n as [|n IH]; intros l p t H; [reflexivity|].
  destruct l as [|x l]; [reflexivity|]. destruct p as [|p]; [lia|]. simpl. f_equal. apply IH. lia.
Qed.

Lemma apply_slice_upd_in : forall a b th p t, (a <= p < b)%nat ->
  apply_slice (a, b) (upd th p t) = upd (apply_slice (a, b) th) (p - a) t.
Proof.
  intros a b th p t H. unfold apply_slice. simpl.
  rewrite skipn_upd_ge by lia. apply firstn_upd_lt. lia.
Qed.

Lemma apply_slice_upd_out : forall a b th p t, (p < a \/ b <= p)%nat ->
  apply_slice (a, b) (upd th p t) = apply_slice (a, b) th.
Proof.
  intros a b th p t H. unfold apply_slice. simpl.
  destruct (Nat.lt_ge_cases p a) as [Hlt|Hge].
  - now rewrite skipn_upd_lt.
  - rewrite skipn_upd_ge by lia. apply firstn_upd_ge. lia.
Qed.

Lemma nth_skipn_R : forall a (l : list R) k, nth k (skipn a l) 0 = nth (a + k) l 0.
Proof.
  induction a as [|a IH]; intros l k; [reflexivity|].
  destruct l as [|x l]; simpl; [now destruct k|]. apply IH.
Qed.

Lemma nth_firstn_R : forall n (l : list R) k, (k < n)%nat -> nth k (firstn n l) 0 = nth k l 0.
Proof.
  induction n as [|n IH]; intros l k H; [lia|].
  destruct l as [|x l]; [reflexivity|]. destruct k as [|k]; simpl; [reflexivity|]. apply IH. lia.
Qed.

Lemma par_apply_slice : forall a b th k, (k < b - a)%nat -> par (apply_slice (a, b) th) k = par th (a + k).
Proof.
  intros a b th k H. unfold par, apply_slice. simpl.
  rewrite nth_firstn_R by exact H. apply nth_skipn_R.
Qed.

Lemma apply_slice_len : forall a b (th : list R), (b <= length th)%nat -> (a <= b)%nat ->
  length (apply_slice (a, b) th) = (b - a)%nat.
Proof. intros a b th H1 H2. now apply (apply_slice_length (a, b)). Qed.

Lemma slices_from_bounds : forall l off s, In s (slices_from off l) ->
  (off <= fst s /\ fst s <= snd s /\ snd s <= off + total l)%nat.
Proof.
  induction l as [|x l IH]; intros off s H; simpl in H; [contradiction|].
  destruct H as [<-|H]; [cbn [fst snd]; rewrite total_cons; lia|].
  apply IH in H. rewrite total_cons. lia.
Qed.

(* ------------------------------------------------------------------ *)
(* sums                                                                *)

Lemma Rsum_ext : forall l f g, (forall k, In k l -> f k = g k) -> Rsum l f = Rsum l g.
Proof.
  induction l as [|x l IH]; intros f g H; simpl; [reflexivity|].
  rewrite (H x) by now left. f_equal. apply IH. intros k Hk. apply H. now right.
Qed.

Lemma Rsum_zero : forall l g, (forall k, In k l -> g k = 0) -> Rsum l g = 0.
Proof.
  induction l as [|x l IH]; intros g H; simpl; [reflexivity|].
  rewrite (H x) by now left. rewrite IH; [lra|]. intros k Hk. apply H. now right.
Qed.

Lemma Rsum_single : forall l g p, NoDup l -> In p l -> (forall k, In k l -> k <> p -> g k = 0) ->
  Rsum l g = g p.
Proof.
  induction l as [|x l IH]; intros g p Hnd Hin Hz; [contradiction|].
  inversion Hnd as [|x' l' Hx Hnd']; subst. simpl.
  destruct Hin as [->|Hin].
  - rewrite Rsum_zero; [lra|]. intros k Hk. apply Hz; [now right|]. intros ->. contradiction.
  - rewrite (Hz x); [|now left|intros ->; contradiction].
    rewrite (IH g p Hnd' Hin); [lra|]. intros k Hk. apply Hz. now right.
Qed.

Lemma Rsum_nonneg : forall l g, (forall k, 0 <= g k) -> 0 <= Rsum l g.
Proof. induction l as [|x l IH]; intros g H; simpl; [lra|]. pose proof (H x). pose proof (IH g H). lra. Qed.

Lemma is_derive_Rsum : forall (l : list nat) (f : nat -> R -> R) (g : nat -> R) x,
  (forall k, In k l -> is_derive (f k) x (g k)) ->
  is_derive (fun t => Rsum l (fun k => f k t)) x (Rsum l g).
Proof.
  induction l as [|a l IH]; intros f g x H; simpl.
  - apply (is_derive_const (V := R_NormedModule)).
  - apply (is_derive_plus (V := R_NormedModule)).
    + apply H. now left.
    + apply IH. intros k Hk. apply H. now right.
Qed.

(* ------------------------------------------------------------------ *)
(* is_derive helpers                                                   *)

Lemma is_derive_eq : forall (f : R -> R) (x d d' : R), is_derive f x d -> d = d' -> is_derive f x d'.
Proof. intros f x d d' H <-. exact H. Qed.

Lemma is_derive_constR : forall (c x : R), is_derive (fun _ : R => c) x 0.
Proof. intros. apply (is_derive_const (V := R_NormedModule)). Qed.

Lemma is_derive_add_const_r : forall (f : R -> R) c x d, is_derive f x d -> is_derive (fun t => f t + c) x d.
Proof.
  intros f c x d H. eapply is_derive_eq.
  - apply (is_derive_plus (V := R_NormedModule)); [exact H|apply is_derive_constR].
  - unfold plus; simpl. lra.
Qed.

Lemma is_derive_add_const_l : forall (f : R -> R) c x d, is_derive f x d -> is_derive (fun t => c + f t) x d.
Proof.
  intros f c x d H. eapply is_derive_eq.
  - apply (is_derive_plus (V := R_NormedModule)); [apply is_derive_constR|exact H].
  - unfold plus; simpl. lra.
Qed.

Lemma is_derive_mul_const_r : forall (f : R -> R) c x d, is_derive f x d -> is_derive (fun t => f t * c) x (d * c).
Proof.
  intros f c x d H. eapply is_derive_eq.
  - apply (is_derive_mult f (fun _ => c) x d 0); [exact H|apply is_derive_constR|].
    intros; apply Rmult_comm.
  - unfold plus, mult; simpl. ring.
Qed.

Lemma is_derive_mul_const_l : forall (f : R -> R) c x d, is_derive f x d -> is_derive (fun t => c * f t) x (c * d).
Proof.
  intros f c x d H. eapply is_derive_eq.
  - apply (is_derive_mult (fun _ => c) f x 0 d); [apply is_derive_constR|exact H|].
    intros; apply Rmult_comm.
  - unfold plus, mult; simpl. ring.
Qed.

Lemma is_derive_addR : forall (f g : R -> R) x df dg, is_derive f x df -> is_derive g x dg ->
  is_derive (fun t => f t + g t) x (df + dg).
Proof. intros. now apply (is_derive_plus (V := R_NormedModule)). Qed.

(* ------------------------------------------------------------------ *)
(* sum_k c_k / exp(theta_{off+k})^2  as a function of theta             *)

Definition wexp (c : nat -> R) (off d : nat) (th : list R) : R :=
  Rsum (seq 0 d) (fun k => c k / (exp (par th (off + k))) ^ 2).

Lemma wexp_const : forall c off d th p t, (p < off)%nat -> wexp c off d (upd th p t) = wexp c off d th.
Proof.
  intros c off d th p t H. unfold wexp. apply Rsum_ext. intros k _.
  rewrite par_upd_other by lia. reflexivity.
Qed.

Lemma wexp_derive : forall c off d th k0, (k0 < d)%nat -> (off + k0 < length th)%nat ->
  is_derive (fun t => wexp c off d (upd th (off + k0) t)) (par th (off + k0))
            ((-2 / (exp (par th (off + k0))) ^ 2) * c k0).
Proof.
  intros c off d th k0 Hk Hlen. unfold wexp.
  set (x := par th (off + k0)).
  eapply is_derive_eq.
  - apply (is_derive_Rsum (seq 0 d)
             (fun k t => c k / (exp (par (upd th (off + k0) t) (off + k))) ^ 2)
             (fun k => if Nat.eqb k k0 then (-2 / (exp x) ^ 2) * c k0 else 0)).
    intros k _. destruct (Nat.eqb_spec k k0) as [->|Hne].
    + apply (is_derive_ext (fun t => c k0 / (exp t) ^ 2)).
      { intros t. now rewrite par_upd_same. }
      pose proof (exp_pos x) as Hex.
      auto_derive; [apply Rgt_not_eq; nra|]. field. lra.
    + apply (is_derive_ext (fun t => c k / (exp (par th (off + k))) ^ 2)).
      { intros t. rewrite par_upd_other by lia. reflexivity. }
      apply is_derive_constR.
  - rewrite (Rsum_single _ _ k0).
    + now rewrite Nat.eqb_refl.
    + apply seq_NoDup.
    + apply in_seq. lia.
    + intros k _ Hne. destruct (Nat.eqb_spec k k0); [contradiction|reflexivity].
Qed.

Lemma se_expo_wexp : forall d th u v, se_expo d th u v = wexp (se_dist u v) 1 d th.
Proof. reflexivity. Qed.
Lemma rq_Z_wexp : forall d th u v, rq_Z d th u v = wexp (rq_dist u v) 2 d th.
Proof. reflexivity. Qed.

Lemma delta_sym : forall i j, delta i j = delta j i.
Proof. intros i j. unfold delta. now rewrite Nat.eqb_sym. Qed.

Lemma delta_diag_dist : forall i j (f : nat -> nat -> R), (forall i, f i i = 0) -> f i j * delta i j = 0.
Proof.
  intros i j f H. unfold delta. destruct (Nat.eqb_spec i j) as [->|_]; [rewrite H|]; ring.
Qed.

Lemma se_dist_diag : forall u k, se_dist u u k = 0.
Proof. intros. unfold se_dist. ring. Qed.
Lemma rq_dist_diag : forall u k, rq_dist u u k = 0.
Proof. intros. unfold rq_dist. ring. Qed.

(* ------------------------------------------------------------------ *)
(* the gradient returned for hyper-parameter p is the derivative of the returned
   covariance w.r.t. theta[p] *)
Definition grad_ok (K : kernel) : Prop :=
  forall xs th p i j, length th = np K -> (p < np K)%nat -> kok K th ->
    is_derive (fun t => kbuild K xs (upd th p t) i j) (par th p) (kgrad K xs th p i j).

Lemma se_grad_ok : forall d, grad_ok (se d).
Proof.
  intros d xs th p i j Hlen Hp _. simpl in *. unfold se_np in *.
  set (u := point xs i). set (v := point xs j).
  destruct p as [|k0].
  - (* ln a *)
    apply (is_derive_ext (fun t => (exp t) ^ 2 * (exp (se_expo d th u v) + jitter * delta i j))).
    { intros t. unfold se_build. fold u v. rewrite par_upd_same by lia.
      rewrite !se_expo_wexp, wexp_const by lia. reflexivity. }
    unfold se_grad, se_build. fold u v.
    auto_derive; [exact I|]. ring.
  - (* ln l_k0 *)
    assert (Hk : (k0 < d)%nat) by lia.
    pose proof (wexp_derive (se_dist u v) 1 d th k0 Hk ltac:(simpl; lia)) as HE.
    simpl Nat.add in HE.
    set (E := fun t => wexp (se_dist u v) 1 d (upd th (S k0) t)) in *.
    set (x := par th (S k0)) in *.
    apply (is_derive_ext (fun t => (exp (par th 0)) ^ 2 * (exp (E t) + jitter * delta i j))).
    { intros t. unfold se_build. fold u v. rewrite par_upd_other by lia. reflexivity. }
    eapply is_derive_eq.
    + apply is_derive_mul_const_l. apply is_derive_add_const_r.
      apply (is_derive_comp exp E x _ _ (is_derive_exp (E x)) HE).
    + unfold se_grad, se_build. fold u v x.
      assert (HEx : E x = se_expo d th u v).
      { unfold E, x. now rewrite upd_self. }
      rewrite HEx. unfold scal; simpl; unfold mult; simpl.
      assert (Hz : se_dist u v k0 * delta i j = 0).
      { unfold u, v. apply (delta_diag_dist i j (fun i j => se_dist (point xs i) (point xs j) k0)).
        intros; apply se_dist_diag. }
      set (ee := exp (se_expo d th u v)). set (D := se_dist u v k0) in *.
      set (A := exp (par th 0) * (exp (par th 0) * 1)). set (L := exp x * (exp x * 1)).
      transitivity (-2 / L * D * A * ee + -2 / L * A * jitter * (D * delta i j));
        [rewrite Hz|]; unfold Rdiv; ring.
Qed.

(* ---- rational quadratic ---- *)
Lemma rq_dist_nonneg : forall u v k, 0 <= rq_dist u v k.
Proof. intros. unfold rq_dist. pose proof (pow2_ge_0 (coord u k - coord v k)). lra. Qed.

Lemma wexp_nonneg : forall c off d th, (forall k, 0 <= c k) -> 0 <= wexp c off d th.
Proof.
  intros c off d th H. unfold wexp. apply Rsum_nonneg. intros k.
  pose proof (exp_pos (par th (off + k))) as He. specialize (H k).
  apply Rmult_le_pos; [exact H|]. apply Rlt_le, Rinv_0_lt_compat. nra.
Qed.

Lemma rq_Z_nonneg : forall d th u v, 0 <= rq_Z d th u v.
Proof. intros. rewrite rq_Z_wexp. apply wexp_nonneg. intros; apply rq_dist_nonneg. Qed.

Lemma F_pos : forall Z q, 0 <= Z -> 0 < q -> 0 < 1 + Z / q.
Proof.
  intros Z q HZ Hq. assert (0 <= Z / q); [|lra].
  apply Rmult_le_pos; [exact HZ|]. now apply Rlt_le, Rinv_0_lt_compat.
Qed.

Lemma rq_Z_diag : forall d th u, rq_Z d th u u = 0.
Proof.
  intros. unfold rq_Z. apply Rsum_zero. intros k _. rewrite rq_dist_diag. unfold Rdiv. ring.
Qed.

Lemma rq_diag_factor : forall d xs th i j,
  (ln (rq_F d th (point xs i) (point xs j)) * exp (par th 1)
   - rq_Z d th (point xs i) (point xs j) / rq_F d th (point xs i) (point xs j)) * delta i j = 0.
Proof.
  intros. unfold delta. destruct (Nat.eqb_spec i j) as [->|_]; [|ring].
  unfold rq_F. rewrite rq_Z_diag.
  replace (1 + 0 / exp (par th 1)) with 1 by (unfold Rdiv; ring). rewrite ln_1. unfold Rdiv. ring.
Qed.

Lemma rq_grad_ok : forall d, grad_ok (rq d).
Proof.
  intros d xs th p i j Hlen Hp _. simpl in *. unfold rq_np in *.
  set (u := point xs i). set (v := point xs j).
  pose proof (rq_Z_nonneg d th u v) as HZ0.
  pose proof (exp_pos (par th 1)) as Hq.
  pose proof (F_pos _ _ HZ0 Hq) as HF.
  destruct p as [|[|k0]].
  - (* ln a *)
    apply (is_derive_ext (fun t => (exp t) ^ 2 * (rq_C d th u v + jitter * delta i j))).
    { intros t. unfold rq_build, rq_C, rq_F. fold u v. rewrite par_upd_same by lia.
      rewrite par_upd_other by lia. rewrite !rq_Z_wexp, wexp_const by lia. reflexivity. }
    unfold rq_grad, rq_build. fold u v.
    auto_derive; [exact I|]. ring.
  - (* ln alpha *)
    set (Z := rq_Z d th u v) in *. set (x := par th 1) in *.
    apply (is_derive_ext (fun t => (exp (par th 0)) ^ 2 * (exp (- exp t * ln (1 + Z / exp t)) + jitter * delta i j))).
    { intros t. unfold rq_build, rq_C, rq_F. fold u v. rewrite par_upd_other by lia.
      rewrite par_upd_same by lia. rewrite !rq_Z_wexp, wexp_const by lia. reflexivity. }
    pose proof (rq_diag_factor d xs th i j) as Hd. fold u v in Hd. unfold rq_F in Hd. fold Z x in Hd.
    unfold rq_grad, rq_build, rq_C, rq_F. fold u v Z x.
    set (A := exp (par th 0) ^ 2).
    set (F := 1 + Z / exp x) in *.
    apply (is_derive_eq _ _ (- (A * exp (- exp x * ln F)) * (ln F * exp x - Z / F))).
    + auto_derive.
      { repeat split; trivial; try (apply Rgt_not_eq; lra); (unfold F, Rdiv in HF; exact HF). }
      clear Hd. subst F. unfold Rdiv in *.
      generalize dependent (ln (1 + Z * / exp x)). intros lnF.
      generalize (exp (- exp x * lnF)). intros C. field. split; lra.
    + transitivity (- (A * exp (- exp x * ln F)) * (ln F * exp x - Z / F)
                    - A * jitter * ((ln F * exp x - Z / F) * delta i j)).
      * rewrite Hd. ring.
      * ring.
  - (* ln l_k0 *)
    assert (Hk : (k0 < d)%nat) by lia.
    pose proof (wexp_derive (rq_dist u v) 2 d th k0 Hk ltac:(simpl; lia)) as HE.
    simpl Nat.add in HE.
    set (E := fun t => wexp (rq_dist u v) 2 d (upd th (S (S k0)) t)) in *.
    set (x := par th (S (S k0))) in *.
    set (q := exp (par th 1)) in *.
    apply (is_derive_ext (fun t => (exp (par th 0)) ^ 2 *
                                   ((fun y => exp (- q * ln (1 + y / q))) (E t) + jitter * delta i j))).
    { intros t. unfold rq_build, rq_C, rq_F. fold u v. rewrite !par_upd_other by lia. reflexivity. }
    assert (HEx : E x = rq_Z d th u v).
    { unfold E, x. now rewrite upd_self. }
    assert (HC : is_derive (fun y => exp (- q * ln (1 + y / q))) (E x)
                           (exp (- q * ln (1 + E x / q)) * (- q * (1 / q / (1 + E x / q))))).
    { auto_derive.
      { rewrite HEx. unfold Rdiv in HF. repeat split; trivial. }
      rewrite HEx. unfold Rdiv in *.
      generalize (ln (1 + rq_Z d th u v * / q)). intros lnF.
      generalize (exp (- q * lnF)). intros C. field. split; lra. }
    eapply is_derive_eq.
    + apply is_derive_mul_const_l. apply is_derive_add_const_r.
      apply (is_derive_comp (fun y => exp (- q * ln (1 + y / q))) E x _ _ HC HE).
    + unfold rq_grad, rq_build, rq_C, rq_F. fold u v x q. rewrite HEx.
      set (Z := rq_Z d th u v) in *. set (F := 1 + Z / q) in *.
      unfold scal; cbn [AbsRing_ModuleSpace ModuleSpace.scal ModuleSpace.class Ring_ModuleSpace
                         ModuleSpace.mixin AbsRing.Ring]; unfold mult; cbn.
      assert (Hz : rq_dist u v k0 * delta i j = 0).
      { unfold u, v. apply (delta_diag_dist i j (fun i j => rq_dist (point xs i) (point xs j) k0)).
        intros; apply rq_dist_diag. }
      set (D := rq_dist u v k0) in *.
      transitivity (2 * (exp (par th 0) ^ 2 * exp (- q * ln F)) / F * (D / exp x ^ 2)
                    + 2 * exp (par th 0) ^ 2 * jitter / F / exp x ^ 2 * (D * delta i j)).
      * rewrite Hz. pose proof (exp_pos x). field. split; lra.
      * pose proof (exp_pos x). field. split; lra.
Qed.

(* ---- noise kernels ---- *)
Lemma wn_grad_ok : grad_ok wn.
Proof.
  intros xs th p i j Hlen Hp _. simpl in *. unfold wn_np in *.
  assert (p = 0%nat) by lia. subst p.
  apply (is_derive_ext (fun t => exp (2 * t) * delta i j)).
  { intros t. unfold wn_build. now rewrite par_upd_same by lia. }
  unfold wn_grad, wn_build. auto_derive; [exact I|]. ring.
Qed.

Lemma hn_grad_ok : forall n, grad_ok (hn n).
Proof.
  intros n xs th p i j Hlen Hp _. simpl in *. unfold hn_np in *.
  unfold hn_grad, hn_build.
  destruct (Nat.eqb_spec i p) as [->|Hne].
  - apply (is_derive_ext (fun t => exp (2 * t) * delta p j)).
    { intros t. now rewrite par_upd_same by lia. }
    unfold delta. rewrite (Nat.eqb_sym j p).
    destruct (Nat.eqb p j); simpl; (auto_derive; [exact I|ring]).
  - apply (is_derive_ext (fun t => exp (2 * par th i) * delta i j)).
    { intros t. now rewrite par_upd_other by lia. }
    simpl. eapply is_derive_eq; [apply is_derive_constR|ring].
Qed.

(* ------------------------------------------------------------------ *)
(* composites: components addressed through slices                      *)

Lemma each_upd_out : forall {A} ks sls (f : kernel -> list R -> A) th P t,
  (forall s, In s sls -> (P < fst s \/ snd s <= P)%nat) ->
  each ks sls f (upd th P t) = each ks sls f th.
Proof.
  intros A. induction ks as [|k kr IH]; intros [|[a b] sr] f th P t H; simpl; auto.
  rewrite apply_slice_upd_out by (apply (H (a, b)); now left).
  f_equal. apply IH. intros s Hs. apply H. now right.
Qed.

Lemma each_length : forall {A} ks sls (f : kernel -> list R -> A) th,
  length (each ks sls f th) = Nat.min (length ks) (length sls).
Proof.
  intros A. induction ks as [|k kr IH]; intros [|s sr] f th; simpl; auto.
Qed.

Lemma each_ext : forall {A} ks sls (f g : kernel -> list R -> A) th,
  (forall k t, In k ks -> f k t = g k t) -> each ks sls f th = each ks sls g th.
Proof.
  intros A. induction ks as [|k kr IH]; intros [|s sr] f g th H; simpl; auto.
  rewrite H by now left. f_equal. apply IH. intros k' t Hk. apply H. now right.
Qed.

Lemma nps_cons : forall k kr, nps (k :: kr) = (np k + nps kr)%nat.
Proof. reflexivity. Qed.

Lemma sum_grad_ok_from : forall ks off xs th P i j,
  List.Forall grad_ok ks -> (off + nps ks <= length th)%nat -> (off <= P < off + nps ks)%nat ->
  all_ok ks (slices_from off (map np ks)) th ->
  is_derive (fun t => lsum (each ks (slices_from off (map np ks)) (fun k tk => kbuild k xs tk i j) (upd th P t)))
            (par th P) (sum_grad ks (slices_from off (map np ks)) xs th (P - off) i j).
Proof.
  induction ks as [|k kr IH]; intros off xs th P i j Hg Hlen HP Hok.
  - unfold nps in HP; simpl in HP; lia.
  - inversion Hg as [|? ? Hk Hkr]; subst. rewrite nps_cons in *.
    cbn [map slices_from each lsum sum_grad all_ok] in *. destruct Hok as [Hok1 Hok2].
    destruct (Nat.ltb_spec (P - off) (np k)) as [Hlt|Hge].
    + apply (is_derive_ext (fun t => kbuild k xs (upd (apply_slice (off, off + np k)%nat th) (P - off) t) i j
               + lsum (each kr (slices_from (off + np k) (map np kr)) (fun k tk => kbuild k xs tk i j) th))).
      { intros t. rewrite apply_slice_upd_in by lia. rewrite each_upd_out; [reflexivity|].
        intros s Hs. apply slices_from_bounds in Hs. lia. }
      apply is_derive_add_const_r.
      replace (par th P) with (par (apply_slice (off, off + np k)%nat th) (P - off)).
      2:{ rewrite par_apply_slice by lia. f_equal. lia. }
      apply Hk; [rewrite apply_slice_len by lia; lia | lia | exact Hok1].
    + apply (is_derive_ext (fun t => kbuild k xs (apply_slice (off, off + np k)%nat th) i j
               + lsum (each kr (slices_from (off + np k) (map np kr)) (fun k tk => kbuild k xs tk i j) (upd th P t)))).
      { intros t. rewrite apply_slice_upd_out by lia. reflexivity. }
      apply is_derive_add_const_l.
      replace (P - off - np k)%nat with (P - (off + np k))%nat by lia.
      apply IH; auto; lia.
Qed.

Lemma sum_grad_ok : forall ks, List.Forall grad_ok ks -> grad_ok (ksum ks).
Proof.
  intros ks Hg xs th P i j Hlen HP Hok. simpl in *. unfold sum_slices in *.
  rewrite slice_builder_from in *.
  pose proof (sum_grad_ok_from ks 0 xs th P i j Hg) as H. rewrite Nat.sub_0_r in H.
  apply H; simpl; auto; lia.
Qed.

(* ------------------------------------------------------------------ *)
(* change-points                                                        *)

Lemma wsum_nil_r : forall l, wsum l [] = 0.
Proof. destruct l; reflexivity. Qed.

Lemma cp_kgrad_ok_from : forall ks off C xs th P i j,
  List.Forall grad_ok ks -> (off + nps ks <= length th)%nat -> (off <= P < off + nps ks)%nat ->
  all_ok ks (slices_from off (map np ks)) th ->
  is_derive (fun t => wsum (each ks (slices_from off (map np ks)) (fun k tk => kbuild k xs tk i j) (upd th P t)) C)
            (par th P) (cp_kgrad ks (slices_from off (map np ks)) C xs th (P - off) i j).
Proof.
  induction ks as [|k kr IH]; intros off C xs th P i j Hg Hlen HP Hok.
  - unfold nps in HP; simpl in HP; lia.
  - inversion Hg as [|? ? Hk Hkr]; subst. rewrite nps_cons in *.
    cbn [map slices_from each all_ok] in *. destruct Hok as [Hok1 Hok2].
    destruct C as [|c cr]; [simpl; apply is_derive_constR|].
    cbn [wsum cp_kgrad].
    destruct (Nat.ltb_spec (P - off) (np k)) as [Hlt|Hge].
    + apply (is_derive_ext (fun t => kbuild k xs (upd (apply_slice (off, off + np k)%nat th) (P - off) t) i j * c
               + wsum (each kr (slices_from (off + np k) (map np kr)) (fun k tk => kbuild k xs tk i j) th) cr)).
      { intros t. rewrite apply_slice_upd_in by lia. rewrite each_upd_out; [reflexivity|].
        intros s Hs. apply slices_from_bounds in Hs. lia. }
      apply is_derive_add_const_r. apply is_derive_mul_const_r.
      replace (par th P) with (par (apply_slice (off, off + np k)%nat th) (P - off)).
      2:{ rewrite par_apply_slice by lia. f_equal. lia. }
      apply Hk; [rewrite apply_slice_len by lia; lia | lia | exact Hok1].
    + apply (is_derive_ext (fun t => kbuild k xs (apply_slice (off, off + np k)%nat th) i j * c
               + wsum (each kr (slices_from (off + np k) (map np kr)) (fun k tk => kbuild k xs tk i j) (upd th P t)) cr)).
      { intros t. rewrite apply_slice_upd_out by lia. reflexivity. }
      apply is_derive_add_const_l.
      replace (P - off - np k)%nat with (P - (off + np k))%nat by lia.
      apply IH; auto; lia.
Qed.

Ltac exp1 := match goal with |- context [exp ?a] => pose proof (exp_pos a) end.

Lemma logistic_derive_c : forall c w x, w <> 0 -> is_derive (fun t => logistic t w x) c (dlogistic 0 c w x).
Proof.
  intros c w x Hw. unfold dlogistic, logistic. cbv zeta.
  auto_derive.
  - repeat split; trivial.
    match goal with |- context [exp ?a] => pose proof (exp_pos a) end. lra.
  - unfold Rdiv, Rminus.
    match goal with |- context [exp ?a] => pose proof (exp_pos a) as He; generalize dependent (exp a) end.
    intros e He. field. split; lra.
Qed.

Lemma logistic_derive_w : forall c w x, w <> 0 -> is_derive (fun t => logistic c t x) w (dlogistic 1 c w x).
Proof.
  intros c w x Hw. unfold dlogistic, logistic. cbv zeta.
  auto_derive.
  - repeat split; trivial.
    match goal with |- context [exp ?a] => pose proof (exp_pos a) end. lra.
  - unfold Rdiv, Rminus.
    match goal with |- context [exp ?a] => pose proof (exp_pos a) as He; generalize dependent (exp a) end.
    intros e He. field. split; lra.
Qed.

(* q = 0: the location varies; q = 1: the width varies *)
Definition cw_with (cw : R * R) (q : nat) (t : R) : R * R :=
  match q with O => (t, snd cw) | _ => (fst cw, t) end.
Definition cw_sel (cw : R * R) (q : nat) : R := match q with O => fst cw | _ => snd cw end.

Lemma logistic_derive_q : forall q cw x, (q < 2)%nat -> snd cw <> 0 ->
  is_derive (fun t => logistic (fst (cw_with cw q t)) (snd (cw_with cw q t)) x) (cw_sel cw q)
            (dlogistic q (fst cw) (snd cw) x).
Proof.
  intros q [c w] x Hq Hw. simpl in Hw.
  destruct q as [|[|q]]; [| |lia]; simpl.
  - now apply logistic_derive_c.
  - now apply logistic_derive_w.
Qed.

Lemma cp_a_derive : forall q cw xi xj, (q < 2)%nat -> snd cw <> 0 ->
  is_derive (fun t => cp_a (cw_with cw q t) xi xj) (cw_sel cw q) (cp_da q cw xi xj).
Proof.
  intros q cw xi xj Hq Hw. unfold cp_a, cp_da.
  pose proof (logistic_derive_q q cw xi Hq Hw) as Hi.
  pose proof (logistic_derive_q q cw xj Hq Hw) as Hj.
  set (fi := fun t => logistic (fst (cw_with cw q t)) (snd (cw_with cw q t)) xi) in *.
  set (fj := fun t => logistic (fst (cw_with cw q t)) (snd (cw_with cw q t)) xj) in *.
  assert (Hxi : fi (cw_sel cw q) = logistic (fst cw) (snd cw) xi).
  { unfold fi. destruct cw as [c w]. destruct q as [|[|q]]; simpl; auto; lia. }
  assert (Hxj : fj (cw_sel cw q) = logistic (fst cw) (snd cw) xj).
  { unfold fj. destruct cw as [c w]. destruct q as [|[|q]]; simpl; auto; lia. }
  apply (is_derive_ext (fun t => (1 - fi t) * (1 - fj t))); [reflexivity|].
  eapply is_derive_eq.
  - apply (is_derive_mult (fun t => 1 - fi t) (fun t => 1 - fj t)).
    + apply (is_derive_minus (V := R_NormedModule)); [apply is_derive_constR|exact Hi].
    + apply (is_derive_minus (V := R_NormedModule)); [apply is_derive_constR|exact Hj].
    + intros; apply Rmult_comm.
  - rewrite Hxi, Hxj. unfold plus, mult, minus, opp; simpl. unfold plus, opp; simpl. ring.
Qed.

Lemma cp_b_derive : forall q cw xi xj, (q < 2)%nat -> snd cw <> 0 ->
  is_derive (fun t => cp_b (cw_with cw q t) xi xj) (cw_sel cw q) (cp_db q cw xi xj).
Proof.
  intros q cw xi xj Hq Hw. unfold cp_b, cp_db.
  pose proof (logistic_derive_q q cw xi Hq Hw) as Hi.
  pose proof (logistic_derive_q q cw xj Hq Hw) as Hj.
  set (fi := fun t => logistic (fst (cw_with cw q t)) (snd (cw_with cw q t)) xi) in *.
  set (fj := fun t => logistic (fst (cw_with cw q t)) (snd (cw_with cw q t)) xj) in *.
  assert (Hxi : fi (cw_sel cw q) = logistic (fst cw) (snd cw) xi).
  { unfold fi. destruct cw as [c w]. destruct q as [|[|q]]; simpl; auto; lia. }
  assert (Hxj : fj (cw_sel cw q) = logistic (fst cw) (snd cw) xj).
  { unfold fj. destruct cw as [c w]. destruct q as [|[|q]]; simpl; auto; lia. }
  apply (is_derive_ext (fun t => fi t * fj t)); [reflexivity|].
  eapply is_derive_eq.
  - apply (is_derive_mult fi fj _ _ _ Hi Hj). intros; apply Rmult_comm.
  - rewrite Hxi, Hxj. unfold plus, mult; simpl. ring.
Qed.

(* the change-point parameters as read from the flat vector *)
Definition cpl (off c : nat) (th : list R) : list (R * R) :=
  map (fun m => (par th (off + 2 * m), par th (off + 2 * m + 1)))%nat (seq 0 c).

Lemma cpl_S : forall off c th, cpl off (S c) th = (par th off, par th (off + 1)) :: cpl (off + 2) c th.
Proof.
  intros. unfold cpl. simpl seq. rewrite <- seq_shift. cbn [map]. rewrite map_map. f_equal.
  - f_equal; f_equal; lia.
  - apply map_ext. intros m. f_equal; f_equal; lia.
Qed.

Lemma cpl_upd_lt : forall off c th P t, (P < off)%nat -> cpl off c (upd th P t) = cpl off c th.
Proof.
  intros. unfold cpl. apply map_ext. intros m. now rewrite !par_upd_other by lia.
Qed.

Lemma cp_w_derive : forall c off last Kv m0 q th xi xj,
  length Kv = S c -> (m0 < c)%nat -> (q < 2)%nat -> (off + 2 * c <= length th)%nat ->
  List.Forall (fun cw : R * R => snd cw <> 0) (cpl off c th) ->
  is_derive (fun t => wsum Kv (coeffs_from last (cpl off c (upd th (off + 2 * m0 + q) t)) xi xj))
            (par th (off + 2 * m0 + q))
            (cp_wgrad last Kv (cpl off c th) m0 q xi xj).
Proof.
  induction c as [|c IH]; intros off last Kv m0 q th xi xj HK Hm Hq Hlen Hw; [lia|].
  destruct Kv as [|K0 [|K1 Kr]]; simpl in HK; try lia.
  rewrite cpl_S in Hw. inversion Hw as [|? ? Hw0 Hwr]; subst. simpl in Hw0.
  set (cw := (par th off, par th (off + 1)%nat)) in *.
  destruct m0 as [|m'].
  - (* the first change-point of this suffix *)
    replace (off + 2 * 0 + q)%nat with (off + q)%nat by lia.
    assert (Hhd : forall t, (par (upd th (off + q) t) off, par (upd th (off + q) t) (off + 1)%nat) = cw_with cw q t).
    { intros t. destruct q as [|[|q]]; [| |lia]; unfold cw_with, cw; simpl.
      - rewrite Nat.add_0_r. rewrite par_upd_same by lia. rewrite par_upd_other by lia. reflexivity.
      - rewrite par_upd_other by lia. rewrite par_upd_same by lia. reflexivity. }
    assert (Hx : par th (off + q) = cw_sel cw q).
    { destruct q as [|[|q]]; [| |lia]; unfold cw_sel, cw; simpl; [now rewrite Nat.add_0_r|reflexivity]. }
    rewrite Hx.
    pose proof (cp_a_derive q cw xi xj Hq Hw0) as Ha.
    pose proof (cp_b_derive q cw xi xj Hq Hw0) as Hb.
    rewrite cpl_S. cbn [cp_wgrad]. fold cw.
    destruct c as [|c'].
    + (* last change-point *)
      apply (is_derive_ext (fun t => K0 * (last * cp_a (cw_with cw q t) xi xj)
                                     + (K1 * cp_b (cw_with cw q t) xi xj + 0))).
      { intros t. rewrite cpl_S, Hhd. cbn [cpl seq map coeffs_from wsum]. now rewrite wsum_nil_r. }
      eapply is_derive_eq.
      * apply is_derive_addR.
        -- apply is_derive_mul_const_l, is_derive_mul_const_l, Ha.
        -- apply is_derive_add_const_r, is_derive_mul_const_l, Hb.
      * cbn [cpl seq map]. ring.
    + rewrite (cpl_S (off + 2) c' th).
      set (cw' := (par th (off + 2)%nat, par th (off + 2 + 1)%nat)).
      set (rest := cpl (off + 2 + 2) c' th).
      destruct Kr as [|K2 Kr']; [simpl in HK; lia|].
      apply (is_derive_ext (fun t => K0 * (last * cp_a (cw_with cw q t) xi xj)
                 + (K1 * (cp_b (cw_with cw q t) xi xj * cp_a cw' xi xj)
                    + wsum (K2 :: Kr') (coeffs_from (cp_b cw' xi xj) rest xi xj)))).
      { intros t. rewrite cpl_S, Hhd. rewrite cpl_upd_lt by lia. rewrite (cpl_S (off + 2) c' th).
        reflexivity. }
      eapply is_derive_eq.
      * apply is_derive_addR.
        -- apply is_derive_mul_const_l, is_derive_mul_const_l, Ha.
        -- apply is_derive_add_const_r, is_derive_mul_const_l, is_derive_mul_const_r, Hb.
      * ring.
  - (* a later change-point: the head is constant *)
    assert (HP : (off + 2 * S m' + q = off + 2 + 2 * m' + q)%nat) by lia.
    rewrite HP.
    apply (is_derive_ext (fun t => K0 * (last * cp_a cw xi xj)
               + wsum (K1 :: Kr) (coeffs_from (cp_b cw xi xj)
                                    (cpl (off + 2) c (upd th (off + 2 + 2 * m' + q) t)) xi xj))).
    { intros t. rewrite cpl_S. rewrite !par_upd_other by lia. reflexivity. }
    apply is_derive_add_const_l.
    rewrite cpl_S. fold cw. cbn [cp_wgrad].
    apply IH; auto; simpl in *; lia.
Qed.

Lemma slices_from_repeat2_map : forall c off,
  slices_from off (repeat 2%nat c) = map (fun m => (off + 2 * m, off + 2 * m + 2))%nat (seq 0 c).
Proof.
  induction c as [|c IH]; intros off; [reflexivity|].
  simpl repeat. simpl seq. rewrite <- seq_shift. cbn [slices_from map]. rewrite map_map, IH. f_equal.
  - f_equal; lia.
  - apply map_ext. intros m. f_equal; lia.
Qed.

Lemma cp_slices_k : forall ks,
  cov_slc ks = slices_from 0 (map np ks)
  /\ cp_slc ks = slices_from (nps ks) (repeat 2%nat (length ks - 1)).
Proof.
  intros ks. unfold cov_slc, cp_slc, cp_all_slices, cp_counts.
  rewrite slice_builder_from, slices_from_app. simpl.
  assert (HL : length (slices_from 0 (map np ks)) = length ks)
    by now rewrite slices_from_length, map_length.
  split.
  - rewrite <- HL at 1. rewrite firstn_app, firstn_all, Nat.sub_diag. simpl. apply app_nil_r.
  - rewrite <- HL at 1. rewrite skipn_app, skipn_all, Nat.sub_diag. reflexivity.
Qed.

Lemma cp_params_cpl : forall ks th, cp_params ks th = cpl (nps ks) (length ks - 1) th.
Proof.
  intros ks th. unfold cp_params. destruct (cp_slices_k ks) as [_ ->].
  rewrite slices_from_repeat2_map, map_map. unfold cpl. apply map_ext. intros m.
  rewrite !par_apply_slice by lia. f_equal; f_equal; lia.
Qed.

Lemma cp_grad_ok : forall ax ks, List.Forall grad_ok ks -> grad_ok (kcp ax ks).
Proof.
  intros ax ks Hg xs th P i j Hlen HP Hok.
  cbn [np kcp kbuild kgrad kok] in *.
  unfold cp_counts in *. rewrite total_app, total_repeat in *. fold (nps ks) in *.
  destruct (cp_slices_k ks) as [Hcov Hcp]. destruct Hok as [Hok1 Hok2].
  unfold cp_build, cp_grad, cp_grad_with.
  set (xi := coord (point xs i) ax). set (xj := coord (point xs j) ax).
  rewrite Hcov in *. rewrite cp_params_cpl in *.
  destruct (Nat.ltb_spec P (nps ks)) as [Hlt|Hge].
  - apply (is_derive_ext (fun t => wsum (each ks (slices_from 0 (map np ks)) (fun k tk => kbuild k xs tk i j) (upd th P t))
                                       (coeffs (cpl (nps ks) (length ks - 1) th) xi xj))).
    { intros t. rewrite cp_params_cpl. now rewrite cpl_upd_lt by lia. }
    pose proof (cp_kgrad_ok_from ks 0 (coeffs (cpl (nps ks) (length ks - 1) th) xi xj) xs th P i j Hg) as H.
    rewrite Nat.sub_0_r in H. apply H; simpl; auto; lia.
  - set (Kv := each ks (slices_from 0 (map np ks)) (fun k tk => kbuild k xs tk i j) th).
    set (m0 := Nat.div (P - nps ks) 2). set (q := Nat.modulo (P - nps ks) 2).
    assert (HPq : P = (nps ks + 2 * m0 + q)%nat).
    { pose proof (Nat.div_mod (P - nps ks) 2 ltac:(lia)) as Hd. fold m0 q in Hd. lia. }
    assert (Hq : (q < 2)%nat) by (apply Nat.mod_upper_bound; lia).
    apply (is_derive_ext (fun t => wsum Kv (coeffs_from 1 (cpl (nps ks) (length ks - 1) (upd th (nps ks + 2 * m0 + q) t)) xi xj))).
    { intros t. rewrite cp_params_cpl, <- HPq. unfold Kv, coeffs. f_equal.
      symmetry. apply each_upd_out. intros s Hs. apply slices_from_bounds in Hs.
      fold (nps ks) in Hs. lia. }
    rewrite HPq at 1.
    apply cp_w_derive; auto; try lia.
    unfold Kv. rewrite each_length, slices_from_length, map_length. lia.
Qed.

(* ------------------------------------------------------------------ *)
(* symmetry                                                             *)

Definition sym3 (K : kernel) : Prop :=
  (forall th u v, kval K th u v = kval K th v u)
  /\ (forall xs th i j, kbuild K xs th i j = kbuild K xs th j i)
  /\ (forall xs th p i j, kgrad K xs th p i j = kgrad K xs th p j i).

Lemma se_dist_sym : forall u v k, se_dist u v k = se_dist v u k.
Proof. intros. unfold se_dist. ring. Qed.
Lemma rq_dist_sym : forall u v k, rq_dist u v k = rq_dist v u k.
Proof. intros. unfold rq_dist. ring. Qed.

Lemma se_expo_sym : forall d th u v, se_expo d th u v = se_expo d th v u.
Proof. intros. unfold se_expo. apply Rsum_ext. intros k _. now rewrite se_dist_sym. Qed.
Lemma rq_Z_sym : forall d th u v, rq_Z d th u v = rq_Z d th v u.
Proof. intros. unfold rq_Z. apply Rsum_ext. intros k _. now rewrite rq_dist_sym. Qed.

Lemma se_sym3 : forall d, sym3 (se d).
Proof.
  intros d. assert (Hb : forall xs th i j, se_build d xs th i j = se_build d xs th j i).
  { intros. unfold se_build. now rewrite se_expo_sym, delta_sym. }
  repeat split; simpl.
  - intros. unfold se_val. now rewrite se_expo_sym.
  - exact Hb.
  - intros xs th [|k] i j; simpl; rewrite Hb; [reflexivity|]. now rewrite se_dist_sym.
Qed.

Lemma rq_sym3 : forall d, sym3 (rq d).
Proof.
  intros d.
  assert (HF : forall th u v, rq_F d th u v = rq_F d th v u).
  { intros. unfold rq_F. now rewrite rq_Z_sym. }
  assert (HC : forall th u v, rq_C d th u v = rq_C d th v u).
  { intros. unfold rq_C. now rewrite HF. }
  assert (Hb : forall xs th i j, rq_build d xs th i j = rq_build d xs th j i).
  { intros. unfold rq_build. now rewrite HC, delta_sym. }
  repeat split; simpl.
  - intros. unfold rq_val. now rewrite HC.
  - exact Hb.
  - intros xs th [|[|k]] i j; unfold rq_grad; cbv zeta; rewrite Hb; [reflexivity| |].
    + now rewrite HF, rq_Z_sym.
    + now rewrite HF, rq_dist_sym.
Qed.

Lemma wn_sym3 : sym3 wn.
Proof.
  repeat split; simpl; intros; unfold wn_grad, wn_build; try reflexivity; now rewrite (delta_sym i j).
Qed.

Lemma hn_sym3 : forall n, sym3 (hn n).
Proof.
  intros n. repeat split; simpl; intros.
  - unfold hn_build, delta. rewrite (Nat.eqb_sym j i).
    destruct (Nat.eqb_spec i j) as [->|_]; [reflexivity|ring].
  - unfold hn_grad. now rewrite andb_comm.
Qed.

Lemma sum_grad_sym : forall ks sls xs th p i j,
  List.Forall sym3 ks -> sum_grad ks sls xs th p i j = sum_grad ks sls xs th p j i.
Proof.
  induction ks as [|k kr IH]; intros [|s sr] xs th p i j H; simpl; auto.
  inversion H as [|? ? [_ [_ Hk]] Hr]; subst.
  destruct (Nat.ltb p (np k)); [apply Hk|now apply IH].
Qed.

Lemma sum_sym3 : forall ks, List.Forall sym3 ks -> sym3 (ksum ks).
Proof.
  intros ks H. repeat split; simpl; intros.
  - f_equal. apply each_ext. intros k t Hk.
    rewrite Forall_forall in H. now apply (H k Hk).
  - f_equal. apply each_ext. intros k t Hk.
    rewrite Forall_forall in H. now apply (H k Hk).
  - now apply sum_grad_sym.
Qed.

Lemma cp_a_sym : forall cw xu xv, cp_a cw xu xv = cp_a cw xv xu.
Proof. intros. unfold cp_a. ring. Qed.
Lemma cp_b_sym : forall cw xu xv, cp_b cw xu xv = cp_b cw xv xu.
Proof. intros. unfold cp_b. ring. Qed.
Lemma cp_da_sym : forall q cw xu xv, cp_da q cw xu xv = cp_da q cw xv xu.
Proof. intros. unfold cp_da. cbv zeta. ring. Qed.
Lemma cp_db_sym : forall q cw xu xv, cp_db q cw xu xv = cp_db q cw xv xu.
Proof. intros. unfold cp_db. cbv zeta. ring. Qed.

Lemma coeffs_from_sym : forall cps last xu xv, coeffs_from last cps xu xv = coeffs_from last cps xv xu.
Proof.
  induction cps as [|cw r IH]; intros; simpl; [reflexivity|].
  now rewrite cp_a_sym, (cp_b_sym cw xu xv), IH.
Qed.

Lemma cp_wgrad_0 : forall last K0 K1 Kr cw cr q xi xj,
  cp_wgrad last (K0 :: K1 :: Kr) (cw :: cr) 0 q xi xj
  = K0 * last * cp_da q cw xi xj
    + K1 * (match cr with [] => 1 | cw' :: _ => cp_a cw' xi xj end) * cp_db q cw xi xj.
Proof. reflexivity. Qed.

Lemma cp_wgrad_S : forall last K0 K1 Kr cw cr m q xi xj,
  cp_wgrad last (K0 :: K1 :: Kr) (cw :: cr) (S m) q xi xj
  = cp_wgrad (cp_b cw xi xj) (K1 :: Kr) cr m q xi xj.
Proof. reflexivity. Qed.

Lemma cp_wgrad_sym : forall cps last Kv m q xi xj,
  cp_wgrad last Kv cps m q xi xj = cp_wgrad last Kv cps m q xj xi.
Proof.
  induction cps as [|cw cr IH]; intros last Kv m q xi xj.
  - destruct Kv as [|K0 [|K1 Kr]]; reflexivity.
  - destruct Kv as [|K0 [|K1 Kr]]; try reflexivity.
    destruct m as [|m].
    + rewrite !cp_wgrad_0. rewrite cp_da_sym, cp_db_sym.
      destruct cr as [|cw' ?]; [reflexivity|]. now rewrite cp_a_sym.
    + rewrite !cp_wgrad_S. rewrite (cp_b_sym cw xi xj). apply IH.
Qed.

Lemma cp_wgrad_pinned_sym : forall cps Kv m q xi xj,
  cp_wgrad_pinned Kv cps m q xi xj = cp_wgrad_pinned Kv cps m q xj xi.
Proof.
  induction cps as [|cw cr IH]; intros Kv m q xi xj.
  - destruct Kv as [|K0 [|K1 Kr]]; reflexivity.
  - destruct Kv as [|K0 [|K1 Kr]]; try reflexivity.
    destruct m as [|m].
    + change (K0 * cp_da q cw xi xj + K1 * cp_db q cw xi xj = K0 * cp_da q cw xj xi + K1 * cp_db q cw xj xi).
      now rewrite cp_da_sym, cp_db_sym.
    + change (cp_wgrad_pinned (K1 :: Kr) cr m q xi xj = cp_wgrad_pinned (K1 :: Kr) cr m q xj xi). apply IH.
Qed.

Lemma cp_kgrad_sym : forall ks sls cf xs th p i j,
  List.Forall sym3 ks -> cp_kgrad ks sls cf xs th p i j = cp_kgrad ks sls cf xs th p j i.
Proof.
  induction ks as [|k kr IH]; intros [|s sr] [|c cr] xs th p i j H; simpl; auto.
  inversion H as [|? ? [_ [_ Hk]] Hr]; subst.
  destruct (Nat.ltb p (np k)); [now rewrite Hk|now apply IH].
Qed.

Lemma cp_sym3 : forall ax ks, List.Forall sym3 ks -> sym3 (kcp ax ks).
Proof.
  intros ax ks H.
  assert (He : forall (f : kernel -> list R -> nat -> nat -> R) th i j,
             (forall k, In k ks -> forall t, f k t i j = f k t j i) ->
             each ks (cov_slc ks) (fun k t => f k t i j) th = each ks (cov_slc ks) (fun k t => f k t j i) th).
  { intros. apply each_ext. intros k t Hk. now apply H0. }
  rewrite Forall_forall in H.
  repeat split; cbn [kval kbuild kgrad kcp]; intros.
  - unfold cp_val, coeffs. rewrite coeffs_from_sym. f_equal. apply each_ext.
    intros k t Hk. now apply (H k Hk).
  - unfold cp_build, coeffs. rewrite coeffs_from_sym. f_equal.
    apply (He (fun k t => kbuild k xs t)). intros k Hk t. now apply (H k Hk).
  - unfold cp_grad, cp_grad_with. cbv zeta.
    destruct (Nat.ltb p (nps ks)).
    + unfold coeffs. rewrite coeffs_from_sym. apply cp_kgrad_sym. now apply Forall_forall.
    + rewrite cp_wgrad_sym. f_equal. apply (He (fun k t => kbuild k xs t)). intros k Hk t. now apply (H k Hk).
Qed.

(* ------------------------------------------------------------------ *)
(* builder = pairwise evaluation + documented diagonal terms             *)

Definition bep (K : kernel) : Prop :=
  forall xs th i j,
    kbuild K xs th i j = kval K th (point xs i) (point xs j) + kdiag K xs th i * delta i j.

Lemma se_bep : forall d, bep (se d).
Proof. intros d xs th i j. simpl. unfold se_build, se_val, se_diag. ring. Qed.
Lemma rq_bep : forall d, bep (rq d).
Proof. intros d xs th i j. simpl. unfold rq_build, rq_val, se_diag. ring. Qed.
Lemma wn_bep : bep wn.
Proof. intros xs th i j. simpl. unfold wn_build, wn_val, wn_diag. ring. Qed.
Lemma hn_bep : forall n, bep (hn n).
Proof. intros n xs th i j. simpl. unfold hn_build, hn_val, hn_diag. ring. Qed.

Lemma each_bep_lsum : forall ks sls xs th i j, List.Forall bep ks ->
  lsum (each ks sls (fun k t => kbuild k xs t i j) th)
  = lsum (each ks sls (fun k t => kval k t (point xs i) (point xs j)) th)
    + lsum (each ks sls (fun k t => kdiag k xs t i) th) * delta i j.
Proof.
  induction ks as [|k kr IH]; intros [|s sr] xs th i j H; simpl; try ring.
  inversion H as [|? ? Hk Hr]; subst. rewrite Hk, IH by exact Hr. ring.
Qed.

Lemma sum_bep : forall ks, List.Forall bep ks -> bep (ksum ks).
Proof. intros ks H xs th i j. simpl. now apply each_bep_lsum. Qed.

Lemma each_bep_wsum : forall ks sls C xs th i j, List.Forall bep ks ->
  wsum (each ks sls (fun k t => kbuild k xs t i j) th) C
  = wsum (each ks sls (fun k t => kval k t (point xs i) (point xs j)) th) C
    + wsum (each ks sls (fun k t => kdiag k xs t i) th) C * delta i j.
Proof.
  induction ks as [|k kr IH]; intros [|s sr] [|c cr] xs th i j H; simpl; try ring.
  inversion H as [|? ? Hk Hr]; subst. rewrite Hk, IH by exact Hr. ring.
Qed.

Lemma cp_bep : forall ax ks, List.Forall bep ks -> bep (kcp ax ks).
Proof.
  intros ax ks H xs th i j. cbn [kbuild kval kdiag kcp]. unfold cp_build, cp_val, cp_diag.
  rewrite each_bep_wsum by exact H. f_equal.
  unfold delta. destruct (Nat.eqb_spec i j) as [->|_]; [reflexivity|ring].
Qed.
