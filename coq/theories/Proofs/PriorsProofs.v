(* Lemmas about the prior log-densities, their gradients, normalisation, the joint prior
   value and the posterior (property C06). *)
From Coq Require Import Reals List QArith Qreals Lra Lia Bool Sorting.Permutation.
From Coquelicot Require Import Coquelicot.
From IT Require Import RealModel.Likelihoods Proofs.LikelihoodsProofs Model.JointPrior
  Proofs.JointPriorProofs RealModel.Priors.
Import ListNotations.
Open Scope R_scope.

(* ------------------------------------------------------------------ *)
(* values = sum of log named pdf, on the support                       *)
(* ------------------------------------------------------------------ *)
Lemma gauss_pdf_sym m s t : gauss_pdf m s t = gauss_pdf t s m.
Proof. unfold gauss_pdf. replace ((t - m) ^ 2) with ((m - t) ^ 2) by ring. reflexivity. Qed.

Lemma gaussp_is_loglike means sigmas ts : gaussp_logp means sigmas ts = gauss_loglike means sigmas ts.
Proof. reflexivity. Qed.

Lemma gaussp_value means sigmas ts :
  length means = length sigmas -> length sigmas = length ts -> List.Forall (fun s => 0 < s) sigmas ->
  gaussp_logp means sigmas ts = sumR (map3 (fun m s t => ln (gauss_pdf m s t)) means sigmas ts).
Proof.
  intros H1 H2 HP. rewrite gaussp_is_loglike, gauss_is_sum_logpdf by assumption. unfold sum_logpdf.
  apply sumR_map3_ext with (P := fun _ => True).
  - intros y s f _. rewrite gauss_pdf_sym. reflexivity.
  - clear. induction sigmas; constructor; auto.
Qed.

Lemma any_neg_false ts : List.Forall (fun t => 0 <= t) ts -> any_neg ts = false.
Proof.
  induction 1 as [|t ts Ht _ IH]; simpl; auto. destruct (Rlt_dec t 0); [lra|exact IH].
Qed.

Lemma any_neg_true ts t : In t ts -> t < 0 -> any_neg ts = true.
Proof.
  induction ts as [|x ts IH]; intros Hin Ht; simpl in *; [tauto|].
  destruct (Rlt_dec x 0); auto. destruct Hin as [E|Hin]; [subst; lra|auto].
Qed.

Lemma exp_point b t : 0 < b -> - ((1 / b) * t) + ln (1 / b) = ln (exp_pdf (1 / b) t).
Proof.
  intros Hb. unfold exp_pdf.
  assert (Hl : 0 < 1 / b) by (apply Rdiv_lt_0_compat; lra).
  rewrite ln_mult; [|exact Hl|apply exp_pos]. rewrite ln_exp. lra.
Qed.

Lemma expp_in_value betas ts :
  length betas = length ts -> List.Forall (fun b => 0 < b) betas ->
  expp_logp_in betas ts = sumR (map2 (fun b t => ln (exp_pdf (1 / b) t)) betas ts).
Proof.
  unfold expp_logp_in. revert ts. induction betas as [|b betas IH]; intros [|t ts] H HP; simpl in H; try lia.
  - simpl. lra.
  - inversion HP as [|? ? Hb HP']; subst. specialize (IH ts ltac:(lia) HP').
    cbn [map2 map]. rewrite !sumR_cons, <- (exp_point b t Hb), <- IH. ring.
Qed.

Lemma expp_value betas ts :
  length betas = length ts -> List.Forall (fun b => 0 < b) betas -> List.Forall (fun t => 0 <= t) ts ->
  expp_logp betas ts = sumR (map2 (fun b t => ln (exp_pdf (1 / b) t)) betas ts).
Proof.
  intros H HP Ht. unfold expp_logp. rewrite any_neg_false by exact Ht. apply expp_in_value; assumption.
Qed.

Lemma expp_outside betas ts t : In t ts -> t < 0 -> expp_logp betas ts = outside_value.
Proof. intros Hin Ht. unfold expp_logp. rewrite (any_neg_true ts t Hin Ht). reflexivity. Qed.

Inductive Forall3 {A B C} (P : A -> B -> C -> Prop) : list A -> list B -> list C -> Prop :=
| Forall3_nil : Forall3 P [] [] []
| Forall3_cons a b c la lb lc : P a b c -> Forall3 P la lb lc -> Forall3 P (a :: la) (b :: lb) (c :: lc).

Lemma unifp_in_value lowers uppers ts :
  Forall3 (fun lo up t => lo < up) lowers uppers ts ->
  unifp_logp_in lowers uppers = sumR (map3 (fun lo up t => ln (unif_pdf lo up t)) lowers uppers ts).
Proof.
  unfold unifp_logp_in. induction 1 as [|lo up t ls us r Hlt _ IH]; simpl; [lra|].
  rewrite <- IH. unfold unif_pdf. unfold Rdiv. rewrite Rmult_1_l, ln_Rinv by lra. lra.
Qed.

Lemma unifp_value lowers uppers ts :
  Forall3 (fun lo up t => lo < up /\ lo <= t <= up) lowers uppers ts ->
  unifp_logp lowers uppers ts = sumR (map3 (fun lo up t => ln (unif_pdf lo up t)) lowers uppers ts).
Proof.
  intros H. unfold unifp_logp.
  assert (Hin : all_inside lowers uppers ts = true).
  { induction H as [|lo up t ls us r [Hlt [H1 H2]] _ IH]; simpl; auto.
    destruct (Rle_dec lo t); [|lra]. destruct (Rle_dec t up); [|lra]. exact IH. }
  rewrite Hin. apply unifp_in_value.
  clear Hin. induction H as [|lo up t ls us r [Hlt _] _ IH]; constructor; [exact Hlt|exact IH].
Qed.

Lemma unifp_outside lowers uppers ts k :
  (k < length lowers)%nat -> (k < length uppers)%nat -> (k < length ts)%nat ->
  (nth k ts 0 < nth k lowers 0 \/ nth k uppers 0 < nth k ts 0) ->
  unifp_logp lowers uppers ts = outside_value.
Proof.
  intros H1 H2 H3 Hout. unfold unifp_logp.
  assert (Hf : all_inside lowers uppers ts = false).
  { revert uppers ts k H1 H2 H3 Hout. induction lowers as [|lo ls IH]; intros [|up us] [|t r] [|k] H1 H2 H3 Hout;
      simpl in *; try lia.
    - destruct (Rle_dec lo t); [|reflexivity]. destruct (Rle_dec t up); [|reflexivity]. lra.
    - destruct (Rle_dec lo t); [|reflexivity]. destruct (Rle_dec t up); [|reflexivity].
      apply (IH us r k); try lia. exact Hout. }
  rewrite Hf. reflexivity.
Qed.

(* ------------------------------------------------------------------ *)
(* gradients: derivative of the log named pdf in the interior          *)
(* ------------------------------------------------------------------ *)
Lemma gauss_logpdf_derive m s t : 0 < s ->
  is_derive (fun x => ln (gauss_pdf m s x)) t ((m - t) * (1 / s) ^ 2).
Proof.
  intros Hs. pose proof sqrt_2PI_pos as Hq.
  apply is_derive_ext with (f := fun x => - (1 / 2) * (gauss_z m s x) ^ 2 - ln s - (1 / 2) * ln (2 * PI)).
  - intros x. rewrite gauss_point by exact Hs. apply f_equal. symmetry. apply gauss_pdf_sym.
  - apply gauss_point_derive. exact Hs.
Qed.

Lemma exp_logpdf_derive b t : 0 < b ->
  is_derive (fun x => ln (exp_pdf (1 / b) x)) t (- (1 / b)).
Proof.
  intros Hb.
  apply is_derive_ext with (f := fun x => - ((1 / b) * x) + ln (1 / b)).
  - intros x. apply exp_point. exact Hb.
  - auto_derive; [exact I|]. field. lra.
Qed.

Lemma unif_logpdf_derive lo up t : is_derive (fun x => ln (unif_pdf lo up x)) t 0.
Proof. unfold unif_pdf. auto_derive; [exact I|]. ring. Qed.

(* the class gradient methods return exactly these per-coordinate derivatives *)
Lemma gaussp_grad_nth means sigmas ts k :
  length means = length sigmas -> length sigmas = length ts -> (k < length ts)%nat ->
  nth k (gaussp_grad means sigmas ts) 0 = (nth k means 0 - nth k ts 0) * (1 / nth k sigmas 0) ^ 2.
Proof.
  unfold gaussp_grad. revert sigmas ts k. induction means as [|m ms IH]; intros [|s ss] [|t ts] [|k] H1 H2 H3;
    simpl in *; try lia; auto.
  apply IH; lia.
Qed.

Lemma expp_grad_nth betas ts k :
  length betas = length ts -> (k < length ts)%nat -> 0 <= nth k ts 0 ->
  nth k (expp_grad betas ts) 0 = - (1 / nth k betas 0).
Proof.
  unfold expp_grad. revert ts k. induction betas as [|b bs IH]; intros [|t ts] [|k] H1 H2 H3;
    simpl in *; try lia.
  - destruct (Rle_dec 0 t); [reflexivity|lra].
  - apply IH; auto; lia.
Qed.

Lemma expp_grad_nth_outside betas ts k :
  length betas = length ts -> (k < length ts)%nat -> nth k ts 0 < 0 ->
  nth k (expp_grad betas ts) 0 = 0.
Proof.
  unfold expp_grad. revert ts k. induction betas as [|b bs IH]; intros [|t ts] [|k] H1 H2 H3;
    simpl in *; try lia.
  - destruct (Rle_dec 0 t); [lra|reflexivity].
  - apply IH; auto; lia.
Qed.

Lemma unifp_grad_nth lowers k : nth k (unifp_grad lowers) 0 = 0.
Proof.
  unfold unifp_grad. revert k. induction lowers as [|l ls IH]; intros [|k]; simpl; auto.
Qed.

(* ------------------------------------------------------------------ *)
(* normalisation of the exponential and uniform densities              *)
(* ------------------------------------------------------------------ *)
Lemma exp_cdf_derive lam x : is_derive (exp_cdf lam) x (exp_pdf lam x).
Proof. unfold exp_cdf, exp_pdf. auto_derive; [exact I|]. ring. Qed.

Lemma exp_pdf_continuous lam x : continuous (exp_pdf lam) x.
Proof.
  apply (ex_derive_continuous (K := R_AbsRing) (V := R_NormedModule)).
  unfold exp_pdf. auto_derive. exact I.
Qed.

Lemma exp_cdf_lim lam : 0 < lam -> is_lim (exp_cdf lam) p_infty 1.
Proof.
  intros Hl. apply is_lim_spec. intros [eps Heps]. simpl.
  exists (- ln eps / lam). intros x Hx. unfold exp_cdf.
  replace (1 - exp (- lam * x) - 1) with (- exp (- lam * x)) by ring.
  rewrite Rabs_Ropp, Rabs_pos_eq by (left; apply exp_pos).
  rewrite <- (exp_ln eps Heps). apply exp_increasing.
  apply Rmult_lt_compat_l with (r := lam) in Hx; [|exact Hl].
  replace (lam * (- ln eps / lam)) with (- ln eps) in Hx by (field; lra). lra.
Qed.

Lemma exp_pdf_normalised lam : 0 < lam ->
  (forall x, 0 < exp_pdf lam x) /\
  (forall b, is_RInt (exp_pdf lam) 0 b (exp_cdf lam b)) /\
  is_lim (exp_cdf lam) p_infty 1.
Proof.
  intros Hl. split; [|split].
  - intros x. unfold exp_pdf. apply Rmult_lt_0_compat; [exact Hl|apply exp_pos].
  - intros b. replace (exp_cdf lam b) with (exp_cdf lam b - exp_cdf lam 0).
    + apply (is_RInt_derive (exp_cdf lam) (exp_pdf lam)).
      * intros x _. apply exp_cdf_derive.
      * intros x _. apply exp_pdf_continuous.
    + unfold exp_cdf. rewrite Rmult_0_r, exp_0. ring.
  - apply exp_cdf_lim. exact Hl.
Qed.

Lemma unif_pdf_normalised lo hi : lo < hi ->
  (forall x, 0 < unif_pdf lo hi x) /\ is_RInt (unif_pdf lo hi) lo hi 1.
Proof.
  intros H. split.
  - intros x. unfold unif_pdf. apply Rdiv_lt_0_compat; lra.
  - assert (E : 1 = scal (K := R_AbsRing) (V := R_NormedModule) (hi - lo) (1 / (hi - lo))).
    { unfold scal. simpl. unfold mult. simpl. field. lra. }
    rewrite E. exact (is_RInt_const (V := R_NormedModule) lo hi (1 / (hi - lo))).
Qed.

(* ------------------------------------------------------------------ *)
(* Q <-> R                                                             *)
(* ------------------------------------------------------------------ *)
Lemma Q2R_0' : Q2R 0 = 0.
Proof. unfold Q2R. simpl. lra. Qed.

Lemma Q2R_1' : Q2R 1 = 1.
Proof. unfold Q2R. simpl. lra. Qed.

Lemma Q2R_pos_neq q : 0 < Q2R q -> ~ (q == 0)%Q.
Proof. intros H E. apply Qeq_eqR in E. rewrite Q2R_0' in E. lra. Qed.

Lemma Q2R_one_over q : 0 < Q2R q -> Q2R (1 / q) = 1 / Q2R q.
Proof.
  intros H. rewrite Q2R_div by (apply Q2R_pos_neq; exact H). rewrite Q2R_1'. reflexivity.
Qed.

Lemma Qle_bool_R a b : Qle_bool a b = true <-> Q2R a <= Q2R b.
Proof.
  rewrite Qle_bool_iff. split; [apply Qle_Rle|apply Rle_Qle].
Qed.

(* the exact gradient entry of the model is the derivative of the log named pdf *)
Lemma coord_grad_is_derivative k p1 p2 t :
  coord_params_ok k (Q2R p1) (Q2R p2) -> coord_interior k (Q2R p1) (Q2R p2) (Q2R t) ->
  is_derive (fun x => coord_logpdf k (Q2R p1) (Q2R p2) x) (Q2R t) (Q2R (coord_grad k p1 p2 t)).
Proof.
  destruct k; simpl; intros Hok Hint.
  - rewrite Q2R_mult, Q2R_minus, Q2R_mult, Q2R_one_over by exact Hok.
    replace (1 / Q2R p2 * (1 / Q2R p2)) with ((1 / Q2R p2) ^ 2) by ring.
    apply gauss_logpdf_derive. exact Hok.
  - assert (Hb : Qle_bool 0 t = true) by (apply Qle_bool_R; rewrite Q2R_0'; lra).
    rewrite Hb, Q2R_opp, Q2R_one_over by exact Hok. apply exp_logpdf_derive. exact Hok.
  - rewrite Q2R_0'. apply unif_logpdf_derive.
Qed.

(* ------------------------------------------------------------------ *)
(* the joint prior value                                               *)
(* ------------------------------------------------------------------ *)
Lemma sumR_perm l1 l2 : Permutation l1 l2 -> sumR l1 = sumR l2.
Proof. induction 1; simpl; lra. Qed.

Lemma sumR_concat ls : sumR (concat ls) = sumR (map sumR ls).
Proof. induction ls as [|l ls IH]; simpl; auto. rewrite sumR_app, IH. reflexivity. Qed.

Lemma plan_logp_sum plan : plan_logp plan = sumR (map item_logp plan).
Proof.
  unfold plan_logp.
  assert (H : forall a, fold_left (fun acc it => acc + item_logp it) plan a = a + sumR (map item_logp plan)).
  { induction plan as [|it plan IH]; intros a; simpl; [lra|]. rewrite IH. lra. }
  rewrite H. lra.
Qed.

(* log named pdf of the coordinate an assignment talks about *)
Definition assign_term (theta : list Q) (a : nat * (kind * Q * Q)) : R :=
  let '(i, (k, p1, p2)) := a in coord_logpdf k (Q2R p1) (Q2R p2) (Q2R (nth i theta 0%Q)).

Definition assign_ok (theta : list Q) (a : nat * (kind * Q * Q)) : Prop :=
  let '(i, (k, p1, p2)) := a in
  coord_params_ok k (Q2R p1) (Q2R p2) /\ coord_inside k p1 p2 (nth i theta 0%Q) = true.

Lemma comp_inside_true c theta :
  List.Forall (assign_ok theta) (assigns c) -> comp_inside c theta = true.
Proof.
  unfold comp_inside, assigns, gather. destruct c as [k p1 p2 vs]. cbn [ckind cpar1 cpar2 cvars].
  revert p1 p2. induction vs as [|i vs IH]; intros [|a p1] [|b p2] H; simpl in *; auto.
  inversion H as [|? ? Ha H']; subst. unfold assign_ok in Ha. destruct Ha as [_ Hin]. rewrite Hin. simpl. apply IH. exact H'.
Qed.

Lemma assigns_cons k a p1 b p2 i vs :
  assigns (mkComp k (a :: p1) (b :: p2) (i :: vs)) = (i, (k, a, b)) :: assigns (mkComp k p1 p2 vs).
Proof. reflexivity. Qed.

Lemma item_value c theta : wf_comp c ->
  List.Forall (assign_ok theta) (assigns c) ->
  item_logp (mkItem (ckind c) (comp_inside c theta) (cpar1 c) (cpar2 c) (gather 0%Q theta (cvars c)))
  = sumR (map (assign_term theta) (assigns c)).
Proof.
  intros [H1 H2] Hok. unfold item_logp. cbn [pk pin pp1 pp2 pts].
  rewrite (comp_inside_true c theta Hok).
  destruct c as [k p1 p2 vs]. cbn [ckind cpar1 cpar2 cvars] in *.
  destruct k.
  - (* Gaussian *)
    rewrite gaussp_value.
    + unfold QR, gather. clear -H1 H2.
      revert p1 p2 H1 H2. induction vs as [|i vs IH]; intros [|a p1] [|b p2] H1 H2; simpl in *; try lia; auto.
      f_equal. apply IH; lia.
    + unfold QR. rewrite !map_length. lia.
    + unfold QR, gather. rewrite !map_length. lia.
    + unfold QR. clear -H1 H2 Hok.
      revert p1 p2 H1 H2 Hok. induction vs as [|i vs IH]; intros [|a p1] [|b p2] H1 H2 Hok; simpl in *; try lia; auto.
      inversion Hok as [|? ? Ha Hok']; subst. unfold assign_ok in Ha. destruct Ha as [Hp _].
      constructor; [exact Hp|]. apply (IH p1); auto; lia.
  - (* Exponential *)
    rewrite expp_in_value.
    + unfold QR, gather. clear -H1 H2.
      revert p1 p2 H1 H2. induction vs as [|i vs IH]; intros [|a p1] [|b p2] H1 H2; simpl in *; try lia; auto.
      f_equal. apply IH; lia.
    + unfold QR, gather. rewrite !map_length. lia.
    + unfold QR. clear -H1 H2 Hok.
      revert p1 p2 H1 H2 Hok. induction vs as [|i vs IH]; intros [|a p1] [|b p2] H1 H2 Hok; simpl in *; try lia; auto.
      inversion Hok as [|? ? Ha Hok']; subst. unfold assign_ok in Ha. destruct Ha as [Hp _].
      constructor; [exact Hp|]. apply (IH p1 p2); auto; lia.
  - (* Uniform *)
    rewrite (unifp_in_value _ _ (QR (gather 0%Q theta vs))).
    + unfold QR, gather. clear -H1 H2.
      revert p1 p2 H1 H2. induction vs as [|i vs IH]; intros [|a p1] [|b p2] H1 H2; simpl in *; try lia; auto.
      f_equal. apply IH; lia.
    + unfold QR, gather. clear -H1 H2 Hok.
      revert p1 p2 H1 H2 Hok. induction vs as [|i vs IH]; intros [|a p1] [|b p2] H1 H2 Hok; simpl in *; try lia.
      * constructor.
      * inversion Hok as [|? ? Ha Hok']; subst. unfold assign_ok in Ha. destruct Ha as [Hp _].
        constructor; [exact Hp|]. apply IH; auto; lia.
Qed.

Lemma Forall_concat_assigns theta cs :
  List.Forall (assign_ok theta) (all_assigns cs) ->
  List.Forall (fun c => List.Forall (assign_ok theta) (assigns c)) cs.
Proof.
  unfold all_assigns. induction cs as [|c cs IH]; intros H; simpl in *; constructor.
  - apply Forall_app in H. tauto.
  - apply IH. apply Forall_app in H. tauto.
Qed.

Lemma plan_value_merged cs theta : List.Forall wf_comp cs ->
  List.Forall (assign_ok theta) (all_assigns cs) ->
  sumR (map item_logp (map (fun c => mkItem (ckind c) (comp_inside c theta) (cpar1 c) (cpar2 c)
                                            (gather 0%Q theta (cvars c))) cs))
  = sumR (map (assign_term theta) (all_assigns cs)).
Proof.
  intros Hwf Hok. apply Forall_concat_assigns in Hok.
  unfold all_assigns. rewrite concat_map, sumR_concat, !map_map.
  f_equal. apply map_ext_in. intros c Hc.
  rewrite List.Forall_forall in Hwf, Hok. apply item_value; auto.
Qed.

(* joint prior = sum over all indices of the log of the named 1-D density owning the index *)
Lemma joint_value comps theta : List.Forall wf_comp comps ->
  List.Forall (assign_ok theta) (all_assigns comps) ->
  joint_logp comps theta = sumR (map (assign_term theta) (all_assigns comps)).
Proof.
  intros Hwf Hok. unfold joint_logp, joint_plan. rewrite plan_logp_sum.
  pose proof (merged_assigns_perm comps Hwf) as Hp.
  rewrite plan_value_merged.
  - apply sumR_perm. apply Permutation_map. exact Hp.
  - apply merged_wf. exact Hwf.
  - rewrite List.Forall_forall in *. intros a Ha. apply Hok. eapply Permutation_in; [exact Hp|exact Ha].
Qed.

(* component view: joint prior = sum over the ORIGINAL components of each component's own sum *)
Lemma joint_value_components comps theta : List.Forall wf_comp comps ->
  List.Forall (assign_ok theta) (all_assigns comps) ->
  joint_logp comps theta =
  sumR (map (fun c => item_logp (mkItem (ckind c) (comp_inside c theta) (cpar1 c) (cpar2 c)
                                        (gather 0%Q theta (cvars c)))) comps).
Proof.
  intros Hwf Hok. rewrite joint_value by assumption.
  rewrite <- plan_value_merged by assumption. rewrite map_map. reflexivity.
Qed.

(* the plan item of a component is the component's class evaluated on theta[variables] *)
Lemma any_neg_QR ts : any_neg (QR ts) = existsb (fun t => Qlt_bool t 0) ts.
Proof.
  induction ts as [|t ts IH]; simpl; auto. rewrite <- IH. unfold Qlt_bool.
  destruct (Rlt_dec (Q2R t) 0) as [H|H].
  - destruct (Qle_bool 0 t) eqn:E; auto. apply Qle_bool_R in E. rewrite Q2R_0' in E. lra.
  - destruct (Qle_bool 0 t) eqn:E; auto.
    exfalso. apply H. apply Rnot_le_lt. intros Hle. rewrite <- Q2R_0' in Hle. apply Qle_bool_R in Hle. congruence.
Qed.

(* ------------------------------------------------------------------ *)
(* the joint gradient is the derivative of the joint value             *)
(* ------------------------------------------------------------------ *)
Definition assign_term_at (theta : list Q) (i : nat) (u : R) (a : nat * (kind * Q * Q)) : R :=
  let '(j, (k, p1, p2)) := a in
  coord_logpdf k (Q2R p1) (Q2R p2) (if Nat.eqb j i then u else Q2R (nth j theta 0%Q)).

Lemma sum_terms_derive_other theta i x l :
  ~ In i (map fst l) -> is_derive (fun u => sumR (map (assign_term_at theta i u) l)) x 0.
Proof.
  intros Hni.
  apply is_derive_ext with (f := fun _ : R => sumR (map (assign_term theta) l)).
  - intros u. f_equal. apply map_ext_in. intros [j [[k p1] p2]] Ha. simpl.
    destruct (Nat.eqb_spec j i) as [E|E]; [|reflexivity].
    exfalso. apply Hni. apply in_map_iff. exists (j, (k, p1, p2)). split; [exact E|exact Ha].
  - apply (is_derive_const (K := R_AbsRing) (V := R_NormedModule)).
Qed.

Lemma sum_terms_derive theta i k p1 p2 l :
  NoDup (map fst l) -> In (i, (k, p1, p2)) l ->
  coord_params_ok k (Q2R p1) (Q2R p2) ->
  coord_interior k (Q2R p1) (Q2R p2) (Q2R (nth i theta 0%Q)) ->
  is_derive (fun u => sumR (map (assign_term_at theta i u) l)) (Q2R (nth i theta 0%Q))
            (Q2R (coord_grad k p1 p2 (nth i theta 0%Q))).
Proof.
  intros Hnd Hin Hok Hint. induction l as [|a l IH]; [inversion Hin|].
  inversion Hnd as [|? ? Hni Hnd']; subst. cbn [map sumR fold_right].
  destruct Hin as [E|Hin].
  - subst a. simpl in Hni.
    replace (Q2R (coord_grad k p1 p2 (nth i theta 0%Q))) with (Q2R (coord_grad k p1 p2 (nth i theta 0%Q)) + 0) by ring.
    apply (is_derive_plus (K := R_AbsRing) (V := R_NormedModule)).
    + simpl. rewrite Nat.eqb_refl. apply coord_grad_is_derivative; assumption.
    + apply sum_terms_derive_other. exact Hni.
  - replace (Q2R (coord_grad k p1 p2 (nth i theta 0%Q))) with (0 + Q2R (coord_grad k p1 p2 (nth i theta 0%Q))) by ring.
    apply (is_derive_plus (K := R_AbsRing) (V := R_NormedModule)).
    + destruct a as [j [[k' q1] q2]]. simpl.
      destruct (Nat.eqb_spec j i) as [E|E].
      * exfalso. apply Hni. simpl. apply in_map_iff. exists (i, (k, p1, p2)). split; [symmetry; exact E|exact Hin].
      * apply (is_derive_const (K := R_AbsRing) (V := R_NormedModule)).
    + apply IH; assumption.
Qed.

Lemma joint_gradient_is_derivative comps n theta i k p1 p2 :
  List.Forall wf_comp comps -> NoDup (map fst (all_assigns comps)) ->
  In (i, (k, p1, p2)) (all_assigns comps) -> (i < n)%nat ->
  coord_params_ok k (Q2R p1) (Q2R p2) ->
  coord_interior k (Q2R p1) (Q2R p2) (Q2R (nth i theta 0%Q)) ->
  is_derive (fun u => sumR (map (assign_term_at theta i u) (all_assigns comps)))
            (Q2R (nth i theta 0%Q)) (Q2R (nth i (joint_grad comps n theta) 0%Q)).
Proof.
  intros Hwf Hnd Hin Hi Hok Hint.
  rewrite (joint_grad_coord comps n theta i k p1 p2) by assumption.
  apply sum_terms_derive; assumption.
Qed.

(* at u = theta_i the varied sum is the joint value *)
Lemma assign_term_at_self theta i l :
  sumR (map (assign_term_at theta i (Q2R (nth i theta 0%Q))) l) = sumR (map (assign_term theta) l).
Proof.
  f_equal. apply map_ext. intros [j [[k p1] p2]]. simpl.
  destruct (Nat.eqb_spec j i) as [E|E]; [subst; reflexivity|reflexivity].
Qed.

(* ------------------------------------------------------------------ *)
(* posterior                                                           *)
(* ------------------------------------------------------------------ *)
Lemma posterior_sum like prior (gl gp : nat -> R) j :
  posterior_logp like prior = like + prior /\
  posterior_grad gl gp j = gl j + gp j /\
  posterior_cost like prior = - posterior_logp like prior /\
  posterior_cost_grad gl gp j = - posterior_grad gl gp j.
Proof. repeat split. Qed.

Lemma posterior_gradient_is_derivative (L P : R -> R) (gl gp : nat -> R) j t :
  is_derive L t (gl j) -> is_derive P t (gp j) ->
  is_derive (fun u => posterior_logp (L u) (P u)) t (posterior_grad gl gp j) /\
  is_derive (fun u => posterior_cost (L u) (P u)) t (posterior_cost_grad gl gp j).
Proof.
  intros HL HP. unfold posterior_logp, posterior_grad, posterior_cost, posterior_cost_grad.
  assert (Hs : is_derive (fun u => L u + P u) t (gl j + gp j))
    by (apply (is_derive_plus (K := R_AbsRing) (V := R_NormedModule)); assumption).
  split; [exact Hs|].
  apply (is_derive_opp (K := R_AbsRing) (V := R_NormedModule) (fun u => L u + P u) t (gl j + gp j)). exact Hs.
Qed.

(* ------------------------------------------------------------------ *)
(* class gradient entries are derivatives of the log named pdf         *)
(* ------------------------------------------------------------------ *)
Lemma gaussp_gradient_entry means sigmas ts k :
  length means = length sigmas -> length sigmas = length ts -> (k < length ts)%nat ->
  0 < nth k sigmas 0 ->
  is_derive (fun x => ln (gauss_pdf (nth k means 0) (nth k sigmas 0) x)) (nth k ts 0)
            (nth k (gaussp_grad means sigmas ts) 0).
Proof.
  intros H1 H2 Hk Hs. rewrite gaussp_grad_nth by assumption. apply gauss_logpdf_derive. exact Hs.
Qed.

Lemma expp_gradient_entry betas ts k :
  length betas = length ts -> (k < length ts)%nat -> 0 < nth k betas 0 -> 0 <= nth k ts 0 ->
  is_derive (fun x => ln (exp_pdf (1 / nth k betas 0) x)) (nth k ts 0) (nth k (expp_grad betas ts) 0).
Proof.
  intros H1 Hk Hb Ht. rewrite expp_grad_nth by assumption. apply exp_logpdf_derive. exact Hb.
Qed.

Lemma unifp_gradient_entry lowers uppers ts k :
  is_derive (fun x => ln (unif_pdf (nth k lowers 0) (nth k uppers 0) x)) (nth k ts 0)
            (nth k (unifp_grad lowers) 0).
Proof. rewrite unifp_grad_nth. apply unif_logpdf_derive. Qed.

Lemma outside_support_values :
  (forall betas ts t, In t ts -> t < 0 -> expp_logp betas ts = outside_value) /\
  (forall lowers uppers ts k,
     (k < length lowers)%nat -> (k < length uppers)%nat -> (k < length ts)%nat ->
     (nth k ts 0 < nth k lowers 0 \/ nth k uppers 0 < nth k ts 0) ->
     unifp_logp lowers uppers ts = outside_value) /\
  (forall betas ts k, length betas = length ts -> (k < length ts)%nat -> nth k ts 0 < 0 ->
     nth k (expp_grad betas ts) 0 = 0).
Proof.
  split; [exact expp_outside|]. split; [exact unifp_outside|exact expp_grad_nth_outside].
Qed.

Lemma routing_value comps n theta : partitions comps n ->
  List.Forall (assign_ok theta) (all_assigns comps) ->
  joint_logp comps theta = sumR (map (assign_term theta) (all_assigns comps)) /\
  joint_logp comps theta =
  sumR (map (fun c => item_logp (mkItem (ckind c) (comp_inside c theta) (cpar1 c) (cpar2 c)
                                        (gather 0%Q theta (cvars c)))) comps).
Proof.
  intros [Hwf _] Hok. split; [apply joint_value|apply joint_value_components]; assumption.
Qed.

Lemma routing_gradient_is_derivative comps n theta i k p1 p2 :
  partitions comps n -> In (i, (k, p1, p2)) (all_assigns comps) ->
  coord_params_ok k (Q2R p1) (Q2R p2) ->
  coord_interior k (Q2R p1) (Q2R p2) (Q2R (nth i theta 0%Q)) ->
  is_derive (fun u => sumR (map (assign_term_at theta i u) (all_assigns comps)))
            (Q2R (nth i theta 0%Q)) (Q2R (nth i (joint_grad comps n theta) 0%Q)) /\
  sumR (map (assign_term_at theta i (Q2R (nth i theta 0%Q))) (all_assigns comps)) =
  sumR (map (assign_term theta) (all_assigns comps)).
Proof.
  intros Hpart Hin Hok Hint. destruct (partitions_facts _ _ Hpart) as [Hwf [Hp [Hnd Hlt]]].
  split; [|apply assign_term_at_self].
  apply (joint_gradient_is_derivative comps n theta i k p1 p2); auto.
  apply Hlt. apply in_map_iff. exists (i, (k, p1, p2)). auto.
Qed.
