(* Lemmas about RealModel/Trapezium.v *)
From Coq Require Import Reals Lra Psatz.
From Coquelicot Require Import Coquelicot.
From IT Require Import RealModel.Trapezium.
Open Scope R_scope.

Lemma disc_nonneg u d : 0 <= u <= 1 -> -1 <= d <= 1 -> 0 <= (d - 1) * (d - 1) + 4 * u * d.
Proof.
  intros Hu Hd. destruct (Rle_lt_dec 0 d) as [Hp | Hn].
  - assert (0 <= u * d) by (apply Rmult_le_pos; lra). nra.
  - assert (Hm : (1 - u) * (- d) >= 0) by nra.
    replace ((d - 1) * (d - 1) + 4 * u * d) with ((d + 1) * (d + 1) + 4 * ((1 - u) * - d)) by ring.
    nra.
Qed.

(* t solves the quadratic CDF equation of the linear density on [0,1] *)
Lemma trapezium_full_cdf u d :
  0 <= u <= 1 -> -1 <= d <= 1 -> d <> 0 ->
  trap_cdf d (trapezium_full u d) = u.
Proof.
  intros Hu Hd Hd0. unfold trap_cdf, trapezium_full. cbv zeta.
  pose proof (disc_nonneg u d Hu Hd) as HD.
  set (D := (d - 1) * (d - 1) + 4 * u * d) in *.
  assert (Hs : sqrt D * sqrt D = D) by (apply sqrt_sqrt; exact HD).
  set (s := sqrt D) in *.
  assert (E : (1 - d) * ((d - 1 + s) / (2 * d)) + d * ((d - 1 + s) / (2 * d) * ((d - 1 + s) / (2 * d)))
              = (s * s - (d - 1) * (d - 1)) / (4 * d)) by (field; exact Hd0).
  rewrite E, Hs. unfold D. field. exact Hd0.
Qed.

Lemma trapezium_full_range u d :
  0 <= u <= 1 -> -1 <= d <= 1 -> d <> 0 ->
  0 <= trapezium_full u d <= 1.
Proof.
  intros Hu Hd Hd0. unfold trapezium_full. cbv zeta.
  pose proof (disc_nonneg u d Hu Hd) as HD.
  set (D := (d - 1) * (d - 1) + 4 * u * d) in *.
  assert (Hs : sqrt D * sqrt D = D) by (apply sqrt_sqrt; exact HD).
  assert (Hs0 : 0 <= sqrt D) by apply sqrt_pos.
  set (s := sqrt D) in *.
  (* 1 - d <= s <= 1 + d  (d > 0)   or   1 + d <= s <= 1 - d  (d < 0) *)
  destruct (Rlt_le_dec 0 d) as [Hp | Hn].
  - assert (H1 : 1 - d <= s) by (unfold D in Hs; nra).
    assert (H2 : s <= 1 + d) by (unfold D in Hs; nra).
    split.
    + apply Rmult_le_reg_r with (2 * d); [lra | ].
      unfold Rdiv. rewrite Rmult_assoc, Rinv_l by lra. lra.
    + apply Rmult_le_reg_r with (2 * d); [lra | ].
      unfold Rdiv. rewrite Rmult_assoc, Rinv_l by lra. lra.
  - assert (Hd1 : d < 0) by lra.
    assert (H1 : 1 + d <= s) by (unfold D in Hs; nra).
    assert (H2 : s <= 1 - d) by (unfold D in Hs; nra).
    replace ((d - 1 + s) / (2 * d)) with ((1 - d - s) / (2 * - d)) by (field; lra).
    split.
    + apply Rmult_le_reg_r with (2 * - d); [lra | ].
      unfold Rdiv. rewrite Rmult_assoc, Rinv_l by lra. lra.
    + apply Rmult_le_reg_r with (2 * - d); [lra | ].
      unfold Rdiv. rewrite Rmult_assoc, Rinv_l by lra. lra.
Qed.

(* trap_cdf d is the distribution function of trap_pdf d *)
Lemma trap_cdf_derive d t : is_derive (trap_cdf d) t (trap_pdf d t).
Proof. unfold trap_cdf, trap_pdf. auto_derive; [exact I | ring]. Qed.

Lemma trap_cdf_ends d : trap_cdf d 0 = 0 /\ trap_cdf d 1 = 1.
Proof. unfold trap_cdf. split; ring. Qed.

Lemma trap_pdf_nonneg d t : -1 <= d <= 1 -> 0 <= t <= 1 -> 0 <= trap_pdf d t.
Proof. intros Hd Ht. unfold trap_pdf. nra. Qed.

(* the CDF is injective on [0,1] for |d| < 1 : the solution is THE quantile *)
Lemma trap_cdf_injective d t1 t2 :
  -1 < d < 1 -> 0 <= t1 <= 1 -> 0 <= t2 <= 1 -> trap_cdf d t1 = trap_cdf d t2 -> t1 = t2.
Proof.
  intros Hd H1 H2 E. unfold trap_cdf in E.
  assert (F : (t1 - t2) * ((1 - d) + d * (t1 + t2)) = 0) by nra.
  apply Rmult_integral in F. destruct F as [F | F]; [lra | ].
  exfalso. set (s := t1 + t2) in *. assert (Hs : -1 <= s - 1 <= 1) by (unfold s; lra).
  assert (Hk : -1 < d * (s - 1)).
  { destruct (Rle_lt_dec 0 d); nra. }
  lra.
Qed.

(* the near-zero branch *)
Lemma trapezium_near_zero_range u d :
  0 <= u <= 1 -> -1 <= d <= 1 -> 0 <= trapezium_near_zero u d <= 1.
Proof.
  intros Hu Hd. unfold trapezium_near_zero.
  set (w := (1 - u) * u).
  assert (Hw0 : 0 <= w) by (unfold w; nra).
  assert (Hw1 : w <= u) by (unfold w; nra).
  assert (Hw2 : w <= 1 - u) by (unfold w; nra).
  assert (Hwd : - w <= w * d <= w) by (split; nra).
  split; lra.
Qed.

Lemma near_zero_residual u d :
  trap_cdf d (trapezium_near_zero u d) - u
  = d * d * (u * (1 - u)) * (2 * u - 1) + d * d * d * (u * (1 - u) * (u * (1 - u))).
Proof. unfold trap_cdf, trapezium_near_zero. ring. Qed.

Lemma near_zero_branch_error_lemma u d :
  0 <= u <= 1 -> Rabs d <= 1 / 2 -> d <> 0 ->
  Rabs (trapezium_near_zero u d - trapezium_full u d) <= d * d.
Proof.
  intros Hu Hd Hd0.
  assert (Hd' : -1 / 2 <= d <= 1 / 2).
  { unfold Rabs in Hd. destruct (Rcase_abs d); lra. }
  assert (Hd1 : -1 <= d <= 1) by lra.
  pose proof (trapezium_full_cdf u d Hu Hd1 Hd0) as Hc.
  pose proof (trapezium_full_range u d Hu Hd1 Hd0) as Hr.
  pose proof (trapezium_near_zero_range u d Hu Hd1) as Hr0.
  pose proof (near_zero_residual u d) as Hres.
  set (t := trapezium_full u d) in *. set (t0 := trapezium_near_zero u d) in *.
  unfold trap_cdf in Hres, Hc.
  (* (t0 - t) * ((1-d) + d (t0 + t)) = residual *)
  set (w := u * (1 - u)) in *.
  assert (Hw : 0 <= w <= 1 / 4).
  { unfold w. split; [apply Rmult_le_pos; lra | ].
    pose proof (Rle_0_sqr (u - 1 / 2)) as Hsq. unfold Rsqr in Hsq. lra. }
  set (r := d * d * w * (2 * u - 1) + d * d * d * (w * w)) in *.
  assert (Hfac : (t0 - t) * ((1 - d) + d * (t0 + t)) = r).
  { replace ((t0 - t) * ((1 - d) + d * (t0 + t)))
      with (((1 - d) * t0 + d * (t0 * t0)) - ((1 - d) * t + d * (t * t))) by ring.
    lra. }
  assert (Hg : 1 / 2 <= (1 - d) + d * (t0 + t)).
  { assert (Hs1 : -1 <= t0 + t - 1 <= 1) by lra.
    assert (Hk : -1 / 2 <= d * (t0 + t - 1)).
    { set (s1 := t0 + t - 1) in *. destruct (Rle_lt_dec 0 d).
      - assert (d * (-1) <= d * s1) by (apply Rmult_le_compat_l; lra). lra.
      - assert ((- d) * s1 <= (- d) * 1) by (apply Rmult_le_compat_l; lra). lra. }
    lra. }
  assert (HD2 : 0 <= d * d) by (pose proof (Rle_0_sqr d) as Hq; unfold Rsqr in Hq; exact Hq).
  set (q := w * (2 * u - 1) + d * (w * w)).
  assert (Hrq : r = d * d * q) by (unfold r, q; ring).
  assert (Hq : -1 / 2 <= q <= 1 / 2).
  { assert (A1 : w * (-1) <= w * (2 * u - 1)) by (apply Rmult_le_compat_l; lra).
    assert (A2 : w * (2 * u - 1) <= w * 1) by (apply Rmult_le_compat_l; lra).
    assert (W0 : 0 <= w * w) by (apply Rmult_le_pos; lra).
    assert (W1 : w * w <= 1 / 4 * (1 / 4)) by (apply Rmult_le_compat; lra).
    assert (B1 : w * w * (-1 / 2) <= w * w * d) by (apply Rmult_le_compat_l; lra).
    assert (B2 : w * w * d <= w * w * (1 / 2)) by (apply Rmult_le_compat_l; lra).
    unfold q. replace (d * (w * w)) with (w * w * d) by ring. lra. }
  assert (Hr1 : - (d * d) / 2 <= r <= d * d / 2).
  { rewrite Hrq.
    assert (C1 : d * d * (-1 / 2) <= d * d * q) by (apply Rmult_le_compat_l; lra).
    assert (C2 : d * d * q <= d * d * (1 / 2)) by (apply Rmult_le_compat_l; lra).
    lra. }
  set (g := (1 - d) + d * (t0 + t)) in *.
  apply Rabs_le. set (dl := t0 - t) in *.
  destruct (Rle_lt_dec 0 dl) as [Hp | Hn].
  - assert (dl * (1 / 2) <= dl * g) by (apply Rmult_le_compat_l; lra). lra.
  - assert ((- dl) * (1 / 2) <= (- dl) * g) by (apply Rmult_le_compat_l; lra). lra.
Qed.

(* mass of the linear interpolant on one cell: mean * dx *)
Lemma cell_mass_lemma x0 dx p0 p1 :
  dx <> 0 ->
  is_RInt (interp x0 dx p0 p1) x0 (x0 + dx) ((p0 + p1) / 2 * dx).
Proof.
  intros Hdx.
  pose (F := fun x => p0 * (x - x0) + (p1 - p0) * ((x - x0) * (x - x0) / (2 * dx))).
  assert (H : is_RInt (interp x0 dx p0 p1) x0 (x0 + dx) (minus (F (x0 + dx)) (F x0))).
  { apply (is_RInt_derive (V:=R_CompleteNormedModule) F (interp x0 dx p0 p1)).
    - intros x _. unfold F, interp. auto_derive; [exact I | field; exact Hdx].
    - intros x _. apply (ex_derive_continuous (K:=R_AbsRing) (V:=R_NormedModule)).
      unfold interp. auto_derive. exact I. }
  replace ((p0 + p1) / 2 * dx) with (minus (F (x0 + dx)) (F x0)); [exact H | ].
  unfold minus, plus, opp, F; simpl. field. exact Hdx.
Qed.

(* the density of  x0 + T * dx  when T has density trap_pdf d, weighted by the
   cell probability  mean*dx/total, is the interpolant / total *)
Lemma cell_density_lemma x0 dx p0 p1 total x :
  dx <> 0 -> p0 + p1 <> 0 -> total <> 0 ->
  let mean := (p0 + p1) / 2 in
  let d := (p1 - p0) / 2 / mean in
  (mean * dx / total) * (trap_pdf d ((x - x0) / dx) / dx) = interp x0 dx p0 p1 x / total.
Proof.
  intros Hdx Hm Ht. cbv zeta. unfold trap_pdf, interp. field. repeat split; assumption.
Qed.

Lemma cell_sample_in_cell xk dxk t :
  0 <= dxk -> 0 <= t <= 1 -> xk <= cell_sample xk dxk t <= xk + dxk.
Proof. intros Hd Ht. unfold cell_sample. split; nra. Qed.

(* the mutant b = dh + 1 leaves [0,1] *)
Lemma trapezium_full_mut_escapes : trapezium_full_mut (1 / 2) (1 / 2) > 1.
Proof.
  unfold trapezium_full_mut. cbv zeta.
  assert (0 <= sqrt ((1 / 2 + 1) * (1 / 2 + 1) + 4 * (1 / 2) * (1 / 2))) by apply sqrt_pos.
  replace (2 * (1 / 2)) with 1 by field. lra.
Qed.
