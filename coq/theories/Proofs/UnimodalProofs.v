(* Lemmas about the unimodal family and the interval cost (property C19). *)
From Coq Require Import Reals List QArith Qreals Lra Psatz.
From IT Require Import Model.Moments RealModel.Unimodal.
Import ListNotations.
Open Scope R_scope.

Lemma zscore_affine a b x th : a <> 0 -> t_s0 th <> 0 ->
  zscore (a * x + b) (affine_theta a b th) = zscore x th.
Proof. intros Ha Hs. unfold zscore, affine_theta. simpl. field. split; assumption. Qed.

Theorem log_pdf_affine a b x th : a <> 0 -> t_s0 th <> 0 ->
  log_pdf_model (a * x + b) (affine_theta a b th) = log_pdf_model x th.
Proof.
  intros Ha Hs. unfold log_pdf_model. rewrite zscore_affine by assumption. reflexivity.
Qed.

Theorem norm_affine a b th : norm_model (affine_theta a b th) = a * norm_model th.
Proof. unfold norm_model, affine_theta, shape. simpl. ring. Qed.

(* the family is closed under positive (indeed any non-degenerate) affine maps of
   the data: the density of a x + b with the transformed parameters is the
   original density divided by a *)
Theorem family_affine a b x th : a <> 0 -> t_s0 th <> 0 ->
  evaluate_model (a * x + b) (affine_theta a b th) = evaluate_model x th / a.
Proof.
  intros Ha Hs. unfold evaluate_model, pdf_model.
  rewrite log_pdf_affine by assumption. rewrite norm_affine.
  unfold Rdiv. rewrite Rinv_mult. ring.
Qed.

Theorem hdi_cost_zero_iff w Pa Pb Fa Fb f : w <> 0 ->
  (hdi_cost w Pa Pb Fa Fb f = 0 <-> Pa = Pb /\ Fb - Fa = f).
Proof.
  intros Hw. unfold hdi_cost. split.
  - intros H.
    assert (H1 : 0 <= (w * (Pa - Pb)) * (w * (Pa - Pb))) by apply (Rle_0_sqr (w * (Pa - Pb))).
    assert (H2 : 0 <= (Fb - Fa - f) * (Fb - Fa - f)) by apply (Rle_0_sqr (Fb - Fa - f)).
    assert (E1 : (w * (Pa - Pb)) * (w * (Pa - Pb)) = 0) by lra.
    assert (E2 : (Fb - Fa - f) * (Fb - Fa - f) = 0) by lra.
    apply Rmult_integral in E1. apply Rmult_integral in E2.
    assert (E1' : w * (Pa - Pb) = 0) by (destruct E1; assumption).
    apply Rmult_integral in E1'. split; [destruct E1' as [E|E]; [contradiction|lra]|destruct E2; lra].
  - intros [E1 E2]. rewrite E1, <- E2. ring.
Qed.

Lemma hdi_cost_nonneg w Pa Pb Fa Fb f : 0 <= hdi_cost w Pa Pb Fa Fb f.
Proof.
  unfold hdi_cost.
  assert (H1 := Rle_0_sqr (w * (Pa - Pb))). assert (H2 := Rle_0_sqr (Fb - Fa - f)).
  unfold Rsqr in *. lra.
Qed.

(* the executable rational cost is the real one *)
Lemma hdi_cost_q_correct (w Pa Pb Fa Fb f : Q) :
  Q2R (hdi_cost_q w Pa Pb Fa Fb f) = hdi_cost (Q2R w) (Q2R Pa) (Q2R Pb) (Q2R Fa) (Q2R Fb) (Q2R f).
Proof.
  unfold hdi_cost_q, hdi_cost.
  repeat (rewrite ?Q2R_plus, ?Q2R_mult, ?Q2R_minus). reflexivity.
Qed.
