(* Lemmas about the unimodal family and the interval cost (property C19). *)
From Coq Require Import Reals List QArith Qreals Lra Psatz.
From IT Require Import Model.Moments RealModel.Unimodal.
Import ListNotations.
Open Scope R_scope.

Lemma zscore_affine a b x th : a <> 0 -> t_s0 th <> 0 ->
  zscore (a * x + b) (affine_theta a b th) = zscore x th.
Proof. intros Ha Hs. unfold zscore, affine_theta. simpl. field. split; assumption. Qed.

Theorem log_pdf_affine a b x th : a <> 0 -> t_s0 th <> 0 ->
  log_pdf_model (a * x + b) (affine_theta a b th) = log_pdf_model x th.
Proof.
  intros Ha Hs. unfold log_pdf_model. rewrite zscore_affine by assumption. reflexivity.
Qed.

Theorem norm_affine a b th : norm_model (affine_theta a b th) = a * norm_model th.
Proof. unfold norm_model, affine_theta, shape. simpl. ring. Qed.

(* the family is closed under positive (indeed any non-degenerate) affine maps of
   the data: the density of a x + b with the transformed parameters is the
   original density divided by a *)
Theorem family_affine a b x th : a <> 0 -> t_s0 th <> 0 ->
  evaluate_model (a * x + b) (affine_theta a b th) = evaluate_model x th / a.
Proof.
  intros Ha Hs. unfold evaluate_model, pdf_model.
  rewrite log_pdf_affine by assumption. rewrite norm_affine.
  unfold Rdiv. rewrite Rinv_mult. ring.
Qed.

Theorem hdi_cost_zero_iff w Pa Pb Fa Fb f : w <> 0 ->
  (hdi_cost w Pa Pb Fa Fb f = 0 <-> Pa = Pb /\ Fb - Fa = f).
Proof.
  intros Hw. unfold hdi_cost. split.
  - intros H.
    assert (H1 : 0 <= (w * (Pa - Pb)) * (w * (Pa - Pb))) by apply (Rle_0_sqr (w * (Pa - Pb))).
    assert (H2 : 0 <= (Fb - Fa - f) * (Fb - Fa - f)) by apply (Rle_0_sqr (Fb - Fa - f)).
    assert (E1 : (w * (Pa - Pb)) * (w * (Pa - Pb)) = 0) by lra.
    assert (E2 : (Fb - Fa - f) * (Fb - Fa - f) = 0) by lra.
    apply Rmult_integral in E1. apply Rmult_integral in E2.
    assert (E1' : w * (Pa - Pb) = 0) by (destruct E1; assumption).
    apply Rmult_integral in E1'. split; [destruct E1' as [E|E]; [contradiction|lra]|destruct E2; lra].
  - intros [E1 E2]. rewrite E1, <- E2. ring.
Qed.

Lemma hdi_cost_nonneg w Pa Pb Fa Fb f : 0 <= hdi_cost w Pa Pb Fa Fb f.
Proof.
  unfold hdi_cost.
  assert (H1 := Rle_0_sqr (w * (Pa - Pb))). assert (H2 := Rle_0_sqr (Fb - Fa - f)).
  unfold Rsqr in *. lra.
Qed.

(* the executable rational cost is the real one *)
Lemma hdi_cost_q_correct (w Pa Pb Fa Fb f : Q) :
  Q2R (hdi_cost_q w Pa Pb Fa Fb f) = hdi_cost (Q2R w) (Q2R Pa) (Q2R Pb) (Q2R Fa) (Q2R Fb) (Q2R f).
Proof.
  unfold hdi_cost_q, hdi_cost.
  repeat (rewrite ?Q2R_plus, ?Q2R_mult, ?Q2R_minus). reflexivity.
Qed.

(* ---- quantitative versions: how far the returned interval can be from the property,
   given the value of the cost, and what a restricted search can reach ---- *)
Lemma sqr_le_abs x e : 0 <= e -> x * x <= e * e -> Rabs x <= e.
Proof. intros He H. apply Rabs_le. split; nra. Qed.

Lemma abs_le_sqr x e : Rabs x <= e -> x * x <= e * e.
Proof.
  intros H. assert (H0 := Rabs_pos x).
  unfold Rabs in *. destruct (Rcase_abs x); nra.
Qed.

(* a cost of at most e^2 forces the enclosed probability within e of f and the weighted
   end-density mismatch within e *)
Theorem hdi_cost_small_bounds w Pa Pb Fa Fb f e : 0 <= e ->
  hdi_cost w Pa Pb Fa Fb f <= e * e ->
  Rabs (Fb - Fa - f) <= e /\ Rabs (w * (Pa - Pb)) <= e.
Proof.
  intros He H. unfold hdi_cost in H.
  assert (H1 := Rle_0_sqr (w * (Pa - Pb))). assert (H2 := Rle_0_sqr (Fb - Fa - f)).
  unfold Rsqr in *. split; apply sqr_le_abs; lra.
Qed.

(* if the interval cannot hold more than M <= f, the cost is at least (f - M)^2 *)
Theorem hdi_cost_mass_lower w Pa Pb Fa Fb f M : Fb - Fa <= M -> M <= f ->
  (f - M) * (f - M) <= hdi_cost w Pa Pb Fa Fb f.
Proof.
  intros H1 H2. unfold hdi_cost.
  assert (H := Rle_0_sqr (w * (Pa - Pb))). unfold Rsqr in H. nra.
Qed.

(* a search confined to intervals inside [lo, hi] (e.g. the range of the sample) *)
Theorem confined_interval_mass F lo hi c w : nondecreasing F ->
  lo <= c - w / 2 -> c + w / 2 <= hi -> interval_mass F c w <= F hi - F lo.
Proof.
  intros HF H1 H2. unfold interval_mass.
  assert (A := HF _ _ H1). assert (B := HF _ _ H2). lra.
Qed.

(* a search whose width is limited to R (e.g. bounds (0, max - min) on the width):
   no candidate holds more than the best window of width R *)
Theorem width_limited_interval_mass F R M c w : nondecreasing F ->
  (forall x, F (x + R) - F x <= M) -> w <= R -> interval_mass F c w <= M.
Proof.
  intros HF HM Hw. unfold interval_mass.
  assert (A : F (c + w / 2) <= F (c - w / 2 + R)) by (apply HF; lra).
  specialize (HM (c - w / 2)). lra.
Qed.

(* whatever the restriction, if no admissible candidate holds more than M < f then every
   admissible candidate has cost >= (f - M)^2 > 0 and misses the fraction by >= f - M:
   a restricted search cannot return an interval with the property *)
Theorem restricted_search_misses (region : R -> R -> Prop) P F wt f M :
  (forall c w, region c w -> interval_mass F c w <= M) -> M < f ->
  forall c w, region c w ->
    (f - M) * (f - M) <= interval_cost P F wt f c w /\ 0 < (f - M) * (f - M) /\
    f - M <= f - interval_mass F c w.
Proof.
  intros Hreg HM c w Hin. specialize (Hreg c w Hin). unfold interval_mass in Hreg.
  split; [|split].
  - unfold interval_cost. apply hdi_cost_mass_lower; lra.
  - nra.
  - unfold interval_mass. lra.
Qed.

Corollary width_limited_search_misses P F wt f R M : nondecreasing F ->
  (forall x, F (x + R) - F x <= M) -> M < f ->
  forall c w, w <= R ->
    (f - M) * (f - M) <= interval_cost P F wt f c w /\ f - M <= f - interval_mass F c w.
Proof.
  intros HF HM Hf c w Hw.
  destruct (restricted_search_misses (fun _ w' => w' <= R) P F wt f M) with (c := c) (w := w) as [A [_ B]];
    try assumption.
  - intros c' w' Hw'. apply (width_limited_interval_mass F R M); assumption.
  - split; assumption.
Qed.

(* ---- the executable judgement of a returned interval is sound ---- *)
Lemma within_Rabs a b t : within a b t = true -> Rabs (Q2R a - Q2R b) <= Q2R t.
Proof.
  unfold within. intros H. apply Qle_bool_iff in H. apply Qabs.Qabs_Qle_condition in H.
  destruct H as [H1 H2]. apply Qle_Rle in H1, H2.
  rewrite Q2R_opp in H1. rewrite Q2R_minus in H1, H2. apply Rabs_le. lra.
Qed.

Lemma bit_zero k ok : bit k ok = 0%nat -> ok = true.
Proof.
  unfold bit. destruct ok; [reflexivity|]. intros H. exfalso.
  assert (Hp : Nat.pow 2 k <> 0%nat) by (apply Nat.pow_nonzero; discriminate). contradiction.
Qed.

Theorem check_interval_sound wt Pa Pb Fa Fb f cost probes tt tl te rt ab :
  check_interval wt Pa Pb Fa Fb f cost probes tt tl te rt ab = 0%nat ->
  Rabs (Q2R Fb - Q2R Fa - Q2R f) <= Q2R tl /\
  Rabs (Q2R wt * (Q2R Pa - Q2R Pb)) <= Q2R te /\
  hdi_cost (Q2R wt) (Q2R Pa) (Q2R Pb) (Q2R Fa) (Q2R Fb) (Q2R f) <= Q2R tl * Q2R tl + Q2R te * Q2R te.
Proof.
  unfold check_interval. intros H.
  apply Nat.eq_add_0 in H. destruct H as [H H3].
  apply Nat.eq_add_0 in H. destruct H as [H H2].
  apply Nat.eq_add_0 in H. destruct H as [H0 H1].
  apply bit_zero in H0, H2.
  apply within_Rabs in H0, H2.
  rewrite Q2R_minus in H0. rewrite Q2R_mult, Q2R_minus in H2.
  replace (Q2R 0) with 0 in H2 by (unfold Q2R; simpl; lra).
  rewrite Rminus_0_r in H2.
  split; [exact H0|]. split; [exact H2|].
  unfold hdi_cost. apply abs_le_sqr in H0, H2. lra.
Qed.

(* and it rejects what the property rejects: an enclosed probability further than
   tol_loose from f always sets a bit *)
Theorem check_interval_complete_mass wt Pa Pb Fa Fb f cost probes tt tl te rt ab :
  Q2R tl < Rabs (Q2R Fb - Q2R Fa - Q2R f) ->
  check_interval wt Pa Pb Fa Fb f cost probes tt tl te rt ab <> 0%nat.
Proof.
  intros H E. apply check_interval_sound in E. lra.
Qed.
