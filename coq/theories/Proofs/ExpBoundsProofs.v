(* Correctness of the rational enclosures of exp in Common/ExpBounds.v
   with respect to Coq's real exponential. *)
From Coq Require Import Reals Lra Lia Psatz QArith Qreals Qround Qabs ZArith List.
From Coquelicot Require Import Coquelicot.
From IT Require Import Common.ExpBounds.
Import ListNotations.
Open Scope R_scope.

(* ------------------------------------------------------------------ *)
(* 1. Taylor partial sums of exp and their sign on x <= 0              *)
(* ------------------------------------------------------------------ *)

(* P m n x = sum_{k=0}^{n} x^k * m! / (m+k)!   (m = 0: the Taylor sum) *)
Fixpoint P (m n : nat) (x : R) : R :=
  match n with
  | O => 1
  | S n' => P m n' x + x ^ (S n') * INR (fact m) / INR (fact (m + S n'))
  end.

Definition T (n : nat) (x : R) : R := P 0 n x.

Lemma P_S : forall m n x,
  P m (S n) x = P m n x + x ^ (S n) * INR (fact m) / INR (fact (m + S n)).
Proof. reflexivity. Qed.

Lemma P_at_0 : forall m n, P m n 0 = 1.
Proof.
  intros m n. induction n as [|n IHn]; [reflexivity|].
  rewrite P_S, IHn. rewrite pow_i by lia.
  unfold Rdiv. ring.
Qed.

Lemma INR_S_neq_0 : forall n, INR (S n) <> 0.
Proof. intros n. apply not_0_INR. discriminate. Qed.

(* Coquelicot's rules restated over plain R *)
Lemma is_derive_ext_R : forall (f g : R -> R) (x l : R),
  (forall t : R, f t = g t) -> is_derive f x l -> is_derive g x l.
Proof. intros f g x l. exact (is_derive_ext f g x l). Qed.

Lemma is_derive_plus_R : forall (f g : R -> R) (x df dg : R),
  is_derive f x df -> is_derive g x dg ->
  is_derive (fun t : R => f t + g t) x (df + dg).
Proof. intros f g x df dg. exact (is_derive_plus f g x df dg). Qed.

Lemma is_derive_minus_R : forall (f g : R -> R) (x df dg : R),
  is_derive f x df -> is_derive g x dg ->
  is_derive (fun t : R => f t - g t) x (df - dg).
Proof. intros f g x df dg. exact (is_derive_minus f g x df dg). Qed.

Lemma monomial_derive : forall (m : nat) (c x : R),
  is_derive (fun t : R => t ^ (S m) * c) x (c * (INR (S m) * 1 * x ^ m)).
Proof.
  intros m c x.
  apply (is_derive_ext_R (fun t : R => c * t ^ (S m))); [intros t; ring|].
  apply is_derive_scal.
  exact (is_derive_pow (fun t : R => t) (S m) x 1 (is_derive_id x)).
Qed.

Lemma T_derive : forall n x, is_derive (T (S n)) x (T n x).
Proof.
  intros n x. induction n as [|n IHn].
  - apply (is_derive_ext_R (fun t : R => 1 + t)).
    + intros t. unfold T. rewrite P_S. simpl. field.
    + unfold T. simpl P. auto_derive; [exact I|ring].
  - apply (is_derive_ext_R
             (fun t : R => T (S n) t + t ^ (S (S n)) * (/ INR (fact (S (S n)))))).
    + intros t. unfold T. rewrite (P_S 0 (S n)).
      change (0 + S (S n))%nat with (S (S n)). change (INR (fact 0)) with 1.
      field. apply INR_fact_neq_0.
    + replace (T (S n) x)
        with (T n x + / INR (fact (S (S n))) * (INR (S (S n)) * 1 * x ^ (S n))).
      * apply (is_derive_plus_R (T (S n))
                 (fun t : R => t ^ (S (S n)) * / INR (fact (S (S n))))).
        -- exact IHn.
        -- apply monomial_derive.
      * unfold T. rewrite (P_S 0 n).
        change (0 + S n)%nat with (S n). change (INR (fact 0)) with 1.
        rewrite (fact_simpl (S n)). rewrite mult_INR.
        field. split; [apply INR_fact_neq_0 | apply (INR_S_neq_0 (S n))].
Qed.

(* f' <= 0 on (-inf, 0]  ->  f x >= f 0 there; and the mirror image *)
Lemma decr_left_of_0 : forall f df : R -> R,
  (forall x, is_derive f x (df x)) ->
  (forall x, x <= 0 -> df x <= 0) ->
  forall x, x <= 0 -> f 0 <= f x.
Proof.
  intros f df Hd Hs x Hx.
  destruct (MVT_gen f x 0 df) as [c [Hc Heq]].
  - intros t _. apply Hd.
  - intros t _. apply derivable_continuous_pt, ex_derive_Reals_0.
    exists (df t). apply Hd.
  - rewrite Rmin_left in Hc by exact Hx. rewrite Rmax_right in Hc by exact Hx.
    assert (Hdc : df c <= 0) by (apply Hs; lra).
    nra.
Qed.

Lemma incr_left_of_0 : forall f df : R -> R,
  (forall x, is_derive f x (df x)) ->
  (forall x, x <= 0 -> 0 <= df x) ->
  forall x, x <= 0 -> f x <= f 0.
Proof.
  intros f df Hd Hs x Hx.
  destruct (MVT_gen f x 0 df) as [c [Hc Heq]].
  - intros t _. apply Hd.
  - intros t _. apply derivable_continuous_pt, ex_derive_Reals_0.
    exists (df t). apply Hd.
  - rewrite Rmin_left in Hc by exact Hx. rewrite Rmax_right in Hc by exact Hx.
    assert (Hdc : 0 <= df c) by (apply Hs; lra).
    nra.
Qed.

Lemma remainder_derive : forall n x,
  is_derive (fun t => exp t - T (S n) t) x (exp x - T n x).
Proof.
  intros n x.
  apply (is_derive_minus_R exp (T (S n))).
  - apply is_derive_exp.
  - apply T_derive.
Qed.

Lemma exp_le_1 : forall x, x <= 0 -> exp x <= 1.
Proof.
  intros x Hx. rewrite <- exp_0.
  destruct Hx as [Hlt|Heq]; [left; apply exp_increasing; exact Hlt | subst; right; reflexivity].
Qed.

Lemma exp_le_mono : forall x y, x <= y -> exp x <= exp y.
Proof.
  intros x y [Hlt|Heq]; [left; apply exp_increasing; exact Hlt | subst; right; reflexivity].
Qed.

Lemma taylor_sign : forall n,
  (Nat.even n = true -> forall x, x <= 0 -> exp x - T n x <= 0) /\
  (Nat.odd n = true -> forall x, x <= 0 -> 0 <= exp x - T n x).
Proof.
  induction n as [|n [IHe IHo]].
  - split.
    + intros _ x Hx. unfold T. simpl. pose proof (exp_le_1 x Hx). lra.
    + intros Hodd. discriminate Hodd.
  - split.
    + rewrite Nat.even_succ. intros Hodd x Hx.
      pose proof (incr_left_of_0 (fun t => exp t - T (S n) t) (fun t => exp t - T n t)
                    (remainder_derive n) (IHo Hodd) x Hx) as Hm.
      cbv beta in Hm. unfold T in Hm at 2. rewrite P_at_0, exp_0 in Hm. lra.
    + rewrite Nat.odd_succ. intros Heven x Hx.
      pose proof (decr_left_of_0 (fun t => exp t - T (S n) t) (fun t => exp t - T n t)
                    (remainder_derive n) (IHe Heven) x Hx) as Hm.
      cbv beta in Hm. unfold T in Hm at 1. rewrite P_at_0, exp_0 in Hm. lra.
Qed.

Theorem taylor_lower : forall n x, Nat.odd n = true -> x <= 0 -> T n x <= exp x.
Proof. intros n x Ho Hx. pose proof (proj2 (taylor_sign n) Ho x Hx). lra. Qed.

Theorem taylor_upper : forall n x, Nat.even n = true -> x <= 0 -> exp x <= T n x.
Proof. intros n x He Hx. pose proof (proj1 (taylor_sign n) He x Hx). lra. Qed.

(* ------------------------------------------------------------------ *)
(* 2. Horner form = Taylor sum                                         *)
(* ------------------------------------------------------------------ *)

Fixpoint hornerR (n : nat) (c : R) (x : R) : R :=
  match n with
  | O => 1
  | S n' => 1 + x / c * hornerR n' (c + 1) x
  end.

Lemma horner_tail : forall m n x,
  1 + x / INR (S m) * P (S m) n x = P m (S n) x.
Proof.
  intros m n x. induction n as [|n IHn].
  - rewrite P_S. simpl P. rewrite Nat.add_1_r, fact_simpl, mult_INR.
    rewrite pow_1. field.
    split; [apply INR_fact_neq_0 | apply INR_S_neq_0].
  - rewrite (P_S (S m) n), (P_S m (S n)), <- IHn.
    replace (S m + S n)%nat with (m + S (S n))%nat by lia.
    rewrite (fact_simpl m), mult_INR.
    change (x ^ S (S n)) with (x * x ^ S n).
    field.
    split; [apply INR_fact_neq_0 | apply INR_S_neq_0].
Qed.

Lemma hornerR_P : forall n m x, hornerR n (INR (S m)) x = P m n x.
Proof.
  induction n as [|n IHn]; intros m x; [reflexivity|].
  change (hornerR (S n) (INR (S m)) x)
    with (1 + x / INR (S m) * hornerR n (INR (S m) + 1) x).
  rewrite <- (S_INR (S m)), IHn. apply horner_tail.
Qed.

Lemma hornerR_T : forall n x, hornerR n (IZR (Zpos 1)) x = T n x.
Proof. intros n x. exact (hornerR_P n 0 x). Qed.

(* ------------------------------------------------------------------ *)
(* 3. Rounding: floor division and shifts (the analogues of            *)
(*    Qdown_le / Qup_ge for the fixed-point grid 2^-N)                 *)
(* ------------------------------------------------------------------ *)

Lemma two_p_Z : forall N, Zpos (two_p N) = (2 ^ Z.of_nat N)%Z.
Proof.
  induction N as [|N IHN]; [reflexivity|].
  change (two_p (S N)) with (xO (two_p N)).
  rewrite Pos2Z.inj_xO, IHN, Nat2Z.inj_succ, Z.pow_succ_r by lia. reflexivity.
Qed.

Lemma two_p_IZR : forall N, IZR (Zpos (two_p N)) = 2 ^ N.
Proof. intros N. rewrite two_p_Z, <- pow_IZR. reflexivity. Qed.

Lemma pow2_pos : forall N, 0 < 2 ^ N.
Proof. intros N. apply pow_lt. lra. Qed.

(* floor division: q = a / b  satisfies  q*b <= a < (q+1)*b *)
Lemma Zdiv_bounds : forall a b, (0 < b)%Z ->
  IZR (a / b) * IZR b <= IZR a < (IZR (a / b) + 1) * IZR b.
Proof.
  intros a b Hb.
  pose proof (Z_div_mod_eq_full a b) as Hdm.
  pose proof (Z.mod_pos_bound a b Hb) as Hmod.
  split.
  - rewrite <- mult_IZR. apply IZR_le. nia.
  - rewrite <- (plus_IZR _ 1), <- mult_IZR. apply IZR_lt. nia.
Qed.

Lemma Zdiv_pos_bounds : forall a (i : positive),
  IZR (a / Zpos i) * IZR (Zpos i) <= IZR a < (IZR (a / Zpos i) + 1) * IZR (Zpos i).
Proof. intros a i. apply Zdiv_bounds. reflexivity. Qed.

Lemma shr_bounds : forall N a,
  IZR (shr N a) * 2 ^ N <= IZR a < (IZR (shr N a) + 1) * 2 ^ N.
Proof.
  intros N a. unfold shr. rewrite Z.shiftr_div_pow2 by lia.
  rewrite pow_IZR. apply Zdiv_bounds. apply Z.pow_pos_nonneg; lia.
Qed.

Lemma shr_nonneg : forall N a, (0 <= a)%Z -> 0 <= IZR (shr N a).
Proof.
  intros N a Ha. apply IZR_le. unfold shr. apply Z.shiftr_nonneg. exact Ha.
Qed.

Lemma IZR_pos_ge_1 : forall i : positive, 1 <= IZR (Zpos i).
Proof. intros i. apply IZR_le. lia. Qed.

(* ------------------------------------------------------------------ *)
(* 4. Fixed-point Horner with directed rounding encloses the real one  *)
(* ------------------------------------------------------------------ *)

Lemma div_le_l : forall a b c, 0 < c -> a <= b * c -> a / c <= b.
Proof. intros a b c Hc H. apply (proj2 (Rle_div_l a b c Hc)). exact H. Qed.

Lemma le_div_r : forall a b c, 0 < c -> a * c <= b -> a <= b / c.
Proof. intros a b c Hc H. apply (proj1 (Rle_div_r a b c Hc)). exact H. Qed.

Lemma hz_S : forall N up n i x,
  hz N up (S n) i x =
  (Zpos (two_p N) +
   (if up
    then (shr N (x * hz N (negb up) n (Pos.succ i) x) + 1) / Zpos i + 1
    else shr N (x * hz N (negb up) n (Pos.succ i) x) / Zpos i))%Z.
Proof. reflexivity. Qed.

Lemma step_lower : forall E c q p xr hu Ht : R,
  0 < E -> 0 < c -> xr <= 0 ->
  q * c <= p -> p * E <= xr * hu -> Ht <= hu / E ->
  (E + q) / E <= 1 + xr / E / c * Ht.
Proof.
  intros E c q p xr hu Ht HE Hc Hx Hq Hp Hh.
  apply Rle_trans with (1 + xr / E / c * (hu / E)).
  - apply div_le_l; [exact HE|].
    replace ((1 + xr / E / c * (hu / E)) * E) with (E + (xr * hu) / (E * c))
      by (field; lra).
    apply Rplus_le_compat_l. apply le_div_r; [nra|]. nra.
  - apply Rplus_le_compat_l.
    apply Rmult_le_compat_neg_l; [|exact Hh].
    apply div_le_l; [exact Hc|]. apply div_le_l; [exact HE|]. nra.
Qed.

Lemma step_upper : forall E c q p xr hl Ht : R,
  0 < E -> 0 < c -> xr <= 0 ->
  p + 1 <= q * c -> xr * hl <= (p + 1) * E -> hl / E <= Ht ->
  1 + xr / E / c * Ht <= (E + q) / E.
Proof.
  intros E c q p xr hl Ht HE Hc Hx Hq Hp Hh.
  apply Rle_trans with (1 + xr / E / c * (hl / E)).
  - apply Rplus_le_compat_l.
    apply Rmult_le_compat_neg_l; [|exact Hh].
    apply div_le_l; [exact Hc|]. apply div_le_l; [exact HE|]. nra.
  - apply le_div_r; [exact HE|].
    replace ((1 + xr / E / c * (hl / E)) * E) with (E + (xr * hl) / (E * c))
      by (field; lra).
    apply Rplus_le_compat_l. apply div_le_l; [nra|]. nra.
Qed.

Lemma hz_encl : forall N x, (x <= 0)%Z -> forall n i,
  IZR (hz N false n i x) / 2 ^ N
    <= hornerR n (IZR (Zpos i)) (IZR x / 2 ^ N)
    <= IZR (hz N true n i x) / 2 ^ N.
Proof.
  intros N x Hx. pose proof (pow2_pos N) as HE.
  assert (Hxr : IZR x <= 0) by (apply (IZR_le x 0); exact Hx).
  induction n as [|n IHn]; intros i.
  - simpl hz. simpl hornerR. rewrite two_p_IZR.
    split; right; field; lra.
  - destruct (IHn (Pos.succ i)) as [Hl Hu].
    rewrite Pos2Z.inj_succ, succ_IZR in Hl, Hu.
    pose proof (IZR_pos_ge_1 i) as Hc.
    change (hornerR (S n) (IZR (Zpos i)) (IZR x / 2 ^ N))
      with (1 + IZR x / 2 ^ N / IZR (Zpos i)
                * hornerR n (IZR (Zpos i) + 1) (IZR x / 2 ^ N)).
    rewrite !hz_S. cbv beta iota. simpl negb.
    split.
    + set (hu := hz N true n (Pos.succ i) x) in *.
      set (p := shr N (x * hu)).
      rewrite plus_IZR, two_p_IZR.
      apply (step_lower _ _ _ (IZR p) _ (IZR hu)); try lra.
      * apply (Zdiv_pos_bounds p i).
      * rewrite <- mult_IZR. apply (shr_bounds N (x * hu)).
    + set (hl := hz N false n (Pos.succ i) x) in *.
      set (p := shr N (x * hl)).
      rewrite plus_IZR, two_p_IZR.
      apply (step_upper _ _ _ (IZR p) _ (IZR hl)); try lra.
      * rewrite plus_IZR, <- (plus_IZR p 1).
        left. apply (Zdiv_pos_bounds (p + 1) i).
      * rewrite <- mult_IZR. left. apply (shr_bounds N (x * hl)).
Qed.

(* ------------------------------------------------------------------ *)
(* 5. Repeated squaring with outward rounding is monotone              *)
(* ------------------------------------------------------------------ *)

Lemma pow_2_S : forall y k, y ^ (2 ^ S k) = (y * y) ^ (2 ^ k).
Proof.
  intros y k. rewrite Nat.pow_succ_r', pow_mult.
  f_equal. simpl. ring.
Qed.

Lemma sqd_spec : forall N k a y,
  0 <= IZR a / 2 ^ N <= y ->
  0 <= IZR (sqd N k a) / 2 ^ N <= y ^ (2 ^ k).
Proof.
  intros N. pose proof (pow2_pos N) as HE.
  induction k as [|k IHk]; intros a y [Ha0 Hay].
  - simpl. rewrite Rmult_1_r. split; assumption.
  - change (sqd N (S k) a) with (sqd N k (shr N (a * a))).
    rewrite pow_2_S. apply IHk.
    pose proof (shr_bounds N (a * a)) as [Hs _]. rewrite mult_IZR in Hs.
    pose proof (shr_nonneg N (a * a) (Z.square_nonneg a)) as Hs0.
    split.
    + apply le_div_r; [lra|]. lra.
    + apply Rle_trans with (IZR a / 2 ^ N * (IZR a / 2 ^ N)); [|nra].
      apply div_le_l; [lra|].
      replace (IZR a / 2 ^ N * (IZR a / 2 ^ N) * 2 ^ N)
        with (IZR a * IZR a / 2 ^ N) by (field; lra).
      apply le_div_r; [lra|]. exact Hs.
Qed.

Lemma squ_spec : forall N k a y,
  0 <= y <= IZR a / 2 ^ N ->
  y ^ (2 ^ k) <= IZR (squ N k a) / 2 ^ N.
Proof.
  intros N. pose proof (pow2_pos N) as HE.
  induction k as [|k IHk]; intros a y [Hy0 Hya].
  - simpl. rewrite Rmult_1_r. exact Hya.
  - change (squ N (S k) a) with (squ N k (shr N (a * a) + 1)).
    rewrite pow_2_S. apply IHk.
    pose proof (shr_bounds N (a * a)) as [_ Hs]. rewrite mult_IZR in Hs.
    split; [nra|].
    apply Rle_trans with (IZR a / 2 ^ N * (IZR a / 2 ^ N)); [nra|].
    rewrite plus_IZR.
    apply le_div_r; [lra|].
    replace (IZR a / 2 ^ N * (IZR a / 2 ^ N) * 2 ^ N)
      with (IZR a * IZR a / 2 ^ N) by (field; lra).
    apply div_le_l; [lra|]. lra.
Qed.

(* ------------------------------------------------------------------ *)
(* 6. Range reduction                                                  *)
(* ------------------------------------------------------------------ *)

Lemma tz_spec : forall p t q, tz p = (t, q) ->
  IZR (Zpos p) = 2 ^ t * IZR (Zpos q).
Proof.
  induction p as [p IHp|p IHp|]; intros t q Htz; simpl in Htz.
  - inversion Htz; subst. simpl pow. ring.
  - destruct (tz p) as [t' q'] eqn:Hp. inversion Htz; subst.
    rewrite Pos2Z.inj_xO, mult_IZR, (IHp t' q eq_refl). simpl pow. ring.
  - inversion Htz; subst. simpl pow. ring.
Qed.

Lemma red_lower : forall f u n Qr S E : R,
  0 < Qr -> 0 < S -> 0 < E ->
  f * Qr <= u -> u * S <= n * E -> f / E <= n / (Qr * S).
Proof.
  intros f u n Qr S E HQ HS HE Hf Hu.
  apply div_le_l; [exact HE|].
  replace (n / (Qr * S) * E) with (n * E / (Qr * S)) by (field; lra).
  apply le_div_r; [nra|]. nra.
Qed.

Lemma red_upper : forall g v n Qr S E : R,
  0 < Qr -> 0 < S -> 0 < E ->
  v <= g * Qr -> n * E <= v * S -> n / (Qr * S) <= g / E.
Proof.
  intros g v n Qr S E HQ HS HE Hg Hv.
  apply le_div_r; [exact HE|].
  replace (n / (Qr * S) * E) with (n * E / (Qr * S)) by (field; lra).
  apply div_le_l; [nra|]. nra.
Qed.

Lemma Q2R_nonpos_num : forall d : Q, (d <= 0)%Q -> IZR (Qnum d) <= 0.
Proof.
  intros d Hd. apply (IZR_le _ 0). unfold Qle in Hd. simpl in Hd. lia.
Qed.

Lemma red_spec : forall N k d xl xh, (d <= 0)%Q -> red N k d = (xl, xh) ->
  IZR xl / 2 ^ N <= Q2R d / 2 ^ k <= IZR xh / 2 ^ N /\ (xh <= 0)%Z.
Proof.
  intros N k d xl xh Hd Hred.
  pose proof (Q2R_nonpos_num d Hd) as Hn.
  unfold red in Hred.
  destruct (tz (Qden d)) as [t q] eqn:Htz.
  pose proof (tz_spec _ _ _ Htz) as Hden.
  pose proof (pow2_pos N) as HE. pose proof (pow2_pos k) as Hk.
  pose proof (pow2_pos t) as Ht. pose proof (pow2_pos (t + k)) as HS.
  pose proof (IZR_pos_ge_1 q) as Hq.
  assert (Hr : Q2R d / 2 ^ k = IZR (Qnum d) / (IZR (Zpos q) * 2 ^ (t + k))).
  { unfold Q2R. rewrite Hden, pow_add. field. lra. }
  assert (Hr0 : Q2R d / 2 ^ k <= 0).
  { rewrite Hr. apply div_le_l; [nra|]. lra. }
  rewrite Hr. rewrite Hr in Hr0.
  destruct (Nat.leb_spec (t + k) N) as [Hle|Hgt].
  - (* exact left shift *)
    set (num := Z.shiftl (Qnum d) (Z.of_nat (N - (t + k)))) in *.
    assert (Hnum : IZR num * 2 ^ (t + k) = IZR (Qnum d) * 2 ^ N).
    { unfold num. rewrite Z.shiftl_mul_pow2 by lia.
      rewrite mult_IZR, <- pow_IZR.
      assert (HN : 2 ^ N = 2 ^ (N - (t + k)) * 2 ^ (t + k))
        by (rewrite <- pow_add; f_equal; lia).
      rewrite HN. ring. }
    pose proof (Zdiv_pos_bounds num q) as [Hf1 Hf2].
    inversion Hred; subst xl xh; clear Hred.
    split; [split|].
    + apply (red_lower _ (IZR num)); try lra.
    + assert (Hup : IZR (Qnum d) / (IZR (Zpos q) * 2 ^ (t + k))
                    <= IZR (num / Zpos q + 1) / 2 ^ N).
      { rewrite plus_IZR. apply (red_upper _ (IZR num)); lra. }
      destruct (Z.min_spec 0 (num / Zpos q + 1)) as [[_ Hm]|[_ Hm]]; rewrite Hm.
      * unfold Rdiv at 2. rewrite Rmult_0_l. exact Hr0.
      * exact Hup.
    + apply Z.le_min_l.
  - (* right shift, rounded *)
    set (num := Z.shiftr (Qnum d) (Z.of_nat (t + k - N))) in *.
    assert (Hnum : IZR num * 2 ^ (t + k) <= IZR (Qnum d) * 2 ^ N
                   <= (IZR num + 1) * 2 ^ (t + k)).
    { pose proof (shr_bounds (t + k - N) (Qnum d)) as [Hs1 Hs2].
      fold num in Hs1, Hs2. unfold shr in Hs1, Hs2. fold num in Hs1, Hs2.
      assert (HS' : 2 ^ (t + k) = 2 ^ (t + k - N) * 2 ^ N)
        by (rewrite <- pow_add; f_equal; lia).
      rewrite HS'. pose proof (pow2_pos (t + k - N)). split; nra. }
    pose proof (Zdiv_pos_bounds num q) as [Hf1 _].
    pose proof (Zdiv_pos_bounds (num + 1) q) as [_ Hg2].
    rewrite plus_IZR in Hg2.
    inversion Hred; subst xl xh; clear Hred.
    split; [split|].
    + apply (red_lower _ (IZR num)); lra.
    + assert (Hup : IZR (Qnum d) / (IZR (Zpos q) * 2 ^ (t + k))
                    <= IZR ((num + 1) / Zpos q + 1) / 2 ^ N).
      { rewrite plus_IZR. apply (red_upper _ (IZR num + 1)); lra. }
      destruct (Z.min_spec 0 ((num + 1) / Zpos q + 1)) as [[_ Hm]|[_ Hm]];
        rewrite Hm.
      * unfold Rdiv at 2. rewrite Rmult_0_l. exact Hr0.
      * exact Hup.
    + apply Z.le_min_l.
Qed.

(* ------------------------------------------------------------------ *)
(* 7. The enclosure                                                    *)
(* ------------------------------------------------------------------ *)

Lemma exp_pow_nat : forall x n, exp x ^ n = exp (INR n * x).
Proof.
  intros x n. induction n as [|n IHn].
  - simpl. rewrite Rmult_0_l, exp_0. reflexivity.
  - rewrite S_INR. simpl pow. rewrite IHn, <- exp_plus. f_equal. ring.
Qed.

Lemma exp_pow_2k : forall r k, exp r ^ (2 ^ k) = exp (r * 2 ^ k).
Proof.
  intros r k. rewrite exp_pow_nat, pow_INR.
  replace (INR 2) with 2 by (simpl; ring). f_equal. ring.
Qed.

Lemma Q2R_grid : forall a N, Q2R (a # two_p N) = IZR a / 2 ^ N.
Proof. intros a N. unfold Q2R. simpl. rewrite two_p_IZR. reflexivity. Qed.

Lemma odd_2j1 : forall j, Nat.odd (2 * j + 1) = true.
Proof. intros j. rewrite Nat.add_comm, Nat.odd_add_mul_2. reflexivity. Qed.

Lemma even_2j2 : forall j, Nat.even (2 * j + 2) = true.
Proof. intros j. rewrite Nat.add_comm, Nat.even_add_mul_2. reflexivity. Qed.

Theorem exp_enc_correct : forall N j d, (d <= 0)%Q ->
  0 <= Q2R (exp_lo_p N j d) <= exp (Q2R d) /\
  exp (Q2R d) <= Q2R (exp_hi_p N j d).
Proof.
  intros N j d Hd. unfold exp_lo_p, exp_hi_p, exp_enc.
  set (k := halvings d).
  destruct (red N k d) as [xl xh] eqn:Hred.
  destruct (red_spec N k d xl xh Hd Hred) as [[Hxl Hxh] Hxh0].
  cbv beta iota. cbn [fst snd]. rewrite !Q2R_grid.
  pose proof (pow2_pos N) as HE. pose proof (pow2_pos k) as Hk.
  set (r := Q2R d / 2 ^ k) in *.
  assert (Hr0 : r <= 0).
  { apply Rle_trans with (IZR xh / 2 ^ N); [exact Hxh|].
    apply div_le_l; [exact HE|]. rewrite Rmult_0_l. apply (IZR_le xh 0 Hxh0). }
  assert (Hexp : exp (Q2R d) = exp r ^ (2 ^ k)).
  { rewrite exp_pow_2k. f_equal. unfold r. field. lra. }
  rewrite Hexp.
  assert (Hxl0 : (xl <= 0)%Z).
  { apply le_IZR. apply Rmult_le_reg_r with (/ 2 ^ N).
    - apply Rinv_0_lt_compat. exact HE.
    - rewrite Rmult_0_l. fold (IZR xl / 2 ^ N). lra. }
  split.
  - (* lower *)
    apply sqd_spec.
    pose proof (proj1 (hz_encl N xl Hxl0 (2 * j + 1) 1%positive)) as Hl.
    rewrite hornerR_T in Hl.
    pose proof (taylor_lower (2 * j + 1) (IZR xl / 2 ^ N) (odd_2j1 j)
                  ltac:(lra)) as Ht.
    pose proof (exp_le_mono _ _ Hxl) as Hm.
    pose proof (exp_pos r) as Hp.
    destruct (Z.max_spec 0 (hz N false (2 * j + 1) 1 xl)) as [[Hlt Hm']|[Hle Hm']];
      rewrite Hm'.
    + split; [|lra].
      apply le_div_r; [exact HE|]. rewrite Rmult_0_l. apply (IZR_le 0). lia.
    + unfold Rdiv. rewrite Rmult_0_l. lra.
  - (* upper *)
    apply squ_spec.
    pose proof (proj2 (hz_encl N xh Hxh0 (2 * j + 2) 1%positive)) as Hu.
    rewrite hornerR_T in Hu.
    assert (Hxh0' : IZR xh / 2 ^ N <= 0).
    { apply div_le_l; [exact HE|]. rewrite Rmult_0_l. apply (IZR_le xh 0 Hxh0). }
    pose proof (taylor_upper (2 * j + 2) (IZR xh / 2 ^ N) (even_2j2 j) Hxh0') as Ht.
    pose proof (exp_le_mono _ _ Hxh) as Hm.
    pose proof (exp_pos r) as Hp.
    lra.
Qed.

Theorem exp_lo_correct : forall d, (d <= 0)%Q ->
  0 <= Q2R (exp_lo d) <= exp (Q2R d).
Proof. intros d Hd. exact (proj1 (exp_enc_correct 100 4 d Hd)). Qed.

Theorem exp_hi_correct : forall d, (d <= 0)%Q ->
  exp (Q2R d) <= Q2R (exp_hi d).
Proof. intros d Hd. exact (proj2 (exp_enc_correct 100 4 d Hd)). Qed.

(* ------------------------------------------------------------------ *)
(* 8. halvings: |d| / 2^k <= 1/8  (used for tightness only; the        *)
(*    enclosure above is correct for any number of halvings)           *)
(* ------------------------------------------------------------------ *)

Lemma halvings_Z : forall d : Q,
  (Z.abs (Qnum d) * 8 <= Zpos (Qden d) * 2 ^ Z.of_nat (halvings d))%Z.
Proof.
  intros d. unfold halvings.
  set (n := Z.abs (Qnum d)). set (m := Zpos (Qden d)).
  set (K := Z.of_nat (Z.to_nat (Z.log2 n + 4 - Z.log2 m))).
  assert (HK : (Z.log2 n + 4 - Z.log2 m <= K)%Z /\ (0 <= K)%Z) by (unfold K; lia).
  pose proof (Z.log2_nonneg n) as HL. pose proof (Z.log2_nonneg m) as HM.
  assert (Hm : (2 ^ Z.log2 m <= m)%Z) by (apply Z.log2_spec; reflexivity).
  assert (HpK : (0 < 2 ^ K)%Z) by (apply Z.pow_pos_nonneg; lia).
  destruct (Z.eq_dec n 0) as [Hn0|Hn0].
  - rewrite Hn0. unfold m. nia.
  - assert (Hn : (n < 2 ^ Z.succ (Z.log2 n))%Z) by (apply Z.log2_spec; unfold n in *; lia).
    assert (H1 : (n * 8 <= 2 ^ (Z.log2 n + 4))%Z).
    { replace (Z.log2 n + 4)%Z with (Z.succ (Z.log2 n) + 3)%Z by lia.
      rewrite Z.pow_add_r by lia. change (2 ^ 3)%Z with 8%Z. lia. }
    assert (H2 : (2 ^ (Z.log2 n + 4) <= 2 ^ (Z.log2 m + K))%Z)
      by (apply Z.pow_le_mono_r; lia).
    rewrite (Z.pow_add_r 2 (Z.log2 m) K) in H2 by lia.
    assert (H3 : (2 ^ Z.log2 m * 2 ^ K <= m * 2 ^ K)%Z)
      by (apply Z.mul_le_mono_nonneg_r; lia).
    lia.
Qed.

Lemma pow2'_nonzero : forall k, ~ (pow2' k == 0)%Q.
Proof. intros k. unfold pow2', Qeq. simpl. lia. Qed.

Theorem halvings_spec : forall d : Q,
  (Qabs (reduce d) <= 1 # 8)%Q /\ (reduce d * pow2' (halvings d) == d)%Q.
Proof.
  intros d. split.
  - pose proof (halvings_Z d) as H. rewrite <- two_p_Z in H.
    unfold reduce, pow2', Qdiv, Qinv, Qmult, Qabs, Qle. simpl.
    rewrite Z.mul_1_r, Pos2Z.inj_mul. lia.
  - unfold reduce. field. apply pow2'_nonzero.
Qed.

(* the same over the reals *)
Corollary halvings_spec_R : forall d : Q,
  Rabs (Q2R d / 2 ^ halvings d) <= 1 / 8.
Proof.
  intros d. pose proof (halvings_Z d) as H.
  apply IZR_le in H. rewrite !mult_IZR, <- pow_IZR, abs_IZR in H.
  pose proof (pow2_pos (halvings d)) as Hk.
  pose proof (IZR_pos_ge_1 (Qden d)) as Hm.
  unfold Q2R, Rdiv. rewrite !Rabs_mult.
  rewrite (Rabs_right (/ 2 ^ halvings d))
    by (apply Rle_ge; left; apply Rinv_0_lt_compat; exact Hk).
  rewrite (Rabs_right (/ IZR (Zpos (Qden d))))
    by (apply Rle_ge; left; apply Rinv_0_lt_compat; lra).
  fold (Rabs (IZR (Qnum d)) / IZR (Zpos (Qden d))).
  fold (Rabs (IZR (Qnum d)) / IZR (Zpos (Qden d)) / 2 ^ halvings d).
  apply div_le_l; [exact Hk|]. apply div_le_l; [lra|].
  simpl IZR in H. lra.
Qed.

(* ------------------------------------------------------------------ *)
(* 9. The accept decision                                              *)
(* ------------------------------------------------------------------ *)

Lemma Qlt_bool_true : forall a b, Qlt_bool a b = true -> Q2R a < Q2R b.
Proof.
  intros a b H. unfold Qlt_bool in H. apply Bool.negb_true_iff in H.
  apply Qlt_Rlt, Qnot_le_lt. intros Hle.
  apply Qle_bool_iff in Hle. rewrite Hle in H. discriminate H.
Qed.

Lemma decide_p_sound : forall N j u d b, (d <= 0)%Q ->
  decide_p N j u d = Some b ->
  (b = true -> Q2R u < exp (Q2R d)) /\ (b = false -> exp (Q2R d) < Q2R u).
Proof.
  intros N j u d b Hd Hdec.
  destruct (exp_enc_correct N j d Hd) as [[_ Hlo] Hhi].
  unfold exp_lo_p, exp_hi_p in Hlo, Hhi. unfold decide_p in Hdec.
  destruct (exp_enc N j d) as [lo hi]. cbn [fst snd] in Hlo, Hhi.
  destruct (Qlt_bool u lo) eqn:H1.
  - inversion Hdec; subst b. apply Qlt_bool_true in H1.
    split; [intros _; lra | intros Hf; discriminate Hf].
  - destruct (Qlt_bool hi u) eqn:H2; [|discriminate Hdec].
    inversion Hdec; subst b. apply Qlt_bool_true in H2.
    split; [intros Hf; discriminate Hf | intros _; lra].
Qed.

Lemma decide_tiers_sound : forall ts u d b, (d <= 0)%Q ->
  decide_tiers ts u d = Some b ->
  (b = true -> Q2R u < exp (Q2R d)) /\ (b = false -> exp (Q2R d) < Q2R u).
Proof.
  induction ts as [|[N j] ts IHts]; intros u d b Hd Hdec; simpl in Hdec.
  - discriminate Hdec.
  - destruct (decide_p N j u d) as [b'|] eqn:Hp.
    + inversion Hdec; subst b'. exact (decide_p_sound N j u d b Hd Hp).
    + exact (IHts u d b Hd Hdec).
Qed.

Theorem decide_accept_sound : forall u d b,
  decide_accept u d = Some b ->
  (b = true -> Q2R u < exp (Q2R d)) /\ (b = false -> exp (Q2R d) < Q2R u).
Proof.
  intros u d b Hdec. unfold decide_accept in Hdec.
  destruct (Qle_bool 0 d) eqn:H0.
  - destruct (Qlt_bool u 1) eqn:H1; [|discriminate Hdec].
    inversion Hdec; subst b. apply Qlt_bool_true in H1.
    apply Qle_bool_iff, Qle_Rle in H0.
    assert (HQ0 : Q2R 0 = 0) by (unfold Q2R; simpl; lra).
    assert (HQ1 : Q2R 1 = 1) by (unfold Q2R; simpl; lra).
    rewrite HQ0 in H0. rewrite HQ1 in H1.
    pose proof (exp_le_mono 0 (Q2R d) H0) as He. rewrite exp_0 in He.
    split; [intros _; lra | intros Hf; discriminate Hf].
  - apply (decide_tiers_sound tiers u d b); [|exact Hdec].
    apply Qlt_le_weak, Qnot_le_lt. intros Hle.
    apply Qle_bool_iff in Hle. rewrite Hle in H0. discriminate H0.
Qed.

(* ------------------------------------------------------------------ *)
(* 10. Tightness (computed) and non-vacuity                            *)
(* ------------------------------------------------------------------ *)

Definition tight_at (N j : nat) (rel abs : Q) (d : Q) : bool :=
  let (lo, hi) := exp_enc N j d in
  Qle_bool (hi - lo) (rel * hi + abs).

Definition sample_ds : list Q :=
  [-1 # 1000; -1 # 3; -1; -7 # 2; -20; -100; -700; -1000;
   -6004799503160661 # 9007199254740992]%Q.

(* exp_lo / exp_hi (grid 2^-100): gap <= 1e-9 * exp_hi + 2^-90 *)
Example exp_gap_tight :
  forallb (tight_at 100 4 (1 # 1000000000) (1 # 2 ^ 90)) sample_ds = true.
Proof. vm_compute. reflexivity. Qed.

(* the cheap first tier of decide_accept (grid 2^-32): gap <= 1e-6 * hi + 2^-26 *)
Example tier1_gap_tight :
  forallb (tight_at 32 2 (1 # 1000000) (1 # 2 ^ 26)) sample_ds = true.
Proof. vm_compute. reflexivity. Qed.

Example decide_accept_examples :
  decide_accept (1 # 3) (-1) = Some true /\
  decide_accept (2 # 5) (-1) = Some false /\
  decide_accept (1 # 2) 0 = Some true /\
  decide_accept (1 # 1000000) (-20) = Some false /\
  decide_accept (1 # 1000000000) (-20) = Some true.
Proof. vm_compute. repeat split; reflexivity. Qed.

(* ------------------------------------------------------------------ *)
(* 11. Either sign of d                                                *)
(* ------------------------------------------------------------------ *)

Lemma Q2R_0' : Q2R 0 = 0.
Proof. unfold Q2R; simpl; lra. Qed.

Lemma Q2R_1' : Q2R 1 = 1.
Proof. unfold Q2R; simpl; lra. Qed.

Lemma decide_pos_p_sound : forall N j u d b, (0 <= d)%Q ->
  decide_pos_p N j u d = Some b ->
  (b = true -> Q2R u < exp (Q2R d)) /\ (b = false -> exp (Q2R d) < Q2R u).
Proof.
  intros N j u d b Hd Hdec.
  assert (Hd' : (- d <= 0)%Q).
  { apply Rle_Qle. rewrite Q2R_opp, Q2R_0'. apply Qle_Rle in Hd.
    rewrite Q2R_0' in Hd. lra. }
  destruct (exp_enc_correct N j (- d) Hd') as [[Hlo0 Hlo] Hhi].
  unfold exp_lo_p, exp_hi_p in Hlo0, Hlo, Hhi. unfold decide_pos_p in Hdec.
  destruct (exp_enc N j (- d)) as [lo hi]. cbn [fst snd] in Hlo0, Hlo, Hhi.
  rewrite Q2R_opp in Hlo, Hhi.
  pose proof (exp_pos (Q2R d)) as HE. pose proof (exp_pos (- Q2R d)) as He.
  assert (HEe : exp (Q2R d) * exp (- Q2R d) = 1).
  { rewrite <- exp_plus, Rplus_opp_r. apply exp_0. }
  destruct (Qlt_bool (u * hi) 1) eqn:H1.
  - inversion Hdec; subst b. apply Qlt_bool_true in H1.
    rewrite Q2R_mult, Q2R_1' in H1.
    split; [intros _ | intros Hf; discriminate Hf].
    destruct (Rle_or_lt (Q2R u) 0) as [Hu|Hu]; [lra|].
    assert (H2 : Q2R u * exp (- Q2R d) < 1) by nra.
    nra.
  - destruct (Qlt_bool 1 (u * lo)) eqn:H2; [|discriminate Hdec].
    inversion Hdec; subst b. apply Qlt_bool_true in H2.
    rewrite Q2R_mult, Q2R_1' in H2.
    split; [intros Hf; discriminate Hf | intros _].
    assert (Hu : 0 < Q2R u) by nra.
    assert (H3 : 1 < Q2R u * exp (- Q2R d)) by nra.
    nra.
Qed.

Lemma decide_pos_tiers_sound : forall ts u d b, (0 <= d)%Q ->
  decide_pos_tiers ts u d = Some b ->
  (b = true -> Q2R u < exp (Q2R d)) /\ (b = false -> exp (Q2R d) < Q2R u).
Proof.
  induction ts as [|[N j] ts IHts]; intros u d b Hd Hdec; simpl in Hdec.
  - discriminate Hdec.
  - destruct (decide_pos_p N j u d) as [b'|] eqn:Hp.
    + inversion Hdec; subst b'. exact (decide_pos_p_sound N j u d b Hd Hp).
    + exact (IHts u d b Hd Hdec).
Qed.

Theorem decide_accept_any_sound : forall u d b,
  decide_accept_any u d = Some b ->
  (b = true -> Q2R u < exp (Q2R d)) /\ (b = false -> exp (Q2R d) < Q2R u).
Proof.
  intros u d b Hdec. unfold decide_accept_any in Hdec.
  destruct (Qle_bool d 0) eqn:H0.
  - apply Qle_bool_iff in H0. exact (decide_tiers_sound tiers u d b H0 Hdec).
  - assert (Hd : (0 <= d)%Q).
    { apply Qlt_le_weak, Qnot_le_lt. intros Hle.
      apply Qle_bool_iff in Hle. rewrite Hle in H0. discriminate H0. }
    destruct (Qle_bool u 0) eqn:Hu.
    + inversion Hdec; subst b. apply Qle_bool_iff, Qle_Rle in Hu.
      rewrite Q2R_0' in Hu. pose proof (exp_pos (Q2R d)).
      split; [intros _; lra | intros Hf; discriminate Hf].
    + exact (decide_pos_tiers_sound tiers u d b Hd Hdec).
Qed.

Example decide_accept_any_examples :
  decide_accept_any (5 # 2) 1 = Some true /\
  decide_accept_any 3 1 = Some false /\
  decide_accept_any (1 # 3) (-1) = Some true /\
  decide_accept_any (2 # 5) (-1) = Some false.
Proof. vm_compute. repeat split; reflexivity. Qed.
