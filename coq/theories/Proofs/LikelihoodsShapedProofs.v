(* Proofs about the container stage (RealModel/LikelihoodsShaped.v), property C05. *)
From Coq Require Import Reals List ZArith Arith Bool Lra Lia.
From Coquelicot Require Import Coquelicot.
From IT Require Import RealModel.Likelihoods Proofs.LikelihoodsProofs RealModel.LikelihoodsTyped
                       Proofs.LikelihoodsTypedProofs RealModel.LikelihoodsShaped.
Import ListNotations.
Open Scope R_scope.

(* ---------------- squeeze keeps the number of elements ---------------- *)
Lemma squeeze_keeps_size sh : shape_size (squeeze_shape sh) = shape_size sh.
Proof.
  induction sh as [|d sh IH]; simpl; [reflexivity|].
  destruct (Nat.eqb d 1) eqn:E; simpl.
  - apply Nat.eqb_eq in E. subst d. rewrite IH. lia.
  - rewrite IH. reflexivity.
Qed.

Lemma count_size_is_length a : nd_wf a -> count_size a = length (nd_data a).
Proof.
  unfold nd_wf, count_size, nd_size, nd_squeeze. simpl. intros H.
  rewrite squeeze_keeps_size. symmetry. exact H.
Qed.

Lemma accepted_same_length ya sa :
  nd_wf ya -> nd_wf sa -> base_accepts ya sa = true -> length (nd_data ya) = length (nd_data sa).
Proof.
  intros Hy Hs H. unfold base_accepts in H.
  apply andb_prop in H. destruct H as [H _]. apply andb_prop in H. destruct H as [H _].
  apply Nat.eqb_eq in H. unfold nd_size, nd_squeeze in H. simpl in H.
  rewrite !squeeze_keeps_size in H. unfold nd_wf in *. congruence.
Qed.

(* what an accepted container looks like: at most one axis is longer than 1 *)
Lemma accepted_shape ya sa :
  base_accepts ya sa = true ->
  (length (squeeze_shape (nd_shape ya)) <= 1)%nat /\ (length (squeeze_shape (nd_shape sa)) <= 1)%nat.
Proof.
  intros H. unfold base_accepts in H.
  apply andb_prop in H. destruct H as [H H2]. apply andb_prop in H. destruct H as [_ H1].
  apply Nat.leb_le in H1. apply Nat.leb_le in H2. split; assumption.
Qed.

(* ---------------- a shaped input builds the object of its flat contents ---------------- *)
Lemma gauss_init_nd_flat ya sa :
  nd_wf ya -> nd_wf sa -> base_accepts ya sa = true ->
  gauss_init_nd ya sa = gauss_init (nd_data ya) (nd_data sa).
Proof.
  intros Hy Hs H.
  unfold gauss_init_nd, gauss_init_nd_with, gauss_init, gauss_init_with. simpl.
  rewrite (count_size_is_length ya Hy), (accepted_same_length ya sa Hy Hs H). reflexivity.
Qed.

Lemma cauchy_init_nd_flat ya ga : cauchy_init_nd ya ga = cauchy_init (nd_data ya) (nd_data ga).
Proof. reflexivity. Qed.

Lemma logistic_init_nd_flat ya sa : logistic_init_nd ya sa = logistic_init (nd_data ya) (nd_data sa).
Proof. reflexivity. Qed.

(* ---------------- value = textbook density sum, whatever the container ---------------- *)
Lemma shaped_gauss_is_sum_logpdf ya sa fs :
  nd_wf ya -> nd_wf sa -> base_accepts ya sa = true ->
  length (nd_data sa) = length fs -> List.Forall (fun s => 0 < sval s) (nd_data sa) ->
  gauss_call (gauss_init_nd ya sa) fs
  = sum_logpdf gauss_pdf (map sval (nd_data ya)) (map sval (nd_data sa)) fs.
Proof.
  intros Hy Hs H Hf Hp. rewrite gauss_init_nd_flat by assumption.
  apply typed_gauss_is_sum_logpdf; [apply accepted_same_length|..]; assumption.
Qed.

Lemma shaped_cauchy_is_sum_logpdf ya ga fs :
  nd_wf ya -> nd_wf ga -> base_accepts ya ga = true ->
  length (nd_data ga) = length fs -> List.Forall (fun g => 0 < sval g) (nd_data ga) ->
  cauchy_call (cauchy_init_nd ya ga) fs
  = sum_logpdf cauchy_pdf (map sval (nd_data ya)) (map sval (nd_data ga)) fs.
Proof.
  intros Hy Hs H Hf Hp. rewrite cauchy_init_nd_flat.
  apply typed_cauchy_is_sum_logpdf; [apply accepted_same_length|..]; assumption.
Qed.

Lemma shaped_logistic_is_sum_logpdf ya sa fs :
  nd_wf ya -> nd_wf sa -> base_accepts ya sa = true ->
  length (nd_data sa) = length fs -> List.Forall (fun s => 0 < sval s) (nd_data sa) ->
  logistic_call (logistic_init_nd ya sa) fs
  = sum_logpdf (fun mu s y => logistic_pdf mu (s * (sqrt 3 / PI)) y)
               (map sval (nd_data ya)) (map sval (nd_data sa)) fs.
Proof.
  intros Hy Hs H Hf Hp. rewrite logistic_init_nd_flat.
  apply typed_logistic_is_sum_logpdf; [apply accepted_same_length|..]; assumption.
Qed.

(* ---------------- gradient = derivative of the value, whatever the container ---------------- *)
Lemma shaped_gauss_gradient_is_derivative ya sa (F : list (R -> R)) J j t :
  nd_wf ya -> nd_wf sa -> base_accepts ya sa = true ->
  length (nd_data sa) = length F -> length F = length J ->
  List.Forall (fun s => 0 < sval s) (nd_data sa) ->
  (forall i, (i < length F)%nat -> is_derive (nth i F (fun _ => 0)) t (nth j (nth i J []) 0)) ->
  is_derive (fun u => gauss_call (gauss_init_nd ya sa) (map (fun f => f u) F)) t
            (gauss_grad (gauss_init_nd ya sa) (map (fun f => f t) F) J j).
Proof.
  intros Hy Hs H Hf HJ Hp HD. rewrite gauss_init_nd_flat by assumption.
  apply typed_gauss_gradient_is_derivative; [apply accepted_same_length|..]; assumption.
Qed.

Lemma shaped_cauchy_gradient_is_derivative ya ga (F : list (R -> R)) J j t :
  nd_wf ya -> nd_wf ga -> base_accepts ya ga = true ->
  length (nd_data ga) = length F -> length F = length J ->
  List.Forall (fun g => 0 < sval g) (nd_data ga) ->
  (forall i, (i < length F)%nat -> is_derive (nth i F (fun _ => 0)) t (nth j (nth i J []) 0)) ->
  is_derive (fun u => cauchy_call (cauchy_init_nd ya ga) (map (fun f => f u) F)) t
            (cauchy_grad (cauchy_init_nd ya ga) (map (fun f => f t) F) J j).
Proof.
  intros Hy Hs H Hf HJ Hp HD. rewrite cauchy_init_nd_flat.
  apply typed_cauchy_gradient_is_derivative; [apply accepted_same_length|..]; assumption.
Qed.

Lemma shaped_logistic_gradient_is_derivative ya sa (F : list (R -> R)) J j t :
  nd_wf ya -> nd_wf sa -> base_accepts ya sa = true ->
  length (nd_data sa) = length F -> length F = length J ->
  List.Forall (fun s => 0 < sval s) (nd_data sa) ->
  (forall i, (i < length F)%nat -> is_derive (nth i F (fun _ => 0)) t (nth j (nth i J []) 0)) ->
  is_derive (fun u => logistic_call (logistic_init_nd ya sa) (map (fun f => f u) F)) t
            (logistic_grad (logistic_init_nd ya sa) (map (fun f => f t) F) J j).
Proof.
  intros Hy Hs H Hf HJ Hp HD. rewrite logistic_init_nd_flat.
  apply typed_logistic_gradient_is_derivative; [apply accepted_same_length|..]; assumption.
Qed.

(* ---------------- the container does not matter: only the elements do ---------------- *)
Lemma shaped_container_independent ya ya' sa sa' :
  nd_wf ya -> nd_wf sa -> base_accepts ya sa = true ->
  nd_wf ya' -> nd_wf sa' -> base_accepts ya' sa' = true ->
  nd_data ya = nd_data ya' -> nd_data sa = nd_data sa' ->
  gauss_init_nd ya sa = gauss_init_nd ya' sa' /\
  cauchy_init_nd ya sa = cauchy_init_nd ya' sa' /\
  logistic_init_nd ya sa = logistic_init_nd ya' sa'.
Proof.
  intros Hy Hs H Hy' Hs' H' Ey Es.
  rewrite !gauss_init_nd_flat, !cauchy_init_nd_flat, !logistic_init_nd_flat by assumption.
  rewrite Ey, Es. repeat split; reflexivity.
Qed.

(* ---------------- contrast: counting the data by the leading axis ---------------- *)
(* agrees with the size for everything whose first axis is the long one: flat (n), column (n,1),
   (n,1,1), scalars, (1,1) ... *)
Lemma count_leading_ok_trailing_ones d rest a :
  nd_shape a = d :: rest -> shape_size rest = 1%nat -> count_leading a = count_size a.
Proof.
  intros Hs Hr. unfold count_leading, count_size, nd_size, nd_squeeze. simpl.
  rewrite squeeze_keeps_size, Hs. simpl. rewrite Hr. lia.
Qed.

Lemma count_leading_ok_scalar a : nd_shape a = [] -> count_leading a = count_size a.
Proof. intros Hs. unfold count_leading, count_size, nd_size, nd_squeeze. simpl. rewrite Hs. reflexivity. Qed.

(* and is 1 instead of n for every row-like container (1, ...) that holds n <> 1 elements *)
Lemma count_leading_row rest a :
  nd_shape a = 1%nat :: rest -> count_leading a = 1%nat /\ count_size a = shape_size rest.
Proof.
  intros Hs. unfold count_leading, count_size, nd_size, nd_squeeze. simpl.
  rewrite squeeze_keeps_size, Hs. simpl. split; [reflexivity|lia].
Qed.

Lemma ln_2PI_pos : 0 < ln (2 * PI).
Proof.
  rewrite <- ln_1. apply ln_increasing; [lra|].
  pose proof PI2_1 as H. lra.
Qed.

(* the two ways of counting give values that differ by (n - count) * ln(2 pi) / 2 *)
Lemma gauss_call_count_difference count ya sa fs :
  gauss_call (gauss_init_nd_with count ya sa) fs - gauss_call (gauss_init_nd ya sa) fs
  = (1 / 2) * ln (2 * PI) * (INR (count_size ya) - INR (count ya)).
Proof.
  unfold gauss_call, gauss_init_nd, gauss_init_nd_with. simpl. ring.
Qed.

(* for EVERY accepted row-like input with n <> 1 data points the leading-axis count does not give
   the named density *)
Lemma leading_count_refuted_on_rows ya sa fs rest :
  nd_wf ya -> nd_wf sa -> base_accepts ya sa = true ->
  length (nd_data sa) = length fs -> List.Forall (fun s => 0 < sval s) (nd_data sa) ->
  nd_shape ya = 1%nat :: rest -> shape_size rest <> 1%nat ->
  gauss_call (gauss_init_nd_with count_leading ya sa) fs
  <> sum_logpdf gauss_pdf (map sval (nd_data ya)) (map sval (nd_data sa)) fs.
Proof.
  intros Hy Hs H Hf Hp Hsh Hn.
  rewrite <- (shaped_gauss_is_sum_logpdf ya sa fs) by assumption.
  intros E.
  pose proof (gauss_call_count_difference count_leading ya sa fs) as D.
  rewrite E in D. destruct (count_leading_row rest ya Hsh) as [H1 H2]. rewrite H1, H2 in D.
  pose proof ln_2PI_pos as L.
  assert (Hz : INR (shape_size rest) - INR 1 = 0) by nra.
  apply Hn. apply INR_eq. lra.
Qed.

(* a concrete one: two data points 0, 0 handed over as a row (1,2), uncertainties 1, 1 flat,
   predictions 0, 0 *)
Lemma leading_count_gauss_refuted :
  exists ya sa fs, nd_wf ya /\ nd_wf sa /\ base_accepts ya sa = true /\
    length (nd_data sa) = length fs /\ List.Forall (fun s => 0 < sval s) (nd_data sa) /\
    gauss_call (gauss_init_nd_with count_leading ya sa) fs
      <> sum_logpdf gauss_pdf (map sval (nd_data ya)) (map sval (nd_data sa)) fs.
Proof.
  exists {| nd_shape := [1; 2]%nat; nd_data := [SFlt 0; SFlt 0] |},
         {| nd_shape := [2]%nat; nd_data := [SInt 1; SInt 1] |}, [0; 0].
  assert (Hp : List.Forall (fun s => 0 < sval s) [SInt 1; SInt 1]) by (repeat constructor; simpl; lra).
  repeat split; try exact Hp.
  apply (leading_count_refuted_on_rows _ _ _ [2%nat]); try reflexivity; try exact Hp.
  simpl. lia.
Qed.
