(* Proofs/SelectionProofs.v -- lemmas about Matrix/Selection.v at the MathComp
   instance (property C11).  Any realFieldType, any number n of data points. *)
From Coq Require Import QArith.
From mathcomp Require Import all_ssreflect all_algebra fingroup perm.
From mathcomp Require Import ring.
From IT Require Import Matrix.MxOps Matrix.McOps Matrix.GpModel Matrix.Selection Proofs.GpProofs.

Set Implicit Arguments.
Unset Strict Implicit.
Unset Printing Implicit Defensive.

Import Order.TTheory GRing.Theory Num.Theory.
Local Open Scope ring_scope.

Section Sel.
Variable R : realFieldType.
Notation O := (McOps R).

Lemma mxtrace11 (M : 'M[R]_1) : \tr M = M 0 0.
Proof. by rewrite /mxtrace big_ord1. Qed.

Lemma scalar11 (M : 'M[R]_1) (a : R) : M 0 0 = a -> M = a%:M.
Proof. by move=> <-; exact: mx11_scalar. Qed.

(* entries of the entrywise operations *)
Lemma hadE m p (u t : 'M[R]_(m, p)) i j : (mc_had u t) i j = u i j * t i j.
Proof. by rewrite mxE. Qed.
Lemma recipE m p (u : 'M[R]_(m, p)) i j : (mc_recip u) i j = (u i j)^-1.
Proof. by rewrite mxE. Qed.
Lemma diagofE n (M : 'M[R]_n) i : (mc_diagof M) i 0 = M i i.
Proof. by rewrite mxE. Qed.
Lemma addE m p (u t : 'M[R]_(m, p)) i j : (u + t) i j = u i j + t i j.
Proof. by rewrite mxE. Qed.
Lemma subE m p (u t : 'M[R]_(m, p)) i j : (u - t) i j = u i j - t i j.
Proof. by rewrite !mxE. Qed.
Lemma scaleE m p a (u : 'M[R]_(m, p)) i j : (a *: u) i j = a * u i j.
Proof. by rewrite mxE. Qed.
Lemma constE m p a i j : (const_mx a : 'M[R]_(m, p)) i j = a.
Proof. by rewrite mxE. Qed.

(* ---- the inverse obtained from the Cholesky factor -------------------------------- *)
Lemma inv_from_cholE n (L : 'M[R]_n) :
  @inv_from_chol_s O n (invmx L) = (invmx L)^T *m invmx L.
Proof. by rewrite /inv_from_chol_s /= mulmx1. Qed.

Lemma inv_from_chol_closed n (A L : 'M[R]_n) :
  L *m L^T = A -> L \in unitmx -> @inv_from_chol_s O n (invmx L) = invmx A.
Proof. by move=> HL uL; rewrite inv_from_cholE (inv_of_factor HL uL) trmx_inv. Qed.

Lemma sel_alpha_closed n (A L : 'M[R]_n) (y mu : 'cV[R]_n) :
  L *m L^T = A -> L \in unitmx -> @sel_alpha_s O n (invmx L) y mu = invmx A *m (y - mu).
Proof. by move=> HL uL; rewrite /sel_alpha_s (inv_from_chol_closed HL uL). Qed.

Lemma alpha_of_factor n (A L : 'M[R]_n) (y mu : 'cV[R]_n) :
  L *m L^T = A -> L \in unitmx -> @gp_alpha O n L y mu = invmx A *m (y - mu).
Proof. by move=> HL uL; rewrite gp_alphaE (inv_of_factor HL uL) mulmxA. Qed.

(* the two ways the code obtains alpha agree *)
Lemma sel_alpha_eq_gp_alpha n (L : 'M[R]_n) (y mu : 'cV[R]_n) :
  @sel_alpha_s O n (invmx L) y mu = @gp_alpha O n L y mu.
Proof. by rewrite /sel_alpha_s inv_from_cholE gp_alphaE trmx_inv mulmxA. Qed.

(* ---- marginal likelihood: quadratic part ---------------------------------------------- *)
Lemma ml_quadE n (L : 'M[R]_n) (y mu : 'cV[R]_n) :
  @ml_quad O n L y mu = - 2%:R^-1 *: ((invmx L *m (y - mu))^T *m (invmx L *m (y - mu))).
Proof. by rewrite /ml_quad /ml_quad_s /= Q2F_mhalf. Qed.

Lemma ml_quad_closed n (A L : 'M[R]_n) (y mu : 'cV[R]_n) :
  L *m L^T = A -> L \in unitmx ->
  @ml_quad O n L y mu = - 2%:R^-1 *: ((y - mu)^T *m invmx A *m (y - mu)).
Proof.
move=> HL uL; rewrite ml_quadE (inv_of_factor HL uL); congr (_ *: _).
by rewrite trmx_mul trmx_inv !mulmxA.
Qed.

Lemma ml_quad_closed_model n (K S L : 'M[R]_n) (y mu : 'cV[R]_n) :
  L *m L^T = K + S -> L \in unitmx ->
  @ml_quad O n L y mu = @quad_closed O n (@data_cov O n K S) y mu.
Proof.
by move=> HL uL; rewrite (ml_quad_closed _ _ HL uL) /quad_closed /quad_closed_s /= Q2F_mhalf !mulmxA.
Qed.

(* marginal_likelihood and marginal_likelihood_gradient compute the same value
   (no hypothesis on L at all) *)
Lemma mlg_quad_eq_ml_quad n (L : 'M[R]_n) (y mu : 'cV[R]_n) :
  @mlg_quad O n L y mu = @ml_quad O n L y mu.
Proof.
rewrite ml_quadE /mlg_quad /mlg_quad_s /sel_alpha_s inv_from_cholE /= Q2F_mhalf.
by rewrite trmx_mul !mulmxA.
Qed.

(* determinant from the (lower-triangular) Cholesky factor *)
Lemma det_from_chol n (A L : 'M[R]_n) :
  is_trig_mx L -> L *m L^T = A -> \det A = (\prod_i L i i) ^+ 2.
Proof. by move=> tL <-; rewrite det_mulmx det_tr (det_trig tL) expr2. Qed.

Lemma ml_diagE n (L : 'M[R]_n) i : (@ml_diag O n L) i 0 = L i i.
Proof. by rewrite /ml_diag /= mxE. Qed.

(* ---- marginal likelihood: gradient ------------------------------------------------------- *)
Lemma hadsum_trace n (Q dK : 'M[R]_n) :
  @mhadsum O n n Q (dK^T : 'M[R]_n) = (\tr (Q *m dK))%:M.
Proof.
rewrite mhadsumE; congr (_%:M); rewrite /mxtrace.
by apply: eq_bigr => i _; rewrite mxE; apply: eq_bigr => j _; rewrite mxE.
Qed.

Lemma mlg_cov_grad_closed n (A L : 'M[R]_n) (y mu : 'cV[R]_n) (dK : 'M[R]_n) :
  L *m L^T = A -> L \in unitmx ->
  let alpha := invmx A *m (y - mu) in
  @mlg_cov_grad O n L y mu dK = (2%:R^-1 * \tr ((alpha *m alpha^T - invmx A) *m dK))%:M.
Proof.
move=> HL uL alpha.
rewrite /mlg_cov_grad /mlg_cov_grad_s /mlg_Q_s (sel_alpha_closed _ _ HL uL).
rewrite (inv_from_chol_closed HL uL) -/alpha.
rewrite (hadsum_trace (alpha *m alpha^T - invmx A) dK) /=.
by rewrite Q2F_half scale_scalar_mx.
Qed.

Lemma mlg_cov_grad_closed_model n (K S L : 'M[R]_n) (y mu : 'cV[R]_n) (dK : 'M[R]_n) :
  L *m L^T = K + S -> L \in unitmx ->
  @mlg_cov_grad O n L y mu dK = @ml_grad_trace O n (@data_cov O n K S) y mu dK.
Proof.
move=> HL uL; rewrite (mlg_cov_grad_closed _ _ _ HL uL) /ml_grad_trace /ml_grad_trace_s.
by rewrite mtraceE /= Q2F_half scale_scalar_mx.
Qed.

(* tr(alpha alpha^T dA) = alpha^T dA alpha:  the trace form is R&W (5.9)
   1/2 alpha^T dA alpha - 1/2 tr(A^-1 dA) *)
Lemma trace_outer n (alpha : 'cV[R]_n) (dK : 'M[R]_n) :
  \tr (alpha *m alpha^T *m dK) = (alpha^T *m dK *m alpha) 0 0.
Proof. by rewrite -mulmxA mxtrace_mulC mxtrace11. Qed.

Lemma ml_grad_trace_split n (Ai : 'M[R]_n) (alpha : 'cV[R]_n) (dK : 'M[R]_n) :
  2%:R^-1 * \tr ((alpha *m alpha^T - Ai) *m dK)
  = 2%:R^-1 * (alpha^T *m dK *m alpha) 0 0 - 2%:R^-1 * \tr (Ai *m dK).
Proof. by rewrite mulmxBl linearB /= trace_outer mulrBr. Qed.

Lemma mlg_mean_grad_closed n (A L : 'M[R]_n) (y mu dmu : 'cV[R]_n) :
  L *m L^T = A -> L \in unitmx ->
  @mlg_mean_grad O n L y mu dmu = (invmx A *m (y - mu))^T *m dmu.
Proof.
move=> HL uL; rewrite /mlg_mean_grad /mlg_mean_grad_s (sel_alpha_closed _ _ HL uL) msumE.
set alpha := invmx A *m _.
apply/esym/scalar11; rewrite mxE.
by apply: eq_bigr => i _; rewrite !mxE.
Qed.

(* first-order perturbation of the inverse, exact remainder: the algebraic content of
   d(A^-1) = - A^-1 dA A^-1 *)
Lemma inv_first_order n (A dA : 'M[R]_n) (e : R) :
  A \in unitmx ->
  (A + e *: dA) *m (invmx A - e *: (invmx A *m dA *m invmx A))
  = 1%:M - (e ^+ 2) *: (dA *m invmx A *m dA *m invmx A).
Proof.
move=> uA; set M := invmx A *m dA *m invmx A.
rewrite mulmxDl !mulmxBr mulmxV // -!scalemxAl -!scalemxAr scalerA -expr2.
have -> : A *m M = dA *m invmx A by rewrite /M !mulmxA mulmxV // mul1mx.
have -> : dA *m M = dA *m invmx A *m dA *m invmx A by rewrite /M !mulmxA.
by rewrite addrA subrK.
Qed.

(* ---- leave-one-out ------------------------------------------------------------------------ *)
Lemma loo_varE n (L : 'M[R]_n) i :
  (@loo_var O n L) i 0 = (((invmx L)^T *m invmx L) i i)^-1.
Proof. by rewrite /loo_var /loo_var_s inv_from_cholE /= !mxE. Qed.

Lemma loo_var_closed n (A L : 'M[R]_n) i :
  L *m L^T = A -> L \in unitmx -> (@loo_var O n L) i 0 = ((invmx A) i i)^-1.
Proof. by move=> HL uL; rewrite loo_varE -inv_from_cholE (inv_from_chol_closed HL uL). Qed.

Lemma loo_muE n (L : 'M[R]_n) (alpha y : 'cV[R]_n) i :
  (@loo_mu O n L alpha y) i 0 = y i 0 - alpha i 0 * (@loo_var O n L) i 0.
Proof. by rewrite /loo_mu /loo_mu_s /= !mxE. Qed.

(* -- the last point: A = [[B, b], [b^T, c]] -- *)
Section LastPoint.
Variables (n : nat) (B : 'M[R]_n) (b : 'cV[R]_n) (c : R).
Let A : 'M[R]_(n + 1) := block_mx B b b^T c%:M.
Hypothesis uB : B \in unitmx.
Hypothesis uA : A \in unitmx.
Let s : R := c - (b^T *m invmx B *m b) 0 0.
Let w : 'rV[R]_(n + 1) := row_mx (- (b^T *m invmx B)) 1%:M.
Let last : 'I_(n + 1) := rshift n 0.

Lemma w_mul_A : w *m A = s *: delta_mx 0 last.
Proof.
rewrite /w /A mul_row_block !mulNmx mulmxKV // !mul1mx addNr.
have -> : - (b^T *m invmx B *m b) + c%:M = s%:M :> 'M[R]_1.
  by rewrite /s raddfB /= -mx11_scalar addrC.
apply/matrixP=> i j; rewrite ord1 -[j]splitK.
case: (split j) => k /=.
  by rewrite row_mxEl !mxE eqxx /= /last eq_lrshift mulr0.
by rewrite row_mxEr !mxE !ord1 !eqxx mulr1n mulr1.
Qed.

Lemma s_neq0 : s != 0.
Proof.
apply/eqP => s0; have := w_mul_A; rewrite s0 scale0r => /(congr1 (mulmx^~ (invmx A))).
rewrite mulmxK // mul0mx => /matrixP /(_ 0 last).
by rewrite /w /last row_mxEr !mxE eqxx mulr1n => /eqP; rewrite oner_eq0.
Qed.

(* the last row of A^-1 is s^-1 [ -b^T B^-1, 1 ] *)
Lemma last_row_inv : row last (invmx A) = s^-1 *: w.
Proof.
have := congr1 (mulmx^~ (invmx A)) w_mul_A; rewrite mulmxK // -scalemxAl -rowE => ->.
by rewrite scalerA mulVf ?scale1r // s_neq0.
Qed.

Lemma inv_last_last : (invmx A) last last = s^-1.
Proof.
have := congr1 (fun M : 'rV_(n + 1) => M 0 last) last_row_inv.
by rewrite [LHS]mxE [RHS]mxE /w /last row_mxEr mxE eqxx mulr1n mulr1.
Qed.

Lemma alpha_last (r' : 'cV[R]_n) (rn : R) :
  (invmx A *m col_mx r' rn%:M) last 0 = s^-1 * (rn - (b^T *m invmx B *m r') 0 0).
Proof.
have -> : (invmx A *m col_mx r' rn%:M) last 0 = (row last (invmx A) *m col_mx r' rn%:M) 0 0.
  by rewrite -row_mul [RHS]mxE.
rewrite last_row_inv -scalemxAl mxE /w mul_row_col mulNmx mul1mx; congr (_ * _).
by rewrite addrC !mxE eqxx mulr1n.
Qed.

(* loo variance of the last point = c - b^T B^-1 b (the predictive variance of y_n, its
   own noise included in c, from the other points); loo mean = mu_n + b^T B^-1 (y' - mu') *)
Variables (L : 'M[R]_(n + 1)) (y' mu' : 'cV[R]_n) (yn mun : R).
Hypothesis HL : L *m L^T = A.
Hypothesis uL : L \in unitmx.
Let y : 'cV[R]_(n + 1) := col_mx y' yn%:M.
Let mu : 'cV[R]_(n + 1) := col_mx mu' mun%:M.

Lemma loo_var_last : (@loo_var O (n + 1) L) last 0 = c - (b^T *m invmx B *m b) 0 0.
Proof. by rewrite (loo_var_closed _ HL uL) inv_last_last invrK. Qed.

Lemma loo_mu_last :
  (@loo_mu O (n + 1) L (@gp_alpha O (n + 1) L y mu) y) last 0
  = mun + (b^T *m invmx B *m (y' - mu')) 0 0.
Proof.
rewrite loo_muE loo_var_last -/s (alpha_of_factor _ _ HL uL).
have -> : y - mu = col_mx (y' - mu') (yn - mun)%:M.
  by rewrite /y /mu opp_col_mx add_col_mx raddfB.
rewrite alpha_last mulrAC mulVf ?s_neq0 // mul1r.
by rewrite /y /last col_mxEd !mxE eqxx mulr1n -addrA -opprD opprB addrC subrK.
Qed.

(* ... which are exactly C02's closed forms for a regressor fitted to the OTHER points
   and queried at the left-out one: K_qx = b^T, K_qq = c, mu_q = mu_n *)
Lemma loo_last_is_refit :
  ((@loo_mu O (n + 1) L (@gp_alpha O (n + 1) L y mu) y) last 0)%:M
    = @closed_mean O n 1 B y' mu' b^T mun%:M
  /\ ((@loo_var O (n + 1) L) last 0)%:M = @closed_cov O n 1 B b^T c%:M.
Proof.
rewrite loo_mu_last loo_var_last closed_meanE closed_covE trmxK; split.
  by rewrite raddfD /= -mx11_scalar.
by rewrite raddfB /= -mx11_scalar.
Qed.

End LastPoint.

(* -- permuting the data permutes the LOO outputs -- *)
Section LooPerm.
Variables (n : nat) (s : 'S_n).
Let P : 'M[R]_n := perm_mx s.
Variables (A L L' : 'M[R]_n) (y mu : 'cV[R]_n).
Hypothesis HL : L *m L^T = A.
Hypothesis uL : L \in unitmx.
Hypothesis HL' : L' *m L'^T = P *m A *m P^T.
Hypothesis uL' : L' \in unitmx.

Lemma perm_col_entry (v : 'cV[R]_n) i : (P *m v) i 0 = v (s i) 0.
Proof. by rewrite /P -row_permE mxE. Qed.

Lemma perm_conj_entry (M : 'M[R]_n) i j : (P *m M *m P^T) i j = M (s i) (s j).
Proof. by rewrite /P tr_perm_mx -col_permE -row_permE !mxE. Qed.

Lemma loo_var_perm : @loo_var O n L' = P *m @loo_var O n L.
Proof.
apply/matrixP=> i j; rewrite ord1 perm_col_entry.
rewrite (loo_var_closed _ HL' uL') (loo_var_closed _ HL uL).
by rewrite (inv_perm_conj s (unit_of_factor HL uL)) perm_conj_entry.
Qed.

Lemma alpha_perm : @gp_alpha O n L' (P *m y) (P *m mu) = P *m @gp_alpha O n L y mu.
Proof.
rewrite (alpha_of_factor _ _ HL' uL') (alpha_of_factor _ _ HL uL).
rewrite (inv_perm_conj s (unit_of_factor HL uL)) -mulmxBr !mulmxA.
by rewrite -(mulmxA (P *m invmx A)) perm_tr_l mulmx1.
Qed.

Lemma loo_mu_perm :
  @loo_mu O n L' (@gp_alpha O n L' (P *m y) (P *m mu)) (P *m y)
  = P *m @loo_mu O n L (@gp_alpha O n L y mu) y.
Proof.
apply/matrixP=> i j; rewrite ord1 perm_col_entry !loo_muE alpha_perm loo_var_perm.
by rewrite !perm_col_entry.
Qed.

End LooPerm.

(* -- every point: move point i to the last position -- *)
Section EveryPoint.
Variables (n : nat) (A L : 'M[R]_(n + 1)) (y mu : 'cV[R]_(n + 1)) (i : 'I_(n + 1)).
Hypothesis HL : L *m L^T = A.
Hypothesis uL : L \in unitmx.
Let last : 'I_(n + 1) := rshift n 0.
Let P : 'M[R]_(n + 1) := perm_mx (tperm last i).
Let A' := P *m A *m P^T.
Let y' := P *m y.
Let mu' := P *m mu.
(* the covariance of the OTHER points (point i has been exchanged with the last one) *)
Hypothesis uB : ulsubmx A' \in unitmx.

Lemma loo_every_point :
  ((@loo_mu O (n + 1) L (@gp_alpha O (n + 1) L y mu) y) i 0)%:M
    = @closed_mean O n 1 (ulsubmx A') (usubmx y') (usubmx mu') (ursubmx A')^T (dsubmx mu')
  /\ ((@loo_var O (n + 1) L) i 0)%:M
    = @closed_cov O n 1 (ulsubmx A') (ursubmx A')^T (drsubmx A').
Proof.
set B := ulsubmx A'; set b := ursubmx A'; pose c := (drsubmx A') 0 0.
have sA : A^T = A by exact: (sym_of_factor HL).
have sA' : A'^T = A' by rewrite /A' !trmx_mul trmxK sA mulmxA.
have A'E : A' = block_mx B b b^T c%:M.
  rewrite -[LHS]submxK -/B -/b; congr block_mx.
    by rewrite /b trmx_ursub sA'.
  by rewrite /c -mx11_scalar.
pose L' := P *m L.
have HL' : L' *m L'^T = P *m A *m P^T by rewrite /L' trmx_mul !mulmxA -(mulmxA P) HL.
have uL' : L' \in unitmx by rewrite unitmx_mul unitmx_perm uL.
have uA' : block_mx B b b^T c%:M \in unitmx.
  by rewrite -A'E; exact: (unit_of_factor HL' uL').
have HL'' : L' *m L'^T = block_mx B b b^T c%:M by rewrite HL' -/A' A'E.
have yE : P *m y = col_mx (usubmx y') ((dsubmx y') 0 0)%:M.
  by rewrite -mx11_scalar vsubmxK.
have muE : P *m mu = col_mx (usubmx mu') ((dsubmx mu') 0 0)%:M.
  by rewrite -mx11_scalar vsubmxK.
have iE (v : 'cV[R]_(n + 1)) : v i 0 = (P *m v) last 0.
  by rewrite /P -row_permE mxE tpermL.
have := loo_last_is_refit uB uA' (usubmx y') (usubmx mu')
          ((dsubmx y') 0 0) ((dsubmx mu') 0 0) HL'' uL'.
rewrite -yE -muE -(mx11_scalar (dsubmx mu')).
rewrite (loo_mu_perm y mu HL uL HL' uL') (loo_var_perm HL uL HL' uL') -!iE.
by rewrite /c -mx11_scalar.
Qed.

End EveryPoint.

(* -- the LOO score is the sum of the Gaussian log-densities of the LOO predictions -- *)
Lemma loo_quad_value n (L : 'M[R]_n) (y mu : 'cV[R]_n) :
  (forall i, (@loo_var O n L) i 0 != 0) ->
  let m := @loo_mu O n L (@gp_alpha O n L y mu) y in
  let v := @loo_var O n L in
  @loo_quad O n L y mu = (- 2%:R^-1 * \sum_i (y i 0 - m i 0) ^+ 2 / v i 0)%:M.
Proof.
move=> v0 m v.
pose iK := (invmx L)^T *m invmx L; pose a := iK *m (y - mu).
have vE i : v i 0 = (iK i i)^-1 by rewrite /v loo_varE.
have mE i : y i 0 - m i 0 = a i 0 * v i 0.
  by rewrite /m loo_muE -sel_alpha_eq_gp_alpha /sel_alpha_s inv_from_cholE opprB addrC subrK.
rewrite /loo_quad /loo_quad_s /loo_var_s /sel_alpha_s inv_from_cholE msumE -/iK -/a.
rewrite /= Q2F_mhalf scale_scalar_mx; congr (_ * _)%:M; apply: eq_bigr => i _.
have hadE (u t : 'cV[R]_n) : (mc_had u t) i 0 = u i 0 * t i 0 by rewrite mxE.
have recE : (mc_recip (mc_diagof iK)) i 0 = v i 0 by rewrite vE !mxE.
rewrite mE !hadE recE -[iK *m (y - mu)]/a.
by rewrite exprMn [in RHS]expr2 [v i 0 ^+ 2]expr2 [in RHS]mulrA mulfK ?v0 // mulrC.
Qed.

(* -- the LOO gradient expressions are R&W (5.13), term by term -- *)
Lemma loo_cov_grad_form n (L : 'M[R]_n) (y mu : 'cV[R]_n) (dK : 'M[R]_n) :
  let iK := (invmx L)^T *m invmx L in
  let alpha := iK *m (y - mu) in
  let Z := iK *m dK in
  (forall i, iK i i != 0) ->
  @loo_cov_grad O n L y mu dK
  = (\sum_i (alpha i 0 * (Z *m alpha) i 0
             - 2%:R^-1 * (1 + alpha i 0 ^+ 2 / iK i i) * (Z *m iK) i i) / iK i i)%:M.
Proof.
move=> iK alpha Z d0.
rewrite /loo_cov_grad /loo_cov_grad_s /loo_c1_s /loo_c2_s /loo_var_s /sel_alpha_s inv_from_cholE.
rewrite -/iK -/alpha -/Z msumE; congr (_%:M); apply: eq_bigr => i _.
rewrite /= subE !hadE !recipE !diagofE addE scaleE constE !hadE !recipE !diagofE Q2F_half Q2F_1.
move: (alpha i 0) (iK i i) (d0 i) ((Z *m alpha) i 0) ((Z *m iK) i i) => a k k0 za zk.
by field.
Qed.

Lemma loo_mean_grad_form n (L : 'M[R]_n) (y mu dmu : 'cV[R]_n) :
  let iK := (invmx L)^T *m invmx L in
  let alpha := iK *m (y - mu) in
  @loo_mean_grad O n L y mu dmu = (\sum_i alpha i 0 * (iK *m dmu) i 0 / iK i i)%:M.
Proof.
move=> iK alpha.
rewrite /loo_mean_grad /loo_mean_grad_s /loo_c1_s /loo_var_s /sel_alpha_s inv_from_cholE.
rewrite -/iK -/alpha msumE; congr (_%:M); apply: eq_bigr => i _.
by rewrite /= !hadE recipE diagofE mulrAC.
Qed.

End Sel.

(* ---- multistart: the best of the optimiser's results ------------------------------------- *)
Section Multi.
Variable R : realFieldType.
Variable X : eqType.
Let leb (a b : R) : bool := a <= b.

Lemma best_of_spec (rs : seq (X * R)) :
  match best_of leb rs with
  | None => rs = [::]
  | Some b => b \in rs /\ forall r, r \in rs -> b.2 <= r.2
  end.
Proof.
elim: rs => [|r rs IH] //=.
case: (best_of leb rs) IH => [b [bin bmin]|->] /=; last first.
  by split=> [|r']; rewrite ?inE ?eqxx // => /eqP ->.
rewrite /leb; case: (leP r.2 b.2) => rb; split.
- by rewrite inE eqxx.
- move=> r'; rewrite inE => /orP [/eqP -> //|/bmin]; exact: le_trans.
- by rewrite inE bin orbT.
- move=> r'; rewrite inE => /orP [/eqP ->|/bmin //]; exact: ltW.
Qed.

(* the contract of the local optimiser (fmin_l_bfgs_b on the negated score, started
   inside the box): it reports the cost of the point it returns, does not end worse than
   it started, and stays inside the bounds *)
Variables (cost : X -> R) (launch : X -> X * R) (inbox : pred X).
Definition optimiser_contract (x0 : X) : Prop :=
  inbox x0 -> [/\ (launch x0).2 = cost (launch x0).1, (launch x0).2 <= cost x0 & inbox (launch x0).1].

Lemma multistart_not_worse (starts : seq X) (centre : X) :
  centre \in starts -> all inbox starts ->
  (forall x0, x0 \in starts -> optimiser_contract x0) ->
  exists sol, [/\ multistart leb launch starts = Some sol, cost sol <= cost centre & inbox sol].
Proof.
move=> cin /allP allin contract.
rewrite /multistart.
have := best_of_spec [seq launch x | x <- starts].
case: (best_of leb _) => [b [/mapP [x0 x0in ->] bmin]|/eqP]; last first.
  by rewrite -size_eq0 size_map size_eq0 => /eqP s0; rewrite s0 in cin.
exists (launch x0).1; have [e1 _ e3] := contract _ x0in (allin _ x0in); split=> //.
have [_ c2 _] := contract _ cin (allin _ cin).
rewrite -e1; apply: le_trans c2.
by apply: bmin; apply/mapP; exists centre.
Qed.

End Multi.

(* the centre is one of the starting positions *)
Lemma centre_in_starts (T : eqType) (add sub mul : T -> T -> T) (half : T) lwr upr us :
  ms_centre add mul half lwr upr \in ms_starts add sub mul half lwr upr us.
Proof. by rewrite /ms_starts mem_cat inE eqxx orbT. Qed.
