(* Normalisation of the Gaussian density (closes the gap named in C05.v, C06.v, C12.v).

   Everything follows from the finite form of the Gaussian integral proved in
   Proofs/GaussianProofs.v:   PI/4 - exp(-x^2) <= (gE x)^2 <= PI/4   with
   gE x = int_0^x exp(-t^2) dt.  Letting x -> +infinity gives gE -> sqrt PI / 2,
   hence Phi -> 1 at +infinity and Phi -> 0 at -infinity; the Gaussian density with
   location mu and width s has the antiderivative  x |-> Phi ((x - mu) / s), and the
   exact kernel-density estimate of RealModel/Kde.v has the antiderivative
   kde_cdf N 0 h ys  (average of such terms).

   Kde.v has its own phi / Phi (same functions, written with a division); they are
   shown equal to the ones of Acquisition.v, which are the ones used below.      *)
From Coq Require Import Reals Lra Psatz List QArith Qreals.
From Coquelicot Require Import Coquelicot.
From IT Require Import RealModel.Acquisition Proofs.AcquisitionProofs Proofs.GaussianProofs
                       RealModel.Likelihoods.
From IT Require RealModel.Kde.
Open Scope R_scope.

(* ------------------------------------------------------------------ *)
(* affine maps at infinity                                              *)
Lemma filterlim_lin_pp a c : 0 < a ->
  filterlim (fun x => a * x + c) (Rbar_locally' p_infty) (Rbar_locally' p_infty).
Proof.
  intros Ha P [M HM]. exists ((M - c) / a). intros x Hx. apply HM.
  apply (Rmult_lt_compat_r a) in Hx; [ | exact Ha].
  unfold Rdiv in Hx. rewrite Rmult_assoc, Rinv_l in Hx by lra. lra.
Qed.

Lemma filterlim_lin_mm a c : 0 < a ->
  filterlim (fun x => a * x + c) (Rbar_locally' m_infty) (Rbar_locally' m_infty).
Proof.
  intros Ha P [M HM]. exists ((M - c) / a). intros x Hx. apply HM.
  apply (Rmult_lt_compat_r a) in Hx; [ | exact Ha].
  unfold Rdiv in Hx. rewrite Rmult_assoc, Rinv_l in Hx by lra. lra.
Qed.

Lemma filterlim_opp_pm :
  filterlim (fun x => - x) (Rbar_locally' p_infty) (Rbar_locally' m_infty).
Proof. intros P [M HM]. exists (- M). intros x Hx. apply HM. lra. Qed.

Lemma filterlim_opp_mp :
  filterlim (fun x => - x) (Rbar_locally' m_infty) (Rbar_locally' p_infty).
Proof. intros P [M HM]. exists (- M). intros x Hx. apply HM. lra. Qed.

Lemma is_lim_comp_lin_pp (f : R -> R) (l : Rbar) a c : 0 < a ->
  is_lim f p_infty l -> is_lim (fun x => f (a * x + c)) p_infty l.
Proof.
  intros Ha Hf. unfold is_lim in *.
  eapply filterlim_comp; [exact (filterlim_lin_pp a c Ha) | exact Hf].
Qed.

Lemma is_lim_comp_lin_mm (f : R -> R) (l : Rbar) a c : 0 < a ->
  is_lim f m_infty l -> is_lim (fun x => f (a * x + c)) m_infty l.
Proof.
  intros Ha Hf. unfold is_lim in *.
  eapply filterlim_comp; [exact (filterlim_lin_mm a c Ha) | exact Hf].
Qed.

Lemma is_lim_comp_opp_pm (f : R -> R) (l : Rbar) :
  is_lim f m_infty l -> is_lim (fun x => f (- x)) p_infty l.
Proof.
  intros Hf. unfold is_lim in *.
  eapply filterlim_comp; [exact filterlim_opp_pm | exact Hf].
Qed.

Lemma is_lim_comp_opp_mp (f : R -> R) (l : Rbar) :
  is_lim f p_infty l -> is_lim (fun x => f (- x)) m_infty l.
Proof.
  intros Hf. unfold is_lim in *.
  eapply filterlim_comp; [exact filterlim_opp_mp | exact Hf].
Qed.

(* ------------------------------------------------------------------ *)
(* 1. the Gaussian integral                                             *)
Lemma exp_msq_lim : is_lim (fun x => exp (- (x * x))) p_infty 0.
Proof.
  apply (is_lim_le_le_loc (fun _ => 0) (fun x => / x)).
  - exists 1. intros x Hx. split; [left; apply exp_pos | ].
    rewrite exp_Ropp. apply Rinv_le_contravar; [lra | ].
    assert (Hne : x * x <> 0) by nra.
    pose proof (exp_ineq1 (x * x) Hne) as H1. nra.
  - apply is_lim_const.
  - assert (H : is_lim (fun y => / y) p_infty (Rbar_inv p_infty)).
    { apply (is_lim_inv (fun y => y)); [apply is_lim_id | discriminate]. }
    exact H.
Qed.

Lemma gE_lim : is_lim gE p_infty (sqrt PI / 2).
Proof.
  pose proof sqrt_PI_pos as Hs. pose proof sqrt_PI_sq as Hss.
  apply (is_lim_le_le_loc (fun x => sqrt PI / 2 - 2 / sqrt PI * exp (- (x * x)))
                          (fun _ => sqrt PI / 2)).
  - exists 0. intros x Hx.
    pose proof (gE_nonneg x (Rlt_le _ _ Hx)) as He0.
    pose proof (gE_sq_upper x) as Hup. pose proof (gE_sq_lower x) as Hlo.
    pose proof (exp_pos (- (x * x))) as Hg.
    set (e := gE x) in *. set (s := sqrt PI) in *. set (g := exp (- (x * x))) in *.
    assert (Hes : e <= s / 2) by nra.
    split; [ | exact Hes].
    assert (H1 : (s / 2 - e) * (s / 2) <= g) by nra.
    assert (H2 : s / 2 - e <= 2 / s * g).
    { apply (Rmult_le_reg_r (s / 2)); [lra | ].
      replace (2 / s * g * (s / 2)) with g by (field; lra). exact H1. }
    lra.
  - assert (H : is_lim (fun x => sqrt PI / 2 - 2 / sqrt PI * exp (- (x * x))) p_infty
                       (sqrt PI / 2 - 2 / sqrt PI * 0)).
    { apply is_lim_minus'; [apply is_lim_const | ].
      exact (is_lim_scal_l (fun x => exp (- (x * x))) (2 / sqrt PI) p_infty 0 exp_msq_lim). }
    replace (sqrt PI / 2 - 2 / sqrt PI * 0) with (sqrt PI / 2) in H by ring. exact H.
  - apply is_lim_const.
Qed.

Theorem gauss_integral_limit :
  is_lim (fun x => RInt (fun t => exp (- t ^ 2)) 0 x) p_infty (sqrt PI / 2).
Proof.
  apply (is_lim_ext gE); [ | exact gE_lim].
  intros x. unfold gE. apply RInt_ext. intros t _. f_equal. ring.
Qed.

(* ------------------------------------------------------------------ *)
(* 2. the standard normal law                                           *)
Lemma ir2_pos : 0 < ir2.
Proof. unfold ir2. apply Rdiv_lt_0_compat; [lra | apply sqrt_2_pos]. Qed.

Lemma Phi_lim_p : is_lim Phi p_infty 1.
Proof.
  pose proof sqrt_PI_pos as Hs.
  apply (is_lim_ext (fun z => 1 / 2 + / sqrt PI * gE (ir2 * z + 0))).
  { intros z. unfold Phi. rewrite RInt_phi_gE.
    replace (ir2 * z + 0) with (z * ir2) by ring. field. lra. }
  assert (H : is_lim (fun z => 1 / 2 + / sqrt PI * gE (ir2 * z + 0)) p_infty
                     (1 / 2 + / sqrt PI * (sqrt PI / 2))).
  { apply is_lim_plus'; [apply is_lim_const | ].
    apply (is_lim_scal_l (fun z => gE (ir2 * z + 0)) (/ sqrt PI) p_infty (sqrt PI / 2)).
    apply (is_lim_comp_lin_pp gE); [exact ir2_pos | exact gE_lim]. }
  replace (1 / 2 + / sqrt PI * (sqrt PI / 2)) with 1 in H by (field; lra). exact H.
Qed.

Lemma Phi_lim_m : is_lim Phi m_infty 0.
Proof.
  apply (is_lim_ext (fun z => 1 - Phi (- z))).
  { intros z. rewrite Phi_opp. ring. }
  assert (H : is_lim (fun z => 1 - Phi (- z)) m_infty (1 - 1)).
  { apply is_lim_minus'; [apply is_lim_const | ].
    apply (is_lim_comp_opp_mp Phi). exact Phi_lim_p. }
  replace (1 - 1) with 0 in H by ring. exact H.
Qed.

Lemma phi_is_RInt a b : is_RInt phi a b (Phi b - Phi a).
Proof.
  apply (is_RInt_derive (V:=R_CompleteNormedModule) Phi phi).
  - intros x _. apply Phi_derive.
  - intros x _. apply phi_continuous.
Qed.

Lemma Phi_bounds z : 0 < Phi z < 1.
Proof.
  split; [apply Phi_pos | ].
  pose proof (Phi_pos (- z)) as H. rewrite Phi_opp in H. lra.
Qed.

Theorem std_normal_total :
  is_lim (fun b => RInt (fun t => / sqrt (2 * PI) * exp (- t ^ 2 / 2)) (- b) b) p_infty 1.
Proof.
  apply (is_lim_ext (fun b => 2 * Phi b - 1)).
  { intros b. rewrite (RInt_ext _ phi).
    2:{ intros t _. unfold phi. do 2 f_equal. unfold Rdiv. f_equal. ring. }
    rewrite (is_RInt_unique _ _ _ _ (phi_is_RInt (- b) b)). rewrite Phi_opp. ring. }
  assert (H : is_lim (fun b => 2 * Phi b - 1) p_infty (2 * 1 - 1)).
  { apply is_lim_minus'; [ | apply is_lim_const].
    exact (is_lim_scal_l Phi 2 p_infty 1 Phi_lim_p). }
  replace (2 * 1 - 1) with 1 in H by ring. exact H.
Qed.

(* ------------------------------------------------------------------ *)
(* what normalised_pdf gives for symmetric windows around any centre    *)
Lemma normalised_pdf_symmetric pdf c : normalised_pdf pdf ->
  is_lim (fun b => RInt pdf (c - b) (c + b)) p_infty 1.
Proof.
  intros [_ [cdf [HI [Hm Hp]]]].
  apply (is_lim_ext (fun b => cdf (1 * b + c) - cdf (- (1 * b + - c)))).
  { intros b. symmetry. apply is_RInt_unique.
    replace (1 * b + c) with (c + b) by ring.
    replace (- (1 * b + - c)) with (c - b) by ring. apply HI. }
  assert (H : is_lim (fun b => cdf (1 * b + c) - cdf (- (1 * b + - c))) p_infty (1 - 0)).
  { apply is_lim_minus'.
    - apply (is_lim_comp_lin_pp cdf); [lra | exact Hp].
    - apply (is_lim_comp_lin_pp (fun x => cdf (- x))); [lra | ].
      apply (is_lim_comp_opp_pm cdf). exact Hm. }
  replace (1 - 0) with 1 in H by ring. exact H.
Qed.

(* ------------------------------------------------------------------ *)
(* 3. gauss_pdf mu s  (RealModel/Likelihoods.v; also the density of the
      Gaussian prior, RealModel/Priors.v : coord_logpdf KGauss)          *)
Definition gauss_cdf (mu s x : R) : R := Phi ((x - mu) / s).

Lemma gauss_pdf_phi mu s x : 0 < s -> gauss_pdf mu s x = / s * phi ((x - mu) / s).
Proof.
  intros Hs. unfold gauss_pdf, phi. pose proof sqrt_2PI_pos as H2.
  replace (- ((x - mu) ^ 2) / (2 * s ^ 2)) with (- ((x - mu) / s * ((x - mu) / s)) / 2)
    by (field; lra).
  field. split; lra.
Qed.

Lemma gauss_pdf_pos mu s x : 0 < s -> 0 < gauss_pdf mu s x.
Proof.
  intros Hs. rewrite gauss_pdf_phi by exact Hs.
  apply Rmult_lt_0_compat; [apply Rinv_0_lt_compat, Hs | apply phi_pos].
Qed.

Lemma gauss_cdf_derive mu s x : 0 < s -> is_derive (gauss_cdf mu s) x (gauss_pdf mu s x).
Proof.
  intros Hs. rewrite gauss_pdf_phi by exact Hs. unfold gauss_cdf.
  assert (Hg : is_derive (fun x0 : R => (x0 - mu) / s) x (/ s)).
  { auto_derive; [exact I | field; lra]. }
  pose proof (is_derive_comp Phi (fun x0 => (x0 - mu) / s) x _ _ (Phi_derive _) Hg) as H.
  exact H.
Qed.

Lemma gauss_pdf_continuous mu s x : 0 < s -> continuous (gauss_pdf mu s) x.
Proof.
  intros Hs. apply (ex_derive_continuous (K:=R_AbsRing) (V:=R_NormedModule)).
  unfold gauss_pdf. pose proof sqrt_2PI_pos as H2. pose proof two_PI_pos as H3.
  auto_derive. repeat split; try lra; try nra.
Qed.

Lemma gauss_pdf_is_RInt mu s a b : 0 < s ->
  is_RInt (gauss_pdf mu s) a b (gauss_cdf mu s b - gauss_cdf mu s a).
Proof.
  intros Hs. apply (is_RInt_derive (V:=R_CompleteNormedModule) (gauss_cdf mu s) (gauss_pdf mu s)).
  - intros x _. apply gauss_cdf_derive, Hs.
  - intros x _. apply gauss_pdf_continuous, Hs.
Qed.

Lemma gauss_cdf_lim_p mu s : 0 < s -> is_lim (gauss_cdf mu s) p_infty 1.
Proof.
  intros Hs. apply (is_lim_ext (fun x => Phi (/ s * x + - mu / s))).
  { intros x. unfold gauss_cdf. f_equal. field. lra. }
  apply (is_lim_comp_lin_pp Phi); [apply Rinv_0_lt_compat, Hs | exact Phi_lim_p].
Qed.

Lemma gauss_cdf_lim_m mu s : 0 < s -> is_lim (gauss_cdf mu s) m_infty 0.
Proof.
  intros Hs. apply (is_lim_ext (fun x => Phi (/ s * x + - mu / s))).
  { intros x. unfold gauss_cdf. f_equal. field. lra. }
  apply (is_lim_comp_lin_mm Phi); [apply Rinv_0_lt_compat, Hs | exact Phi_lim_m].
Qed.

Theorem gauss_pdf_normalised mu s : 0 < s -> normalised_pdf (gauss_pdf mu s).
Proof.
  intros Hs. split.
  - intros x. left. apply gauss_pdf_pos, Hs.
  - exists (gauss_cdf mu s). split; [ | split].
    + intros a b. apply gauss_pdf_is_RInt, Hs.
    + apply gauss_cdf_lim_m, Hs.
    + apply gauss_cdf_lim_p, Hs.
Qed.

Theorem gauss_pdf_total mu s : 0 < s ->
  (forall x, 0 <= gauss_pdf mu s x) /\
  is_lim (fun b => RInt (gauss_pdf mu s) (mu - b) (mu + b)) p_infty 1.
Proof.
  intros Hs. split.
  - intros x. left. apply gauss_pdf_pos, Hs.
  - apply normalised_pdf_symmetric, gauss_pdf_normalised, Hs.
Qed.

(* ------------------------------------------------------------------ *)
(* 4. the exact kernel-density estimate of RealModel/Kde.v              *)
Lemma kde_phi_eq t : Kde.phi t = phi t.
Proof. unfold Kde.phi, phi. pose proof sqrt_2PI_pos. field. lra. Qed.

Lemma kde_Phi_eq z : Kde.Phi z = Phi z.
Proof.
  unfold Kde.Phi, Phi. f_equal. apply RInt_ext. intros t _. apply kde_phi_eq.
Qed.

Lemma kde_kernel_phi h x y : Kde.kernel h x y = sqrt (2 * PI) * phi ((x - y) / h).
Proof. unfold Kde.kernel, phi. pose proof sqrt_2PI_pos. field. lra. Qed.

Lemma kde_csum_cons h y ys x :
  Kde.csum h (y :: ys) x = Phi ((x - y) / h) + Kde.csum h ys x.
Proof. unfold Kde.csum. simpl. now rewrite kde_Phi_eq. Qed.

Lemma kde_ksum_cons h y ys x :
  Kde.ksum h (y :: ys) x = Kde.kernel h x y + Kde.ksum h ys x.
Proof. reflexivity. Qed.

Lemma kde_csum_derive h ys x : 0 < h ->
  is_derive (Kde.csum h ys) x (Kde.ksum h ys x / (sqrt (2 * PI) * h)).
Proof.
  intros Hh. pose proof sqrt_2PI_pos as H2. induction ys as [ | y ys IH].
  - simpl. replace (0 / (sqrt (2 * PI) * h)) with 0 by (field; lra).
    apply (is_derive_const (K:=R_AbsRing) (V:=R_NormedModule) 0 x).
  - apply (is_derive_ext (fun x0 => Phi ((x0 - y) / h) + Kde.csum h ys x0)).
    { intros t. symmetry. apply kde_csum_cons. }
    rewrite kde_ksum_cons, kde_kernel_phi.
    replace ((sqrt (2 * PI) * phi ((x - y) / h) + Kde.ksum h ys x) / (sqrt (2 * PI) * h))
      with (plus (scal (/ h) (phi ((x - y) / h))) (Kde.ksum h ys x / (sqrt (2 * PI) * h))).
    2:{ unfold plus, scal; simpl. unfold mult; simpl. field. lra. }
    apply (is_derive_plus (fun x0 => Phi ((x0 - y) / h)) (Kde.csum h ys)); [ | exact IH].
    apply (is_derive_comp Phi (fun x0 => (x0 - y) / h)); [apply Phi_derive | ].
    auto_derive; [exact I | field; lra].
Qed.

Lemma kde_ksum_continuous h ys x : 0 < h -> continuous (Kde.ksum h ys) x.
Proof.
  intros Hh. induction ys as [ | y ys IH].
  - apply continuous_const.
  - apply (continuous_ext (fun x0 => Kde.kernel h x0 y + Kde.ksum h ys x0)).
    { intros t. reflexivity. }
    apply (continuous_plus (fun x0 => Kde.kernel h x0 y) (Kde.ksum h ys)); [ | exact IH].
    apply (ex_derive_continuous (K:=R_AbsRing) (V:=R_NormedModule)).
    unfold Kde.kernel. auto_derive. lra.
Qed.

Lemma kde_csum_lim_p h ys : 0 < h -> is_lim (Kde.csum h ys) p_infty (INR (length ys)).
Proof.
  intros Hh. induction ys as [ | y ys IH].
  - exact (is_lim_const 0 p_infty).
  - apply (is_lim_ext (fun x => Phi (/ h * x + - y / h) + Kde.csum h ys x)).
    { intros x. rewrite kde_csum_cons. do 2 f_equal. field. lra. }
    change (length (y :: ys)) with (S (length ys)). rewrite S_INR.
    replace (INR (length ys) + 1) with (1 + INR (length ys)) by ring.
    apply is_lim_plus'; [ | exact IH].
    apply (is_lim_comp_lin_pp Phi); [apply Rinv_0_lt_compat, Hh | exact Phi_lim_p].
Qed.

Lemma kde_csum_lim_m h ys : 0 < h -> is_lim (Kde.csum h ys) m_infty 0.
Proof.
  intros Hh. induction ys as [ | y ys IH].
  - exact (is_lim_const 0 m_infty).
  - apply (is_lim_ext (fun x => Phi (/ h * x + - y / h) + Kde.csum h ys x)).
    { intros x. rewrite kde_csum_cons. do 2 f_equal. field. lra. }
    replace 0 with (0 + 0) by ring.
    apply is_lim_plus'; [ | exact IH].
    apply (is_lim_comp_lin_mm Phi); [apply Rinv_0_lt_compat, Hh | exact Phi_lim_m].
Qed.

(* the exact cdf of Kde.v (offset 0, whole sample) is an antiderivative of the
   exact pdf, for any normalising count N <> 0 *)
Lemma kde_cdf_derive N h ys x : IZR N <> 0 -> 0 < h ->
  is_derive (Kde.kde_cdf N 0 h ys) x (Kde.kde_pdf N h ys x).
Proof.
  intros HN Hh. pose proof sqrt_2PI_pos as H2.
  apply (is_derive_ext (fun x0 => / IZR N * Kde.csum h ys x0)).
  { assert (E : forall t : R, / IZR N * Kde.csum h ys t = Kde.kde_cdf N 0 h ys t).
    { intros t. unfold Kde.kde_cdf. field. exact HN. }
    exact E. }
  unfold Kde.kde_pdf, Kde.kde_norm.
  replace (Kde.ksum h ys x * / (IZR N * sqrt (2 * PI) * h))
    with (scal (/ IZR N) (Kde.ksum h ys x / (sqrt (2 * PI) * h))).
  2:{ unfold scal; simpl. unfold mult; simpl. field. repeat split; lra. }
  apply (is_derive_scal (Kde.csum h ys) x (/ IZR N)). apply kde_csum_derive, Hh.
Qed.

Lemma kde_pdf_continuous N h ys x : 0 < h -> continuous (Kde.kde_pdf N h ys) x.
Proof.
  intros Hh. unfold Kde.kde_pdf.
  apply (continuous_ext (fun x0 => scal (Kde.kde_norm N h) (Kde.ksum h ys x0))).
  { intros t. unfold scal; simpl. unfold mult; simpl. ring. }
  apply (continuous_scal_r (Kde.kde_norm N h) (Kde.ksum h ys)).
  apply kde_ksum_continuous, Hh.
Qed.

Lemma kde_pdf_is_RInt N h ys a b : IZR N <> 0 -> 0 < h ->
  is_RInt (Kde.kde_pdf N h ys) a b (Kde.kde_cdf N 0 h ys b - Kde.kde_cdf N 0 h ys a).
Proof.
  intros HN Hh.
  apply (is_RInt_derive (V:=R_CompleteNormedModule) (Kde.kde_cdf N 0 h ys) (Kde.kde_pdf N h ys)).
  - intros x _. apply kde_cdf_derive; assumption.
  - intros x _. apply kde_pdf_continuous, Hh.
Qed.

Lemma kde_cdf_lim_m N h ys : 0 < h -> is_lim (Kde.kde_cdf N 0 h ys) m_infty 0.
Proof.
  intros Hh. unfold Kde.kde_cdf.
  assert (H : is_lim (fun x => 0 + Kde.csum h ys x * / IZR N) m_infty (0 + / IZR N * 0)).
  { apply is_lim_plus'; [apply is_lim_const | ].
    apply (is_lim_ext (fun x => / IZR N * Kde.csum h ys x)); [intros x; ring | ].
    exact (is_lim_scal_l (Kde.csum h ys) (/ IZR N) m_infty 0 (kde_csum_lim_m h ys Hh)). }
  replace (0 + / IZR N * 0) with 0 in H by ring. exact H.
Qed.

Lemma kde_cdf_lim_p h ys : ys <> nil -> 0 < h ->
  is_lim (Kde.kde_cdf (Z.of_nat (length ys)) 0 h ys) p_infty 1.
Proof.
  intros Hne Hh. unfold Kde.kde_cdf.
  assert (Hn : 0 < INR (length ys)).
  { apply lt_0_INR. destruct ys; [congruence | simpl; apply Nat.lt_0_succ]. }
  rewrite <- INR_IZR_INZ.
  set (n := INR (length ys)) in *.
  assert (H : is_lim (fun x => 0 + Kde.csum h ys x * / n) p_infty (0 + / n * n)).
  { apply is_lim_plus'; [apply is_lim_const | ].
    apply (is_lim_ext (fun x => / n * Kde.csum h ys x)); [intros x; ring | ].
    exact (is_lim_scal_l (Kde.csum h ys) (/ n) p_infty n (kde_csum_lim_p h ys Hh)). }
  replace (0 + / n * n) with 1 in H by (field; lra). exact H.
Qed.

Lemma kde_pdf_exact_nonneg N h ys x : 0 < IZR N -> 0 < h -> 0 <= Kde.kde_pdf N h ys x.
Proof.
  intros HN Hh. unfold Kde.kde_pdf. pose proof sqrt_2PI_pos as H2.
  apply Rmult_le_pos.
  - induction ys as [ | y ys IH]; [simpl; lra | ].
    rewrite kde_ksum_cons. unfold Kde.kernel at 1.
    pose proof (exp_pos (- ((x - y) / h * ((x - y) / h)) / 2)). lra.
  - unfold Kde.kde_norm. left. apply Rinv_0_lt_compat.
    apply Rmult_lt_0_compat; [apply Rmult_lt_0_compat | ]; assumption.
Qed.

Theorem kde_exact_normalised h ys : ys <> nil -> 0 < h ->
  normalised_pdf (Kde.kde_pdf (Z.of_nat (length ys)) h ys).
Proof.
  intros Hne Hh.
  assert (HN : 0 < IZR (Z.of_nat (length ys))).
  { rewrite <- INR_IZR_INZ. apply lt_0_INR.
    destruct ys; [congruence | simpl; apply Nat.lt_0_succ]. }
  split.
  - intros x. apply kde_pdf_exact_nonneg; assumption.
  - exists (Kde.kde_cdf (Z.of_nat (length ys)) 0 h ys). split; [ | split].
    + intros a b. apply kde_pdf_is_RInt; [lra | exact Hh].
    + apply kde_cdf_lim_m, Hh.
    + apply kde_cdf_lim_p; assumption.
Qed.

Theorem kde_exact_total h ys c : ys <> nil -> 0 < h ->
  is_lim (fun b => RInt (Kde.kde_pdf (Z.of_nat (length ys)) h ys) (c - b) (c + b)) p_infty 1.
Proof.
  intros Hne Hh. apply normalised_pdf_symmetric, kde_exact_normalised; assumption.
Qed.

(* the same, for the two "exact" read-outs of Kde.v on rational inputs: they are
   the values at Q2R x of a normalised density and of its distribution function *)
Theorem kde_exact_at_normalised (sample : list Q) (h : Q) : sample <> nil -> (0 < h)%Q ->
  let f := Kde.kde_pdf (Z.of_nat (length sample)) (Q2R h) (map Q2R sample) in
  let F := Kde.kde_cdf (Z.of_nat (length sample)) 0 (Q2R h) (map Q2R sample) in
  (forall x, Kde.pdf_exact_at sample h x = f (Q2R x)) /\
  (forall x, Kde.cdf_exact_at sample h x = F (Q2R x)) /\
  (forall x, 0 <= f x) /\
  (forall a b, is_RInt f a b (F b - F a)) /\
  is_lim F m_infty 0 /\ is_lim F p_infty 1 /\
  is_lim (fun b => RInt f (- b) b) p_infty 1.
Proof.
  intros Hne Hh. cbv zeta.
  assert (HhR : 0 < Q2R h) by (apply Qlt_Rlt in Hh; rewrite RMicromega.Q2R_0 in Hh; exact Hh).
  assert (Hne' : map Q2R sample <> nil) by (destruct sample; [congruence | discriminate]).
  rewrite <- (map_length Q2R sample).
  pose proof (kde_exact_normalised (Q2R h) (map Q2R sample) Hne' HhR) as Hn.
  assert (HN : 0 < IZR (Z.of_nat (length (map Q2R sample)))).
  { rewrite <- INR_IZR_INZ. apply lt_0_INR.
    destruct (map Q2R sample); [congruence | simpl; apply Nat.lt_0_succ]. }
  split; [ | split; [ | split; [ | split; [ | split; [ | split]]]]].
  - intros x. unfold Kde.pdf_exact_at. now rewrite map_length.
  - intros x. unfold Kde.cdf_exact_at. now rewrite map_length.
  - apply Hn.
  - intros a b. apply kde_pdf_is_RInt; [lra | exact HhR].
  - apply kde_cdf_lim_m, HhR.
  - apply kde_cdf_lim_p; assumption.
  - apply (is_lim_ext (fun b => RInt (Kde.kde_pdf (Z.of_nat (length (map Q2R sample))) (Q2R h)
                                        (map Q2R sample)) (0 - b) (0 + b))).
    { intros b. f_equal; ring. }
    apply normalised_pdf_symmetric, Hn.
Qed.

(* ------------------------------------------------------------------ *)
(* the kernel cdf of Kde.v satisfies the tail hypotheses of
   C12_cdf_truncation_bound_partial, with eps = (2/PI) exp(-(7/2)^2/2)   *)
Definition kde_tail_eps : R := 2 / PI * exp (- ((7 / 2) * (7 / 2)) / 2).

Theorem kde_Phi_tail_property :
  (forall t, 0 <= Kde.Phi t <= 1) /\
  (forall t, 7 / 2 <= t -> 1 - kde_tail_eps <= Kde.Phi t) /\
  (forall t, t <= - (7 / 2) -> Kde.Phi t <= kde_tail_eps).
Proof.
  assert (Hlow : forall t, t <= - (7 / 2) -> Phi t <= kde_tail_eps).
  { intros t Ht. destruct (Phi_tail_bounds t) as [_ Hup]; [lra | ].
    eapply Rle_trans; [exact Hup | ]. unfold kde_tail_eps. pose proof PI_RGT_0 as Hpi.
    apply Rmult_le_compat_l; [apply Rlt_le, Rdiv_lt_0_compat; lra | ].
    apply exp_le_mono. nra. }
  split; [ | split].
  - intros t. rewrite kde_Phi_eq. pose proof (Phi_bounds t). lra.
  - intros t Ht. rewrite kde_Phi_eq.
    pose proof (Hlow (- t)) as H. rewrite Phi_opp in H. lra.
  - intros t Ht. rewrite kde_Phi_eq. apply Hlow, Ht.
Qed.
