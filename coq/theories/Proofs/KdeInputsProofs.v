(* Lemmas about Model/KdeInputs.v (object histories, integer dtypes) and the shift / scale
   covariance of the real-valued kernel sums of RealModel/Kde.v  (property C12). *)
From Coq Require Import Reals List ZArith QArith Qreals Bool Lia Lra.
From IT Require Import Model.KdeRegions Model.KdeInputs Proofs.KdeRegionsProofs RealModel.Kde Proofs.KdeProofs.
Import ListNotations.

(* ====================================================================== *)
(* 1. object histories                                                    *)
(* ====================================================================== *)
Lemma wf_init cells : wf (init_world cells).
Proof. intros r []. Qed.

Lemma step_ests_prefix w ev : exists tl, w_ests (step false w ev) = w_ests w ++ tl.
Proof.
  destruct ev; simpl; try (exists []; rewrite app_nil_r; reflexivity).
  unfold construct; simpl. eexists; reflexivity.
Qed.

Lemma step_own_prefix w ev : exists tl, w_own (step false w ev) = w_own w ++ tl.
Proof.
  destruct ev; simpl; try (exists []; rewrite app_nil_r; reflexivity).
  unfold construct; simpl. eexists; reflexivity.
Qed.

Lemma step_wf w ev : wf w -> wf (step false w ev).
Proof.
  intros Hwf. destruct ev; simpl; try exact Hwf.
  unfold construct; simpl. intros r Hin. simpl in Hin.
  apply in_app_or in Hin. destruct Hin as [Hin | [Heq | []]].
  - destruct (Hwf r Hin) as [i [Hr Hi]]. exists i. split; [exact Hr|].
    simpl. rewrite app_length. simpl. lia.
  - exists (length (w_own w)). split; [symmetry; exact Heq|].
    simpl. rewrite app_length. simpl. lia.
Qed.

Lemma run_wf evs : forall w, wf w -> wf (run false w evs).
Proof.
  induction evs as [|ev evs IH]; intros w Hwf; simpl; [exact Hwf|].
  apply IH. apply step_wf. exact Hwf.
Qed.

Lemma wf_nth_error w k r : wf w -> nth_error (w_ests w) k = Some r ->
  exists i, r = ROwn i /\ (i < length (w_own w))%nat.
Proof. intros Hwf H. apply Hwf. eapply nth_error_In. exact H. Qed.

(* one event never changes what an existing estimator holds *)
Lemma step_frozen w ev k : wf w -> (k < length (w_ests w))%nat ->
  est_sample (step false w ev) k = est_sample w k.
Proof.
  intros Hwf Hk. unfold est_sample.
  destruct (nth_error (w_ests w) k) as [r|] eqn:Hr.
  2:{ apply nth_error_None in Hr. lia. }
  destruct (wf_nth_error w k r Hwf Hr) as [i [-> Hi]].
  destruct ev; simpl; try (rewrite Hr; reflexivity).
  unfold construct; simpl.
  rewrite nth_error_app1 by exact Hk. rewrite Hr. simpl.
  apply app_nth1. exact Hi.
Qed.

Lemma step_ests_length w ev : (length (w_ests w) <= length (w_ests (step false w ev)))%nat.
Proof. destruct (step_ests_prefix w ev) as [tl ->]. rewrite app_length. lia. Qed.

Theorem run_frozen evs : forall w k, wf w -> (k < length (w_ests w))%nat ->
  est_sample (run false w evs) k = est_sample w k.
Proof.
  induction evs as [|ev evs IH]; intros w k Hwf Hk; simpl; [reflexivity|].
  rewrite IH.
  - apply step_frozen; assumption.
  - apply step_wf; exact Hwf.
  - pose proof (step_ests_length w ev). lia.
Qed.

(* the constructor stores the sorted values of what it is handed *)
Lemma construct_sample w src sel :
  est_sample (construct false w src sel) (length (w_ests w)) =
  QSort.sort (gather (nth src (w_caller w) []) sel).
Proof.
  unfold est_sample, construct; simpl.
  rewrite nth_error_app2 by lia. rewrite Nat.sub_diag. simpl.
  rewrite app_nth2 by lia. rewrite Nat.sub_diag. reflexivity.
Qed.

Lemma construct_ests_length w src sel :
  length (w_ests (construct false w src sel)) = S (length (w_ests w)).
Proof. unfold construct; simpl. rewrite app_length. simpl. lia. Qed.

(* whatever the caller did before and does afterwards, the estimator holds the sorted values
   it was handed at the moment of construction *)
Theorem history_faithful (w : world) (src : nat) (sel : list nat) (evs : list event) :
  wf w ->
  est_sample (run false w (EConstruct src sel :: evs)) (length (w_ests w)) =
  QSort.sort (gather (nth src (w_caller w) []) sel).
Proof.
  intros Hwf. simpl.
  rewrite run_frozen.
  - apply construct_sample.
  - apply (step_wf w (EConstruct src sel)). exact Hwf.
  - rewrite construct_ests_length. lia.
Qed.

(* construction and evaluation never write to the caller's arrays *)
Lemma construct_caller alias w src sel : w_caller (construct alias w src sel) = w_caller w.
Proof. unfold construct. destruct (alias && _); reflexivity. Qed.

Lemma eval_world alias w k : step alias w (EEval k) = w.
Proof. reflexivity. Qed.

(* the constructor that keeps a view of an ordered array is told apart by a 2-event history *)
Theorem alias_constructor_refuted :
  exists (cells : list (list Q)) (src : nat) (sel : list nat) (evs : list event),
    est_sample (run true (init_world cells) (EConstruct src sel :: evs)) 0 <>
    QSort.sort (gather (nth src cells []) sel).
Proof.
  exists [[1; 2; 3]%Q], 0%nat, [0; 1; 2]%nat, [EAffine 0 2 0].
  vm_compute. discriminate.
Qed.

(* the density computed from the stored sample *)
Definition pdf_of_stored (n : nat) (s : list Q) (h x : Q) : R :=
  kde_pdf (Z.of_nat (length s)) (Q2R h) (map Q2R (region_slice n s h (region_of n s x))) (Q2R x).

Lemma pdf_code_at_stored n sample h x : pdf_code_at n sample h x = pdf_of_stored n (QSort.sort sample) h x.
Proof. reflexivity. Qed.

Theorem history_pdf_faithful (w : world) (src : nat) (sel : list nat) (evs : list event)
        (h x : Q) (n : nat) :
  wf w ->
  let given := gather (nth src (w_caller w) []) sel in
  let s := est_sample (run false w (EConstruct src sel :: evs)) (length (w_ests w)) in
  given <> [] -> (0 < h)%Q -> (srange (QSort.sort given) <= pow2 n * h)%Q ->
  (0 <= pdf_exact_at given h x - pdf_of_stored n s h x <=
    (INR (length s - length (region_slice n s h (region_of n s x))) / INR (length s)) *
    (exp (- ((7 / 2) * (7 / 2)) / 2) / (Q2R h * sqrt (2 * PI))))%R.
Proof.
  intros Hwf given s Hne Hh Hcov.
  assert (Hs : s = QSort.sort given) by (apply history_faithful; exact Hwf).
  rewrite Hs. rewrite <- pdf_code_at_stored.
  exact (pdf_truncation_bound_sorted given h x n Hne Hh Hcov).
Qed.

(* ====================================================================== *)
(* 2. integer dtypes                                                      *)
(* ====================================================================== *)
Open Scope Z_scope.

Lemma range_width t : tmax t - tmin t + 1 = 2 ^ bits t.
Proof. destruct t; reflexivity. Qed.

Lemma in_range_iff t z : in_range t z = true <-> tmin t <= z <= tmax t.
Proof. unfold in_range. rewrite andb_true_iff, !Z.leb_le. tauto. Qed.

Lemma wrap_id t z : in_range t z = true -> wrap t z = z.
Proof.
  intros H. apply in_range_iff in H. unfold wrap.
  pose proof (range_width t) as W.
  rewrite Z.mod_small; lia.
Qed.

Lemma wrap_in_range t z : in_range t (wrap t z) = true.
Proof.
  apply in_range_iff. unfold wrap.
  pose proof (range_width t) as W.
  assert (0 < 2 ^ bits t) by (destruct t; reflexivity).
  pose proof (Z.mod_pos_bound (z - tmin t) (2 ^ bits t) H). lia.
Qed.

Theorem dx_pinned_exact tx ts w x s :
  promote tx ts = Some w -> in_range w (x - s) = true -> dx_pinned tx ts x s = x - s.
Proof. intros Hp Hr. unfold dx_pinned. rewrite Hp. apply wrap_id. exact Hr. Qed.

Theorem dx_pinned_refuted :
  (exists x s, in_range U8 x = true /\ in_range U8 s = true /\ dx_pinned U8 U8 x s <> x - s) /\
  (exists x s, in_range I8 x = true /\ in_range I8 s = true /\ dx_pinned I8 I8 x s <> x - s) /\
  (exists x s, in_range I64 x = true /\ in_range I64 s = true /\ dx_pinned I64 I64 x s <> x - s).
Proof.
  split; [|split].
  - exists 10, 200. repeat split; vm_compute; discriminate.
  - exists 100, (-100). repeat split; vm_compute; discriminate.
  - exists (2 ^ 62), (- 2 ^ 62). repeat split; vm_compute; discriminate.
Qed.

(* squaring in the integer type: wraps as soon as |dx| > 3.04e9 *)
Theorem sq_in_type_refuted :
  exists dx, in_range I64 dx = true /\ Z.abs dx < 2 ^ 32 /\ sq_in_type I64 dx < 0.
Proof. exists 3037000500. repeat split; vm_compute; reflexivity. Qed.

Lemma sq_in_type_exact w dx : in_range w (dx * dx) = true -> sq_in_type w dx = dx * dx.
Proof. apply wrap_id. Qed.

Lemma sgn_mul_abs z : Z.sgn z * Z.abs z = z.
Proof. rewrite Z.mul_comm. apply Z.abs_sgn. Qed.

(* int -> binary64 *)
Theorem to_double_exact z : Z.abs z <= 2 ^ 53 -> to_double z = z.
Proof.
  intros H. unfold to_double.
  destruct (Z.eq_dec (Z.abs z) (2 ^ 53)) as [E|NE].
  - rewrite E. rewrite Z.log2_pow2 by lia.
    change (53 - 52) with 1. change (1 <=? 0) with false. cbv iota.
    change (2 ^ 53 / 2 ^ 1) with (2 ^ 52). change (2 ^ 53 mod 2 ^ 1) with 0.
    change (2 ^ (1 - 1)) with 1. change (0 <? 1) with true. cbv iota.
    change (2 ^ 52 * 2 ^ 1) with (2 ^ 53). rewrite <- E. apply sgn_mul_abs.
  - assert (L : Z.log2 (Z.abs z) <= 52).
    { destruct (Z.eq_dec (Z.abs z) 0) as [Z0|NZ].
      - rewrite Z0. simpl. lia.
      - assert (Z.log2 (Z.abs z) < 53); [|lia].
        apply Z.log2_lt_pow2; lia. }
    destruct (Z.leb_spec (Z.log2 (Z.abs z) - 52) 0); [reflexivity|lia].
Qed.

Theorem to_double_error z : Z.abs (to_double z - z) <= 2 ^ (Z.log2 (Z.abs z) - 53).
Proof.
  unfold to_double.
  set (a := Z.abs z). set (e := Z.log2 a - 52).
  destruct (Z.leb_spec e 0) as [Le|Lt].
  - rewrite Z.sub_diag. simpl. apply Z.pow_nonneg. lia.
  - set (P := 2 ^ e). set (H := 2 ^ (e - 1)).
    assert (HP : P = 2 * H).
    { unfold P, H. replace e with (Z.succ (e - 1)) at 1 by lia. rewrite Z.pow_succ_r by lia. reflexivity. }
    assert (Hpos : 0 < H) by (unfold H; apply Z.pow_pos_nonneg; lia).
    assert (Ppos : 0 < P) by lia.
    pose proof (Z.div_mod a P ltac:(lia)) as DM.
    pose proof (Z.mod_pos_bound a P Ppos) as MB.
    set (q := a / P) in *. set (r := a mod P) in *.
    replace (Z.log2 a - 53) with (e - 1) by (unfold e; lia). fold H.
    assert (Key : forall q', Z.abs (q' * P - a) <= H -> Z.abs (Z.sgn z * (q' * P) - z) <= H).
    { intros q' Hq. replace z with (Z.sgn z * a) at 2 by (unfold a; apply sgn_mul_abs).
      rewrite <- Z.mul_sub_distr_l. rewrite Z.abs_mul.
      assert (Z.abs (Z.sgn z) <= 1) by (destruct z; simpl; lia).
      pose proof (Z.abs_nonneg (q' * P - a)).
      pose proof (Z.abs_nonneg (Z.sgn z)). nia. }
    apply Key.
    destruct (Z.ltb_spec r H).
    + replace (q * P - a) with (- r) by lia. rewrite Z.abs_opp, Z.abs_eq; lia.
    + destruct (Z.ltb_spec H r).
      * replace ((q + 1) * P - a) with (P - r) by lia. rewrite Z.abs_eq; lia.
      * assert (r = H) by lia.
        destruct (Z.even q).
        -- replace (q * P - a) with (- r) by lia. rewrite Z.abs_opp, Z.abs_eq; lia.
        -- replace ((q + 1) * P - a) with (P - r) by lia. rewrite Z.abs_eq; lia.
Qed.

(* every 8 / 16 / 32-bit integer is a binary64 number *)
Theorem narrow_int_exact t z : bits t <= 32 -> in_range t z = true -> to_double z = z.
Proof.
  intros Hb Hr. apply to_double_exact. apply in_range_iff in Hr.
  destruct t; vm_compute in Hb; try (exfalso; apply Hb; reflexivity);
    unfold tmin, tmax in Hr; simpl in Hr; lia.
Qed.

Theorem dx_repaired_exact x s : Z.abs x <= 2 ^ 53 -> Z.abs s <= 2 ^ 53 -> dx_repaired x s = x - s.
Proof. intros Hx Hs. unfold dx_repaired. rewrite !to_double_exact by assumption. reflexivity. Qed.

Close Scope Z_scope.

(* ====================================================================== *)
(* 3. shift / scale covariance of the kernel sums (user bandwidth a*h)    *)
(* ====================================================================== *)
Open Scope R_scope.

Lemma kernel_affine a b h x y : a <> 0 -> h <> 0 ->
  kernel (a * h) (a * x + b) (a * y + b) = kernel h x y.
Proof.
  intros Ha Hh. unfold kernel. f_equal.
  replace ((a * x + b - (a * y + b)) / (a * h)) with ((x - y) / h) by (field; split; assumption).
  reflexivity.
Qed.

Lemma ksum_affine a b h ys x : a <> 0 -> h <> 0 ->
  ksum (a * h) (map (fun y => a * y + b) ys) (a * x + b) = ksum h ys x.
Proof.
  intros Ha Hh. induction ys as [|y ys IH]; simpl; [reflexivity|].
  rewrite kernel_affine by assumption. rewrite IH. reflexivity.
Qed.

Lemma csum_affine a b h ys x : a <> 0 -> h <> 0 ->
  csum (a * h) (map (fun y => a * y + b) ys) (a * x + b) = csum h ys x.
Proof.
  intros Ha Hh. induction ys as [|y ys IH]; simpl; [reflexivity|].
  replace ((a * x + b - (a * y + b)) / (a * h)) with ((x - y) / h) by (field; split; assumption).
  rewrite IH. reflexivity.
Qed.

Lemma sqrt_2PI_neq : sqrt (2 * PI) <> 0.
Proof.
  apply Rgt_not_eq. apply sqrt_lt_R0. pose proof PI_RGT_0. lra.
Qed.

Theorem kde_pdf_affine (N : Z) a b h ys x : (0 < N)%Z -> 0 < a -> 0 < h ->
  kde_pdf N (a * h) (map (fun y => a * y + b) ys) (a * x + b) = kde_pdf N h ys x / a.
Proof.
  intros HN Ha Hh. unfold kde_pdf. rewrite ksum_affine by lra.
  unfold kde_norm. field.
  repeat split; try lra; try apply sqrt_2PI_neq.
  apply not_0_IZR. lia.
Qed.

Theorem kde_cdf_affine (N : Z) off a b h ys x : 0 < a -> 0 < h ->
  kde_cdf N off (a * h) (map (fun y => a * y + b) ys) (a * x + b) = kde_cdf N off h ys x.
Proof. intros Ha Hh. unfold kde_cdf. rewrite csum_affine by lra. reflexivity. Qed.

Lemma map_Q2R_affine (a b : Q) (s : list Q) :
  map Q2R (map (fun v => (a * v + b)%Q) s) = map (fun y => Q2R a * y + Q2R b) (map Q2R s).
Proof.
  rewrite !map_map. apply map_ext. intros v. rewrite Q2R_plus, Q2R_mult. reflexivity.
Qed.

(* the exact estimate of a*s + b with bandwidth a*h at a*x + b, for every rational a > 0, b *)
Theorem pdf_exact_affine (a b : Q) (s : list Q) (h x : Q) : s <> [] -> (0 < a)%Q -> (0 < h)%Q ->
  pdf_exact_at (map (fun v => (a * v + b)%Q) s) (a * h)%Q (a * x + b)%Q = pdf_exact_at s h x / Q2R a.
Proof.
  intros Hne Ha Hh. unfold pdf_exact_at.
  rewrite map_length, map_Q2R_affine, Q2R_plus, !Q2R_mult.
  apply kde_pdf_affine.
  - destruct s; [contradiction|]. simpl length. lia.
  - replace 0 with (Q2R 0) by (unfold Q2R; simpl; field). apply Qlt_Rlt. exact Ha.
  - replace 0 with (Q2R 0) by (unfold Q2R; simpl; field). apply Qlt_Rlt. exact Hh.
Qed.

Theorem cdf_exact_affine (a b : Q) (s : list Q) (h x : Q) : (0 < a)%Q -> (0 < h)%Q ->
  cdf_exact_at (map (fun v => (a * v + b)%Q) s) (a * h)%Q (a * x + b)%Q = cdf_exact_at s h x.
Proof.
  intros Ha Hh. unfold cdf_exact_at.
  rewrite map_length, map_Q2R_affine, Q2R_plus, !Q2R_mult.
  apply kde_cdf_affine.
  - replace 0 with (Q2R 0) by (unfold Q2R; simpl; field). apply Qlt_Rlt. exact Ha.
  - replace 0 with (Q2R 0) by (unfold Q2R; simpl; field). apply Qlt_Rlt. exact Hh.
Qed.
