(* Lemmas about Model/OptimiserWorld.v: several optimisers alive in one process *)
From Coq Require Import List QArith Qminmax Bool Arith Lia.
From IT Require Import Model.Optimiser Model.OptimiserWorld Proofs.OptimiserProofs.
Import ListNotations.
Open Scope Q_scope.

(* ---------------- upd ---------------- *)
Lemma upd_length {A} (l : list A) : forall i a, length (upd l i a) = length l.
Proof.
  induction l as [ | b l IH]; intros i a; [reflexivity | ].
  destruct i; simpl; [reflexivity | now rewrite IH].
Qed.

Lemma upd_same {A} (l : list A) : forall i a, (i < length l)%nat -> nth_error (upd l i a) i = Some a.
Proof.
  induction l as [ | b l IH]; intros i a H; [simpl in H; lia | ].
  destruct i; simpl; [reflexivity | apply IH; simpl in H; lia].
Qed.

Lemma upd_other {A} (l : list A) : forall i j a, i <> j -> nth_error (upd l i a) j = nth_error l j.
Proof.
  induction l as [ | b l IH]; intros i j a H; [reflexivity | ].
  destruct i; destruct j; simpl; try reflexivity; try congruence.
  apply IH. congruence.
Qed.

Lemma nth_error_lt {A} (l : list A) i a : nth_error l i = Some a -> (i < length l)%nat.
Proof. intros H. apply nth_error_Some. congruence. Qed.

Lemma nth_error_snoc {A} (l : list A) a i b :
  nth_error (l ++ [a]) i = Some b ->
  (i < length l /\ nth_error l i = Some b)%nat \/ (i = length l /\ b = a).
Proof.
  intros H. destruct (Nat.lt_ge_cases i (length l)) as [Hl | Hl].
  - left. split; [exact Hl | ]. now rewrite nth_error_app1 in H.
  - right. rewrite nth_error_app2 in H by exact Hl.
    destruct (i - length l)%nat as [ | k] eqn:E.
    + simpl in H. split; [lia | congruence].
    + simpl in H. destruct k; discriminate.
Qed.

(* ---------------- one step keeps the other optimisers as they were ---------------- *)
Lemma wstep_opt w op w1 i o :
  wstep w op = Some w1 -> nth_error (w_opts w) i = Some o ->
  match op with
  | W_add j nx ny ne =>
      if Nat.eqb j i
      then exists st', add_evaluation (o_state o) nx ny ne = Some st' /\
                       nth_error (w_opts w1) i = Some (mk_opt st' (o_acq o))
      else nth_error (w_opts w1) i = Some o
  | _ => nth_error (w_opts w1) i = Some o
  end.
Proof.
  intros H Hi. destruct op as [ | a x y e | j nx ny ne | j]; simpl in H.
  - inversion H; subst; simpl. exact Hi.
  - destruct (acq_target (w_heap w) a) as [heap r].
    destruct (Nat.ltb r (length heap)); [ | discriminate].
    inversion H; subst; simpl. rewrite nth_error_app1; [exact Hi | ].
    eapply nth_error_lt; eassumption.
  - destruct (nth_error (w_opts w) j) as [oj | ] eqn:Ej; [ | discriminate].
    destruct (add_evaluation (o_state oj) nx ny ne) as [st' | ] eqn:Ea; [ | discriminate].
    inversion H; subst; simpl.
    destruct (Nat.eqb j i) eqn:Eji.
    + apply Nat.eqb_eq in Eji; subst j. rewrite Hi in Ej. inversion Ej; subst oj.
      exists st'. split; [exact Ea | ]. apply upd_same. eapply nth_error_lt; eassumption.
    + apply Nat.eqb_neq in Eji. rewrite upd_other by exact Eji. exact Hi.
  - destruct (nth_error (w_opts w) j); [ | discriminate]. inversion H; subst. exact Hi.
Qed.

(* every optimiser's data are the result of ITS OWN evaluations, whatever else happened
   in the process in between *)
Lemma wrun_projection ops : forall w w',
  wrun w ops = Some w' ->
  forall i o, nth_error (w_opts w) i = Some o ->
  exists o', nth_error (w_opts w') i = Some o' /\ o_acq o' = o_acq o /\
             add_all (o_state o) (adds_of i ops) = Some (o_state o').
Proof.
  induction ops as [ | op ops IH]; intros w w' H i o Hi; simpl in H.
  - inversion H; subst. exists o. split; [exact Hi | split; reflexivity].
  - destruct (wstep w op) as [w1 | ] eqn:E1; [ | discriminate].
    pose proof (wstep_opt _ _ _ _ _ E1 Hi) as S.
    destruct op as [ | a x y e | j nx ny ne | j]; simpl adds_of;
      try (destruct (IH _ _ H _ _ S) as (o' & A & B & D); exists o'; repeat split; assumption).
    destruct (Nat.eqb j i) eqn:Eji.
    + destruct S as (st' & Ea & S).
      destruct (IH _ _ H _ _ S) as (o' & A & B & D). exists o'. simpl in *.
      repeat split; try assumption. rewrite Ea. exact D.
    + destruct (IH _ _ H _ _ S) as (o' & A & B & D). exists o'. repeat split; assumption.
Qed.

Lemma wrun_app a : forall w b,
  wrun w (a ++ b) = match wrun w a with Some w1 => wrun w1 b | None => None end.
Proof.
  induction a as [ | o a IH]; intros w b; simpl; [reflexivity | ].
  destruct (wstep w o); [apply IH | reflexivity].
Qed.

(* the same for an optimiser that is constructed in the middle of the history *)
Lemma wrun_projection_new pre a x y e post w w' :
  wrun w (pre ++ W_new a x y e :: post) = Some w' ->
  exists w1, wrun w pre = Some w1 /\
  exists o', nth_error (w_opts w') (length (w_opts w1)) = Some o' /\
             add_all (init_state x y e) (adds_of (length (w_opts w1)) post) = Some (o_state o').
Proof.
  intros H. rewrite wrun_app in H.
  destruct (wrun w pre) as [w1 | ] eqn:E1; [ | discriminate].
  exists w1. split; [reflexivity | ].
  simpl in H. destruct (acq_target (w_heap w1) a) as [heap r] eqn:Et.
  destruct (Nat.ltb r (length heap)); [ | discriminate].
  set (w2 := mk_world (w_opts w1 ++ [mk_opt (init_state x y e) r])
                      (upd heap r (Some (own_view (length (w_opts w1)) (init_state x y e))))) in H.
  assert (Hn : nth_error (w_opts w2) (length (w_opts w1)) = Some (mk_opt (init_state x y e) r)).
  { unfold w2; simpl. rewrite nth_error_app2 by lia. now rewrite Nat.sub_diag. }
  destruct (wrun_projection _ _ _ H _ _ Hn) as (o' & A & _ & D).
  exists o'. split; assumption.
Qed.

(* ---------------- the incumbent of every optimiser is the max of its own y ---------------- *)
Definition ymax_ok (w : world) : Prop :=
  forall i o, nth_error (w_opts w) i = Some o -> st_ymax (o_state o) = list_max (st_y (o_state o)).

Lemma wstep_ymax_ok w op w1 : ymax_ok w -> wstep w op = Some w1 -> ymax_ok w1.
Proof.
  intros Hw H. destruct op as [ | a x y e | j nx ny ne | j]; simpl in H.
  - inversion H; subst. exact Hw.
  - destruct (acq_target (w_heap w) a) as [heap r].
    destruct (Nat.ltb r (length heap)); [ | discriminate].
    inversion H; subst. intros i o Hi. simpl in Hi.
    destruct (nth_error_snoc _ _ _ _ Hi) as [[_ Hi'] | [_ ->]]; [now apply (Hw i) | reflexivity].
  - destruct (nth_error (w_opts w) j) as [oj | ] eqn:Ej; [ | discriminate].
    destruct (add_evaluation (o_state oj) nx ny ne) as [st' | ] eqn:Ea; [ | discriminate].
    inversion H; subst. intros i o Hi. simpl in Hi.
    destruct (Nat.eq_dec j i) as [-> | Hji].
    + rewrite upd_same in Hi by (eapply nth_error_lt; eassumption).
      inversion Hi; subst; simpl.
      now destruct (add_evaluation_spec_lemma _ _ _ _ _ Ea) as (_ & _ & _ & M & _).
    + rewrite upd_other in Hi by exact Hji. now apply (Hw i).
  - destruct (nth_error (w_opts w) j); [ | discriminate]. inversion H; subst. exact Hw.
Qed.

(* ---------------- every acquisition object belongs to one optimiser ---------------- *)
Lemma world_ok_ref_lt w i o :
  world_ok w -> nth_error (w_opts w) i = Some o -> (o_acq o < length (w_heap w))%nat.
Proof. intros [H _] Hi. eapply nth_error_lt. exact (H _ _ Hi). Qed.

Lemma world_ok_new w heap r x y e :
  world_ok w -> (r < length heap)%nat ->
  (forall j, (j < length (w_heap w))%nat -> nth_error heap j = nth_error (w_heap w) j) ->
  (forall i o, nth_error (w_opts w) i = Some o -> o_acq o <> r) ->
  world_ok (mk_world (w_opts w ++ [mk_opt (init_state x y e) r])
                     (upd heap r (Some (own_view (length (w_opts w)) (init_state x y e))))).
Proof.
  intros Hw Hr Hheap Hfresh. pose proof Hw as [H1 H2]. split; simpl.
  - intros i o Hi. destruct (nth_error_snoc _ _ _ _ Hi) as [[_ Hi'] | [-> ->]].
    + rewrite upd_other by (intros E; exact (Hfresh _ _ Hi' (eq_sym E))).
      rewrite Hheap by (eapply world_ok_ref_lt; eassumption). now apply H1.
    + simpl. now apply upd_same.
  - intros i j oi oj Hi Hj E.
    destruct (nth_error_snoc _ _ _ _ Hi) as [[_ Hi'] | [-> ->]];
    destruct (nth_error_snoc _ _ _ _ Hj) as [[_ Hj'] | [-> ->]].
    + now apply (H2 i j oi oj).
    + simpl in E. exfalso. exact (Hfresh _ _ Hi' E).
    + simpl in E. exfalso. exact (Hfresh _ _ Hj' (eq_sym E)).
    + reflexivity.
Qed.

Lemma wstep_world_ok w op w1 :
  world_ok w -> unshared_step w op -> wstep w op = Some w1 -> world_ok w1.
Proof.
  intros Hw Hu H. pose proof Hw as [H1 H2].
  destruct op as [ | a x y e | j nx ny ne | j]; simpl in H.
  - (* the caller allocates an object *)
    inversion H; subst. split; simpl; [ | exact H2].
    intros i o Hi. rewrite nth_error_app1 by (eapply world_ok_ref_lt; eassumption). now apply H1.
  - (* a new optimiser *)
    destruct a as [ | | r]; simpl in H.
    + rewrite app_length, Nat.add_1_r in H.
      rewrite (proj2 (Nat.ltb_lt _ _) (Nat.lt_succ_diag_r _)) in H. inversion H; subst.
      apply world_ok_new; try assumption.
      * rewrite app_length; simpl; lia.
      * intros j Hj. now apply nth_error_app1.
      * intros i o Hi E. pose proof (world_ok_ref_lt _ _ _ Hw Hi). lia.
    + rewrite app_length, Nat.add_1_r in H.
      rewrite (proj2 (Nat.ltb_lt _ _) (Nat.lt_succ_diag_r _)) in H. inversion H; subst.
      apply world_ok_new; try assumption.
      * rewrite app_length; simpl; lia.
      * intros j Hj. now apply nth_error_app1.
      * intros i o Hi E. pose proof (world_ok_ref_lt _ _ _ Hw Hi). lia.
    + destruct (Nat.ltb r (length (w_heap w))) eqn:Er; [ | discriminate].
      apply Nat.ltb_lt in Er. inversion H; subst.
      apply world_ok_new; try assumption; [reflexivity | ].
      intros i o Hi E. apply Hu. simpl. rewrite <- E. apply in_map.
      eapply nth_error_In; eassumption.
  - (* an evaluation is added to optimiser j *)
    destruct (nth_error (w_opts w) j) as [oj | ] eqn:Ej; [ | discriminate].
    destruct (add_evaluation (o_state oj) nx ny ne) as [st' | ] eqn:Ea; [ | discriminate].
    inversion H; subst. split; simpl.
    + intros i o Hi. destruct (Nat.eq_dec j i) as [-> | Hji].
      * rewrite upd_same in Hi by (eapply nth_error_lt; eassumption).
        inversion Hi; subst; simpl. apply upd_same. eapply world_ok_ref_lt; eassumption.
      * rewrite upd_other in Hi by exact Hji.
        rewrite upd_other; [now apply H1 | ].
        intros E. apply Hji. now apply (H2 j i oj o).
    + intros i k oi ok Hi Hk E.
      assert (R : forall m om, nth_error (upd (w_opts w) j (mk_opt st' (o_acq oj))) m = Some om ->
                  exists om', nth_error (w_opts w) m = Some om' /\ o_acq om' = o_acq om).
      { intros m om Hm. destruct (Nat.eq_dec j m) as [-> | Hjm].
        - rewrite upd_same in Hm by (eapply nth_error_lt; eassumption).
          inversion Hm; subst. exists oj. split; [exact Ej | reflexivity].
        - rewrite upd_other in Hm by exact Hjm. exists om. split; [exact Hm | reflexivity]. }
      destruct (R _ _ Hi) as (oi' & Ai & Bi). destruct (R _ _ Hk) as (ok' & Ak & Bk).
      apply (H2 i k oi' ok' Ai Ak). congruence.
  - destruct (nth_error (w_opts w) j); [ | discriminate]. inversion H; subst. exact Hw.
Qed.

Lemma world_ok_empty : world_ok empty_world /\ ymax_ok empty_world.
Proof.
  split; [split | ]; simpl.
  - intros i o Hi. destruct i; discriminate.
  - intros i j oi oj Hi. destruct i; discriminate.
  - intros i o Hi. destruct i; discriminate.
Qed.

Lemma wrun_world_ok ops : forall w w',
  world_ok w -> ymax_ok w -> unshared_run w ops -> wrun w ops = Some w' ->
  world_ok w' /\ ymax_ok w'.
Proof.
  induction ops as [ | op ops IH]; intros w w' Hw Hy Hu H; simpl in H.
  - inversion H; subst. split; assumption.
  - destruct Hu as [Hu1 Hu2]. destruct (wstep w op) as [w1 | ] eqn:E1; [ | discriminate].
    apply (IH w1 w'); try assumption.
    + eapply wstep_world_ok; eassumption.
    + eapply wstep_ymax_ok; eassumption.
Qed.

(* the statement used by Properties/C18.v *)
Lemma world_acquisition_own ops w' :
  unshared_run empty_world ops -> wrun empty_world ops = Some w' ->
  forall i o, nth_error (w_opts w') i = Some o ->
    nth_error (w_heap w') (o_acq o)
      = Some (Some (list_max (st_y (o_state o)), i, length (st_y (o_state o)))) /\
    (forall j oj, nth_error (w_opts w') j = Some oj -> o_acq oj = o_acq o -> j = i).
Proof.
  intros Hu H i o Hi.
  destruct (wrun_world_ok ops _ _ (proj1 world_ok_empty) (proj2 world_ok_empty) Hu H) as [[H1 H2] Hy].
  split.
  - rewrite (H1 _ _ Hi). unfold own_view. now rewrite (Hy _ _ Hi).
  - intros j oj Hj E. now apply (H2 j i oj o).
Qed.

(* histories in which every optimiser is built with the default or with a class never share *)
Fixpoint no_instances (ops : list wop) : Prop :=
  match ops with
  | [] => True
  | W_new (Acq_instance _) _ _ _ :: _ => False
  | _ :: r => no_instances r
  end.

Lemma no_instances_unshared ops : forall w, no_instances ops -> unshared_run w ops.
Proof.
  induction ops as [ | op ops IH]; intros w H; simpl; [exact I | ].
  destruct op as [ | a x y e | j nx ny ne | j]; simpl in H;
    try (split; [exact I | destruct (wstep w _); [now apply IH | exact I]]).
  destruct a as [ | | r]; try contradiction;
    (split; [exact I | destruct (wstep w _); [now apply IH | exact I]]).
Qed.

(* propose_evaluation changes nothing *)
Lemma wstep_propose w i w1 : wstep w (W_propose i) = Some w1 -> w1 = w.
Proof. simpl. destruct (nth_error (w_opts w) i); [ | discriminate]. now inversion 1. Qed.

(* ---------------- the shared default instance breaks it ---------------- *)
Lemma shared_default_refuted :
  exists ops w', no_instances ops /\ wrun_shared shared_world ops = Some w' /\
  exists i o, nth_error (w_opts w') i = Some o /\
              nth_error (w_heap w') (o_acq o) <> Some (Some (own_view i (o_state o))).
Proof.
  exists [W_new Acq_default [[0]] [1] None; W_new Acq_default [[5]] [7] None].
  eexists. split; [exact I | split; [vm_compute; reflexivity | ]].
  exists 0%nat. eexists. split; [reflexivity | ]. vm_compute. discriminate.
Qed.
