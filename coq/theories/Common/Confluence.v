(* One-step diamond property  ==>  unique terminal states.

   A transition relation `step` on states taken up to an equivalence `eqv`
   (needed because process systems keep their workers in a total map and we
   do not want functional extensionality).  If two different steps from the
   same state can always be joined again by one step each (or already agree),
   then

     * completion:       if ONE run from s reaches a terminal state in n steps,
                         every partial run from s has length m <= n and can be
                         extended by exactly n - m steps to that terminal state;
     * unique_terminal:  any two complete runs from s have the same length and
                         end in equivalent states;
     * bounded_runs:     no run from s is longer than n (so every schedule
                         terminates).

   Used by C08 (schedule independence of the parallel-tempering processes).
   This file contains the definitions and their (short) proofs together: it is
   a library component, not a model of the code. *)
From Coq Require Import Arith Lia.

Section Confluence.
  Variable S : Type.
  Variable eqv : S -> S -> Prop.
  Variable step : S -> S -> Prop.

  Hypothesis eqv_refl : forall s, eqv s s.
  Hypothesis eqv_sym : forall s t, eqv s t -> eqv t s.
  Hypothesis eqv_trans : forall s t u, eqv s t -> eqv t u -> eqv s u.

  (* steps respect the equivalence *)
  Hypothesis step_compat : forall s s' t,
    eqv s s' -> step s t -> exists t', step s' t' /\ eqv t t'.

  (* the one-step diamond *)
  Hypothesis diamond : forall s a b, step s a -> step s b ->
    eqv a b \/ exists c c', step a c /\ step b c' /\ eqv c c'.

  Inductive steps : nat -> S -> S -> Prop :=
  | steps_O : forall s, steps 0 s s
  | steps_S : forall n s a t, step s a -> steps n a t -> steps (Datatypes.S n) s t.

  Definition terminal (s : S) : Prop := forall t, ~ step s t.

  Lemma steps_compat : forall n s t, steps n s t ->
    forall s', eqv s s' -> exists t', steps n s' t' /\ eqv t t'.
  Proof.
    induction 1 as [s | n s a t Hsa Hat IH]; intros s' He.
    - exists s'. split; [constructor | assumption].
    - destruct (step_compat _ _ _ He Hsa) as [a' [Hs'a' Haa']].
      destruct (IH _ Haa') as [t' [Ha't' Htt']].
      exists t'. split; [econstructor; eassumption | assumption].
  Qed.

  Lemma terminal_compat : forall s s', eqv s s' -> terminal s -> terminal s'.
  Proof.
    intros s s' He Ht t Hst.
    destruct (step_compat _ _ _ (eqv_sym _ _ He) Hst) as [t' [Hs _]].
    exact (Ht _ Hs).
  Qed.

  Lemma steps_app : forall n s a, steps n s a -> forall m t, steps m a t -> steps (n + m) s t.
  Proof.
    induction 1 as [s | n s a t Hsa Hat IH]; intros m u Hu; simpl.
    - assumption.
    - econstructor; [eassumption | apply IH; assumption].
  Qed.

  Lemma steps_0_inv : forall s t, steps 0 s t -> s = t.
  Proof. intros s t H. inversion H. reflexivity. Qed.

  Lemma steps_S_inv : forall n s t, steps (Datatypes.S n) s t ->
    exists a, step s a /\ steps n a t.
  Proof. intros n s t H. inversion H; subst. eexists; split; eassumption. Qed.

  Lemma completion : forall n s t1, steps n s t1 -> terminal t1 ->
    forall m t2, steps m s t2 ->
      m <= n /\ exists t2', steps (n - m) t2 t2' /\ eqv t2' t1.
  Proof.
    induction n as [| n IH]; intros s t1 Hrun Hterm m t2 Hm.
    - apply steps_0_inv in Hrun. subst t1.
      destruct m as [| m'].
      + apply steps_0_inv in Hm. subst t2.
        split; [lia |]. exists s. split; [constructor | apply eqv_refl].
      + apply steps_S_inv in Hm. destruct Hm as [b [Hsb _]].
        exfalso. eapply Hterm; eassumption.
    - apply steps_S_inv in Hrun. destruct Hrun as [a [Hsa Hat]].
      destruct m as [| m'].
      + apply steps_0_inv in Hm. subst t2.
        split; [lia |]. exists t1. split; [| apply eqv_refl].
        replace (Datatypes.S n - 0) with (Datatypes.S n) by lia.
        econstructor; eassumption.
      + apply steps_S_inv in Hm. destruct Hm as [b [Hsb Hbt]].
        destruct (diamond _ _ _ Hsa Hsb) as [Hab | [c [c' [Hac [Hbc' Hcc']]]]].
        * (* the two first steps agree *)
          destruct (steps_compat _ _ _ Hbt _ (eqv_sym _ _ Hab)) as [u [Hau Htu]].
          destruct (IH _ _ Hat Hterm _ _ Hau) as [Hle [u' [Huu' Hu't1]]].
          split; [lia |].
          destruct (steps_compat _ _ _ Huu' _ (eqv_sym _ _ Htu)) as [w [Ht2w Hu'w]].
          exists w. split.
          -- replace (Datatypes.S n - Datatypes.S m') with (n - m') by lia. assumption.
          -- apply (eqv_trans _ u'); [apply eqv_sym; exact Hu'w | exact Hu't1].
        * (* they differ and are joined by one step each *)
          assert (Hac1 : steps 1 a c) by (econstructor; [eassumption | constructor]).
          destruct (IH _ _ Hat Hterm _ _ Hac1) as [Hle1 [d [Hcd Hdt1]]].
          destruct (steps_compat _ _ _ Hcd _ Hcc') as [d' [Hc'd' Hdd']].
          assert (Hbd' : steps n b d').
          { replace n with (Datatypes.S (n - 1)) by lia. econstructor; eassumption. }
          assert (Htd' : terminal d').
          { apply (terminal_compat d); [assumption |].
            apply (terminal_compat t1); [apply eqv_sym; assumption | assumption]. }
          destruct (IH _ _ Hbd' Htd' _ _ Hbt) as [Hle [w [Ht2w Hwd']]].
          split; [lia |].
          exists w. split.
          -- replace (Datatypes.S n - Datatypes.S m') with (n - m') by lia. assumption.
          -- apply (eqv_trans _ d'); [exact Hwd' |].
             apply (eqv_trans _ d); [apply eqv_sym; exact Hdd' | exact Hdt1].
  Qed.

  Theorem unique_terminal : forall n m s t1 t2,
    steps n s t1 -> terminal t1 -> steps m s t2 -> terminal t2 ->
    n = m /\ eqv t1 t2.
  Proof.
    intros n m s t1 t2 H1 T1 H2 T2.
    destruct (completion _ _ _ H1 T1 _ _ H2) as [Hle [u [Hu Hut1]]].
    destruct (n - m) as [| k] eqn:Hk.
    - apply steps_0_inv in Hu. subst u.
      split; [lia | apply eqv_sym; assumption].
    - apply steps_S_inv in Hu. destruct Hu as [a [Hst _]].
      exfalso. eapply T2; eassumption.
  Qed.

  Corollary bounded_runs : forall n s t1, steps n s t1 -> terminal t1 ->
    forall m t2, steps m s t2 -> m <= n.
  Proof. intros n s t1 H1 T1 m t2 H2. exact (proj1 (completion _ _ _ H1 T1 _ _ H2)). Qed.

  (* every partial run is a prefix of a complete one ending in the same place *)
  Corollary every_run_completes : forall n s t1, steps n s t1 -> terminal t1 ->
    forall m t2, steps m s t2 ->
      exists t2', steps (n - m) t2 t2' /\ terminal t2' /\ eqv t2' t1.
  Proof.
    intros n s t1 H1 T1 m t2 H2.
    destruct (completion _ _ _ H1 T1 _ _ H2) as [_ [u [Hu Hut1]]].
    exists u. split; [assumption |]. split; [| assumption].
    apply (terminal_compat t1); [apply eqv_sym; assumption | assumption].
  Qed.
End Confluence.

Arguments steps {S} step n s t.
Arguments terminal {S} step s.
