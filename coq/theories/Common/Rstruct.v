(* Common/Rstruct.v -- Coq's real numbers (Reals, type R) as a MathComp realFieldType.

   mathcomp-analysis, whose Rstruct.v does this, is not installed; this file builds the
   canonical structures directly on MathComp 1.15.0, following the way `rat` is made a
   realFieldType in mathcomp/algebra/rat.v (RealLeMixin):

     eqType          from Req_EM_T (decidability of equality, a consequence of total_order_T)
     choiceType      from Coq.Logic.Epsilon (axiom epsilon_statement) + functional extensionality
     zmodType, ringType, comRingType, unitRingType, comUnitRingType, idomainType, fieldType
     porderType, latticeType, distrLatticeType, orderType, numDomainType, normedZmodType,
     numFieldType, realDomainType, realFieldType

   The operations are the ones of Reals BY CONVERSION: x + y is Rplus x y, x * y is Rmult x y,
   - x is Ropp x, x^-1 is Rinv x (Coq 8.16: / 0 = 0, so the MathComp convention 0^-1 = 0 holds
   for Rinv itself), `|x| is Rabs x; x <= y and x < y are the boolean reflections of Rle / Rlt.
   The transfer lemmas (RplusE ... RpowE, RleP, RltP, INRE) state this, so that a theorem
   proved for an arbitrary realFieldType can be read at R in the vocabulary of Reals and of
   Coquelicot. *)
From Coq Require Import Reals Lra Epsilon FunctionalExtensionality.
From mathcomp Require Import all_ssreflect all_algebra.

Set Implicit Arguments.
Unset Strict Implicit.
Unset Printing Implicit Defensive.

Local Open Scope R_scope.

(* ---- eqType --------------------------------------------------------------------------------- *)
Definition eqr (r1 r2 : R) : bool :=
  if Req_EM_T r1 r2 is left _ then true else false.

Lemma eqrP : Equality.axiom eqr.
Proof. by move=> r1 r2; rewrite /eqr; case: Req_EM_T => H; apply: (iffP idP). Qed.

Definition R_eqMixin := EqMixin eqrP.
Canonical R_eqType := Eval hnf in EqType R R_eqMixin.

(* ---- choiceType: Hilbert's epsilon on R ------------------------------------------------- *)
Fact inhR : inhabited R.
Proof. exact: (inhabits 0). Qed.

Definition pickR (P : pred R) (n : nat) : option R :=
  let x := epsilon inhR P in if P x then Some x else None.

Fact pickR_some P n x : pickR P n = Some x -> P x.
Proof. by rewrite /pickR; case: (boolP (P _)) => // Px [<-]. Qed.

Fact pickR_ex (P : pred R) : (exists x : R, P x) -> exists n, pickR P n.
Proof. by rewrite /pickR => /(epsilon_spec inhR) ->; exists 0%N. Qed.

Fact pickR_ext (P Q : pred R) : P =1 Q -> pickR P =1 pickR Q.
Proof.
move=> PEQ n; rewrite /pickR; set u := epsilon _ _; set v := epsilon _ _.
suff -> : u = v by rewrite PEQ.
by congr (epsilon _ _); apply: functional_extensionality => x; rewrite PEQ.
Qed.

Definition R_choiceMixin : choiceMixin R :=
  Choice.Mixin pickR_some pickR_ex pickR_ext.
Canonical R_choiceType := Eval hnf in ChoiceType R R_choiceMixin.

(* ---- zmodType, ringType, comRingType -------------------------------------------------------- *)
Fact RplusA : associative Rplus.
Proof. by move=> x y z; rewrite Rplus_assoc. Qed.

Definition R_zmodMixin := ZmodMixin RplusA Rplus_comm Rplus_0_l Rplus_opp_l.
Canonical R_zmodType := Eval hnf in ZmodType R R_zmodMixin.

Fact RmultA : associative Rmult.
Proof. by move=> x y z; rewrite Rmult_assoc. Qed.

Fact R1_neq_0 : R1 != R0.
Proof. by apply/eqP/R1_neq_R0. Qed.

Definition R_ringMixin :=
  RingMixin RmultA Rmult_1_l Rmult_1_r Rmult_plus_distr_r Rmult_plus_distr_l R1_neq_0.
Canonical R_ringType := Eval hnf in RingType R R_ringMixin.
Canonical R_comRingType := Eval hnf in ComRingType R Rmult_comm.

(* ---- unitRingType ... fieldType: the inverse is Rinv itself (/ 0 = 0) -------------------- *)
Fact RmulVr (x : R) : x != 0 -> / x * x = 1.
Proof. by move=> /eqP x0; rewrite Rinv_l. Qed.

Definition R_unitRingMixin := FieldUnitMixin RmulVr Rinv_0.
Canonical R_unitRingType := Eval hnf in UnitRingType R R_unitRingMixin.
Canonical R_comUnitRingType := Eval hnf in [comUnitRingType of R].

Fact R_field_axiom : GRing.Field.mixin_of R_unitRingType.
Proof. by []. Qed.

Canonical R_idomainType := Eval hnf in IdomainType R (FieldIdomainMixin R_field_axiom).
Canonical R_fieldType := Eval hnf in FieldType R R_field_axiom.

(* ---- the order, reflected to bool ------------------------------------------------------------ *)
Definition Rleb (r1 r2 : R) : bool := if Rle_dec r1 r2 is left _ then true else false.
Definition Rltb (r1 r2 : R) : bool := if Rlt_dec r1 r2 is left _ then true else false.

Lemma RlebP r1 r2 : reflect (r1 <= r2) (Rleb r1 r2).
Proof. by rewrite /Rleb; apply: (iffP idP); case: Rle_dec. Qed.

Lemma RltbP r1 r2 : reflect (r1 < r2) (Rltb r1 r2).
Proof. by rewrite /Rltb; apply: (iffP idP); case: Rlt_dec. Qed.

Section OrderFacts.
Import GRing.Theory.
Local Open Scope R_scope.

Fact Rleb0D (x y : R) : Rleb 0 x -> Rleb 0 y -> Rleb 0 (x + y).
Proof. by move=> /RlebP Hx /RlebP Hy; apply/RlebP/Rplus_le_le_0_compat. Qed.

Fact Rleb0M (x y : R) : Rleb 0 x -> Rleb 0 y -> Rleb 0 (x * y).
Proof. by move=> /RlebP Hx /RlebP Hy; apply/RlebP/Rmult_le_pos. Qed.

Fact Rleb0_anti (x : R) : Rleb 0 x -> Rleb x 0 -> x = 0.
Proof. by move=> /RlebP Hx /RlebP Hy; apply: Rle_antisym. Qed.

Fact Rsub_ge0 (x y : R) : Rleb 0 (y - x) = Rleb x y.
Proof.
by apply/RlebP/RlebP => H; lra.
Qed.

Fact Rleb0_total (x : R) : Rleb 0 x || Rleb x 0.
Proof.
case: (Rle_lt_dec 0 x) => [/RlebP -> //|/Rlt_le/RlebP ->]; exact: orbT.
Qed.

Fact Rleb0_norm (x : R) : Rleb 0 x -> Rabs x = x.
Proof. by move=> /RlebP Hx; apply: Rabs_pos_eq. Qed.

Fact Rltb_def (x y : R) : Rltb x y = (y != x) && Rleb x y.
Proof.
apply/RltbP/andP => [H|[/eqP H /RlebP [] //]].
  by split; [apply/eqP; apply: Rgt_not_eq | apply/RlebP; apply: Rlt_le].
by move=> E; case: H.
Qed.

End OrderFacts.

Definition R_leMixin : realLeMixin R_idomainType :=
  RealLeMixin Rleb0D Rleb0M Rleb0_anti Rsub_ge0 Rleb0_total Rabs_Ropp Rleb0_norm Rltb_def.

Canonical R_porderType := POrderType ring_display R R_leMixin.
Canonical R_latticeType := LatticeType R R_leMixin.
Canonical R_distrLatticeType := DistrLatticeType R R_leMixin.
Canonical R_orderType := OrderType R R_leMixin.
Canonical R_numDomainType := NumDomainType R R_leMixin.
Canonical R_normedZmodType := NormedZmodType R R R_leMixin.
Canonical R_numFieldType := [numFieldType of R].
Canonical R_realDomainType := [realDomainType of R].
Canonical R_realFieldType := [realFieldType of R].

(* ---- transfer lemmas: the MathComp operations at R are the operations of Reals ----------- *)
Section Transfer.
Import Order.TTheory GRing.Theory Num.Theory.
Local Close Scope R_scope.
Local Open Scope ring_scope.
Implicit Types x y : R.

Lemma R0E : (0 : R) = R0. Proof. by []. Qed.
Lemma R1E : (1 : R) = R1. Proof. by []. Qed.
Lemma RplusE x y : x + y = Rplus x y. Proof. by []. Qed.
Lemma RoppE x : - x = Ropp x. Proof. by []. Qed.
Lemma RminusE x y : x - y = Rminus x y. Proof. by []. Qed.
Lemma RmultE x y : x * y = Rmult x y. Proof. by []. Qed.
Lemma RinvE x : x^-1 = Rinv x. Proof. by []. Qed.
Lemma RdivE x y : x / y = Rdiv x y. Proof. by []. Qed.
Lemma RnormE x : `|x| = Rabs x. Proof. by []. Qed.

(* the inverse "on nonzero" form, for reference: MathComp's unit predicate at R is x != 0 *)
Lemma RunitE x : (x \is a GRing.unit) = (x != 0). Proof. by []. Qed.
Lemma RinvE_neq0 x : x != 0 -> x^-1 = Rinv x. Proof. by []. Qed.

Lemma ReqP x y : reflect (x = y) (x == y). Proof. exact: eqP. Qed.
Lemma RneqP x y : reflect (x <> y) (x != y). Proof. by apply: (iffP idP) => /eqP. Qed.
Lemma RleP x y : reflect (Rle x y) (x <= y). Proof. exact: RlebP. Qed.
Lemma RltP x y : reflect (Rlt x y) (x < y). Proof. exact: RltbP. Qed.
Lemma RgeP x y : reflect (Rge x y) (x >= y).
Proof. by apply: (iffP (RleP _ _)) => [/Rle_ge|/Rge_le]. Qed.
Lemma RgtP x y : reflect (Rgt x y) (x > y). Proof. exact: RltbP. Qed.

Lemma RleE x y : (x <= y) <-> Rle x y. Proof. by split=> /RleP. Qed.
Lemma RltE x y : (x < y) <-> Rlt x y. Proof. by split=> /RltP. Qed.

Lemma INRE (n : nat) : INR n = n%:R.
Proof.
elim: n => [//|n IHn]; rewrite S_INR IHn -addn1 natrD.
by [].
Qed.

Lemma RnatmulE x (n : nat) : x *+ n = Rmult (INR n) x.
Proof. by rewrite INRE -[LHS]mulr_natl. Qed.

Lemma RpowE x (n : nat) : x ^+ n = pow x n.
Proof. by elim: n => [//|n IHn]; rewrite exprS IHn. Qed.

Lemma IZRE (z : int) :
  z%:~R = IZR (match z with Posz n => Z.of_nat n | Negz n => Z.opp (Z.of_nat n.+1) end) :> R.
Proof.
case: z => n.
  by rewrite -INR_IZR_INZ INRE.
by rewrite NegzE mulrNz opp_IZR -INR_IZR_INZ INRE.
Qed.

Lemma RmaxE x y : Num.max x y = Rmax x y.
Proof.
rewrite /Num.max /Rmax; case: Rle_dec => [/RleP|/RleP/negP]; case: ltgtP => //.
Qed.

Lemma RminE x y : Num.min x y = Rmin x y.
Proof.
rewrite /Num.min /Rmin; case: Rle_dec => [/RleP|/RleP/negP]; case: ltgtP => //.
Qed.

(* the summary statements restated in Properties/C11Real.v *)
Lemma R_realFieldType_sort : Num.RealField.sort R_realFieldType = R.
Proof. by []. Qed.

Lemma R_operationsE x y (n : nat) :
  [/\ x + y = Rplus x y, - x = Ropp x, x - y = Rminus x y, x * y = Rmult x y & x^-1 = Rinv x]
  /\ [/\ x / y = Rdiv x y, `|x| = Rabs x, x *+ n = Rmult (INR n) x, n%:R = INR n
       & x ^+ n = pow x n].
Proof. by split; split=> //; [exact: RnatmulE | rewrite INRE | exact: RpowE]. Qed.

Lemma R_orderE x y :
  [/\ (x <= y) <-> Rle x y, (x < y) <-> Rlt x y, (x == y) <-> x = y & (x != y) <-> x <> y].
Proof.
split; [exact: RleE | exact: RltE | by split=> /eqP | by split=> /RneqP].
Qed.

End Transfer.

(* a ground check that the structure computes what it should *)
Example R_realField_check : (2%:R = IZR 2 :> R)%R /\ ((3%:R : R) ^+ 2 = IZR 9)%R.
Proof.
split; first by rewrite -INRE /=; ring.
by rewrite RpowE -INRE /=; ring.
Qed.

(* `%R` is MathComp's ring_scope once ssralg is loaded; Reals' own scope stays reachable as %coqR *)
Delimit Scope R_scope with coqR.
