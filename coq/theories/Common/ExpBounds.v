(* Rational enclosures of exp on (-inf, 0] and the accept decision  u < e^d.

   Executable definitions only (used by every sampler model through
   decide_accept); their correctness w.r.t. Coq's real exp is proved in
   Proofs/ExpBoundsProofs.v and restated in Properties/AcceptBounds.v.

   exp_lo_p N j d <= e^d <= exp_hi_p N j d   for d <= 0, in fixed point on the
   grid 2^-N (numbers are integer mantissas a, meaning a / 2^N):
     range reduction  e^d = (e^(d/2^k))^(2^k)  with |d|/2^k <= 1/8 (halvings),
       d/2^k rounded down / up to the grid (red),
     Taylor partial sums of odd degree 2j+1 (lower) / even degree 2j+2 (upper)
       in Horner form, every product rounded outwards (hz),
     repeated squaring with outward rounding (sqd / squ).
   All roundings are shifts or divisions by small numbers, which is what keeps
   vm_compute fast (Z arithmetic in the VM is bit-serial: a 100-bit product
   costs about 0.3 ms, a 32-bit one 0.03 ms).

   exp_lo / exp_hi are the N = 100, degree 9 / 10 instance (about 6 ms per pair).
   decide_accept tries N = 32 first (0.6 ms), then 64, then 100; a later tier
   is consulted only if u falls inside the gap of the earlier one.
*)
From Coq Require Import QArith ZArith List.
Import ListNotations.
Open Scope Q_scope.

(* 2^N as a positive *)
Definition two_p (N : nat) : positive := Nat.iter N xO xH.

(* p = 2^t * q with q odd *)
Fixpoint tz (p : positive) : nat * positive :=
  match p with
  | xO p' => let (t, q) := tz p' in (S t, q)
  | _ => (O, p)
  end.

(* number of halvings k with |d| / 2^k <= 1/8 (from bit lengths: no division) *)
Definition halvings (d : Q) : nat :=
  Z.to_nat (Z.log2 (Z.abs (Qnum d)) + 4 - Z.log2 (Zpos (Qden d))).

Definition pow2' (k : nat) : Q := Zpos (two_p k) # 1.

(* the reduced argument d / 2^k as an exact rational (specification only) *)
Definition reduce (d : Q) : Q := d / pow2' (halvings d).

(* floor (a / 2^N) *)
Definition shr (N : nat) (a : Z) : Z := Z.shiftr a (Z.of_nat N).

(* fixed-point Horner for sum_{m=0}^{n} X^m / m!  at  X = x / 2^N <= 0:
     h = 1 + (X / i) * h'   with the product rounded down (up = false) or
   strictly up (up = true); since X <= 0 the inner sum is taken with the
   opposite rounding. *)
Fixpoint hz (N : nat) (up : bool) (n : nat) (i : positive) (x : Z) : Z :=
  match n with
  | O => Zpos (two_p N)
  | S n' =>
      let p := shr N (x * hz N (negb up) n' (Pos.succ i) x) in
      (Zpos (two_p N) + (if up then (p + 1) / Zpos i + 1 else p / Zpos i))%Z
  end.

(* k squarings, rounded down / strictly up *)
Fixpoint sqd (N k : nat) (a : Z) : Z :=
  match k with O => a | S k' => sqd N k' (shr N (a * a)) end.
Fixpoint squ (N k : nat) (a : Z) : Z :=
  match k with O => a | S k' => squ N k' (shr N (a * a) + 1)%Z end.

(* mantissas (xl, xh) with  xl/2^N <= d/2^k <= xh/2^N <= 0   (d <= 0).
   The power of two in the denominator of d is split off first so that for
   dyadic d (floats) the division is by 1. *)
Definition red (N k : nat) (d : Q) : Z * Z :=
  let (t, q) := tz (Qden d) in
  let s := (t + k)%nat in
  let n := Qnum d in
  if (s <=? N)%nat then
    let fl := (Z.shiftl n (Z.of_nat (N - s)) / Zpos q)%Z in
    (fl, Z.min 0 (fl + 1))
  else
    let num := Z.shiftr n (Z.of_nat (s - N)) in
    ((num / Zpos q)%Z, Z.min 0 ((num + 1) / Zpos q + 1)).

(* (lower, upper) enclosure of e^d for d <= 0 *)
Definition exp_enc (N j : nat) (d : Q) : Q * Q :=
  let k := halvings d in
  let (xl, xh) := red N k d in
  (sqd N k (Z.max 0 (hz N false (2 * j + 1) 1 xl)) # two_p N,
   squ N k (hz N true (2 * j + 2) 1 xh) # two_p N).

Definition exp_lo_p (N j : nat) (d : Q) : Q := fst (exp_enc N j d).
Definition exp_hi_p (N j : nat) (d : Q) : Q := snd (exp_enc N j d).

(* for d <= 0 *)
Definition exp_lo : Q -> Q := exp_lo_p 100 4.
Definition exp_hi : Q -> Q := exp_hi_p 100 4.

Definition Qlt_bool (a b : Q) : bool := negb (Qle_bool b a).

(* precision tiers (N, j) tried in turn *)
Definition tiers : list (nat * nat) := [(32, 2); (64, 4); (100, 4)]%nat.

(* d <= 0 *)
Definition decide_p (N j : nat) (u d : Q) : option bool :=
  let (lo, hi) := exp_enc N j d in
  if Qlt_bool u lo then Some true
  else if Qlt_bool hi u then Some false
  else None.

Fixpoint decide_tiers (ts : list (nat * nat)) (u d : Q) : option bool :=
  match ts with
  | [] => None
  | (N, j) :: ts' =>
      match decide_p N j u d with
      | Some b => Some b
      | None => decide_tiers ts' u d
      end
  end.

(* decide  u < e^d  (equivalently u <= e^d: the two differ only inside the gap,
   where no answer is given).
     Some true  -> u < e^d        Some false -> e^d < u        None -> undecided
   For d > 0 only u < 1 is answered; decide_accept_any handles both signs. *)
Definition decide_accept (u d : Q) : option bool :=
  if Qle_bool 0 d then
    (if Qlt_bool u 1 then Some true else None)
  else decide_tiers tiers u d.

(* d > 0:  u < e^d  <=>  u * e^(-d) < 1 *)
Definition decide_pos_p (N j : nat) (u d : Q) : option bool :=
  let (lo, hi) := exp_enc N j (- d) in
  if Qlt_bool (u * hi) 1 then Some true
  else if Qlt_bool 1 (u * lo) then Some false
  else None.

Fixpoint decide_pos_tiers (ts : list (nat * nat)) (u d : Q) : option bool :=
  match ts with
  | [] => None
  | (N, j) :: ts' =>
      match decide_pos_p N j u d with
      | Some b => Some b
      | None => decide_pos_tiers ts' u d
      end
  end.

(* same contract as decide_accept, for either sign of d *)
Definition decide_accept_any (u d : Q) : option bool :=
  if Qle_bool d 0 then decide_tiers tiers u d
  else if Qle_bool u 0 then Some true
  else decide_pos_tiers tiers u d.
