(* Rational enclosures of exp on (-inf, 0] and the accept decision  u < e^d.

   Executable definitions only (used by every sampler model through
   decide_accept); their correctness w.r.t. Coq's real exp is proved in
   Proofs/ExpBoundsProofs.v.

   exp_lo d <= e^d <= exp_hi d   for d <= 0:
     range reduction  e^d = (e^(d/2^k))^(2^k)  with |d|/2^k <= 1/8,
     Taylor partial sums of odd (lower) / even (upper) degree on [-1/8, 0],
     repeated squaring with outward rounding to the grid 2^-100.
*)
From Coq Require Import QArith ZArith Qround Qabs List.
Import ListNotations.
Open Scope Q_scope.

Definition grid : positive := 2 ^ 100.

Definition Qdown (x : Q) : Q := Qfloor (x * (Zpos grid # 1)) # grid.
Definition Qup (x : Q) : Q := Qceiling (x * (Zpos grid # 1)) # grid.

(* sum_{k=0}^{n} x^k / k!  by Horner:  1 + x/1 (1 + x/2 (1 + ... (1 + x/n))) *)
Fixpoint horner (n : nat) (i : positive) (x : Q) : Q :=
  match n with
  | O => 1
  | S n' => 1 + (x / (Zpos i # 1)) * horner n' (Pos.succ i) x
  end.

Definition taylor (n : nat) (x : Q) : Q := horner n 1%positive x.

Definition exp_lo_small (x : Q) : Q := taylor 9 x.   (* odd degree: lower bound on x <= 0 *)
Definition exp_hi_small (x : Q) : Q := taylor 10 x.  (* even degree: upper bound on x <= 0 *)

Fixpoint sq_down (k : nat) (y : Q) : Q :=
  match k with O => y | S k' => sq_down k' (Qdown (y * y)) end.
Fixpoint sq_up (k : nat) (y : Q) : Q :=
  match k with O => y | S k' => sq_up k' (Qup (y * y)) end.

(* number of halvings k with |d| / 2^k <= 1/8 *)
Definition halvings (d : Q) : nat :=
  Z.to_nat (Z.log2_up (Qceiling (Qabs d * 8))).

Definition pow2' (k : nat) : Q := Z.pow 2 (Z.of_nat k) # 1.

Definition reduce (d : Q) : Q := Qred (d / pow2' (halvings d)).

(* for d <= 0 *)
Definition exp_lo (d : Q) : Q :=
  sq_down (halvings d) (Qdown (exp_lo_small (reduce d))).
Definition exp_hi (d : Q) : Q :=
  sq_up (halvings d) (Qup (exp_hi_small (reduce d))).

Definition Qlt_bool (a b : Q) : bool := negb (Qle_bool b a).

(* decide  u < e^d  (equivalently u <= e^d: the two differ only inside the gap,
   where no answer is given).
     Some true  -> u < e^d        Some false -> e^d < u        None -> undecided *)
Definition decide_accept (u d : Q) : option bool :=
  if Qle_bool 0 d then
    (if Qlt_bool u 1 then Some true else None)
  else if Qlt_bool u (exp_lo d) then Some true
  else if Qlt_bool (exp_hi d) u then Some false
  else None.
